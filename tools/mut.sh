#!/bin/sh
# Usage: tools/mut.sh <Cxx> <file> <sed-expr>   -- apply a sed edit to a scratch worktree, check it compiles, run the property check
PROP="$1"; F="$2"; E="$3"
W=/tmp/pvw
if [ ! -d $W ]; then git -C /repo worktree add -q --detach $W HEAD || exit 2; fi
git -C $W checkout -q --detach $(git -C /repo rev-parse HEAD) 2>/dev/null
git -C $W checkout -q -- . ; git -C $W clean -fdq
sed -i "$E" $W/$F
if git -C $W diff --quiet; then echo "MUTANT DID NOT CHANGE ANYTHING"; exit 3; fi
git -C $W diff | grep '^[-+]' | grep -v '^+++\|^---' | head -8
PDFVERIF_REPO=$W "$(dirname "$0")/../pv" check "$PROP" quick > /tmp/pvw.out 2>&1
r=$?
grep -E "^(VIOLATED|UNDECIDED|ERROR)|^    [a-z]" /tmp/pvw.out | head -6
tail -1 /tmp/pvw.out
git -C $W checkout -q -- . ; git -C $W clean -fdq
exit $r
