#!/bin/sh
# Usage: tools/trypatch.sh <patch.diff> <Cxx> [more props...]
# Applies the patch to a scratch worktree of /repo (HEAD) under /tmp, runs the
# given property checks against it, and restores the worktree.
P="$1"; shift
W=/tmp/pvw
if [ ! -d $W ]; then git -C /repo worktree add -q --detach $W HEAD || exit 2; fi
git -C $W checkout -q --detach $(git -C /repo rev-parse HEAD) 2>/dev/null
git -C $W checkout -q -- . ; git -C $W clean -fdq
git -C $W apply "$P" || { echo "PATCH DOES NOT APPLY: $P"; exit 3; }
rc=0
for prop in "$@"; do
  PDFVERIF_REPO=$W PDFVERIF_OUT=/tmp/pvout "$(dirname "$0")/../pv" check "$prop" quick > /tmp/pvw.out 2>&1
  r=$?
  grep -E "^(VIOLATED|UNDECIDED|KNOWN)|^    [a-z]" /tmp/pvw.out | head -${LINES_MAX:-12}
  tail -1 /tmp/pvw.out
  [ $r -ne 0 ] && rc=1
done
git -C $W checkout -q -- . ; git -C $W clean -fdq
exit $rc
