#!/bin/sh
# Regenerates vocab.json and confirmed-counts.json: the number of constructs every obligation
# inspects on the reviewed tree (/repo as it is now).  Run after reviewing a
# change of the rules or of /repo; the checks only read the file.
cd "$(dirname "$0")/.." || exit 2
# vocab.json: the repository names the rules look for and the names the reviewed tree declares
./pv vocab "$(pwd)/vocab.json" || { echo "vocab failed"; exit 1; }
rm -f confirmed-counts.json.new
for p in $(./pv list); do
  case $p in C??) ;; *) continue;; esac
  PDFVERIF_WRITE_COUNTS="$(pwd)/confirmed-counts.json.new" PDFVERIF_OUT=$(mktemp -d) ./pv check $p quick > /dev/null || { echo "check $p failed"; exit 1; }
done
mv confirmed-counts.json.new confirmed-counts.json
echo "confirmed-counts.json: $(grep -c '|' confirmed-counts.json) obligations"
