#!/bin/sh
# Regenerates confirmed-counts.json: the number of constructs every obligation
# inspects on the reviewed tree (/repo as it is now).  Run after reviewing a
# change of the rules or of /repo; the checks only read the file.
cd "$(dirname "$0")/.." || exit 2
rm -f confirmed-counts.json.new
for p in $(./pv list); do
  case $p in C??) ;; *) continue;; esac
  PDFVERIF_WRITE_COUNTS="$(pwd)/confirmed-counts.json.new" PDFVERIF_OUT=$(mktemp -d) ./pv check $p quick > /dev/null || { echo "check $p failed"; exit 1; }
done
mv confirmed-counts.json.new confirmed-counts.json
echo "confirmed-counts.json: $(grep -c '|' confirmed-counts.json) obligations"
