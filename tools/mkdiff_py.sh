#!/bin/sh
# Usage: tools/mkdiff_py.sh <out.diff> <python-file>   (python script edits files under $W = scratch worktree)
OUT="$1"; PY="$2"
W=/tmp/pvw
if [ ! -d $W ]; then git -C /repo worktree add -q --detach $W HEAD || exit 2; fi
git -C $W checkout -q --detach $(git -C /repo rev-parse HEAD) 2>/dev/null
git -C $W checkout -q -- . ; git -C $W clean -fdq
(cd $W && python3 "$PY") || { echo "EDIT FAILED: $OUT"; git -C $W checkout -q -- .; exit 3; }
(cd $W && gofmt -w $(git -C $W diff --name-only))
git -C $W diff > "$OUT"
( cd $W && GOFLAGS=-mod=mod GOPROXY=off go build ./ ./internal/... ./pagetree/... ./font/... ./graphics/content/... >/dev/null 2>/tmp/mkdiff.err ) || { echo "DOES NOT COMPILE: $OUT"; head -5 /tmp/mkdiff.err; }
if [ -n "$TESTPKGS" ]; then ( cd $W && GOFLAGS=-mod=mod GOPROXY=off go test -vet=off -count=1 $TESTPKGS 2>&1 | grep -v "^ok" | head -5 ); fi
git -C $W checkout -q -- .
echo "wrote $OUT ($(grep -c '^[-+][^-+]' $OUT) changed lines)"
