#!/bin/sh
# Usage: tools/mkdiff.sh <out.diff> <file> <sed-expr> [<file2> <sed-expr2> ...]
# Creates a unified diff (relative to /repo HEAD) by applying sed edits in a scratch worktree under /tmp.
OUT="$1"; shift
W=/tmp/pvw
if [ ! -d $W ]; then git -C /repo worktree add -q --detach $W HEAD || exit 2; fi
git -C $W checkout -q --detach $(git -C /repo rev-parse HEAD) 2>/dev/null
git -C $W checkout -q -- . ; git -C $W clean -fdq
while [ $# -ge 2 ]; do sed -i "$2" "$W/$1"; shift; shift; done
if git -C $W diff --quiet; then echo "NO CHANGE for $OUT"; exit 3; fi
(cd $W && gofmt -l . >/dev/null 2>&1)
git -C $W diff > "$OUT"
( cd $W && GOFLAGS=-mod=mod GOPROXY=off go build ./ ./internal/... ./pagetree/... ./font/... ./graphics/content/... >/dev/null 2>/tmp/mkdiff.err ) || { echo "DOES NOT COMPILE: $OUT"; head -3 /tmp/mkdiff.err; }
git -C $W checkout -q -- .
echo "wrote $OUT ($(grep -c '^[-+][^-+]' $OUT) changed lines)"
