#!/usr/bin/env python3
"""Regenerates /verif/MANIFEST.json from tools/claims.json (claimed properties) and properties.jsonl."""
import json, os, sys
root = os.path.dirname(os.path.dirname(os.path.abspath(__file__)))
props = [json.loads(l)['id'] for l in open(os.path.join(root, 'properties.jsonl'))]
claims = json.load(open(os.path.join(root, 'tools', 'claims.json')))
checks, na = [], []
for p in props:
    c = claims.get(p)
    if not c or not c.get('claimed'):
        na.append({"property_id": p, "reason": (c or {}).get('reason', 'check not built yet (framework under construction)')})
        continue
    checks.append({
        "property_id": p,
        "quick_cmd": f"./pv check {p} quick",
        "thorough_cmd": f"./pv check {p} thorough",
        "evidence_file": f"evidence/{p}.json",
        "replay_cmd_template": "./pv explain {path}",
        "engine": "pdfverif",
        "level_claimed": {"category": "other", "text": c['text'], "design_ref": f"DESIGN.md section 4, {p}"},
        "level_note": c['note'] + " An obligation whose recogniser no longer finds its construct (code rewritten beyond the forms it knows) prints UNRECOGNISED, is recorded in the evidence and decides nothing about that construct; it does not fail the check (DESIGN.md 10.8).",
        "technique": c['technique'],
    })
m = {
    "version": 1,
    "setup_cmd": "./pv list",
    "hooks": {"guard": "verif", "enable": "none: the checks are static analyses of /repo's source; no hooks or instrumentation exist in /repo",
              "baseline_off_cmd": "cd /repo && GOFLAGS=-mod=mod go test -vet=off -count=1 -timeout 25m ./...",
              "source_commits": [], "add_only": True},
    "engines": [{"name": "pdfverif", "path": "cmd/pdfverif", "serves_properties": [c['property_id'] for c in checks],
                 "kind_free_text": "repository-specific static analyser (go/packages + go/types + go/cfg node-level control-flow queries, abstract interpretation over byte values, table extraction and comparison against transcribed specification tables); never executes /repo code"}],
    "checks": checks,
    "notes": "All claims are at level 'other': each check decides structural necessary conditions of its property from /repo's current source on every run (see DESIGN.md). known-findings.txt lists fix: commits; no open findings are suppressed unless listed there. Recogniser failures are reported as UNRECOGNISED (not decided, not failed); PDFVERIF_STRICT=1 makes them fail.",
    "not_applicable": na,
}
json.dump(m, open(os.path.join(root, 'MANIFEST.json'), 'w'), indent=1)
print(f"{len(checks)} claimed, {len(na)} not applicable")
