package props

import "pdfverif/internal/core"

// thorough runs the additional thorough-tier work for a property.
func thorough(c *core.Ctx, p *Property) {
	thoroughExtra(c, p)
}
