package props

import (
	"go/ast"
	"go/constant"
	"go/token"
	"go/types"
	"strings"

	"pdfverif/internal/core"
)

func init() {
	register(&Property{
		ID:       "C16",
		Patterns: []string{"./pagetree"},
		Run:      runC16,
		Explanation: "Static rules on the page-tree writer (narrow): (R1) at the single site that constructs internal nodes, /Kids, /Count, the node's own page count and every child's /Parent are all derived from the same child slice, on every path, and the fan-out bound is checked before merging; (R2) the merged node replaces exactly the positions it was built from; " +
			"(R3) attribute hoisting: keys hoisted by the writer are a subset of the keys the reader inherits (= ISO 32000-2 Table 31 plus the legacy AA), a key is hoisted only when every child has it, and when a non-default /Rotate is hoisted every child that relied on the default (explicit 0 or absent) gets an explicit default; " +
			"(R5) page-number futures: a pending page number can only be read through WhenAvailable (its value field is private to the future's own methods), a future created with k missing summands gets exactly k registrations, and the page number after a range depends on both the range's start and its page count. " +
			"Decides these structural conditions for all insertion sequences; does NOT decide balancing invariants, collapse arithmetic or page numbers as values.",
	})
}

func runC16(c *core.Ctx) {
	const pk = "pdf/pagetree"
	defer rulePageNumberAdvance(c)
	defer rulePageTreeReaders(c)
	defer ruleRangeCloseNotifies(c)
	defer ruleAliasHygiene(c, [3]string{"C16-R7", "C16-R8", "C16-R9"}, "pdf/pagetree")
	c.Check("C16-R1", pk+".(*Writer).mergeNodes", "/Kids, /Count, the node's page count and the children's /Parent come from one and the same child slice", func(o *core.Ob) {
		fn := c.Prog.Func(pk, "(*Writer).mergeNodes")
		g := fn.Graph()
		info := fn.Info()
		// the child slice: the local defined as nodes[a:b]
		var child types.Object
		ast.Inspect(fn.Decl.Body, func(n ast.Node) bool {
			if as, ok := n.(*ast.AssignStmt); ok && as.Tok == token.DEFINE && len(as.Rhs) == 1 && strings.ReplaceAll(core.ExprStr(as.Rhs[0]), " ", "") == "nodes[a:b]" {
				child = core.ObjOf(info, as.Lhs[0])
			}
			return true
		})
		if child == nil {
			core.Undecided("no local defined as nodes[a:b]")
		}
		cn := child.Name()
		src := strings.ReplaceAll(c.Prog.Src(fn.Decl.Body), cn, "childNodes")
		var loops []*core.V
		for _, h := range loopHeads(g) {
			if h.Cond.Range != nil && core.ObjOf(info, h.Cond.Range.X) == child {
				loops = append(loops, h)
				o.At(fn.Site(h.Cond.Range, "loop over the children"))
			}
		}
		if len(loops) != 2 {
			o.Unrec("expected two loops over the child slice (parent links, kids/count), found %d", len(loops))
			return
		}
		// loop 1: every path through the body sets the parent
		parentRef := localVar(fn, "parentRef", 0)
		var sets []*core.V
		for _, v := range g.Vs {
			as, ok := v.AST.(*ast.AssignStmt)
			if !ok || len(as.Rhs) != 1 || core.ObjOf(info, as.Rhs[0]) != parentRef {
				continue
			}
			l := core.ExprStr(as.Lhs[0])
			// (the key may be a named constant: node.dict[keyParent])
			_, key, isMapKey := core.MapIndexKey(info, as.Lhs[0])
			if strings.HasSuffix(l, ".Parent") || strings.HasSuffix(l, `["Parent"]`) || isMapKey && key == "Parent" {
				sets = append(sets, v)
				o.At(fn.Site(as, "sets /Parent"))
			}
		}
		o.Shape(len(sets) == 2, "expected the parent link to be set on both branches (pending page / finished dict), found %d", len(sets))
		errStore := []*core.V{}
		for _, v := range g.Vs {
			if as, ok := v.AST.(*ast.AssignStmt); ok && core.ExprStr(as.Lhs[0]) == "w.err" {
				errStore = append(errStore, v)
			}
		}
		body := succ(loops[0], core.EdgeTrue)
		r := g.ReachFrom(body, true, core.AvoidVs(append(sets, errStore...)...))
		if r[loops[0]] {
			o.Fail("a child can pass the first loop without getting its /Parent set")
		}
		// loop 2: kids[i] = node.ref; pageCount += node.pageCount
		s2 := strings.ReplaceAll(c.Prog.Src(loops[1].Cond.Range), cn, "childNodes")
		o.Shape(strings.Contains(s2, "kids[i]=node.ref"), "/Kids is not filled from the children in order")
		o.Shape(strings.Contains(s2, "pageCount+=node.pageCount"), "/Count is not the sum of the children's page counts")
		o.Shape(strings.Contains(src, `kids:=make(pdf.Array,len(childNodes))`), "/Kids has not one slot per child")
		o.Shape(strings.Contains(src, `parentDict["Kids"]=kidsparentDict["Count"]=pageCount`), "/Kids and /Count are not stored from the computed values")
		o.Shape(strings.Contains(src, "pageCount:pageCount,"), "the new node's page count differs from its /Count")
		o.Shape(strings.Contains(src, "ref:parentRef,"), "the new node is not registered under the reference its children point to")
		// children are queued for output with their own reference
		o.Shape(strings.Contains(s2, "w.outRefs=append(w.outRefs,node.ref)w.outObjects=append(w.outObjects,node.dict)"), "children are not queued for output under their own reference")
		// the parent link is set before the child is queued
		o.Require(g.PathExists(loops[0], loops[1], nil) && !g.PathExists(loops[1], loops[0], nil), "children are queued before their /Parent is set")
		// fan-out
		o.Shape(strings.Contains(src, "b-a>maxDegree"), "the fan-out bound is not checked before merging")
		o.Require(c.Prog.ConstInt(pk, "maxDegree") >= 2, "maxDegree")
	})
	c.Check("C16-R1", pk+".(*Writer).wrapIfLeaf/parent", "a page that is wrapped into a /Pages node of its own gets that node as its /Parent on every path (pending page or finished dictionary)", func(o *core.Ob) {
		fn := c.Prog.Func(pk, "(*Writer).wrapIfLeaf")
		g := fn.Graph()
		info := fn.Info()
		// the wrapper's reference: a local defined by Alloc() (one per branch that builds a wrapper)
		type alloc struct {
			obj types.Object
			def *core.V
		}
		var allocs []alloc
		for _, v := range g.Vs {
			as, ok := v.AST.(*ast.AssignStmt)
			if !ok || len(as.Lhs) != 1 || len(as.Rhs) != 1 {
				continue
			}
			if call, isCall := ast.Unparen(as.Rhs[0]).(*ast.CallExpr); isCall && strings.HasSuffix(core.CalleeKey(info, call), ".Alloc") {
				if obj := core.ObjOf(info, as.Lhs[0]); obj != nil {
					allocs = append(allocs, alloc{obj, v})
				}
			}
		}
		if len(allocs) == 0 {
			o.Unrec("no reference allocated for the wrapper node")
			return
		}
		n := 0
		for _, al := range allocs {
			refObj, refDef := al.obj, al.def
			o.At(fn.Site(refDef.AST, "wrapper reference"))
			isRef := func(at *core.V, e ast.Expr) bool {
				for depth := 0; depth < 3; depth++ {
					obj := core.ObjOf(info, e)
					if obj == nil {
						return false
					}
					if obj == refObj {
						// the definition that reaches here must be this allocation
						ds := reachingDefs(g, at, refObj)
						return len(ds) == 1 && ds[0] == refDef
					}
					id, isID := ast.Unparen(e).(*ast.Ident)
					if !isID {
						return false
					}
					cs := valueCases(g, at, id, 1)
					if len(cs) != 1 || cs[0].V == nil || cs[0].Expr == ast.Expr(id) {
						return false
					}
					e, at = cs[0].Expr, cs[0].V
				}
				return false
			}
			var sets []*core.V
			for _, v := range g.Vs {
				as, ok := v.AST.(*ast.AssignStmt)
				if !ok || len(as.Lhs) != len(as.Rhs) {
					continue
				}
				for i, l := range as.Lhs {
					isParent := false
					switch x := ast.Unparen(l).(type) {
					case *ast.SelectorExpr:
						isParent = x.Sel.Name == "Parent"
					case *ast.IndexExpr:
						k, isK := core.StringConst(info, x.Index)
						isParent = isK && k == "Parent"
					}
					if isParent && isRef(v, as.Rhs[i]) {
						sets = append(sets, v)
						o.At(fn.Site(as, "sets /Parent"))
					}
				}
			}
			// returns that hand out the wrapper: a dictInfo literal whose ref is the allocated reference
			for _, r := range g.Returns() {
				rs, ok := r.AST.(*ast.ReturnStmt)
				if !ok || len(rs.Results) != 1 {
					continue
				}
				toExit := false
				for _, e := range r.Succs {
					if e.To == g.Exit {
						toExit = true
					}
				}
				if !toExit {
					continue
				}
				uses := false
				ast.Inspect(rs.Results[0], func(m ast.Node) bool {
					if cl, isCL := m.(*ast.CompositeLit); isCL {
						if f := literalField(info, cl, "ref"); f != nil && isRef(r, f) {
							uses = true
						}
					}
					return true
				})
				if !uses {
					continue
				}
				n++
				o.At(fn.Site(rs, "returns the wrapper"))
				if g.ReachFrom(refDef, false, core.AvoidVs(sets...))[r] {
					o.FailAt(fn.Site(rs, ""), "the wrapper node allocated at %s is returned on a path that never sets the wrapped page's /Parent to it: the page is written without /Parent (or with a stale one), and /Parent no longer points to the node that lists the page", c.Prog.Pos(refDef.AST.Pos()))
				}
			}
		}
		o.Shape(n >= 1, "no return of a wrapper node built on an allocated reference was found")
		o.Count(n)
	})
	c.Check("C16-R2", pk+".(*Writer).mergeNodes/splice", "the merged node replaces exactly the children it lists, keeping everything else in order", func(o *core.Ob) {
		fn := c.Prog.Func(pk, "(*Writer).mergeNodes")
		src := c.Prog.Src(fn.Decl.Body)
		o.At(fn.Site(fn.Decl, ""))
		o.Shape(strings.Contains(src, "nodes[a]=parentNodenodes=append(nodes[:a+1],nodes[b:]...)"), "the splice is not nodes[a] = parent; nodes = append(nodes[:a+1], nodes[b:]...)")
	})
	c.Check("C16-R3", pk+".inherit/tables", "the writer hoists only attributes the reader inherits, and the reader's table is ISO 32000-2 Table 31 (Resources, MediaBox, CropBox, Rotate) plus AA before PDF 1.3", func(o *core.Ob) {
		fn := c.Prog.Func(pk, "inherit")
		info := fn.Info()
		var hoisted []string
		for _, cs := range core.CallsIn(info, fn.Decl, false) {
			if strings.HasSuffix(cs.Key, ".inheritKey") {
				// the key is the argument that is a constant name, wherever it stands
				k, found := "", 0
				for _, a := range cs.Call.Args {
					if sv, isS := core.StringConst(info, a); isS {
						k = sv
						found++
					}
				}
				if found != 1 {
					o.Unrec("%s: inheritKey is not called with exactly one constant key: which attribute it hoists is not decided", c.Prog.Pos(cs.Call.Pos()))
					continue
				}
				hoisted = append(hoisted, k)
				o.At(fn.Site(cs.Call, "hoists "+k))
			}
			if strings.HasSuffix(cs.Key, ".inheritRotate") {
				hoisted = append(hoisted, "Rotate")
			}
		}
		// the same list as a table of rules: {key: "MediaBox", apply: inheritKey}, ...
		tableAA := "" // "guarded", "unguarded" or "" (no table)
		if len(hoisted) == 0 {
			ast.Inspect(fn.Decl.Body, func(n ast.Node) bool {
				id, ok := n.(*ast.Ident)
				if !ok {
					return true
				}
				tv, ok := info.Uses[id].(*types.Var)
				if !ok || tv.Pkg() == nil || tv.Parent() != tv.Pkg().Scope() {
					return true
				}
				_, init, ipkg := c.Prog.Var(pk, tv.Name())
				cl, isCL := ast.Unparen(init).(*ast.CompositeLit)
				if init == nil || !isCL {
					return true
				}
				for _, el := range cl.Elts {
					if kv, isKV := el.(*ast.KeyValueExpr); isKV {
						el = kv.Value
					}
					ecl, isE := ast.Unparen(el).(*ast.CompositeLit)
					if !isE {
						continue
					}
					key, fun, flagged := "", "", false
					for _, fe := range ecl.Elts {
						val := fe
						if kv, isKV := fe.(*ast.KeyValueExpr); isKV {
							val = kv.Value
						}
						if sv, isS := core.StringConst(ipkg.TypesInfo, val); isS {
							key = sv
						}
						if fid, isID := ast.Unparen(val).(*ast.Ident); isID {
							if f, isF := ipkg.TypesInfo.Uses[fid].(*types.Func); isF {
								fun = f.Name()
							}
						}
						if cv := core.ConstOf(ipkg.TypesInfo, val); cv != nil && cv.Kind() == constant.Bool && constant.BoolVal(cv) {
							flagged = true
						}
					}
					if key != "" && (fun == "inheritKey" || fun == "inheritRotate") {
						hoisted = append(hoisted, key)
						o.At(fn.Site(ecl, "hoists "+key+" (table)"))
						if key == "AA" {
							if flagged && strings.Contains(c.Prog.Src(fn.Decl.Body), "pdf.V1_3") {
								tableAA = "guarded"
							} else {
								tableAA = "unguarded"
							}
						}
					}
				}
				return true
			})
		}
		if !o.Shape(len(hoisted) > 0, "the list of hoisted attributes was not found (neither calls of inheritKey with constant keys nor a table of rules)") {
			return
		}
		if tableAA == "unguarded" {
			o.Fail("/AA is in the table of hoisted attributes without the flag that restricts it to versions before PDF 1.3")
		}
		readNew := stringSliceVar(c, pk, "inheritableNew")
		readOld := stringSliceVar(c, pk, "inheritableOld")
		o.Fact("writer hoists %v; reader inherits %v / %v", hoisted, readNew, readOld)
		o.Require(strings.Join(readNew, ",") == "Resources,MediaBox,CropBox,Rotate", "the reader's inheritable attributes are %v, Table 31 says Resources, MediaBox, CropBox, Rotate", readNew)
		o.Require(strings.Join(readOld, ",") == "Resources,MediaBox,CropBox,Rotate,AA", "the reader's legacy inheritable attributes are %v", readOld)
		inOld := setOf(readOld...)
		inNew := setOf(readNew...)
		for _, h := range hoisted {
			o.Count(1)
			if h == "AA" {
				continue
			}
			if !inNew[h] {
				o.Fail("the writer hoists /%s, which the reader does not inherit", h)
			}
		}
		_ = inOld
		// AA only below 1.3
		g := fn.Graph()
		for _, cv := range callVerticesSuffix(g, ".inheritKey") {
			if k, _ := core.StringConst(info, cv.Call.Args[0]); k == "AA" {
				conds := dominatingConds(g, cv.V)
				below13 := false
				for _, a := range g.DominatingAtoms(cv.V) {
					// v < pdf.V1_3, directly or through a named test
					if cmp, isCmp := a.AsCmp(); isCmp && cmp.Op == token.LSS {
						if ro := core.ObjOf(info, cmp.R); ro != nil && ro.Name() == "V1_3" {
							if lo, isVar := core.ObjOf(info, cmp.L).(*types.Var); isVar && core.IsNamed(lo.Type(), "pdf", "Version") {
								below13 = true
							}
						}
					}
				}
				o.Require(below13, "/AA is hoisted under %v, the reader inherits it only before PDF 1.3", conds)
			}
		}
		gi := c.Prog.Func(pk, "getInheritable")
		o.Require(strings.Contains(c.Prog.Src(gi.Decl.Body), "pdf.V1_3"), "the reader does not switch tables at PDF 1.3")
	})
	c.Check("C16-R3", pk+".inheritKey", "a value is hoisted only when every child has the key (an absent value cannot be expressed once the parent has one)", func(o *core.Ob) {
		fn := c.Prog.Func(pk, "inheritKey")
		g := fn.Graph()
		info := fn.Info()
		parent := paramObj(fn, "parentDict")
		st := mapStores(g, parent)
		if len(st) != 1 {
			o.Count(1)
			o.Unrec("expected one store into the parent dictionary")
			return
		}
		o.At(fn.Site(st[0].Stmt, "hoist"))
		// Once a child is seen to lack the key (the comma-ok result of the lookup in the
		// child's dictionary is false) the hoist must be unreachable, whatever kind of
		// child it is: an intermediate node without the key has kids that rely on the
		// key being absent or that carry their own values, and would all inherit the hoisted one.
		// (every comma-ok lookup in a child's dictionary counts: with a helper
		// folded in there may be more than one)
		okVars := map[types.Object]bool{}
		ast.Inspect(fn.Decl.Body, func(n ast.Node) bool {
			if as, isAs := n.(*ast.AssignStmt); isAs && len(as.Lhs) == 2 && len(as.Rhs) == 1 {
				if ix, isIx := ast.Unparen(as.Rhs[0]).(*ast.IndexExpr); isIx {
					if sel, isSel := ast.Unparen(ix.X).(*ast.SelectorExpr); isSel && sel.Sel.Name == "dict" {
						if obj := core.ObjOf(info, as.Lhs[1]); obj != nil {
							okVars[obj] = true
						}
					}
				}
			}
			return true
		})
		if len(okVars) == 0 {
			core.Undecided("lookup of the key in the child dictionaries not found")
		}
		tested := 0
		for _, bv := range g.BranchVertices() {
			if bv.Cond.Expr == nil {
				continue
			}
			for _, l := range []core.EdgeLabel{core.EdgeTrue, core.EdgeFalse} {
				lacks := false
				for _, a := range bv.Implied(l) {
					if id, isID := ast.Unparen(a.Expr).(*ast.Ident); isID && okVars[info.ObjectOf(id)] && a.Neg {
						lacks = true
					}
				}
				if !lacks {
					continue
				}
				tested++
				o.At(fn.Site(bv.Cond.Expr, "child lacks the key"))
				if g.ReachFrom(succ(bv, l), true, nil)[st[0].V] {
					o.FailAt(fn.Site(st[0].Stmt, ""), "%s: the value is hoisted into the parent although a child without the key was seen at %s", c.Prog.Pos(st[0].Stmt.Pos()), c.Prog.Pos(bv.Cond.Expr.Pos()))
				}
			}
		}
		o.Require(tested >= 1, "inheritKey does not test whether a child lacks the key")
		src := c.Prog.Src(fn.Decl.Body)
		o.Shape(strings.Contains(src, "ifrepr[i]==bestRepr{delete(child.dict,key)}"), "only children carrying the hoisted value may lose their entry")
		_ = info
	})
	c.Check("C16-R3", pk+".inheritRotate", "pages that relied on the default rotation (explicit 0 or no entry) get an explicit default when a non-default rotation is hoisted", func(o *core.Ob) {
		fn := c.Prog.Func(pk, "inheritRotate")
		src := c.Prog.Src(fn.Decl.Body)
		o.At(fn.Site(fn.Decl, ""))
		o.Shape(strings.Contains(src, "if!ok{repr[i]=defaultStringnumDefault++continue}"), "a page without /Rotate is not recorded as relying on the default")
		o.Shape(strings.Contains(src, "ifr==defaultString{numDefault++delete(node.dict,key)}"), "an explicit default is not recorded as relying on the default")
		o.Shape(strings.Contains(src, "switchrepr[i]{casebestRepr:delete(child.dict,key)casedefaultString:child.dict[key]=defaultValue}"), "after hoisting a non-default rotation, children relying on the default do not get an explicit default (they would inherit the hoisted rotation)")
		o.Shape(strings.Contains(src, "ifbestRepr==defaultString{ifnumDefault!=0{parentDict[key]=defaultValue}return}"), "the all-default case")
		o.Shape(strings.Contains(src, "defaultValue:=pdf.Integer(0)"), "the default rotation is 0")
	})
	c.Check("C16-R3", pk+".inheritRotate/default-after-hoist", "when a value other than the default is hoisted into the parent, the children that rely on the default are given an explicit default afterwards (otherwise they inherit the hoisted rotation)", func(o *core.Ob) {
		fn := c.Prog.Func(pk, "inheritRotate")
		g := fn.Graph()
		info := fn.Info()
		// the default value: a local defined as the constant 0 (pdf.Integer(0)); its representation: a local derived from it
		var defVal, defRepr types.Object
		ast.Inspect(fn.Decl.Body, func(n ast.Node) bool {
			as, ok := n.(*ast.AssignStmt)
			if !ok || as.Tok != token.DEFINE || len(as.Lhs) != 1 || len(as.Rhs) != 1 {
				return true
			}
			if k, isK := core.IntConst(info, as.Rhs[0]); isK && k == 0 && core.IsNamed(info.TypeOf(as.Rhs[0]), "pdf", "Integer") {
				defVal = core.ObjOf(info, as.Lhs[0])
			}
			if call, ok := ast.Unparen(as.Rhs[0]).(*ast.CallExpr); ok && len(call.Args) == 1 && defVal != nil && core.ObjOf(info, call.Args[0]) == defVal {
				defRepr = core.ObjOf(info, as.Lhs[0])
			}
			return true
		})
		if defVal == nil || defRepr == nil {
			core.Undecided("default rotation value / representation not found")
		}
		parent := paramObj(fn, "parentDict")
		// hoisting stores: parentDict[...] = something other than the default value
		var hoists []*core.V
		for _, st := range mapStores(g, parent) {
			if core.ObjOf(info, st.Value) != defVal {
				hoists = append(hoists, st.V)
				o.At(fn.Site(st.Stmt, "hoists a non-default value"))
			}
		}
		o.Require(len(hoists) >= 1, "no value is ever hoisted")
		// explicit defaults for the children: X.dict[...] = defaultValue in a loop, under a comparison with the default representation
		var fixes []*core.V
		for _, v := range g.Vs {
			as, ok := v.AST.(*ast.AssignStmt)
			if !ok || len(as.Lhs) != 1 || len(as.Rhs) != 1 || core.ObjOf(info, as.Rhs[0]) != defVal {
				continue
			}
			ix, ok := ast.Unparen(as.Lhs[0]).(*ast.IndexExpr)
			if !ok || core.ObjOf(info, ix.X) == parent {
				continue
			}
			if sel, isSel := ast.Unparen(ix.X).(*ast.SelectorExpr); !isSel || sel.Sel.Name != "dict" {
				continue
			}
			guarded := g.GuardedBy(v, func(a core.Atom) bool {
				cmp, isCmp := a.AsCmp()
				return isCmp && cmp.Op == token.EQL && (core.ObjOf(info, cmp.L) == defRepr || core.ObjOf(info, cmp.R) == defRepr)
			})
			if guarded && g.InLoop(v) {
				fixes = append(fixes, v)
				o.At(fn.Site(as, "explicit default for a child"))
			}
		}
		o.Count(len(hoists))
		for _, h := range hoists {
			okFix := false
			for _, f := range fixes {
				if g.PathExists(h, f, nil) {
					okFix = true
				}
			}
			if !okFix {
				o.FailAt(fn.Site(h.AST, ""), "%s: after this hoist no child that relies on the default rotation is given an explicit default: such pages inherit the hoisted rotation", c.Prog.Pos(h.AST.Pos()))
			}
		}
	})
	c.Check("C16-R5", pk+".futureInt/encapsulation", "a pending page number is read only through WhenAvailable: the value field is touched by the future's own methods only", func(o *core.Ob) {
		pkg := c.Prog.Pkg(pk)
		n := 0
		for _, fn := range c.Prog.Funcs(pkg) {
			info := fn.Info()
			ast.Inspect(fn.Decl, func(m ast.Node) bool {
				var e ast.Expr
				switch x := m.(type) {
				case *ast.SelectorExpr:
					e = x
				case *ast.KeyValueExpr:
					// composite literal field
					if id, ok := x.Key.(*ast.Ident); ok && id.Name == "val" {
						if v := info.ObjectOf(id); v != nil && strings.Contains(v.String(), "futureInt") || true {
							// handled below through the literal's type
						}
					}
					return true
				default:
					return true
				}
				if _, ok := core.FieldSel(info, e, pk, "futureInt", "val"); ok {
					n++
					if !strings.HasPrefix(fn.Key, pk+".(*futureInt).") {
						o.FailAt(fn.Site(e, ""), "%s reads or writes futureInt.val directly; while summands are missing the value is not the page number", fn.Key)
					}
				}
				return true
			})
			// literals that initialise val from another future's value
			ast.Inspect(fn.Decl, func(m ast.Node) bool {
				cl, ok := m.(*ast.CompositeLit)
				if !ok || !core.IsNamed(info.TypeOf(cl), pk, "futureInt") {
					return true
				}
				f := compositeFields(info, cl)
				o.At(fn.Site(cl, "future created"))
				if v := f["val"]; v != nil {
					if _, isConst := core.IntConst(info, v); !isConst {
						o.FailAt(fn.Site(cl, ""), "a future is created with the non-constant value %s", core.ExprStr(v))
					}
				}
				// registrations of Update on the created object
				k := int64(0)
				if f["numMissing"] != nil {
					k, _ = core.IntConst(info, f["numMissing"])
				}
				// the variable/field the literal is assigned to
				var target string
				ast.Inspect(fn.Decl, func(mm ast.Node) bool {
					if as, ok := mm.(*ast.AssignStmt); ok {
						for i, r := range as.Rhs {
							if u, ok := ast.Unparen(r).(*ast.UnaryExpr); ok && u.X == cl && i < len(as.Lhs) {
								target = core.ExprStr(as.Lhs[i])
							}
						}
					}
					return true
				})
				if target == "" {
					return true
				}
				regs := 0
				held := map[types.Object]bool{} // locals bound once to the method value (update := res.Update)
				isUpdate := func(e ast.Expr) bool {
					se, ok := ast.Unparen(e).(*ast.SelectorExpr)
					return ok && se.Sel.Name == "Update" && core.ExprStr(se.X) == target
				}
				ast.Inspect(fn.Decl, func(mm ast.Node) bool {
					if as, ok := mm.(*ast.AssignStmt); ok && len(as.Lhs) == len(as.Rhs) {
						for i, r := range as.Rhs {
							if obj := core.ObjOf(info, as.Lhs[i]); obj != nil && isUpdate(r) && len(core.AssignsTo(info, fn.Decl, obj)) == 1 {
								held[obj] = true
							}
						}
					}
					return true
				})
				ast.Inspect(fn.Decl, func(mm ast.Node) bool {
					switch x := mm.(type) {
					case *ast.AssignStmt:
						// the binding itself is not a registration
						for i, r := range x.Rhs {
							if i < len(x.Lhs) && isUpdate(r) && held[core.ObjOf(info, x.Lhs[i])] {
								regs--
							}
						}
					case *ast.SelectorExpr:
						if isUpdate(x) {
							regs++
						}
					case *ast.Ident:
						if held[info.Uses[x]] {
							regs++
						}
					}
					return true
				})
				if int64(regs) != k {
					o.FailAt(fn.Site(cl, ""), "future %s is created with %d missing summands but %d registrations of its Update: its callbacks would fire too early or never", target, k, regs)
				}
				return true
			})
		}
		o.Shape(n >= 6, "only %d accesses to futureInt.val found", n)
	})
	c.Check("C16-R5", pk+".(*Writer).NewRange", "the parent's next page number after a range is (start of the range) + (pages in the range): it waits for both", func(o *core.Ob) {
		fn := c.Prog.Func(pk, "(*Writer).NewRange")
		src := c.Prog.Src(fn.Decl.Body)
		o.At(fn.Site(fn.Decl, ""))
		o.Shape(strings.Contains(src, "nextPageNumber:w.nextPageNumber,"), "the range does not start at the parent's next page number")
		o.Shape(strings.Contains(src, "w.nextPageNumber=&futureInt{numMissing:2}"), "the parent's next page number must wait for two summands")
		o.Shape(strings.Contains(src, "subTree.nextPageNumber.WhenAvailable(w.nextPageNumber.Update)"), "the parent's next page number does not wait for the start of the range")
		o.Shape(strings.Contains(src, "subTree.numPagesCb=append(subTree.numPagesCb,w.nextPageNumber.Update)"), "the parent's next page number does not wait for the number of pages in the range")
		o.Shape(strings.Index(src, "nextPageNumber:w.nextPageNumber,") < strings.Index(src, "w.nextPageNumber=&futureInt{"), "the range's start is taken after the parent's number was replaced")
		fu := c.Prog.Func(pk, "(*futureInt).Update")
		us := c.Prog.Src(fu.Decl.Body)
		o.At(fu.Site(fu.Decl, "Update"))
		o.Shape(strings.Contains(us, "f.numMissing--") && strings.Contains(us, "iff.numMissing==0||f.val<0{for_,cb:=rangef.cb{cb(f.val)}f.cb=nil}"), "callbacks must fire exactly when the last summand arrives")
		wa := c.Prog.Func(pk, "(*futureInt).WhenAvailable")
		o.Shape(c.Prog.Src(wa.Decl.Body) == "{iff.numMissing==0{cb(f.val)}else{f.cb=append(f.cb,cb)}}", "WhenAvailable must defer while summands are missing")
		_ = token.ADD
	})
}

// stringSliceVar evaluates a package-level []pdf.Name{...} literal.
func stringSliceVar(c *core.Ctx, short, name string) []string {
	_, init, pkg := c.Prog.Var(short, name)
	cl, ok := ast.Unparen(init).(*ast.CompositeLit)
	if !ok {
		core.Undecided("%s.%s is not a composite literal", short, name)
	}
	var out []string
	for _, el := range cl.Elts {
		s, ok := core.StringConst(pkg.TypesInfo, el)
		if !ok {
			core.Undecided("%s.%s has a non-constant element", short, name)
		}
		out = append(out, s)
	}
	return out
}

// rulePageNumberAdvance (C16-R5): the page number handed to page-number
// callbacks is a future value; futureInt.Inc and futureInt.Add return the
// value to use from now on (a new object whenever callbacks are pending on
// the old one).  Every appended page must install the result of Inc in
// Writer.nextPageNumber on every path, in both append entry points, and no
// result of Inc/Add may be dropped: otherwise pages appended after a
// callback was registered report stale positions.
func rulePageNumberAdvance(c *core.Ctx) {
	const pk = "pdf/pagetree"
	for _, name := range []string{"(*Writer).AppendPageRef", "(*Writer).AppendPageDict"} {
		name := name
		c.Check("C16-R5", pk+"."+name+"/page-number", "appending a page installs nextPageNumber.Inc() as the new nextPageNumber on every path that appends", func(o *core.Ob) {
			fn := c.Prog.Func(pk, name)
			g := fn.Graph()
			info := fn.Info()
			var installs []*core.V
			for _, v := range g.Vs {
				as, ok := v.AST.(*ast.AssignStmt)
				if !ok || len(as.Lhs) != 1 || len(as.Rhs) != 1 || as.Tok != token.ASSIGN {
					continue
				}
				sel, ok := ast.Unparen(as.Lhs[0]).(*ast.SelectorExpr)
				if !ok || sel.Sel.Name != "nextPageNumber" {
					continue
				}
				call, ok := core.IsCallTo(info, as.Rhs[0], pk+".(*futureInt).Inc")
				if !ok {
					continue
				}
				if rs, ok := call.Fun.(*ast.SelectorExpr); !ok || core.ExprStr(rs.X) != core.ExprStr(as.Lhs[0]) {
					continue
				}
				installs = append(installs, v)
				o.At(fn.Site(as, "page number advanced"))
			}
			o.Count(1)
			if len(installs) == 0 {
				o.Fail("%s does not install nextPageNumber.Inc()", fn.Key)
				return
			}
			// callbacks waiting for the number of this page are attached to the
			// future that holds it, i.e. before the future is replaced by its successor
			for _, cv := range callVertices(g, pk+".(*futureInt).WhenAvailable") {
				sel, ok := ast.Unparen(cv.Call.Fun).(*ast.SelectorExpr)
				if !ok {
					continue
				}
				if _, name, ok := selName(sel.X); !ok || name != "nextPageNumber" {
					continue
				}
				o.Count(1)
				o.At(fn.Site(cv.Call, "pending callback attached"))
				for _, inst := range installs {
					if g.PathExists(inst, cv.V, nil) {
						o.FailAt(fn.Site(cv.Call, ""), "the callbacks waiting for this page's number are attached after the page number was advanced (%s): they are told the number of the next page", c.Prog.Pos(inst.AST.Pos()))
						break
					}
				}
			}
			// the page is appended to the tail: every return after that append passes an install
			for _, v := range g.Vs {
				as, ok := v.AST.(*ast.AssignStmt)
				if !ok || len(as.Lhs) != 1 {
					continue
				}
				if sel, ok := ast.Unparen(as.Lhs[0]).(*ast.SelectorExpr); !ok || sel.Sel.Name != "tail" {
					continue
				}
				if _, isApp := core.IsCallTo(info, as.Rhs[0], "append"); !isApp {
					if call, ok := ast.Unparen(as.Rhs[0]).(*ast.CallExpr); !ok || core.ExprStr(call.Fun) != "append" {
						continue
					}
				}
				o.Count(1)
				o.At(fn.Site(as, "page appended"))
				o.Require(g.MustPassBefore(v, []*core.V{g.Exit}, installs), "a path from appending the page to the return does not advance the page number")
				break
			}
		})
	}
	c.Check("C16-R5", pk+".futureInt/results-used", "the results of futureInt.Inc and futureInt.Add are never dropped", func(o *core.Ob) {
		pkg := c.Prog.Pkg(pk)
		for _, fn := range c.Prog.Funcs(pkg) {
			ast.Inspect(fn.Decl.Body, func(n ast.Node) bool {
				es, ok := n.(*ast.ExprStmt)
				if !ok {
					if _, isCall := n.(*ast.CallExpr); isCall {
						if _, ok := core.IsCallTo(fn.Info(), n.(*ast.CallExpr), pk+".(*futureInt).Inc", pk+".(*futureInt).Add"); ok {
							o.Count(1)
						}
					}
					return true
				}
				if call, ok := core.IsCallTo(fn.Info(), es.X, pk+".(*futureInt).Inc", pk+".(*futureInt).Add"); ok {
					o.FailAt(fn.Site(call, ""), "%s: the result of %s is dropped; the receiver is only updated in place while no callback is pending", c.Prog.Pos(call.Pos()), c.Prog.Src(call))
				}
				return true
			})
		}
		o.Shape(o.Evals >= 1, "calls to futureInt.Inc/Add not found")
	})
}

// rulePageTreeReaders (C16-R6): on the reading side a page inherits
// attributes only from its ancestors.  GetPage walks the tree and skips
// whole subtrees that lie before the wanted page; it may take inheritable
// attributes only from nodes it descends into, i.e. only where the node is
// known to contain the page (skip < count).
// The page-number callback of NextPageNumber concerns the NEXT page to be
// added; where that page will be is only known when it is appended (a range
// opened in between comes first), so NextPageNumber may queue the callback
// or, on a closed writer, answer -1, and nothing else.
func rulePageTreeReaders(c *core.Ctx) {
	const pk = "pdf/pagetree"
	c.Check("C16-R6", pk+".GetPage/ancestors-only", "inheritable attributes are collected only from nodes that contain the wanted page (dominated by skip < count), never from skipped siblings", func(o *core.Ob) {
		fn := c.Prog.Func(pk, "GetPage")
		g := fn.Graph()
		info := fn.Info()
		// the map that collects inherited values: the map stored into with a key taken from `inheritable`
		n := 0
		for _, v := range g.Vs {
			as, ok := v.AST.(*ast.AssignStmt)
			if !ok || len(as.Lhs) != 1 {
				continue
			}
			ix, ok := ast.Unparen(as.Lhs[0]).(*ast.IndexExpr)
			if !ok {
				continue
			}
			m, isVar := core.ObjOf(info, ix.X).(*types.Var)
			if !isVar {
				continue
			}
			mt, isMap := m.Type().Underlying().(*types.Map)
			if !isMap || !core.IsNamed(mt.Elem(), "pdf", "Object") {
				continue
			}
			// local map created in this function (not the node dictionary read from the file)
			created := false
			for _, d := range core.AssignsTo(info, fn.Decl, m) {
				if a2, ok := d.(*ast.AssignStmt); ok && len(a2.Rhs) == 1 {
					switch r := ast.Unparen(a2.Rhs[0]).(type) {
					case *ast.CompositeLit:
						created = true
					case *ast.CallExpr:
						if id, ok := r.Fun.(*ast.Ident); ok && id.Name == "make" {
							created = true
						}
					}
				}
			}
			if !created {
				continue
			}
			n++
			o.Count(1)
			o.At(fn.Site(as, "attribute taken over from a /Pages node"))
			ok2 := g.GuardedBy(v, func(a core.Atom) bool {
				cmp, isCmp := a.AsCmp()
				if !isCmp {
					return false
				}
				l, r := strings.ToLower(core.ExprStr(cmp.L)), strings.ToLower(core.ExprStr(cmp.R))
				return (cmp.Op == token.LSS && l == "skip" && r == "count") || (cmp.Op == token.GTR && l == "count" && r == "skip")
			})
			if !ok2 {
				o.FailAt(fn.Site(as, ""), "%s: an attribute of a /Pages node is recorded as inherited although the node may be a skipped sibling subtree (not dominated by skip < count)", c.Prog.Pos(as.Pos()))
			}
		}
		o.Shape(n >= 1, "no store into a local attribute map was found in GetPage (the collected attributes are kept in another form)")
	})
	c.Check("C16-R5", pk+".(*Writer).NextPageNumber/queued", "the callback for the next page's number is only queued (or answered with -1 on a closed writer); it is never resolved before the page is appended", func(o *core.Ob) {
		fn := c.Prog.Func(pk, "(*Writer).NextPageNumber")
		info := fn.Info()
		cb := paramObj(fn, "cb")
		if cb == nil && len(fn.Decl.Type.Params.List) == 1 && len(fn.Decl.Type.Params.List[0].Names) == 1 {
			cb = info.Defs[fn.Decl.Type.Params.List[0].Names[0]]
		}
		uses := 0
		ast.Inspect(fn.Decl.Body, func(n ast.Node) bool {
			call, ok := n.(*ast.CallExpr)
			if !ok {
				return true
			}
			// direct call cb(x)
			if core.ObjOf(info, call.Fun) == cb {
				uses++
				o.Count(1)
				k, isK := core.IntConst(info, call.Args[0])
				if !isK || k != -1 {
					o.FailAt(fn.Site(call, ""), "%s: the callback is invoked with %s inside NextPageNumber", c.Prog.Pos(call.Pos()), c.Prog.Src(call.Args[0]))
				}
				return true
			}
			for _, a := range call.Args {
				if core.ObjOf(info, a) != cb {
					continue
				}
				uses++
				o.Count(1)
				if id, ok := call.Fun.(*ast.Ident); ok && id.Name == "append" {
					continue
				}
				o.FailAt(fn.Site(call, ""), "%s: the callback is handed to %s before the next page exists: a range opened before that page shifts its number", c.Prog.Pos(call.Pos()), c.Prog.Src(call.Fun))
			}
			return true
		})
		o.Shape(uses >= 2, "uses of the callback not found")
	})
}

// ruleRangeCloseNotifies (C16-R10): the parent of a page range learns the
// number of pages in the range when the range is closed (its page counter
// waits for that number), and pending page-number callbacks are answered.
// Every successful return of Writer.Close lies behind both pieces of
// bookkeeping; an early return for "nothing to do" leaves the counters of all
// later pages unresolved.
func ruleRangeCloseNotifies(c *core.Ctx) {
	const pk = "pdf/pagetree"
	c.Check("C16-R10", pk+".(*Writer).Close/notifies", "every successful return of Close passes the notification of the page-count callbacks and of the pending page-number callbacks", func(o *core.Ob) {
		fn := c.Prog.Func(pk, "(*Writer).Close")
		g := fn.Graph()
		info := fn.Info()
		// the two bookkeeping points: the test on numPagesCb and the loop over nextPageNumberCb
		var tests []*core.V
		for _, v := range g.Vs {
			if v.Cond == nil {
				continue
			}
			var e ast.Node
			if v.Cond.Expr != nil {
				e = v.Cond.Expr
			} else if v.Cond.Range != nil {
				e = v.Cond.Range.X
			}
			if e == nil {
				continue
			}
			s := c.Prog.Src(e)
			if strings.Contains(s, ".numPagesCb") && v.Cond.Range == nil || (v.Cond.Range != nil && strings.Contains(s, ".nextPageNumberCb")) {
				tests = append(tests, v)
				o.At(fn.Site(e, "bookkeeping"))
			}
		}
		o.Shape(len(tests) >= 2, "the notification of numPagesCb / nextPageNumberCb was not found in Close")
		// the "already closed" return is the only success return allowed in front of them
		for _, r := range g.Returns() {
			rs := r.AST.(*ast.ReturnStmt)
			if len(rs.Results) != 2 || !core.IsNil(info, rs.Results[1]) {
				// returns of a call's error (flush) count as success paths too when they are at the end
				if len(rs.Results) != 2 {
					continue
				}
				if _, isCall := ast.Unparen(rs.Results[1]).(*ast.CallExpr); !isCall {
					continue
				}
			}
			o.Count(1)
			closedGuard := g.GuardedBy(r, func(a core.Atom) bool {
				return !a.Neg && a.Tag == nil && strings.HasSuffix(c.Prog.Src(a.Expr), ".isClosed")
			})
			if closedGuard {
				continue
			}
			for _, tv := range tests {
				if !g.Dominates(tv, r) {
					o.FailAt(fn.Site(rs, ""), "%s: Close can return successfully without having notified %s: counters that wait for this range never resolve and the callbacks of all later pages are never called", c.Prog.Pos(rs.Pos()), c.Prog.Src(condNode(tv)))
				}
			}
		}
	})
}

func condNode(v *core.V) ast.Node {
	if v.Cond.Expr != nil {
		return v.Cond.Expr
	}
	return v.Cond.Range.X
}
