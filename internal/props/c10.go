package props

import (
	"fmt"
	"go/ast"
	"go/constant"
	"go/token"
	"go/types"
	"sort"
	"strconv"
	"strings"

	"pdfverif/internal/core"
)

func init() {
	register(&Property{
		ID:       "C10",
		Patterns: []string{"."},
		Run:      runC10,
		Explanation: "Static rules on the standard security handler's algorithms and on what leaves the writer unencrypted: (R1) the constants ISO 32000 prescribes are present by value after constant folding (padding string, 50 MD5 rounds, RC4 rounds 1..19 / 19..0, slowHash's 64 repetitions / 64 rounds / round-32 rule / SHA-256,384,512 by remainder / AES-128-CBC with K[0:16],K[16:32], the /Perms block layout 0xFF fill, T/F, 'adb', the 0xFFFFFFFF suffix, 'sAlT', key length min(n+5,16), /P as signed 32 bit) and the /Encrypt dictionary written by AsDict is the one parseEncryptDict accepts; " +
			"(R2) the per-object key input has the exact byte layout key | num[0..2] | gen[0..1] (| sAlT for AES), decided by a symbolic byte-layout evaluation of the buffer construction; (R3) every data-encryption IV is filled from crypto/rand with a checked error and written first; (R4) the only plaintext exemptions are the documented ones (encryption off before the xref section, refIsPlaintext only for the metadata stream under EncryptMetadata=false, the three conditions that skip stream encryption, unconditional string encryption, the current-object reference guarded by inStream, object-stream members formatted into a buffer); " +
			"(R5) /Encrypt and /ID are direct trailer entries built before content, ID[0] feeds the key derivation; (R6) object numbers are capped at 2^24 and generations at 2^16-1 (injective key input). " +
			"Decides these for all passwords/objects at once; does NOT decide ciphertext values, PKCS#7 arithmetic, or interoperability with an independent implementation (a dynamic oracle).",
	})
}

func runC10(c *core.Ctx) {
	c.Guard(func() { ruleCryptoConstants(c, "C10-R1") })
	c.Guard(func() { ruleEncryptDictTables(c) })
	c.Guard(func() { ruleKeyForRefLayout(c) })
	c.Guard(func() { ruleIVProvenance(c) })
	c.Guard(func() { ruleEncOffBeforeXRef(c, "C10-R4") })
	c.Guard(func() { ruleInStreamGuards(c, "C10-R4") })
	c.Guard(func() { ruleStringEncryptionUnconditional(c, "C10-R4") })
	c.Guard(func() { rulePlaintextExemptions(c) })
	c.Guard(func() { ruleUserKeyComparison(c, "C10-R8") })
	c.Guard(func() { ruleNoArgMutation(c, "C10-R7") }) // an in-place cipher turns the second write of the same string into plaintext
	c.Guard(func() { ruleTrailerEncrypt(c) })
	c.Guard(func() { ruleRefLimits(c, "C10-R6") })
	c.Check("C10-R6", "pdf.limits", "object numbers are below 2^24 and generations at most 2^16-1: exactly the widths mixed into the per-object key", func(o *core.Ob) {
		o.Count(2)
		if v := c.Prog.ConstInt("pdf", "maxXRefSize"); v != 1<<24 {
			o.Fail("maxXRefSize = %d, want 2^24", v)
		}
		if v := c.Prog.ConstInt("pdf", "maxGeneration"); v != 1<<16-1 {
			o.Fail("maxGeneration = %d, want 65535", v)
		}
	})
}

// tripCount recognises the iteration count and range of simple loops.
type trip struct {
	n      int64 // number of iterations
	lo, hi int64 // first and last value of the index (if any)
	ok     bool
}

func tripOf(info *types.Info, s ast.Stmt) trip {
	switch x := s.(type) {
	case *ast.RangeStmt:
		if k, ok := core.IntConst(info, x.X); ok {
			return trip{n: k, lo: 0, hi: k - 1, ok: true}
		}
	case *ast.ForStmt:
		if x.Init == nil || x.Cond == nil || x.Post == nil {
			return trip{}
		}
		as, ok := x.Init.(*ast.AssignStmt)
		if !ok || len(as.Rhs) != 1 {
			return trip{}
		}
		a, ok := core.IntConst(info, as.Rhs[0])
		if !ok {
			if call, isCall := as.Rhs[0].(*ast.CallExpr); isCall && len(call.Args) == 1 {
				a, ok = core.IntConst(info, call.Args[0])
			}
			if !ok {
				return trip{}
			}
		}
		be, ok := x.Cond.(*ast.BinaryExpr)
		if !ok {
			return trip{}
		}
		b, ok := core.IntConst(info, be.Y)
		if !ok {
			return trip{}
		}
		post, ok := x.Post.(*ast.IncDecStmt)
		if !ok {
			return trip{}
		}
		switch {
		case post.Tok == token.INC && be.Op == token.LSS:
			return trip{n: b - a, lo: a, hi: b - 1, ok: true}
		case post.Tok == token.INC && be.Op == token.LEQ:
			return trip{n: b - a + 1, lo: a, hi: b, ok: true}
		case post.Tok == token.DEC && be.Op == token.GEQ:
			return trip{n: a - b + 1, lo: a, hi: b, ok: true}
		case post.Tok == token.DEC && be.Op == token.GTR:
			return trip{n: a - b, lo: a, hi: b + 1, ok: true}
		}
	}
	return trip{}
}

func loopsIn(fn *core.Func) []ast.Stmt {
	var out []ast.Stmt
	ast.Inspect(fn.Decl.Body, func(n ast.Node) bool {
		switch n.(type) {
		case *ast.ForStmt, *ast.RangeStmt:
			out = append(out, n.(ast.Stmt))
		}
		return true
	})
	return out
}

func bodyCalls(info *types.Info, s ast.Stmt, suffix string) bool {
	found := false
	ast.Inspect(s, func(n ast.Node) bool {
		if call, ok := n.(*ast.CallExpr); ok && strings.HasSuffix(core.CalleeKey(info, call), suffix) {
			found = true
		}
		return true
	})
	return found
}

func ruleCryptoConstants(c *core.Ctx, rule string) {
	// 50 MD5 rounds
	for _, name := range []string{"computeFileEncyptionKey", "computeO", "authenticateOwner"} {
		name := name
		c.Check(rule, "pdf.(*stdSecHandler)."+name+"/md5-rounds", "revision >= 3 re-hashes exactly 50 times (ISO 32000 Algorithms 2, 3, 7)", func(o *core.Ob) {
			fn := c.Prog.Func("pdf", "(*stdSecHandler)."+name)
			info := fn.Info()
			n := 0
			for _, l := range loopsIn(fn) {
				if !bodyCalls(info, l, ".Sum") {
					continue
				}
				n++
				o.At(fn.Site(l, "re-hash loop"))
				t := tripOf(info, l)
				if !t.ok {
					core.Undecided("loop shape not recognised")
				}
				if t.n != 50 {
					o.Fail("the MD5 re-hash loop runs %d times, the standard says 50", t.n)
				}
				// each round hashes the first n bytes of the previous digest, n = key length
				// (Algorithm 2 step (i); computeO and authenticateOwner must agree with each other)
				inputs := 0
				for _, cs := range core.CallsIn(info, l, false) {
					var arg ast.Expr
					switch {
					case strings.HasSuffix(cs.Key, ".Write") && len(cs.Call.Args) == 1:
						arg = cs.Call.Args[0]
					case (cs.Key == "crypto/md5.Sum") && len(cs.Call.Args) == 1:
						arg = cs.Call.Args[0]
					default:
						continue
					}
					inputs++
					e := ast.Unparen(arg)
					if id, ok := e.(*ast.Ident); ok {
						if obj := info.ObjectOf(id); obj != nil {
							ds := core.AssignsTo(info, fn.Decl, obj)
							if len(ds) == 1 {
								if as, ok := ds[0].(*ast.AssignStmt); ok && len(as.Rhs) == 1 {
									e = ast.Unparen(as.Rhs[0])
								}
							}
						}
					}
					sl, ok := e.(*ast.SliceExpr)
					if !ok || sl.Low != nil || sl.High == nil || !strings.HasSuffix(strings.Trim(core.ExprStrAliased(fn, sl.High), "()"), ".keyBytes") {
						if ok && sl.Low == nil && sl.High != nil {
							if _, isK := core.IntConst(info, sl.High); !isK && !strings.Contains(core.ExprStrAliased(fn, sl.High), "keyBytes") {
								// a bound the rule cannot relate to keyBytes
								o.Unrec("%s: a re-hash round hashes %s: whether the bound is the key length is not followed", c.Prog.Pos(cs.Call.Pos()), c.Prog.Src(arg))
								continue
							}
						}
						o.FailAt(fn.Site(cs.Call, ""), "%s: a re-hash round hashes %s; it must hash only the first keyBytes bytes of the previous digest", c.Prog.Pos(cs.Call.Pos()), c.Prog.Src(arg))
					}
				}
				o.Shape(inputs == 1, "expected one hash input per round, found %d", inputs)
				// guarded by R >= 3
				g := fn.Graph()
				v := g.VertexOf(loopFirstNode(l))
				if v != nil {
					ok := g.GuardedBy(v, func(a core.Atom) bool {
						cmp, isCmp := a.AsCmp()
						if !isCmp || !strings.HasSuffix(core.ExprStrAliased(fn, cmp.L), ".R") {
							return false
						}
						k, isK := core.IntConst(info, cmp.R)
						return isK && (cmp.Op == token.GEQ && k == 3 || cmp.Op == token.GTR && k == 2)
					})
					o.Require(ok, "the re-hash loop is not restricted to revision >= 3")
				}
			}
			o.Shape(n == 1, "expected one re-hash loop, found %d", n)
		})
	}
	// RC4 rounds
	type rc struct {
		fn     string
		lo, hi int64
	}
	for _, r := range []rc{{"computeO", 1, 19}, {"computeU", 1, 19}, {"authenticateOwner", 19, 0}} {
		r := r
		c.Check(rule, "pdf.(*stdSecHandler)."+r.fn+"/rc4-rounds", "the 19 additional RC4 passes use the keys XORed with 1..19 (encrypt) respectively 19..0 (decrypt)", func(o *core.Ob) {
			fn := c.Prog.Func("pdf", "(*stdSecHandler)."+r.fn)
			info := fn.Info()
			n := 0
			for _, l := range loopsIn(fn) {
				if !bodyCalls(info, l, ".XORKeyStream") {
					continue
				}
				n++
				o.At(fn.Site(l, "RC4 pass loop"))
				t := tripOf(info, l)
				if !t.ok {
					o.Unrec("the loop of the RC4 passes is not a counting loop with constant bounds: the key modifiers are not enumerated")
					continue
				}
				// the modifier of a pass: what the key bytes are XORed with, as a function of the loop
				// variable (the variable itself, or a local computed from it: i := byte(19 - round))
				lo, hi := t.lo, t.hi
				if mod, lv := rc4Modifier(fn, l); mod != nil && lv != nil && core.ObjOf(info, mod) != lv {
					first, last, okF, okL := int64(0), int64(0), false, false
					dec, _ := c.Prog.Tabulate(fn, mod, nil, map[string][]int64{core.VarName(lv): {t.lo, t.hi}}, func(env map[string]int64, n int64, _ bool) {
						if v, _ := core.EnvGet(env, core.VarName(lv)); v == t.lo {
							first, okF = n, true
						} else if v == t.hi {
							last, okL = n, true
						}
					})
					if !dec || !okF || !okL {
						o.Unrec("the key modifier %s of the RC4 passes was not evaluated for the loop variable %s", core.ExprStr(mod), lv.Name())
						continue
					}
					lo, hi = first, last
				}
				if lo != r.lo || hi != r.hi {
					o.Fail("RC4 passes use key modifiers %d..%d, the standard says %d..%d", lo, hi, r.lo, r.hi)
				}
				// key[j] = base[j] ^ i
				xor := false
				ast.Inspect(l, func(m ast.Node) bool {
					if be, ok := m.(*ast.BinaryExpr); ok && be.Op == token.XOR {
						xor = true
					}
					return true
				})
				o.Require(xor, "the pass key is not XORed with the pass number")
			}
			o.Shape(n == 1, "expected one RC4 pass loop, found %d", n)
		})
	}
	c.Check(rule, "pdf.slowHash", "Algorithm 2.B: 64 repetitions of the input, at least 64 rounds, continue while last byte > round-32, hash selected by remainder mod 3 (SHA-256/384/512), AES-128-CBC keyed with K[0:16] and IV K[16:32], result K[0:32]", func(o *core.Ob) {
		fn := c.Prog.Func("pdf", "slowHash")
		info := fn.Info()
		src := ""
		var outer *ast.ForStmt
		var inner ast.Stmt
		for _, l := range loopsIn(fn) {
			if fs, ok := l.(*ast.ForStmt); ok && outer == nil {
				outer = fs
			}
			if bodyCalls(info, l, "builtin.append") {
				if _, isRange := l.(*ast.RangeStmt); isRange {
					inner = l
				}
			}
		}
		if outer == nil || inner == nil {
			core.Undecided("loop structure of slowHash not recognised")
		}
		o.At(fn.Site(outer, "round loop"))
		slowHashTermination(c, o, fn, outer)
		if outer.Cond == nil {
			o.Unrec("the round loop of slowHash has no condition in its header: the hash selection and the input construction are not located in this form")
			return
		}
		_ = src
		t := tripOf(info, inner)
		o.Require(t.ok && t.n == 64, "the input is repeated %d times, want 64", t.n)
		// hash selection
		sel := map[int64]string{}
		ast.Inspect(outer.Body, func(n ast.Node) bool {
			if cc, ok := n.(*ast.CaseClause); ok && len(cc.List) == 1 {
				if k, ok := core.IntConst(info, cc.List[0]); ok {
					for _, s := range cc.Body {
						if as, ok := s.(*ast.AssignStmt); ok {
							if call, ok := as.Rhs[0].(*ast.CallExpr); ok {
								sel[k] = core.CalleeKey(info, call)
							}
						}
					}
				}
			}
			return true
		})
		if len(sel) == 0 {
			// the same selection through a table of constructors indexed by the remainder
			ast.Inspect(outer.Body, func(n ast.Node) bool {
				call, ok := n.(*ast.CallExpr)
				if !ok || len(call.Args) != 0 {
					return true
				}
				ix, ok := ast.Unparen(call.Fun).(*ast.IndexExpr)
				if !ok {
					return true
				}
				tv, ok := core.ObjOf(info, ix.X).(*types.Var)
				if !ok || tv.Pkg() == nil || tv.Parent() != tv.Pkg().Scope() {
					return true
				}
				_, init, ipkg := c.Prog.Var("pdf", tv.Name())
				cl, isCL := ast.Unparen(init).(*ast.CompositeLit)
				if init == nil || !isCL {
					return true
				}
				next := int64(0)
				for _, el := range cl.Elts {
					val := el
					if kv, isKV := el.(*ast.KeyValueExpr); isKV {
						if k, isK := core.IntConst(ipkg.TypesInfo, kv.Key); isK {
							next = k
						}
						val = kv.Value
					}
					var id *ast.Ident
					switch x := ast.Unparen(val).(type) {
					case *ast.Ident:
						id = x
					case *ast.SelectorExpr:
						id = x.Sel
					}
					if id != nil {
						if f, isF := ipkg.TypesInfo.Uses[id].(*types.Func); isF && f.Pkg() != nil {
							sel[next] = f.Pkg().Path() + "." + f.Name()
						}
					}
					next++
				}
				return true
			})
		}
		want := map[int64]string{0: "crypto/sha256.New", 1: "crypto/sha512.New384", 2: "crypto/sha512.New"}
		if len(sel) == 0 {
			o.Unrec("how the hash function is selected from the remainder was not found (neither a switch over the remainder nor a table of constructors)")
		}
		for k, w := range want {
			o.Count(1)
			if len(sel) > 0 && sel[k] != w {
				o.Fail("remainder %d selects %s, want %s", k, sel[k], w)
			}
		}
		mod3 := false
		ast.Inspect(outer.Body, func(n ast.Node) bool {
			if as, ok := n.(*ast.AssignStmt); ok && as.Tok == token.REM_ASSIGN {
				if k, ok := core.IntConst(info, as.Rhs[0]); ok && k == 3 {
					mod3 = true
				}
			}
			return true
		})
		o.Require(mod3, "remainder is not taken modulo 3")
		// AES key / IV
		for _, cs := range core.CallsIn(info, outer.Body, false) {
			switch cs.Key {
			case "crypto/aes.NewCipher":
				o.Require(sliceText(info, cs.Call.Args[0]) == "K[:16]", "AES key is %s, want K[:16]", core.ExprStr(cs.Call.Args[0]))
			case "crypto/cipher.NewCBCEncrypter":
				o.Require(sliceText(info, cs.Call.Args[1]) == "K[16:32]", "AES IV is %s, want K[16:32]", core.ExprStr(cs.Call.Args[1]))
			}
		}
		// rem from first 16 bytes
		first16 := false
		ast.Inspect(outer.Body, func(n ast.Node) bool {
			if rs, ok := n.(*ast.RangeStmt); ok && sliceText(info, rs.X) == "K1[:16]" {
				first16 = true
			}
			return true
		})
		o.Require(first16, "the remainder is not computed from the first 16 bytes of E")
		// initial hash is SHA-256, result K[:32]
		nInit := 0
		for _, call := range core.CallsTo(info, fn.Decl, false, "crypto/sha256.New") {
			if call.Pos() < outer.Pos() || call.Pos() > outer.End() {
				nInit++
			}
		}
		for _, call := range core.CallsTo(info, fn.Decl, false, "crypto/sha256.Sum256") {
			if call.Pos() < outer.Pos() {
				nInit++
			}
		}
		o.Require(nInit == 1, "the initial hash must be SHA-256 (found %d SHA-256 computations outside the round loop)", nInit)
		for _, r := range fn.Graph().Returns() {
			rs := r.AST.(*ast.ReturnStmt)
			o.Require(sliceText(info, rs.Results[0]) == "K[:32]", "slowHash returns %s, want K[:32]", core.ExprStr(rs.Results[0]))
		}
	})
	c.Check(rule, "pdf.(*stdSecHandler).computePerms~checkPerms", "the /Perms block is P (little endian) | FF FF FF FF | 'T' or 'F' | 'adb' | 4 random bytes, and checkPerms verifies exactly these 12 bytes", func(o *core.Ob) {
		fn := c.Prog.Func("pdf", "(*stdSecHandler).computePerms")
		lay := bufferLayout(fn, "buf")
		o.At(fn.Site(fn.Decl, "writer layout"))
		want := map[int]string{0: "sec.P>>0", 1: "sec.P>>8", 2: "sec.P>>16", 3: "sec.P>>24", 4: "255", 5: "255", 6: "255", 7: "255", 8: "70|84", 9: "97", 10: "100", 11: "98"}
		for i, w := range want {
			o.Count(1)
			if lay[i] != w {
				if !explainedBy([]string{lay[i]}, []string{"sec.P"}) {
					o.Unrec("computePerms: byte %d of the /Perms block is %q: not reduced to a byte of P or a constant", i, lay[i])
					continue
				}
				o.Fail("computePerms: byte %d of the /Perms block is %q, want %q", i, lay[i], w)
			}
		}
		rnd := false
		for _, cs := range core.CallsIn(fn.Info(), fn.Decl, false) {
			if cs.Key == "crypto/rand.Read" && sliceText(fn.Info(), cs.Call.Args[0]) == "buf[12:16]" {
				rnd = true
			}
		}
		o.Require(rnd, "bytes 12..15 of /Perms are not random")
		// reader: diff |= buf[i] ^ X
		ck := c.Prog.Func("pdf", "(*stdSecHandler).checkPerms")
		o.At(ck.Site(ck.Decl, "reader check"))
		got := map[int]string{}
		ast.Inspect(ck.Decl.Body, func(n ast.Node) bool {
			as, ok := n.(*ast.AssignStmt)
			if !ok || as.Tok != token.OR_ASSIGN {
				return true
			}
			be, ok := as.Rhs[0].(*ast.BinaryExpr)
			if !ok || be.Op != token.XOR {
				return true
			}
			ix, ok := be.X.(*ast.IndexExpr)
			if !ok {
				return true
			}
			i, ok := core.IntConst(ck.Info(), ix.Index)
			if !ok {
				return true
			}
			got[int(i)] = byteExpr(ck, be.Y)
			return true
		})
		// the same comparison against a table: for i, b := range want { diff |= buf[i] ^ b }
		viaTable := false
		if len(got) == 0 {
			ast.Inspect(ck.Decl.Body, func(n ast.Node) bool {
				rs, ok := n.(*ast.RangeStmt)
				if !ok || rs.Key == nil || rs.Value == nil || len(rs.Body.List) != 1 {
					return true
				}
				tbl, ok := ast.Unparen(rs.X).(*ast.Ident)
				as, ok2 := rs.Body.List[0].(*ast.AssignStmt)
				if !ok || !ok2 || as.Tok != token.OR_ASSIGN {
					return true
				}
				be, ok := ast.Unparen(as.Rhs[0]).(*ast.BinaryExpr)
				if !ok || be.Op != token.XOR {
					return true
				}
				for _, pr := range [][2]ast.Expr{{be.X, be.Y}, {be.Y, be.X}} {
					ix, ok := ast.Unparen(pr[0]).(*ast.IndexExpr)
					if ok && core.ObjOf(ck.Info(), ix.Index) == core.ObjOf(ck.Info(), rs.Key) && core.ObjOf(ck.Info(), pr[1]) == core.ObjOf(ck.Info(), rs.Value) {
						for i, e := range bufferLayout(ck, tbl.Name) {
							got[i] = e
						}
						viaTable = true
					}
				}
				return true
			})
		}
		if !o.Shape(len(got) > 0, "the comparison of the decrypted /Perms block in checkPerms was not recognised") {
			return
		}
		if viaTable {
			for i, w := range want {
				if got[i] != w {
					if !explainedBy([]string{got[i]}, []string{"sec.P"}) {
						o.Unrec("checkPerms: byte %d compared with %q: not reduced to a byte of P or a constant", i, got[i])
						continue
					}
					o.Fail("checkPerms: byte %d compared with %q, want %q", i, got[i], w)
				}
			}
			o.Require(len(got) == 12, "checkPerms verifies %d bytes, want 12", len(got))
			return
		}
		for i, w := range want {
			if i == 8 {
				if got[8] != "emdCode" && got[8] != "70|84" {
					if !explainedBy([]string{got[8]}, []string{"sec.P"}) {
						o.Unrec("checkPerms: byte 8 compared with %q: whether this is the EncryptMetadata code is not followed", got[8])
						continue
					}
					o.Fail("checkPerms: byte 8 compared with %q, want the EncryptMetadata code", got[8])
				}
				continue
			}
			if got[i] != w {
				if !explainedBy([]string{got[i]}, []string{"sec.P"}) {
					o.Unrec("checkPerms: byte %d compared with %q: not reduced to a byte of P or a constant", i, got[i])
					continue
				}
				o.Fail("checkPerms: byte %d compared with %q, want %q", i, got[i], w)
			}
		}
		o.Require(len(got) == 12, "checkPerms verifies %d bytes, want 12", len(got))
		emd := map[string]bool{}
		ast.Inspect(ck.Decl.Body, func(n ast.Node) bool {
			if as, ok := n.(*ast.AssignStmt); ok && core.ExprStr(as.Lhs[0]) == "emdCode" {
				if k, ok := core.IntConst(ck.Info(), as.Rhs[0]); ok {
					emd[string(rune(k))] = true
				}
			}
			return true
		})
		o.Require(emd["T"] && emd["F"] && len(emd) == 2, "EncryptMetadata codes are %v, want T and F", emd)
	})
	c.Check(rule, "pdf.(*stdSecHandler).computeFileEncyptionKey", "Algorithm 2 hashes password | O | P (4 bytes little endian) | ID[0] | (FFFFFFFF when metadata is unencrypted and R >= 4) in this order", func(o *core.Ob) {
		fn := c.Prog.Func("pdf", "(*stdSecHandler).computeFileEncyptionKey")
		info := fn.Info()
		var seq []string
		g := fn.Graph()
		// the input of the first digest: what is written or appended before it
		var first *core.V
		for _, cv := range append(callVerticesSuffix(g, ".Sum"), callVertices(g, "crypto/md5.Sum")...) {
			if first == nil || cv.Call.Pos() < first.AST.Pos() {
				first = cv.V
			}
		}
		pieces, recognised := hashInputPieces(fn, g, func(sink callV) bool {
			return first == nil || sink.V == first || !g.PathExists(first, sink.V, nil)
		})
		if !o.Shape(recognised && len(pieces) > 0, "the construction of the hash input was not recognised") {
			return
		}
		var ffV *core.V
		for _, p := range pieces {
			if p.v.AST != nil {
				o.At(fn.Site(p.v.AST, "hash input"))
			}
			fl := flattenHashPiece(p.s)
			seq = append(seq, fl...)
			if strings.Join(fl, ",") == "255,255,255,255" {
				ffV = p.v
			}
		}
		want := []string{"paddedUserPwd", "sec.O", "sec.P>>0", "sec.P>>8", "sec.P>>16", "sec.P>>24", "sec.ID", "255", "255", "255", "255"}
		if strings.Join(seq, " | ") != strings.Join(want, " | ") {
			if explainedBy(seq, want) {
				o.Fail("hash input is %v, want %v", seq, want)
			} else {
				o.Unrec("hash input is %v: not reduced to the pieces of Algorithm 2 (%v)", seq, want)
			}
		}
		// the FFFFFFFF suffix is guarded by unencryptedMetadata && R >= 4
		if ffV != nil {
			conds := dominatingConds(g, ffV)
			okG := len(conds) == 2 && conds[0] == "sec.R >= 4" && conds[1] == "sec.unencryptedMetadata"
			if !okG {
				// the same two facts through a condition kept in a local, or in another order
				facts := map[string]bool{}
				for _, a := range g.DominatingAtoms(ffV) {
					t := strings.ReplaceAll(core.ExprStrAliased(fn, a.Expr), " ", "")
					if !a.Neg {
						facts[t] = true
					}
				}
				okG = (facts["sec.R>=4"] || facts["(sec.R)>=4"]) && (facts["sec.unencryptedMetadata"] || facts["(sec.unencryptedMetadata)"])
				mentions := false
				for f := range facts {
					if strings.Contains(f, "unencryptedMetadata") || strings.Contains(f, "sec.R") {
						mentions = true
					}
				}
				if !okG && !mentions && len(conds) > 0 {
					o.Unrec("the FFFFFFFF suffix is guarded by %v: not followed to sec.R >= 4 and sec.unencryptedMetadata", conds)
					okG = true
				}
			}
			o.Require(okG, "the FFFFFFFF suffix is guarded by %v, want [sec.R >= 4 sec.unencryptedMetadata]", conds)
		}
		_ = info
		for _, r := range g.Returns() {
			rs := r.AST.(*ast.ReturnStmt)
			fk := strings.ReplaceAll(core.ExprStrAliased(fn, rs.Results[0]), " ", "")
			o.Require(fk == "key[:sec.keyBytes]" || fk == "key[:(sec.keyBytes)]", "the file key is %s, want key[:sec.keyBytes]", core.ExprStr(rs.Results[0]))
		}
	})
	c.Check(rule, "pdf.(*encryptInfo).AsDict/P", "/P is written as a signed 32-bit integer", func(o *core.Ob) {
		fn := c.Prog.Func("pdf", "(*encryptInfo).AsDict")
		keys := core.DictKeysWritten(fn.Info(), fn.Decl, "pdf", "Dict")
		o.Count(1)
		ok := false
		for _, s := range keys["P"] {
			if as, isAs := s.(*ast.AssignStmt); isAs {
				o.At(fn.Site(as, "/P"))
				if strings.ReplaceAll(core.ExprStr(as.Rhs[0]), " ", "") == "Integer(int32(sec.P))" {
					ok = true
				}
				// the same by structure: Integer(int32(<the field P of the security handler>))
				info := fn.Info()
				if outer, isC := ast.Unparen(as.Rhs[0]).(*ast.CallExpr); isC && len(outer.Args) == 1 && core.IsNamed(info.TypeOf(outer), "pdf", "Integer") {
					if inner, isC2 := ast.Unparen(outer.Args[0]).(*ast.CallExpr); isC2 && len(inner.Args) == 1 {
						if b, isB := info.TypeOf(inner).Underlying().(*types.Basic); isB && b.Kind() == types.Int32 {
							if _, isF := core.FieldSel(info, inner.Args[0], "pdf", "stdSecHandler", "P"); isF {
								ok = true
							}
						}
					}
				}
			}
		}
		if len(keys["P"]) == 0 {
			o.Unrec("no store of /P was found in AsDict or the helpers folded into it")
			return
		}
		o.Require(ok, "/P is not Integer(int32(sec.P))")
	})
	rulePasswordPrep(c) // padding string (shared with C09)
}

func loopFirstNode(s ast.Stmt) ast.Node {
	switch x := s.(type) {
	case *ast.RangeStmt:
		return x.X
	case *ast.ForStmt:
		if x.Init != nil {
			return x.Init
		}
		return x.Cond
	}
	return s
}

// byteExpr renders a byte-valued expression in a canonical form:
// byte(x >> k) -> "x>>k", byte(x) -> "x>>0", constants as decimal.
func byteExpr(fn *core.Func, e ast.Expr) string {
	info := fn.Info()
	e = ast.Unparen(e)
	if k, ok := core.IntConst(info, e); ok {
		return itoa(int(k))
	}
	if call, ok := e.(*ast.CallExpr); ok && len(call.Args) == 1 {
		if tv, ok := info.Types[call.Fun]; ok && tv.IsType() {
			arg := ast.Unparen(call.Args[0])
			if be, ok := arg.(*ast.BinaryExpr); ok && be.Op == token.SHR {
				if k, ok := core.IntConst(info, be.Y); ok {
					return core.ExprStrAliased(fn, be.X) + ">>" + itoa(int(k))
				}
			}
			return core.ExprStrAliased(fn, arg) + ">>0"
		}
	}
	return core.ExprStrAliased(fn, e)
}

// hashArg renders the argument of a hash Write.
func hashArg(fn *core.Func, e ast.Expr) string {
	e = ast.Unparen(e)
	if cl, ok := e.(*ast.CompositeLit); ok {
		var parts []string
		for _, el := range cl.Elts {
			parts = append(parts, byteExpr(fn, el))
		}
		return strings.Join(parts, ",")
	}
	if s, ok := core.StringConst(fn.Info(), e); ok {
		return fmt.Sprintf("%q", s)
	}
	if id, ok := e.(*ast.Ident); ok {
		// a local buffer: evaluate its layout
		lay := bufferLayout(fn, id.Name)
		if len(lay) > 0 {
			var idx []int
			for i := range lay {
				idx = append(idx, i)
			}
			sort.Ints(idx)
			var parts []string
			for _, i := range idx {
				parts = append(parts, lay[i])
			}
			return strings.Join(parts, ",")
		}
	}
	if se, ok := e.(*ast.SliceExpr); ok {
		if id, ok := se.X.(*ast.Ident); ok {
			lay := bufferLayout(fn, id.Name)
			if len(lay) > 0 {
				lo, hi := 0, len(lay)
				if se.Low != nil {
					if k, ok := core.IntConst(fn.Info(), se.Low); ok {
						lo = int(k)
					}
				}
				if se.High != nil {
					if k, ok := core.IntConst(fn.Info(), se.High); ok {
						hi = int(k)
					}
				}
				var parts []string
				for i := lo; i < hi; i++ {
					parts = append(parts, lay[i])
				}
				return strings.Join(parts, ",")
			}
		}
	}
	return core.ExprStrAliased(fn, e)
}

// bufferLayout performs a symbolic evaluation of the straight-line
// construction of a fixed-size byte buffer named `name` in fn: composite
// literal initialisation, element stores buf[i] = e, and
// binary.LittleEndian/BigEndian.PutUintNN(buf[a:], v).  The result maps
// byte positions to canonical byte expressions; later writes overwrite
// earlier ones (source order).  Alternatives from if/else are joined by "|".
func bufferLayout(fn *core.Func, name string) map[int]string {
	info := fn.Info()
	lay := map[int]string{}
	set := func(i int, s string, alt bool) {
		if alt && lay[i] != "" && lay[i] != s {
			parts := strings.Split(lay[i], "|")
			parts = append(parts, s)
			sort.Strings(parts)
			lay[i] = strings.Join(parts, "|")
			return
		}
		lay[i] = s
	}
	isBuf := func(e ast.Expr) bool {
		id, ok := ast.Unparen(e).(*ast.Ident)
		return ok && id.Name == name
	}
	var walk func(stmts []ast.Stmt, alt bool)
	walk = func(stmts []ast.Stmt, alt bool) {
		for _, s := range stmts {
			switch x := s.(type) {
			case *ast.AssignStmt:
				for i, l := range x.Lhs {
					if isBuf(l) && i < len(x.Rhs) {
						if cl, ok := ast.Unparen(x.Rhs[i]).(*ast.CompositeLit); ok {
							for j, el := range cl.Elts {
								set(j, byteExpr(fn, el), false)
							}
						}
					}
					if ix, ok := ast.Unparen(l).(*ast.IndexExpr); ok && isBuf(ix.X) && i < len(x.Rhs) {
						if k, ok := core.IntConst(info, ix.Index); ok {
							set(int(k), byteExpr(fn, x.Rhs[i]), alt)
						}
					}
				}
			case *ast.DeclStmt:
				if gd, ok := x.Decl.(*ast.GenDecl); ok {
					for _, sp := range gd.Specs {
						if vs, ok := sp.(*ast.ValueSpec); ok {
							for i, n := range vs.Names {
								if n.Name == name && i < len(vs.Values) {
									if cl, ok := ast.Unparen(vs.Values[i]).(*ast.CompositeLit); ok {
										for j, el := range cl.Elts {
											set(j, byteExpr(fn, el), false)
										}
									}
								}
							}
						}
					}
				}
			case *ast.ExprStmt:
				call, ok := x.X.(*ast.CallExpr)
				if !ok {
					continue
				}
				key := core.CalleeKey(info, call)
				if key == "builtin.copy" && len(call.Args) == 2 {
					// copy(buf[a:], "const")
					dst := ast.Unparen(call.Args[0])
					off := 0
					if se, ok := dst.(*ast.SliceExpr); ok {
						dst = se.X
						if se.Low != nil {
							k, ok := core.IntConst(info, se.Low)
							if !ok {
								continue
							}
							off = int(k)
						}
					}
					src := ast.Unparen(call.Args[1])
					if conv, ok := src.(*ast.CallExpr); ok && len(conv.Args) == 1 {
						if tv, ok := info.Types[conv.Fun]; ok && tv.IsType() {
							src = conv.Args[0]
						}
					}
					if str, ok := core.StringConst(info, src); ok && isBuf(dst) {
						for j := 0; j < len(str); j++ {
							set(off+j, itoa(int(str[j])), alt)
						}
					}
					continue
				}
				width, little := 0, true
				switch {
				case strings.HasSuffix(key, "ndian.PutUint16"):
					width = 2
				case strings.HasSuffix(key, "ndian.PutUint32"):
					width = 4
				case strings.HasSuffix(key, "ndian.PutUint64"):
					width = 8
				}
				if width == 0 || len(call.Args) != 2 {
					continue
				}
				little = strings.Contains(key, "ittleEndian")
				off := 0
				target := ast.Unparen(call.Args[0])
				if se, ok := target.(*ast.SliceExpr); ok {
					if !isBuf(se.X) {
						continue
					}
					if se.Low != nil {
						k, ok := core.IntConst(info, se.Low)
						if !ok {
							core.Undecided("%s: non-constant offset into %s", fn.Key, name)
						}
						off = int(k)
					}
				} else if !isBuf(target) {
					continue
				}
				v := core.ExprStr(call.Args[1])
				if c2, ok := ast.Unparen(call.Args[1]).(*ast.CallExpr); ok && len(c2.Args) == 1 {
					if tv, ok := info.Types[c2.Fun]; ok && tv.IsType() {
						v = core.ExprStr(c2.Args[0])
					}
				}
				for b := 0; b < width; b++ {
					sh := 8 * b
					if !little {
						sh = 8 * (width - 1 - b)
					}
					set(off+b, v+">>"+itoa(sh), alt)
				}
			case *ast.ForStmt:
				// for i := a; i < b; i++ { buf[i] = e } with constant bounds
				init, ok1 := x.Init.(*ast.AssignStmt)
				cond, ok2 := x.Cond.(*ast.BinaryExpr)
				post, ok3 := x.Post.(*ast.IncDecStmt)
				if !ok1 || !ok2 || !ok3 || post.Tok != token.INC || len(init.Lhs) != 1 || len(init.Rhs) != 1 {
					continue
				}
				iv := core.ObjOf(info, init.Lhs[0])
				lo, okLo := core.IntConst(info, init.Rhs[0])
				hi, okHi := core.IntConst(info, cond.Y)
				if iv == nil || !okLo || !okHi || core.ObjOf(info, cond.X) != iv || core.ObjOf(info, post.X) != iv {
					continue
				}
				if cond.Op == token.LEQ {
					hi++
				} else if cond.Op != token.LSS {
					continue
				}
				for _, bs := range x.Body.List {
					as, ok := bs.(*ast.AssignStmt)
					if !ok || len(as.Lhs) != 1 || len(as.Rhs) != 1 || as.Tok != token.ASSIGN {
						continue
					}
					if ix, ok := ast.Unparen(as.Lhs[0]).(*ast.IndexExpr); ok && isBuf(ix.X) && core.ObjOf(info, ix.Index) == iv {
						for k := lo; k < hi && k < 4096; k++ {
							set(int(k), byteExpr(fn, as.Rhs[0]), alt)
						}
					}
				}
			case *ast.IfStmt:
				walk(x.Body.List, true)
				if blk, ok := x.Else.(*ast.BlockStmt); ok {
					walk(blk.List, true)
				}
			case *ast.BlockStmt:
				walk(x.List, alt)
			case *ast.SwitchStmt:
				for _, cl := range x.Body.List {
					walk(cl.(*ast.CaseClause).Body, alt)
				}
			}
		}
	}
	walk(fn.Decl.Body.List, false)
	return lay
}

// hashPiece is one contribution to the input of a hash computation.
type hashPiece struct {
	s string
	v *core.V
}

// hashInputPieces lists, in order, what is fed to the hash in fn: the
// arguments of Write calls and of md5.Sum.  An argument that is a local
// byte slice built by an initial value and a chain of appends is expanded to
// its parts, each at the vertex that adds it.
func hashInputPieces(fn *core.Func, g *core.Graph, keep func(sink callV) bool) (pieces []hashPiece, ok bool) {
	info := fn.Info()
	sinks := append(callVerticesSuffix(g, ".Write"), callVertices(g, "crypto/md5.Sum")...)
	sort.Slice(sinks, func(i, j int) bool { return sinks[i].Call.Pos() < sinks[j].Call.Pos() })
	ok = true
	for _, w := range sinks {
		if len(w.Call.Args) != 1 || (keep != nil && !keep(w)) {
			continue
		}
		arg := ast.Unparen(w.Call.Args[0])
		if se, isSl := arg.(*ast.SliceExpr); isSl && se.Low == nil && se.High == nil {
			arg = ast.Unparen(se.X)
		}
		id, isID := arg.(*ast.Ident)
		var obj types.Object
		if isID {
			obj = info.ObjectOf(id)
		}
		type app struct {
			as   *ast.AssignStmt
			call *ast.CallExpr
		}
		var apps []app
		if obj != nil {
			ast.Inspect(fn.Decl.Body, func(n ast.Node) bool {
				as, isAs := n.(*ast.AssignStmt)
				if !isAs || len(as.Lhs) != 1 || len(as.Rhs) != 1 || as.Pos() > w.Call.Pos() {
					return true
				}
				l, isL := ast.Unparen(as.Lhs[0]).(*ast.Ident)
				call, isC := ast.Unparen(as.Rhs[0]).(*ast.CallExpr)
				if !isL || !isC || info.ObjectOf(l) != obj || len(call.Args) < 2 {
					return true
				}
				if _, isEndian := endianAppend(info, call); core.CalleeKey(info, call) != "builtin.append" && !isEndian {
					return true
				}
				if b, isB := ast.Unparen(call.Args[0]).(*ast.Ident); isB && info.ObjectOf(b) == obj {
					apps = append(apps, app{as, call})
				}
				return true
			})
		}
		if len(apps) == 0 {
			pieces = append(pieces, hashPiece{hashArg(fn, w.Call.Args[0]), w.V})
			continue
		}
		// the initial value of the buffer
		for _, dv := range defVertices(g, obj) {
			var init ast.Expr
			switch x := dv.AST.(type) {
			case *ast.AssignStmt:
				if x.Tok != token.DEFINE {
					continue
				}
				for i, l := range x.Lhs {
					if l2, isL := l.(*ast.Ident); isL && info.ObjectOf(l2) == obj && i < len(x.Rhs) {
						init = x.Rhs[i]
					}
				}
			case *ast.ValueSpec:
				for i, n := range x.Names {
					if info.ObjectOf(n) == obj && i < len(x.Values) {
						init = x.Values[i]
					}
				}
			}
			if init == nil {
				continue
			}
			init = ast.Unparen(init)
			switch x := init.(type) {
			case *ast.CompositeLit:
				if len(x.Elts) > 0 {
					pieces = append(pieces, hashPiece{hashArg(fn, x), dv})
				}
			case *ast.CallExpr:
				key := core.CalleeKey(info, x)
				if key == "builtin.make" && len(x.Args) >= 2 {
					if k, isK := core.IntConst(info, x.Args[1]); isK && k == 0 {
						continue
					}
				}
				if tv, isT := info.Types[x.Fun]; isT && tv.IsType() && len(x.Args) == 1 && core.IsNil(info, x.Args[0]) {
					continue
				}
				if key == "builtin.append" && len(x.Args) >= 2 {
					// data := append(base, b0, b1, ...): the base, then the elements
					// (whether this may write into base's spare capacity is rule C18-R7's question);
					// a base of the form scratch[:0] contributes nothing
					emptyBase := false
					if se, isSl := ast.Unparen(x.Args[0]).(*ast.SliceExpr); isSl && se.High != nil {
						if k, isK := core.IntConst(info, se.High); isK && k == 0 {
							emptyBase = true
						}
					}
					if !emptyBase {
						pieces = append(pieces, hashPiece{hashArg(fn, x.Args[0]), dv})
					}
					if x.Ellipsis.IsValid() {
						pieces = append(pieces, hashPiece{hashArg(fn, x.Args[1]), dv})
					} else {
						var parts []string
						for _, el := range x.Args[1:] {
							parts = append(parts, byteExpr(fn, el))
						}
						pieces = append(pieces, hashPiece{strings.Join(parts, ","), dv})
					}
					continue
				}
				ok = false
			default:
				if !core.IsNil(info, init) {
					ok = false
				}
			}
		}
		for _, a := range apps {
			v := g.VertexOf(a.as)
			if v == nil {
				ok = false
				continue
			}
			if a.call.Ellipsis.IsValid() {
				pieces = append(pieces, hashPiece{hashArg(fn, a.call.Args[1]), v})
				continue
			}
			if bs, isEndian := endianAppend(info, a.call); isEndian {
				// data = binary.LittleEndian.AppendUint32(data, x): the bytes of x, low byte first
				pieces = append(pieces, hashPiece{strings.Join(bs(fn), ","), v})
				continue
			}
			var parts []string
			for _, el := range a.call.Args[1:] {
				parts = append(parts, byteExpr(fn, el))
			}
			pieces = append(pieces, hashPiece{strings.Join(parts, ","), v})
		}
	}
	return pieces, ok
}

func ruleKeyForRefLayout(c *core.Ctx) {
	const rule = "C10-R2"
	c.Check(rule, "pdf.(*stdSecHandler).KeyForRef", "for revisions 2-4 the per-object key is MD5(file key | object number bytes 0,1,2 | generation bytes 0,1 | 'sAlT' for AES) truncated to min(n+5,16); for revisions 5-6 it is the file key itself", func(o *core.Ob) {
		fn := c.Prog.Func("pdf", "(*stdSecHandler).KeyForRef")
		g := fn.Graph()
		info := fn.Info()
		pieces, recognised := hashInputPieces(fn, g, nil)
		if !o.Shape(recognised && len(pieces) > 0, "the construction of the hash input was not recognised") {
			return
		}
		// resolve num/gen to their definitions
		repl := map[string]string{}
		ast.Inspect(fn.Decl.Body, func(n ast.Node) bool {
			if as, ok := n.(*ast.AssignStmt); ok && as.Tok == token.DEFINE && len(as.Lhs) == 1 {
				if id, ok := as.Lhs[0].(*ast.Ident); ok {
					repl[id.Name] = strings.ReplaceAll(core.ExprStr(as.Rhs[0]), " ", "")
				}
			}
			return true
		})
		norm := func(p string) string {
			if j := strings.Index(p, ">>"); j > 0 {
				base := p[:j]
				for k := 0; k < 3; k++ {
					if r, ok := repl[base]; ok && !strings.Contains(r, "make(") {
						base = r
					}
				}
				// strip integer conversions
				for _, conv := range []string{"uint32(", "uint16(", "uint64(", "int("} {
					if strings.HasPrefix(base, conv) && strings.HasSuffix(base, ")") {
						base = base[len(conv) : len(base)-1]
					}
				}
				return base + p[j:]
			}
			return p
		}
		var seq []string
		var saltV *core.V
		for _, p := range pieces {
			if p.v.AST != nil {
				o.At(fn.Site(p.v.AST, "hash input"))
			}
			for _, el := range flattenHashPiece(p.s) {
				seq = append(seq, norm(el))
			}
			if strings.Join(flattenHashPiece(p.s), ",") == "115,65,108,84" {
				saltV = p.v
			}
		}
		want := []string{"sec.key", "ref.Number()>>0", "ref.Number()>>8", "ref.Number()>>16", "ref.Generation()>>0", "ref.Generation()>>8", "115", "65", "108", "84"}
		o.Fact("per-object key input: %v", seq)
		if strings.Join(seq, " | ") != strings.Join(want, " | ") {
			if explainedBy(seq, want) {
				o.Fail("per-object key input is %v, ISO 32000-2 7.6.3.2 says %v", seq, want)
			} else {
				o.Unrec("per-object key input is %v: not reduced to the pieces of ISO 32000-2 7.6.3.2 (%v)", seq, want)
			}
		}
		if saltV != nil {
			isAES := func(e ast.Expr) bool {
				if id, ok := ast.Unparen(e).(*ast.Ident); ok {
					if cst, ok := info.ObjectOf(id).(*types.Const); ok {
						return cst.Name() == "cipherAES"
					}
				}
				return false
			}
			isCipher := func(e ast.Expr) bool {
				_, name, ok := selName(e)
				return ok && name == "Cipher"
			}
			okSalt := g.GuardedBy(saltV, func(a core.Atom) bool {
				if a.Tag != nil {
					return !a.Neg && isCipher(a.Tag) && isAES(a.Expr)
				}
				if cmp, ok := a.AsCmp(); ok && cmp.Op == token.EQL {
					return (isCipher(cmp.L) && isAES(cmp.R)) || (isCipher(cmp.R) && isAES(cmp.L))
				}
				return false
			})
			o.Require(okSalt, "the 'sAlT' suffix is not restricted to AES (guards %v)", dominatingConds(g, saltV))
		}
		// key length
		var minCalls []*ast.CallExpr
		okLen := false
		ast.Inspect(fn.Decl.Body, func(n ast.Node) bool {
			if call, ok := n.(*ast.CallExpr); ok && core.CalleeKey(info, call) == "builtin.min" && len(call.Args) == 2 {
				minCalls = append(minCalls, call)
				for i := 0; i < 2; i++ {
					sum, isSum := ast.Unparen(call.Args[i]).(*ast.BinaryExpr)
					b, _ := core.IntConst(info, call.Args[1-i])
					if !isSum || sum.Op != token.ADD || b != 16 {
						continue
					}
					for _, pr := range [][2]ast.Expr{{sum.X, sum.Y}, {sum.Y, sum.X}} {
						_, name, isSel := selName(pr[0])
						if five, isC := core.IntConst(info, pr[1]); isSel && name == "keyBytes" && isC && five == 5 {
							okLen = true
						}
					}
				}
			}
			return true
		})
		// the same with a test: l := n + 5; if l > 16 { l = 16 }
		clamped := func(obj types.Object) bool {
			if obj == nil {
				return false
			}
			base, clamp := 0, 0
			for _, dv := range defVertices(g, obj) {
				as, ok := dv.AST.(*ast.AssignStmt)
				if !ok || len(as.Lhs) != 1 || len(as.Rhs) != 1 {
					return false
				}
				if sum, isSum := ast.Unparen(as.Rhs[0]).(*ast.BinaryExpr); isSum && sum.Op == token.ADD {
					okSum := false
					for _, pr := range [][2]ast.Expr{{sum.X, sum.Y}, {sum.Y, sum.X}} {
						_, name, isSel := selName(pr[0])
						if five, isC := core.IntConst(info, pr[1]); isSel && name == "keyBytes" && isC && five == 5 {
							okSum = true
						}
					}
					if !okSum {
						return false
					}
					base++
					continue
				}
				if k, isK := core.IntConst(info, as.Rhs[0]); isK && k == 16 {
					under := g.GuardedBy(dv, func(a core.Atom) bool {
						cmp, isCmp := a.AsCmp()
						if !isCmp {
							return false
						}
						l, r, op := cmp.L, cmp.R, cmp.Op
						if op == token.LSS || op == token.LEQ {
							l, r = r, l
							op = map[token.Token]token.Token{token.LSS: token.GTR, token.LEQ: token.GEQ}[op]
						}
						kk, isKK := core.IntConst(info, r)
						return core.ObjOf(info, l) == obj && isKK && (op == token.GTR && kk == 16 || op == token.GEQ && (kk == 16 || kk == 17))
					})
					if !under {
						return false
					}
					clamp++
					continue
				}
				return false
			}
			return base == 1 && clamp == 1
		}
		if !okLen {
			ast.Inspect(fn.Decl.Body, func(n ast.Node) bool {
				if se, ok := n.(*ast.SliceExpr); ok && se.High != nil && clamped(core.ObjOf(info, se.High)) {
					okLen = true
				}
				return true
			})
		}
		o.Require(okLen, "the per-object key length is not min(n+5, 16)")
		// revisions: which returns can be reached under each value of R
		var rexpr ast.Expr
		ast.Inspect(fn.Decl.Body, func(n ast.Node) bool {
			if se, ok := n.(*ast.SelectorExpr); ok && se.Sel.Name == "R" && rexpr == nil {
				if _, isField := info.ObjectOf(se.Sel).(*types.Var); isField {
					rexpr = se
				}
			}
			return true
		})
		if !o.Shape(rexpr != nil, "no test of the revision") {
			return
		}
		var isDigest func(at *core.V, e ast.Expr) bool
		isDigest = func(at *core.V, e ast.Expr) bool {
			for _, vc := range valueCases(g, at, e, 2) {
				if se, isSl := ast.Unparen(vc.Expr).(*ast.SliceExpr); isSl && se.Low == nil && se.High == nil {
					// objKey := digest[:]
					if !isDigest(vc.V, se.X) {
						return false
					}
					continue
				}
				call, ok := ast.Unparen(vc.Expr).(*ast.CallExpr)
				if !ok {
					return false
				}
				key := core.CalleeKey(info, call)
				if key != "crypto/md5.Sum" && !strings.HasSuffix(key, ".Sum") {
					return false
				}
			}
			return true
		}
		isLen := func(at *core.V, e ast.Expr) bool {
			if clamped(core.ObjOf(info, e)) {
				return true
			}
			for _, vc := range valueCases(g, at, e, 2) {
				call, ok := ast.Unparen(vc.Expr).(*ast.CallExpr)
				if !ok || core.CalleeKey(info, call) != "builtin.min" {
					return false
				}
			}
			return true
		}
		aliases := fn.FieldAliases()
		classify := func(at *core.V, e ast.Expr) string {
			e = ast.Unparen(e)
			if id, isID := e.(*ast.Ident); isID {
				// fileKey := sec.key
				if rhs, ok := aliases[info.ObjectOf(id)]; ok {
					e = ast.Unparen(rhs)
				}
			}
			if _, name, ok := selName(e); ok && name == "key" {
				return "the file key"
			}
			if se, ok := e.(*ast.SliceExpr); ok && se.High != nil && isDigest(at, se.X) && isLen(at, se.High) {
				if se.Low == nil {
					return "the truncated hash"
				}
				if k, ok := core.IntConst(info, se.Low); ok && k == 0 {
					return "the truncated hash"
				}
			}
			return strings.ReplaceAll(core.ExprStr(e), " ", "")
		}
		for _, k := range []int64{2, 3, 4, 5, 6} {
			want := "the truncated hash"
			if k >= 5 {
				want = "the file key"
			}
			n := 0
			reach := reachUnder(c, fn, g, core.Atom{Tag: rexpr, Expr: &ast.BasicLit{Kind: token.INT, Value: itoa(int(k))}})
			for _, rv := range g.Returns() {
				rs, ok := rv.AST.(*ast.ReturnStmt)
				if !ok || len(rs.Results) != 2 || !core.IsNil(info, rs.Results[1]) || !reach[rv] {
					continue
				}
				n++
				got := classify(rv, rs.Results[0])
				o.Require(got == want, "revision %d returns %s, want %s", k, got, want)
			}
			o.Require(n > 0, "revision %d has no successful return", k)
		}
	})
}

func ruleIVProvenance(c *core.Ctx) {
	const rule = "C10-R3"
	pkg := c.Prog.Pkg("pdf")
	fixedIV := map[string]string{
		"pdf.slowHash":                       "Algorithm 2.B fixes the IV to K[16:32]",
		"pdf.(*stdSecHandler).computeUAndUE": "Algorithm 8 fixes a zero IV (no padding, single use of a fresh key)",
		"pdf.(*stdSecHandler).computeOAndOE": "Algorithm 9 fixes a zero IV",
	}
	n := 0
	for _, fn := range c.Prog.Funcs(pkg) {
		fn := fn
		g := fn.Graph()
		info := fn.Info()
		for _, cv := range callVertices(g, "crypto/cipher.NewCBCEncrypter") {
			cv := cv
			n++
			c.Check(rule, fn.Key+"/cbc-iv", "every AES-CBC encryption of document data uses an IV that is filled from crypto/rand on all paths (error checked) and is the first thing written", func(o *core.Ob) {
				o.At(fn.Site(cv.Call, "NewCBCEncrypter(…, "+core.ExprStr(cv.Call.Args[1])+")"))
				if why, ok := fixedIV[fn.Key]; ok {
					o.Fact("fixed IV by specification: %s", why)
					return
				}
				if allowedOrOnlyCalledBy(c, fn, func(k string) bool { _, ok := fixedIV[k]; return ok }, 0) {
					o.Fact("fixed IV by specification: helper called only by functions with a fixed IV")
					return
				}
				// the IV: a local slice, or the whole of a local array (iv[:])
				ivOf := func(e ast.Expr) types.Object {
					e = ast.Unparen(e)
					if se, isSl := e.(*ast.SliceExpr); isSl && se.Low == nil && se.High == nil {
						e = se.X
					}
					return core.ObjOf(info, e)
				}
				iv := ivOf(cv.Call.Args[1])
				if v, isVar := iv.(*types.Var); iv == nil || !isVar || v.IsField() {
					o.Fail("the IV is not a local variable")
					return
				}
				// a crypto/rand fill of iv dominates the use
				var fill *core.V
				for _, x := range g.Vs {
					if x.AST == nil {
						continue
					}
					for _, cs := range core.CallsIn(info, x.AST, false) {
						if cs.Key == "io.ReadFull" && len(cs.Call.Args) == 2 && ivOf(cs.Call.Args[1]) == iv {
							if se, ok := cs.Call.Args[0].(*ast.SelectorExpr); ok {
								if pn, ok := info.ObjectOf(se.X.(*ast.Ident)).(*types.PkgName); ok && pn.Imported().Path() == "crypto/rand" && se.Sel.Name == "Reader" {
									fill = x
								}
							}
						}
						if cs.Key == "crypto/rand.Read" && ivOf(cs.Call.Args[0]) == iv {
							fill = x
						}
					}
				}
				if fill == nil {
					o.Fail("the IV is never filled from crypto/rand")
					return
				}
				o.At(fn.Site(fill.AST, "IV filled from crypto/rand"))
				o.Require(g.Dominates(fill, cv.V), "the cipher can be set up on a path that skips the random fill")
				// error checked: the use is on the err == nil side
				okErr := g.GuardedBy(cv.V, func(a core.Atom) bool {
					cmp, isCmp := a.AsCmp()
					if !(isCmp && cmp.Op == token.EQL && core.IsNil(info, cmp.R) && core.ExprStr(cmp.L) == "err") {
						return false
					}
					return true
				})
				o.Require(okErr, "the error of the random fill is not checked before the IV is used")
				// no other store into iv between fill and use
				for _, x := range g.Vs {
					if as, ok := x.AST.(*ast.AssignStmt); ok {
						for _, l := range as.Lhs {
							if ix, ok := ast.Unparen(l).(*ast.IndexExpr); ok && core.ObjOf(info, ix.X) == iv {
								if g.PathExists(fill, x, nil) && g.PathExists(x, cv.V, nil) {
									o.Fail("the IV is modified after the random fill")
								}
							}
						}
					}
				}
				// iv is fresh per call: defined inside this function from make or a slice of a fresh buffer
				fresh := false
				for _, d := range core.AssignsTo(info, fn.Decl, iv) {
					if as, ok := d.(*ast.AssignStmt); ok {
						r := core.ExprStr(as.Rhs[0])
						if strings.HasPrefix(r, "make(") || strings.HasPrefix(r, "out[") {
							fresh = true
						}
					}
				}
				if !fresh {
					// a slice of storage created in this call: x[:] / x.f[:] with x a local array,
					// a local struct, or a pointer to a struct allocated here
					switch freshBytesHere(g, cv.V, cv.Call.Args[1], 4) {
					case 1:
						fresh = true
					case 0:
						o.Unrec("where the IV buffer %s comes from is not followed (is it allocated per call?)", core.ExprStr(cv.Call.Args[1]))
						fresh = true
					}
				}
				o.Require(fresh, "the IV buffer is not allocated per call")
			})
		}
	}
	c.Floor(rule, 5)
	c.Check(rule, "pdf.crypto/rand-source", "random material (IVs, salts, /Perms fill, file ID) comes from crypto/rand, never math/rand", func(o *core.Ob) {
		for _, f := range pkg.Syntax {
			if c.Prog.IsTestFile(f.Pos()) {
				continue
			}
			for _, im := range f.Imports {
				o.Count(1)
				p := strings.Trim(im.Path.Value, `"`)
				if p == "math/rand" || p == "math/rand/v2" {
					o.Fail("%s imports %s", c.Prog.Pos(im.Pos()), p)
				}
			}
		}
		for _, name := range []string{"(*stdSecHandler).computeUAndUE", "(*stdSecHandler).computeOAndOE", "(*stdSecHandler).computePerms"} {
			fn := c.Prog.Func("pdf", name)
			rd := core.CallsTo(fn.Info(), fn.Decl, false, "crypto/rand.Read")
			o.At(fn.Site(fn.Decl, "salt"))
			o.Require(len(rd) == 1, "%s does not draw its salt/fill from crypto/rand", name)
		}
	})
}

func rulePlaintextExemptions(c *core.Ctx) {
	const rule = "C10-R4"
	c.Check(rule, "pdf.Writer.refIsPlaintext", "a stream is exempted from encryption by reference only for the document metadata stream and only when EncryptMetadata is false", func(o *core.Ob) {
		pkg := c.Prog.Pkg("pdf")
		n := 0
		for _, fn := range c.Prog.Funcs(pkg) {
			g := fn.Graph()
			info := fn.Info()
			for _, v := range g.Vs {
				as, ok := v.AST.(*ast.AssignStmt)
				if !ok {
					continue
				}
				for _, l := range as.Lhs {
					ix, ok := ast.Unparen(l).(*ast.IndexExpr)
					if !ok {
						continue
					}
					if _, ok := core.FieldSel(info, ix.X, "pdf", "Writer", "refIsPlaintext"); !ok {
						continue
					}
					n++
					o.At(fn.Site(as, "marks a reference as plaintext"))
					if fn.Key != "pdf.NewWriter" {
						o.FailAt(fn.Site(as, ""), "refIsPlaintext is set outside NewWriter")
						continue
					}
					conds := dominatingConds(g, v)
					has := false
					for _, cnd := range conds {
						if cnd == "unencryptedMetadata" {
							has = true
						}
					}
					o.Require(has, "the exemption is not conditioned on unencryptedMetadata (guards %v)", conds)
					o.Require(core.ExprStr(ix.Index) == "metaRef", "the exempted reference is %s, want the metadata stream's", core.ExprStr(ix.Index))
				}
			}
		}
		o.Shape(n == 1, "expected exactly one place that sets refIsPlaintext, found %d", n)
	})
	c.Check(rule, "pdf.(*Writer).OpenStream/skip-encrypt", "stream data is encrypted unless the reference is exempt or the filter chain starts with a Crypt filter; no other condition skips EncryptStream", func(o *core.Ob) {
		fn := c.Prog.Func("pdf", "(*Writer).OpenStream")
		g := fn.Graph()
		info := fn.Info()
		es := callVertices(g, "pdf.(*encryptInfo).EncryptStream")
		if len(es) != 1 {
			o.Count(1)
			o.Unrec("expected one EncryptStream call, found %d", len(es))
			return
		}
		o.At(fn.Site(es[0].Call, "EncryptStream"))
		conds := dominatingConds(g, es[0].V)
		var rel []string
		for _, cnd := range conds {
			if strings.HasPrefix(cnd, "err ") || cnd == "!(w.inStream)" || strings.Contains(cnd, "exists") || strings.Contains(cnd, "isInteger") {
				continue
			}
			rel = append(rel, cnd)
		}
		o.Fact("guards: %v", rel)
		o.Shape(len(rel) == 2 && rel[0] == "!(skipDefaultEncrypt)" && rel[1] == "w.w.enc != nil", "EncryptStream is guarded by %v, want [!(skipDefaultEncrypt) w.w.enc != nil]", rel)
		o.Require(core.ExprStr(es[0].Call.Args[0]) == "ref", "the stream is encrypted under %s instead of its own reference", core.ExprStr(es[0].Call.Args[0]))
		// definitions of skipDefaultEncrypt
		skip := localVar(fn, "skipDefaultEncrypt", 0)
		var defs []string
		for _, d := range core.AssignsTo(info, fn.Decl, skip) {
			as, ok := d.(*ast.AssignStmt)
			if !ok {
				continue
			}
			rhs := as.Rhs[0]
			// a local that holds the result of the chain test
			if id, isID := ast.Unparen(rhs).(*ast.Ident); isID && len(as.Rhs) == 1 {
				if obj := info.ObjectOf(id); obj != nil {
					if ds := core.AssignsTo(info, fn.Decl, obj); len(ds) == 1 {
						if das, isAs := ds[0].(*ast.AssignStmt); isAs && len(das.Rhs) == 1 {
							rhs = das.Rhs[0]
						}
					}
				}
			}
			if call, isCall := ast.Unparen(rhs).(*ast.CallExpr); isCall && core.CalleeKey(info, call) == "pdf.filterChainStartsWithCrypt" {
				defs = append(defs, "startsWithCrypt")
				continue
			}
			// "true" assigned under a test (a folded-in helper that returns true early) is that test
			if cv := core.ConstOf(info, rhs); cv != nil && cv.Kind() == constant.Bool && constant.BoolVal(cv) {
				if dv := g.VertexOf(as); dv != nil {
					var conds []string
					for _, cnd := range dominatingConds(g, dv) {
						if strings.HasPrefix(cnd, "err ") || cnd == "!(w.inStream)" || strings.Contains(cnd, "exists") || strings.Contains(cnd, "isInteger") || strings.Contains(cnd, "hasLength") || strings.Contains(strings.ToLower(cnd), "instream") {
							continue
						}
						conds = append(conds, strings.ReplaceAll(cnd, " ", ""))
					}
					// the test under which it is set: the one condition that is not a negated earlier exit
					var pos []string
					for _, cnd := range conds {
						if !strings.HasPrefix(cnd, "!(") {
							pos = append(pos, cnd)
						}
					}
					if len(conds) == 1 {
						defs = append(defs, conds[0])
						continue
					}
					if len(pos) == 1 {
						defs = append(defs, pos[0])
						continue
					}
				}
			}
			defs = append(defs, strings.ReplaceAll(core.ExprStr(rhs), " ", ""))
		}
		sort.Strings(defs)
		want := []string{"startsWithCrypt", "w.refIsPlaintext[ref]||leadingCrypt!=nil"}
		// the definitions together: a disjunction of tests, however it is spread over assignments
		flat := func(ds []string) string {
			set := map[string]bool{}
			for _, d := range ds {
				for _, a := range strings.Split(d, "||") {
					set[strings.Trim(a, "()")] = true
				}
			}
			var out []string
			for a := range set {
				out = append(out, a)
			}
			sort.Strings(out)
			return strings.Join(out, ";")
		}
		if strings.Join(defs, ";") != strings.Join(want, ";") && flat(defs) != flat(want) {
			positive := false
			for _, d := range defs {
				if d == "true" {
					positive = true
				}
			}
			has := map[string]bool{}
			for _, d := range defs {
				has[d] = true
			}
			// a combination of the known tests only, but not the expected one
			known := true
			for _, d := range defs {
				for _, a := range strings.FieldsFunc(d, func(r rune) bool { return r == '|' || r == '&' || r == '(' || r == ')' }) {
					switch a {
					case "startsWithCrypt", "w.refIsPlaintext[ref]", "leadingCrypt!=nil", "true", "false":
					default:
						known = false
					}
				}
			}
			if positive || known {
				o.Fail("skipDefaultEncrypt is computed from %v, want %v", defs, want)
			} else {
				o.Unrec("skipDefaultEncrypt is computed from %v: not reduced to the exemption test and the chain test %v", defs, want)
			}
		}
		// encryption is the innermost layer: applied before the filters wrap the writer
		var firstEncode *core.V
		for _, cv := range callVerticesSuffix(g, ".Encode") {
			if firstEncode == nil {
				firstEncode = cv.V
			}
		}
		if firstEncode != nil {
			o.Require(!g.PathExists(firstEncode, es[0].V, nil), "encryption is applied outside the compression filters (must be innermost)")
		}
	})
	c.Check(rule, "pdf.(*Writer).WriteCompressed/members", "members of an object stream are formatted into plain buffers / the stream writer, so their strings are encrypted once, as part of the stream", func(o *core.Ob) {
		fn := c.Prog.Func("pdf", "(*Writer).WriteCompressed")
		info := fn.Info()
		for _, call := range core.CallsTo(info, fn.Decl, false, "pdf.Format") {
			o.At(fn.Site(call, "Format("+core.ExprStr(call.Args[0])+", …)"))
			t := info.TypeOf(call.Args[0])
			if t != nil && core.IsNamed(t, "pdf", "posWriter") {
				o.Fail("a member is formatted directly to the encrypting position writer")
			}
			s := core.ExprStr(call.Args[0])
			if s == "body" || s == "streamBody" {
				continue
			}
			if pt, isPtr := t.(*types.Pointer); isPtr && core.IsNamed(pt.Elem(), "bytes", "Buffer") {
				continue // a plain buffer, whatever it is called
			}
			if strings.HasSuffix(s, ".w") || strings.Contains(s, ".w.") {
				o.Fail("member formatted to %s", s)
				continue
			}
			o.Unrec("member formatted to %s: neither a plain buffer nor the writer of the object stream by name", s)
		}
	})
}

func ruleTrailerEncrypt(c *core.Ctx) {
	const rule = "C10-R5"
	c.Check(rule, "pdf.NewWriter/encrypt-trailer", "the /Encrypt dictionary and /ID are direct trailer entries built before any content, and ID[0] is the identifier given to the key derivation", func(o *core.Ob) {
		fn := c.Prog.Func("pdf", "NewWriter")
		g := fn.Graph()
		info := fn.Info()
		keys := core.DictKeysWritten(info, fn.Decl, "pdf", "Dict")
		for _, k := range []string{"Encrypt", "ID"} {
			o.Count(1)
			if len(keys[k]) == 0 {
				o.Fail("trailer /%s is never set", k)
			}
		}
		for _, s := range keys["Encrypt"] {
			as, ok := s.(*ast.AssignStmt)
			if !ok {
				continue
			}
			o.At(fn.Site(as, "trailer /Encrypt"))
			t := info.TypeOf(as.Rhs[0])
			o.Require(t != nil && core.IsNamed(t, "pdf", "Dict"), "/Encrypt is not a direct dictionary")
		}
		cs := callVertices(g, "pdf.createStdSecHandler")
		if len(cs) != 1 {
			o.Unrec("expected one createStdSecHandler call")
			return
		}
		o.At(fn.Site(cs[0].Call, "key derivation"))
		if got := strings.ReplaceAll(core.ExprStr(cs[0].Call.Args[0]), " ", ""); got != "ID[0]" && resolveText(g, cs[0].V, cs[0].Call.Args[0], 3) != "ID[0]" {
			o.Fail("the key derivation is given %s, want ID[0]", core.ExprStr(cs[0].Call.Args[0]))
		}
		for _, s := range keys["ID"] {
			if as, ok := s.(*ast.AssignStmt); ok {
				o.At(fn.Site(as, "trailer /ID"))
				o.Shape(c.Prog.Src(as.Rhs[0]) == "Array{String(ID[0]),String(ID[1])}", "/ID is %s", c.Prog.Src(as.Rhs[0]))
			}
		}
		// Close writes the same ID
		cl := c.Prog.Func("pdf", "(*Writer).Close")
		for _, s := range core.DictKeysWritten(cl.Info(), cl.Decl, "pdf", "Dict")["ID"] {
			if as, ok := s.(*ast.AssignStmt); ok {
				o.At(cl.Site(as, "trailer /ID at Close"))
				o.Shape(c.Prog.Src(as.Rhs[0]) == "Array{String(w.meta.ID[0]),String(w.meta.ID[1])}", "Close writes /ID %s", c.Prog.Src(as.Rhs[0]))
			}
		}
		// the cipher selection by version
		sel := map[string]string{}
		for _, bv := range g.BranchVertices() {
			if bv.Cond.Expr == nil {
				continue
			}
			cnd := strings.ReplaceAll(core.ExprStr(bv.Cond.Expr), " ", "")
			if !strings.HasPrefix(cnd, "v>=V") {
				continue
			}
			for v := range g.ReachFrom(succ(bv, core.EdgeTrue), true, core.AvoidVs(succ(bv, core.EdgeFalse))) {
				if as, ok := v.AST.(*ast.AssignStmt); ok && core.ExprStr(as.Lhs[0]) == "V" && g.EdgeDominates(v, core.EdgeRef{From: bv, Label: core.EdgeTrue}) {
					if _, dup := sel[cnd]; !dup {
						sel[cnd] = core.ExprStr(as.Rhs[0])
					}
				}
			}
		}
		o.Fact("cipher selection %v", sel)
		if len(sel) == 0 {
			o.Unrec("the selection of the encryption algorithm by version is not written as a chain of version tests (a table?): not decided")
		} else {
			o.Require(sel["v>=V2_0"] == "5" && sel["v>=V1_6"] == "4" && sel["v>=V1_4"] == "2", "encryption algorithm selection by version is %v, want V2_0->5, V1_6->4, V1_4->2", sel)
		}
	})
}

// ruleEncryptDictTables: AsDict writes what parseEncryptDict/getCryptFilter accept.
func ruleEncryptDictTables(c *core.Ctx) {
	const rule = "C10-R1"
	c.Check(rule, "pdf.(*encryptInfo).AsDict~parseEncryptDict", "the /Encrypt dictionary written (V, R, Length, CF/StdCF/CFM, StmF, StrF, O, U, P, OE, UE, Perms, EncryptMetadata) uses the keys and values the reader accepts and ISO 32000-2 Tables 20/21/25 define", func(o *core.Ob) {
		wr := c.Prog.Func("pdf", "(*encryptInfo).AsDict")
		rd := c.Prog.Func("pdf", "(*Reader).parseEncryptDict")
		os := c.Prog.Func("pdf", "openStdSecHandler")
		gc := c.Prog.Func("pdf", "getCryptFilter")
		wk := core.DictKeysWritten(wr.Info(), wr.Decl, "pdf", "Dict")
		rk := map[string]bool{}
		for _, f := range []*core.Func{rd, os, gc} {
			for k := range core.DictKeysRead(f.Info(), f.Decl, "pdf", "Dict") {
				rk[k] = true
			}
		}
		o.At(wr.Site(wr.Decl, "writer"))
		o.At(rd.Site(rd.Decl, "reader"))
		for k := range wk {
			o.Count(1)
			if k == "StdCF" {
				continue // a crypt filter name, looked up dynamically
			}
			if !rk[k] {
				o.Fail("AsDict writes /%s, which the reader never looks at", k)
			}
		}
		for _, k := range []string{"Filter", "V", "R", "O", "U", "P", "OE", "UE", "Perms", "CF", "StmF", "StrF", "Length", "EncryptMetadata"} {
			if len(wk[k]) == 0 {
				o.Fail("AsDict never writes /%s", k)
			}
		}
		// V values and CFM names
		vs := map[string]bool{}
		cfm := map[string]bool{}
		ast.Inspect(wr.Decl.Body, func(n ast.Node) bool {
			if as, ok := n.(*ast.AssignStmt); ok {
				if _, k, ok := core.MapIndexKey(wr.Info(), as.Lhs[0]); ok && k == "V" {
					vs[core.ExprStr(as.Rhs[0])] = true
				}
			}
			if kv, ok := n.(*ast.KeyValueExpr); ok {
				if k, ok := core.StringConst(wr.Info(), kv.Key); ok && k == "CFM" {
					if call, ok := kv.Value.(*ast.CallExpr); ok {
						s, _ := core.StringConst(wr.Info(), call.Args[0])
						cfm[s] = true
					}
				}
			}
			return true
		})
		o.Shape(joinSet(vs) == "Integer(1),Integer(2),Integer(4),Integer(5)", "AsDict writes V values %s", joinSet(vs))
		if len(cfm) == 0 {
			o.Unrec("the /CFM values AsDict writes are not literals at the dictionary entry (a table?): not decided")
		} else {
			o.Require(joinSet(cfm) == "AESV2,AESV3", "AsDict writes CFM values %s, want AESV2 (V4) and AESV3 (V5)", joinSet(cfm))
		}
		// reader's CFM cases
		rcfm := map[string]bool{}
		ast.Inspect(gc.Decl.Body, func(n ast.Node) bool {
			if cc, ok := n.(*ast.CaseClause); ok {
				for _, e := range cc.List {
					if s, ok := core.StringConst(gc.Info(), e); ok {
						rcfm[s] = true
					}
				}
			}
			return true
		})
		// or the keys of a package-level map the function looks the name up in
		ast.Inspect(gc.Decl.Body, func(n ast.Node) bool {
			id, ok := n.(*ast.Ident)
			if !ok {
				return true
			}
			tv, ok := gc.Info().Uses[id].(*types.Var)
			if !ok || tv.Pkg() == nil || tv.Parent() != tv.Pkg().Scope() {
				return true
			}
			if _, isMap := tv.Type().Underlying().(*types.Map); !isMap {
				return true
			}
			_, init, ipkg := c.Prog.Var("pdf", tv.Name())
			if cl, isCL := ast.Unparen(init).(*ast.CompositeLit); init != nil && isCL {
				for _, el := range cl.Elts {
					if kv, isKV := el.(*ast.KeyValueExpr); isKV {
						if s, isS := core.StringConst(ipkg.TypesInfo, kv.Key); isS {
							rcfm[s] = true
						}
					}
				}
			}
			return true
		})
		for k := range cfm {
			o.Require(rcfm[k], "the reader's crypt-filter table has no case for CFM %s", k)
		}
		// reader V cases
		rv := map[int64]bool{}
		ast.Inspect(rd.Decl.Body, func(n ast.Node) bool {
			if cc, ok := n.(*ast.CaseClause); ok {
				for _, e := range cc.List {
					if k, ok := core.IntConst(rd.Info(), e); ok {
						rv[k] = true
					}
				}
			}
			return true
		})
		for _, k := range []int64{1, 2, 4, 5} {
			o.Require(rv[k], "parseEncryptDict has no case for V=%d", k)
		}
	})
}

// ruleUserKeyComparison (C10-R8): Algorithm 6: for revision 3 and 4 only the
// first 16 bytes of /U are significant (the other 16 are arbitrary padding
// that other producers fill with anything); revision 2 compares all 32.  In
// authenticateUser every comparison of the computed with the stored /U either
// slices both operands to [:16] or is dominated by R == 2.
func ruleUserKeyComparison(c *core.Ctx, rule string) {
	c.Check(rule, "pdf.(*stdSecHandler).authenticateUser/compare", "the user-password check compares all of /U only for revision 2; for revisions 3 and 4 it compares the first 16 bytes", func(o *core.Ob) {
		fn := c.Prog.Func("pdf", "(*stdSecHandler).authenticateUser")
		g := fn.Graph()
		info := fn.Info()
		n := 0
		for _, cv := range callVertices(g, "crypto/subtle.ConstantTimeCompare", "bytes.Equal") {
			n++
			o.Count(1)
			o.At(fn.Site(cv.Call, "compares /U"))
			sliced := 0
			for _, a := range cv.Call.Args {
				if sl, ok := ast.Unparen(a).(*ast.SliceExpr); ok && sl.Low == nil && sl.High != nil {
					if k, ok := core.IntConst(info, sl.High); ok && k == 16 {
						sliced++
					}
				}
			}
			if sliced == 2 {
				continue
			}
			isR2 := g.GuardedBy(cv.V, func(a core.Atom) bool {
				cmp, ok := a.AsCmp()
				if !ok || cmp.Op != token.EQL || !strings.HasSuffix(core.ExprStr(cmp.L), ".R") {
					return false
				}
				k, isK := core.IntConst(info, cmp.R)
				return isK && k == 2
			})
			if !isR2 {
				o.FailAt(fn.Site(cv.Call, ""), "%s: %s compares the whole /U entry although the revision may be 3 or 4: conforming files whose padding bytes are not zero are rejected", c.Prog.Pos(cv.Call.Pos()), c.Prog.Src(cv.Call))
			}
		}
		o.Require(n >= 1, "no comparison of /U found")
	})
}

// flattenHashPiece splits a rendered piece of hash input into its elements;
// a quoted string becomes its bytes (decimal), so that "sAlT" and
// 's','A','l','T' compare equal.
func flattenHashPiece(s string) []string {
	if len(s) >= 2 && s[0] == '"' {
		if u, err := strconv.Unquote(s); err == nil {
			var out []string
			for i := 0; i < len(u); i++ {
				out = append(out, itoa(int(u[i])))
			}
			return out
		}
	}
	return strings.Split(s, ",")
}

// freshBytesHere classifies where a byte slice comes from: 1 = storage
// created in this call (make, a local array or struct, a struct allocated
// here, and slices or fields of those), -1 = storage that outlives the call
// (a package-level variable, a field of the receiver or of a parameter),
// 0 = not followed.
func freshBytesHere(g *core.Graph, at *core.V, e ast.Expr, depth int) int {
	info := g.Info
	if depth <= 0 {
		return 0
	}
	switch x := ast.Unparen(e).(type) {
	case *ast.CallExpr:
		if core.CalleeKey(info, x) == "builtin.make" || core.CalleeKey(info, x) == "builtin.new" {
			return 1
		}
		return 0
	case *ast.UnaryExpr:
		if x.Op == token.AND {
			if _, isLit := ast.Unparen(x.X).(*ast.CompositeLit); isLit {
				return 1
			}
			return freshBytesHere(g, at, x.X, depth)
		}
		return 0
	case *ast.CompositeLit:
		return 1
	case *ast.SliceExpr:
		return freshBytesHere(g, at, x.X, depth)
	case *ast.IndexExpr:
		return freshBytesHere(g, at, x.X, depth)
	case *ast.StarExpr:
		return freshBytesHere(g, at, x.X, depth)
	case *ast.SelectorExpr:
		if s := info.Selections[x]; s != nil && s.Kind() == types.FieldVal {
			return freshBytesHere(g, at, x.X, depth)
		}
		return -1 // a package-level variable of another package
	case *ast.Ident:
		v, ok := info.ObjectOf(x).(*types.Var)
		if !ok {
			return 0
		}
		if v.Pkg() != nil && v.Parent() == v.Pkg().Scope() {
			return -1
		}
		// parameters and receivers: storage of the caller
		if g.Fn != nil && g.Fn.Decl != nil {
			isParam := false
			check := func(fl *ast.FieldList) {
				if fl == nil {
					return
				}
				for _, f := range fl.List {
					for _, n := range f.Names {
						if info.ObjectOf(n) == types.Object(v) {
							isParam = true
						}
					}
				}
			}
			check(g.Fn.Decl.Recv)
			check(g.Fn.Decl.Type.Params)
			if isParam && len(defVertices(g, v)) == 0 {
				return -1
			}
		}
		defs := defVertices(g, v)
		if len(defs) == 0 {
			return 0
		}
		res := 1
		for _, d := range defs {
			rhs, ok := rhsFor(info, d, v)
			if !ok {
				return 0
			}
			if rhs == nil {
				// var x T: a local array or struct is storage of this call
				switch v.Type().Underlying().(type) {
				case *types.Array, *types.Struct:
					continue
				}
				return 0
			}
			switch freshBytesHere(g, d, rhs, depth-1) {
			case -1:
				return -1
			case 0:
				res = 0
			}
		}
		return res
	}
	return 0
}

// explainedBy reports whether every piece of got is a number or is built on a
// root that also occurs in want (the text before ">>"): then got is a reading
// of the code in the vocabulary of the specification and a difference is a
// difference of behaviour.  A piece on another root (a helper call, a local
// the evaluation did not reduce, a compound expression) means the code was not
// reduced to that vocabulary: the comparison decides nothing.
func explainedBy(got, want []string) bool {
	roots := map[string]bool{}
	root := func(p string) string {
		if j := strings.Index(p, ">>"); j >= 0 {
			p = p[:j]
		}
		return strings.TrimSpace(p)
	}
	isNum := func(p string) bool {
		if p == "" {
			return false
		}
		for _, alt := range strings.Split(p, "|") {
			for _, ch := range alt {
				if ch < '0' || ch > '9' {
					return false
				}
			}
		}
		return true
	}
	for _, w := range want {
		roots[root(w)] = true
	}
	for _, g := range got {
		if isNum(g) || roots[root(g)] {
			continue
		}
		return false
	}
	return true
}

// slowHashTermination decides the termination test of the round loop of
// Algorithm 2.B by tabulation: with n the number of rounds completed and
// last the last byte of E, the loop goes on exactly when
// n < 64 || last > n-32.  Two forms are understood: the test in the loop
// header (evaluated with the counter equal to n), and a header without
// condition whose body ends in "if B { break }" (evaluated before the post
// statement, with the counter equal to n-1).
func slowHashTermination(c *core.Ctx, o *core.Ob, fn *core.Func, outer *ast.ForStmt) {
	info := fn.Info()
	// the counter: initialised to 0 in the header, incremented in the post statement only
	var ctr types.Object
	if inc, ok := outer.Post.(*ast.IncDecStmt); ok && inc.Tok == token.INC {
		ctr = core.ObjOf(info, inc.X)
	}
	if as, ok := outer.Init.(*ast.AssignStmt); !ok || ctr == nil || len(as.Lhs) != 1 || len(as.Rhs) != 1 || core.ObjOf(info, as.Lhs[0]) != ctr {
		ctr = nil
	} else if k, isK := core.IntConst(info, as.Rhs[0]); !isK || k != 0 {
		ctr = nil
	}
	if ctr == nil {
		o.Unrec("the round loop of slowHash does not count its rounds in the header (i := 0; ...; i++): the termination test is not located in this form")
		return
	}
	for _, d := range core.AssignsTo(info, outer.Body, ctr) {
		o.Unrec("%s: the round counter is also changed in the loop body: the termination test is not followed in this form", c.Prog.Pos(d.Pos()))
		return
	}
	// breaks that leave the round loop
	var breaks []*ast.BranchStmt
	inside := map[string]bool{} // labels in the loop body (the ends of inlined helpers)
	ast.Inspect(outer.Body, func(m ast.Node) bool {
		if ls, ok := m.(*ast.LabeledStmt); ok {
			inside[ls.Label.Name] = true
		}
		return true
	})
	var walk func(n ast.Node, inner bool)
	walk = func(n ast.Node, inner bool) {
		ast.Inspect(n, func(m ast.Node) bool {
			switch x := m.(type) {
			case *ast.FuncLit:
				return false
			case *ast.ForStmt, *ast.RangeStmt, *ast.SwitchStmt, *ast.TypeSwitchStmt, *ast.SelectStmt:
				if m != n {
					walk(m, true)
					return false
				}
			case *ast.BranchStmt:
				if x.Tok == token.BREAK && (x.Label != nil || !inner) || x.Tok == token.GOTO && !(x.Label != nil && inside[x.Label.Name]) {
					breaks = append(breaks, x)
				}
			case *ast.ReturnStmt:
				breaks = append(breaks, &ast.BranchStmt{TokPos: x.Pos(), Tok: token.RETURN})
			}
			return true
		})
	}
	walk(outer.Body, false)
	var test ast.Expr
	offset := int64(0) // counter value at the test = n - offset
	negate := false
	switch {
	case outer.Cond != nil && len(breaks) == 0:
		test = outer.Cond
	case outer.Cond == nil && len(breaks) == 1 && len(outer.Body.List) > 0:
		is, ok := outer.Body.List[len(outer.Body.List)-1].(*ast.IfStmt)
		if ok && is.Init == nil && is.Else == nil && len(is.Body.List) == 1 && is.Body.List[0] == ast.Stmt(breaks[0]) && breaks[0].Tok == token.BREAK && breaks[0].Label == nil {
			test, offset, negate = is.Cond, 1, true
		}
	}
	if test == nil {
		o.Unrec("the round loop of slowHash is left neither by its header condition alone nor by a single 'if ... { break }' at the end of its body: the termination test is not located in this form")
		return
	}
	// leaves: the counter and one other quantity (the last byte of E)
	ctrKey, lastKey := "", ""
	nLeaves := 0
	dec, _ := c.Prog.Tabulate(fn, test, nil, map[string][]int64{"": {0}}, func(env map[string]int64, n int64, b bool) {
		for k := range env {
			nLeaves++
			if strings.HasPrefix(k, core.VarName(ctr)+"@") {
				ctrKey = k
			} else {
				lastKey = k
			}
		}
	})
	if !dec || nLeaves != 2 || ctrKey == "" || lastKey == "" {
		o.Unrec("%s: the termination test %s does not depend on exactly the round counter and one further quantity: not tabulated", c.Prog.Pos(test.Pos()), c.Prog.Src(test))
		return
	}
	// an indexed byte must be the last one of its slice
	ast.Inspect(test, func(m ast.Node) bool {
		ix, ok := m.(*ast.IndexExpr)
		if !ok {
			return true
		}
		want := "len(" + core.ExprStr(ix.X) + ")-1"
		if got := strings.ReplaceAll(core.ExprStr(ix.Index), " ", ""); got != want {
			if _, isK := core.IntConst(info, ix.Index); isK {
				o.FailAt(fn.Site(ix, ""), "%s: the termination test looks at %s, the standard says the last byte of E", c.Prog.Pos(ix.Pos()), c.Prog.Src(ix))
			} else {
				o.Unrec("%s: which byte %s is was not determined", c.Prog.Pos(ix.Pos()), c.Prog.Src(ix))
			}
		}
		return false
	})
	var ns, ls []int64
	for n := offset; n <= 330; n++ {
		ns = append(ns, n-offset)
	}
	for l := int64(0); l < 256; l++ {
		ls = append(ls, l)
	}
	bad := ""
	dec, why := c.Prog.Tabulate(fn, test, nil, map[string][]int64{ctrKey: ns, lastKey: ls}, func(env map[string]int64, _ int64, b bool) {
		n, last := env[ctrKey]+offset, env[lastKey]
		goesOn := b != negate
		if want := n < 64 || last > n-32; goesOn != want && bad == "" {
			verb := map[bool]string{true: "goes on", false: "stops"}
			bad = fmt.Sprintf("after %d rounds with last byte %d the loop %s, the standard says it %s", n, last, verb[goesOn], verb[want])
		}
	})
	o.Count(len(ns) * len(ls))
	if !dec {
		o.Unrec("%s: the termination test %s was not tabulated: %s", c.Prog.Pos(test.Pos()), c.Prog.Src(test), why)
		return
	}
	if bad != "" {
		o.FailAt(fn.Site(test, ""), "termination test %s: %s (continue while n < 64 || last byte > n-32)", c.Prog.Src(test), bad)
	}
}

// sliceText renders a slice expression with constant bounds evaluated
// (K[keyLen:keyLen+aes.BlockSize] is K[16:32]); other expressions are
// rendered as they are, without spaces.
func sliceText(info *types.Info, e ast.Expr) string {
	sl, ok := ast.Unparen(e).(*ast.SliceExpr)
	if !ok {
		return strings.ReplaceAll(core.ExprStr(e), " ", "")
	}
	bound := func(b ast.Expr) string {
		if b == nil {
			return ""
		}
		if k, isK := core.IntConst(info, b); isK {
			return strconv.FormatInt(k, 10)
		}
		return strings.ReplaceAll(core.ExprStr(b), " ", "")
	}
	return strings.ReplaceAll(core.ExprStr(sl.X), " ", "") + "[" + bound(sl.Low) + ":" + bound(sl.High) + "]"
}

// rc4Modifier finds, in the loop of the additional RC4 passes, the expression
// the key bytes are XORed with (locals defined once in the loop body are read
// as their definitions) and the loop variable.  nil when not found.
func rc4Modifier(fn *core.Func, l ast.Stmt) (ast.Expr, types.Object) {
	info := fn.Info()
	var lv types.Object
	var body *ast.BlockStmt
	switch x := l.(type) {
	case *ast.RangeStmt:
		if x.Key != nil {
			lv = core.ObjOf(info, x.Key)
		}
		body = x.Body
	case *ast.ForStmt:
		if as, ok := x.Init.(*ast.AssignStmt); ok && len(as.Lhs) == 1 {
			lv = core.ObjOf(info, as.Lhs[0])
		}
		body = x.Body
	}
	if lv == nil || body == nil {
		return nil, nil
	}
	var mod ast.Expr
	ast.Inspect(body, func(n ast.Node) bool {
		be, ok := n.(*ast.BinaryExpr)
		if !ok || be.Op != token.XOR || mod != nil {
			return true
		}
		// the operand that depends on the loop variable (directly or through a local of the body)
		for _, e := range []ast.Expr{be.Y, be.X} {
			cur := e
			for steps := 0; steps < 3; steps++ {
				if core.Mentions(info, cur, lv) {
					mod = cur
					return false
				}
				obj := core.ObjOf(info, peelConv(info, cur))
				if obj == nil {
					break
				}
				ds := core.AssignsTo(info, body, obj)
				if len(ds) != 1 {
					break
				}
				as, isAs := ds[0].(*ast.AssignStmt)
				if !isAs || len(as.Lhs) != 1 || len(as.Rhs) != 1 {
					break
				}
				cur = as.Rhs[0]
			}
		}
		return true
	})
	return mod, lv
}

// endianAppend recognises binary.LittleEndian/BigEndian.AppendUintNN(buf, x)
// and returns a function that renders the bytes appended, in order.
func endianAppend(info *types.Info, call *ast.CallExpr) (func(fn *core.Func) []string, bool) {
	key := core.CalleeKey(info, call)
	n := 0
	switch {
	case strings.HasSuffix(key, "ndian.AppendUint16"):
		n = 2
	case strings.HasSuffix(key, "ndian.AppendUint32"):
		n = 4
	case strings.HasSuffix(key, "ndian.AppendUint64"):
		n = 8
	}
	if n == 0 || len(call.Args) != 2 || !strings.Contains(key, "encoding/binary") {
		return nil, false
	}
	big := strings.Contains(strings.ToLower(key), "bigendian")
	return func(fn *core.Func) []string {
		var out []string
		for i := 0; i < n; i++ {
			sh := 8 * i
			if big {
				sh = 8 * (n - 1 - i)
			}
			if k, isK := core.IntConst(fn.Info(), call.Args[1]); isK {
				out = append(out, strconv.FormatInt((k>>uint(sh))&0xff, 10))
			} else {
				out = append(out, strings.ReplaceAll(core.ExprStrAliased(fn, call.Args[1]), " ", "")+">>"+strconv.Itoa(sh))
			}
		}
		return out
	}, true
}
