package props

import (
	"go/ast"
	"go/token"
	"go/types"
	"sort"
	"strings"

	"pdfverif/internal/core"
)

func init() {
	register(&Property{
		ID:       "C09",
		Patterns: []string{"."},
		Run:      runC09,
		Explanation: "Typestate and table rules on the standard security handler: (R1) the file key field is stored only on the edge where subtle.ConstantTimeCompare returned 1 for the /U or /O material (and, for revision 6, checkPerms returned nil), with the comparison lengths the standard prescribes; (R2) the key field is read only in the listed key-derivation functions and every key use goes through KeyForRef, which fails without a key; " +
			"(R3) parseEncryptDict returns encryption info only after a successful authenticate, tries the empty password first and the supplied one only on failure, and NewReader/MakeReader never continue past a failed parseEncryptDict; (R4) authenticate tries owner before user, grants PermAll on the owner edge and the /P-derived set on the user edge; " +
			"(R5) the permission bit tables of writer (stdSecPermToP) and reader (stdSecPToPerm) are extracted as trees of (flag, bit, nesting) and compared with each other and with ISO 32000-2 Table 22; canR2 tests the implication pairs revision 2 cannot express; (R6) password preparation constants; (R7) strings are decrypted only with an encryption context and an object reference, and members of object streams are not decrypted individually. " +
			"Decides 'wrong passwords expose nothing' as a typestate property of the key for all passwords at once; does NOT decide that the right password decrypts (algorithmic correctness, partly C10).",
	})
}

func runC09(c *core.Ctx) {
	c.Guard(func() { ruleKeyAfterCompare(c) })
	c.Guard(func() { ruleKeyReaders(c) })
	c.Guard(func() { ruleAuthOrder(c) })
	c.Guard(func() { rulePermTables(c) })
	c.Guard(func() { rulePasswordPrep(c) })
	c.Guard(func() { ruleStringDecryption(c) })
	c.Guard(func() { ruleStringEncryptionUnconditional(c, "C09-R8") })
	c.Guard(func() { ruleNoArgMutation(c, "C09-R9") })   // encrypting a string must not corrupt the value for its next use
	c.Guard(func() { ruleInStreamGuards(c, "C09-R10") }) // strings are encrypted under the key of the object they belong to
	c.Guard(func() { ruleUserKeyComparison(c, "C09-R12") })
	c.Guard(func() { ruleWriterSideDefaults(c, "C09-R13") })
	c.Guard(func() { ruleEncryptMetadataDomain(c, "C09-R14") })
	c.Guard(func() { ruleCryptoConstants(c, "C09-R11") }) // the standard's algorithms: a conforming file's correct password must be accepted
}

func isKeyField(info *types.Info, e ast.Expr) bool {
	_, ok := core.FieldSel(info, e, "pdf", "stdSecHandler", "key")
	return ok
}

// sliceBounds renders the constant bounds of a slice expression "lo:hi", or
// "" for an unsliced value.
func sliceBounds(info *types.Info, e ast.Expr) string {
	se, ok := ast.Unparen(e).(*ast.SliceExpr)
	if !ok {
		return ""
	}
	lo, hi := "0", ""
	if se.Low != nil {
		if k, ok := core.IntConst(info, se.Low); ok {
			lo = itoa(int(k))
		} else {
			lo = "?"
		}
	}
	if se.High != nil {
		if k, ok := core.IntConst(info, se.High); ok {
			hi = itoa(int(k))
		} else {
			hi = "?"
		}
	}
	return lo + ":" + hi
}

func ruleKeyAfterCompare(c *core.Ctx) {
	const rule = "C09-R1"
	c.Floor(rule, 6)
	pkg := c.Prog.Pkg("pdf")
	writerSide := map[string]bool{"pdf.createStdSecHandler": true}
	wantCmp := map[string][]string{ // function -> admissible (left bounds | right bounds) of the compare that guards the store
		"pdf.(*stdSecHandler).authenticateUser":   {"|", "0:16|0:16"},
		"pdf.(*stdSecHandler).authenticateUser6":  {"|0:32"},
		"pdf.(*stdSecHandler).authenticateOwner6": {"|0:32"},
	}
	n := 0
	for _, raw := range c.Prog.Funcs(pkg) {
		// the authenticating functions are looked at in normalised form
		// (helpers folded in); a helper that only they call is covered there
		fn := raw
		if _, listed := wantCmp[raw.Key]; listed {
			fn = c.Prog.Func("pdf", strings.TrimPrefix(raw.Key, "pdf."))
		} else if !writerSide[raw.Key] && !raw.Obj.Exported() && allowedOrOnlyCalledBy(c, raw, func(k string) bool { _, ok := wantCmp[k]; return ok || writerSide[k] }, 0) {
			continue
		}
		g := fn.Graph()
		info := fn.Info()
		for _, v := range g.Vs {
			as, ok := v.AST.(*ast.AssignStmt)
			if !ok {
				continue
			}
			for _, l := range as.Lhs {
				if !isKeyField(info, l) {
					continue
				}
				v := v
				idx := n
				n++
				c.Check(rule, fn.Key+"/key-store#"+itoa(idx), "the file encryption key is stored only after a successful constant-time comparison with the /U or /O entry (and the /Perms check for revision 6)", func(o *core.Ob) {
					o.At(fn.Site(as, "sec.key = "+core.ExprStr(as.Rhs[0])))
					if writerSide[fn.Key] {
						o.Fact("writer side: key generated, not recovered")
						return
					}
					var cmpArgs []string
					// edges on which a constant-time comparison with the stored
					// entry is known to have succeeded; the result may be held
					// in a local that is assigned the comparison in every branch
					var good []core.EdgeRef
					for _, bv := range g.BranchVertices() {
						for _, l := range []core.EdgeLabel{core.EdgeTrue, core.EdgeFalse} {
							for _, a := range bv.Implied(l) {
								cmp, isCmp := a.AsCmp()
								if !isCmp || cmp.Op != token.EQL {
									continue
								}
								k, isK := core.IntConst(info, cmp.R)
								if !isK || k != 1 {
									continue
								}
								all := true
								var args []string
								for _, vc := range valueCases(g, bv, cmp.L, 1) {
									call, isCall := core.IsCallTo(info, vc.Expr, "crypto/subtle.ConstantTimeCompare")
									if !isCall {
										all = false
										break
									}
									// one side must be the stored /U or /O
									s := core.ExprStrAliased(fn, call.Args[0]) + " " + core.ExprStrAliased(fn, call.Args[1])
									if !strings.Contains(s, "sec.U") && !strings.Contains(s, "sec.O") {
										all = false
										break
									}
									args = append(args, sliceBounds(info, call.Args[0])+"|"+sliceBounds(info, call.Args[1]))
								}
								if all && len(args) > 0 {
									good = append(good, core.EdgeRef{From: bv, Label: l})
									if g.EdgeDominates(v, core.EdgeRef{From: bv, Label: l}) {
										cmpArgs = append(cmpArgs, args...)
									}
								}
							}
						}
					}
					ok := len(good) > 0 && g.EdgeDominates(v, good...)
					if !ok {
						o.Fail("the key is stored on a path that does not pass the edge 'ConstantTimeCompare(..., sec.U|sec.O) == 1'")
						return
					}
					want := wantCmp[fn.Key]
					if want == nil {
						o.Fail("key store in a function that is not in the table of authenticating functions")
						return
					}
					for _, got := range cmpArgs {
						found := false
						for _, w := range want {
							if w == got {
								found = true
							}
						}
						if !found {
							o.Fail("comparison covers %q, the standard prescribes one of %v (full 32 bytes for R2, first 16 for R3/R4, 32-byte hash for R5/R6)", got, want)
						}
					}
					if strings.HasSuffix(fn.Key, "6") {
						cp := callVertices(g, "pdf.(*stdSecHandler).checkPerms")
						if len(cp) != 1 || !g.Dominates(cp[0].V, v) {
							o.Fail("revision 6: the key is stored without validating /Perms")
							return
						}
						// the error of checkPerms must be tested and lead away from the store
						okErr := g.GuardedBy(v, func(a core.Atom) bool {
							cmp, isCmp := a.AsCmp()
							return isCmp && cmp.Op == token.EQL && core.IsNil(info, cmp.R) && core.ExprStr(cmp.L) == "err"
						})
						o.Require(okErr, "revision 6: the result of checkPerms does not guard the key store")
					}
				})
			}
		}
	}
	c.Check(rule, "pdf.(*stdSecHandler).authenticateUser/R-cases", "revision 2 compares the full /U, revisions 3 and 4 the first 16 bytes", func(o *core.Ob) {
		fn := c.Prog.Func("pdf", "(*stdSecHandler).authenticateUser")
		g := fn.Graph()
		info := fn.Info()
		for _, cv := range callVertices(g, "crypto/subtle.ConstantTimeCompare") {
			b := sliceBounds(info, cv.Call.Args[0]) + "|" + sliceBounds(info, cv.Call.Args[1])
			o.At(fn.Site(cv.Call, "compare "+b))
			var rs []int64
			for _, bv := range g.BranchVertices() {
				if bv.Cond.Tag != nil && strings.HasSuffix(core.ExprStr(bv.Cond.Tag), ".R") {
					if k, ok := core.IntConst(info, bv.Cond.Expr); ok {
						// does this case lead to the compare without passing another case test?
						if g.ReachFrom(succ(bv, core.EdgeTrue), true, nil)[cv.V] && g.EdgeDominates(cv.V, caseEdgesFor(g, bv)...) {
							rs = append(rs, k)
						}
					}
				}
			}
			sort.Slice(rs, func(i, j int) bool { return rs[i] < rs[j] })
			switch b {
			case "|":
				o.Require(len(rs) == 1 && rs[0] == 2, "full-length comparison is used for revisions %v, want [2]", rs)
			case "0:16|0:16":
				o.Require(len(rs) == 2 && rs[0] == 3 && rs[1] == 4, "16-byte comparison is used for revisions %v, want [3 4]", rs)
			default:
				o.Fail("unexpected comparison range %s", b)
			}
		}
	})
}

// caseEdgesFor returns the true edges of all case tests that share the case
// body of bv (multi-value case clauses).
func caseEdgesFor(g *core.Graph, bv *core.V) []core.EdgeRef {
	body := succ(bv, core.EdgeTrue)
	var out []core.EdgeRef
	for _, x := range g.BranchVertices() {
		if x.Cond.Tag != nil && succ(x, core.EdgeTrue) == body {
			out = append(out, core.EdgeRef{From: x, Label: core.EdgeTrue})
		}
	}
	return out
}

func ruleKeyReaders(c *core.Ctx) {
	const rule = "C09-R2"
	allowed := map[string]string{
		"pdf.(*stdSecHandler).KeyForRef":     "derives the per-object key",
		"pdf.createStdSecHandler":            "writer side: generates the key and derives /U /O /Perms from it",
		"pdf.(*stdSecHandler).computeUAndUE": "writer side: wraps the key into /UE",
		"pdf.(*stdSecHandler).computeOAndOE": "writer side: wraps the key into /OE",
	}
	c.Check(rule, "pdf.stdSecHandler.key/readers", "the file key is read only by KeyForRef and the writer-side derivations; nothing else can hand out or use key material", func(o *core.Ob) {
		pkg := c.Prog.Pkg("pdf")
		for _, fn := range c.Prog.Funcs(pkg) {
			info := fn.Info()
			lhs := map[ast.Expr]bool{}
			ast.Inspect(fn.Decl, func(n ast.Node) bool {
				if as, ok := n.(*ast.AssignStmt); ok {
					for _, l := range as.Lhs {
						lhs[ast.Unparen(l)] = true
					}
				}
				return true
			})
			ast.Inspect(fn.Decl, func(n ast.Node) bool {
				e, ok := n.(ast.Expr)
				if !ok || !isKeyField(info, e) || lhs[e] {
					return true
				}
				o.At(fn.Site(e, "reads sec.key"))
				if !allowedOrOnlyCalledBy(c, fn, func(k string) bool { _, ok := allowed[k]; return ok }, 0) {
					o.FailAt(fn.Site(e, ""), "%s reads the file key but is not in the table of key-handling functions", fn.Key)
				}
				return true
			})
		}
	})
	c.Check(rule, "pdf.(*stdSecHandler).KeyForRef/no-key", "KeyForRef returns key material only when a key was established", func(o *core.Ob) {
		fn := c.Prog.Func("pdf", "(*stdSecHandler).KeyForRef")
		g := fn.Graph()
		info := fn.Info()
		for _, r := range g.Returns() {
			rs := r.AST.(*ast.ReturnStmt)
			if len(rs.Results) != 2 || !core.IsNil(info, rs.Results[1]) {
				continue
			}
			o.At(fn.Site(rs, "returns a key"))
			aliases := fn.FieldAliases()
			ok := g.GuardedBy(r, func(a core.Atom) bool {
				cmp, isCmp := a.AsCmp()
				if !isCmp || cmp.Op != token.NEQ || !core.IsNil(info, cmp.R) {
					return false
				}
				l := cmp.L
				if id, isID := ast.Unparen(l).(*ast.Ident); isID {
					// fileKey := sec.key; if fileKey == nil
					if rhs, isAlias := aliases[info.ObjectOf(id)]; isAlias {
						l = rhs
					}
				}
				return isKeyField(info, l)
			})
			o.Require(ok, "a key is returned without the sec.key != nil edge")
		}
	})
	for _, name := range []string{"EncryptBytes", "DecryptBytes", "EncryptStream", "DecryptStream"} {
		name := name
		c.Check(rule, "pdf.(*encryptInfo)."+name, "cipher keys come from KeyForRef only and a KeyForRef failure aborts", func(o *core.Ob) {
			fn := c.Prog.Func("pdf", "(*encryptInfo)."+name)
			g := fn.Graph()
			info := fn.Info()
			kf := callVertices(g, "pdf.(*stdSecHandler).KeyForRef")
			if len(kf) != 1 {
				o.Count(1)
				o.Unrec("expected exactly one KeyForRef call, found %d", len(kf))
				return
			}
			o.At(fn.Site(kf[0].Call, "KeyForRef"))
			as, ok := kf[0].V.AST.(*ast.AssignStmt)
			if !ok {
				core.Undecided("KeyForRef result not assigned")
			}
			keyObj := core.ObjOf(info, as.Lhs[0])
			for _, cv := range callVertices(g, "crypto/aes.NewCipher", "crypto/rc4.NewCipher") {
				o.At(fn.Site(cv.Call, cv.Key))
				if core.ObjOf(info, cv.Call.Args[0]) != keyObj {
					o.Fail("cipher key is %s, not the result of KeyForRef", core.ExprStr(cv.Call.Args[0]))
				}
				okErr := g.GuardedBy(cv.V, func(a core.Atom) bool {
					cmp, isCmp := a.AsCmp()
					return isCmp && cmp.Op == token.EQL && core.IsNil(info, cmp.R) && core.ExprStr(cmp.L) == "err"
				})
				o.Require(okErr, "the cipher is set up although KeyForRef may have failed")
			}
			// the crypt filter passed is the one for this kind of data
			wantF := "strF"
			if strings.HasSuffix(name, "Stream") {
				wantF = "stmF"
			}
			cfOK := false
			if id, ok := kf[0].Call.Args[0].(*ast.Ident); ok {
				for _, d := range core.AssignsTo(info, fn.Decl, info.ObjectOf(id)) {
					if a, ok := d.(*ast.AssignStmt); ok && strings.HasSuffix(core.ExprStr(a.Rhs[0]), "."+wantF) {
						cfOK = true
					}
				}
			}
			o.Require(cfOK, "%s must select the %s crypt filter", name, wantF)
		})
	}
}

func ruleAuthOrder(c *core.Ctx) {
	const rule = "C09-R3"
	c.Check(rule, "pdf.(*Reader).parseEncryptDict/auth", "the empty password is tried first, the supplied password only when that failed, and encryption info is returned only after a successful authentication", func(o *core.Ob) {
		fn := c.Prog.Func("pdf", "(*Reader).parseEncryptDict")
		g := fn.Graph()
		info := fn.Info()
		auth := callVertices(g, "pdf.(*stdSecHandler).authenticate")
		if len(auth) != 2 {
			o.Count(1)
			o.Unrec("expected two authenticate calls (empty, supplied), found %d", len(auth))
			return
		}
		first, second := auth[0], auth[1]
		o.At(fn.Site(first.Call, "first attempt"))
		o.At(fn.Site(second.Call, "second attempt"))
		if s, ok := core.StringConst(info, first.Call.Args[0]); !ok || s != "" {
			o.Fail("the first authentication attempt does not use the empty password")
		}
		if core.ExprStr(second.Call.Args[0]) != "password" {
			o.Fail("the second authentication attempt does not use the supplied password")
		}
		o.Require(g.Dominates(first.V, second.V), "the supplied password can be tried without trying the empty one first")
		okFail := g.GuardedBy(second.V, func(a core.Atom) bool {
			cmp, isCmp := a.AsCmp()
			return isCmp && cmp.Op == token.NEQ && core.IsNil(info, cmp.R) && core.ExprStr(cmp.L) == "err"
		})
		o.Require(okFail, "the supplied password is tried even when the empty password succeeded (owner/user confusion)")
		for _, r := range g.Returns() {
			rs := r.AST.(*ast.ReturnStmt)
			if len(rs.Results) != 3 || core.IsNil(info, rs.Results[0]) {
				continue
			}
			o.At(fn.Site(rs, "returns encryption info"))
			o.Require(core.IsNil(info, rs.Results[2]), "encryption info is returned together with an error")
			ok := g.GuardedBy(r, func(a core.Atom) bool {
				cmp, isCmp := a.AsCmp()
				return isCmp && cmp.Op == token.EQL && core.IsNil(info, cmp.R) && core.ExprStr(cmp.L) == "err"
			})
			o.Require(ok, "encryption info is returned without the err == nil edge of the last authentication")
			o.Require(g.Dominates(first.V, r), "encryption info is returned without authentication")
			// the permission result is the one returned by authenticate
			o.Require(core.ExprStr(rs.Results[1]) == "perm", "the returned permissions are not those computed by authenticate")
		}
	})
	for _, name := range []string{"NewReader", "(*FileInfo).MakeReader"} {
		name := name
		c.Check(rule, "pdf."+name+"/auth-fatal", "a failed authentication aborts opening: the error is returned as is and no reader is handed out", func(o *core.Ob) {
			fn := c.Prog.Func("pdf", name)
			g := fn.Graph()
			info := fn.Info()
			pe := callVertices(g, "pdf.(*Reader).parseEncryptDict")
			if len(pe) != 1 {
				o.Count(1)
				o.Unrec("expected one parseEncryptDict call, found %d", len(pe))
				return
			}
			o.At(fn.Site(pe[0].Call, "parseEncryptDict"))
			// from the call, every path on which err != nil must reach a return with that err and no success return
			as, ok := pe[0].V.AST.(*ast.AssignStmt)
			if !ok {
				core.Undecided("result of parseEncryptDict is not assigned")
			}
			errObj := core.ObjOf(info, as.Lhs[len(as.Lhs)-1])
			// find the first condition after the call testing err != nil
			var cond *core.V
			for _, bv := range g.BranchVertices() {
				if bv.Cond.Expr == nil || !g.Dominates(pe[0].V, bv) {
					continue
				}
				for _, a := range bv.Implied(core.EdgeTrue) {
					cmp, isCmp := a.AsCmp()
					if isCmp && cmp.Op == token.NEQ && core.ObjOf(info, cmp.L) == errObj && core.IsNil(info, cmp.R) {
						if cond == nil || bv.AST.Pos() < cond.AST.Pos() {
							cond = bv
						}
					}
				}
			}
			if cond == nil {
				o.Fail("the error of parseEncryptDict is not tested")
				return
			}
			// nothing else between call and test
			mid := g.ReachFrom(pe[0].V, false, core.AvoidVs(cond))
			for v := range mid {
				if v.Cond != nil && v != cond {
					o.Fail("control flow branches between parseEncryptDict and the test of its error")
					break
				}
			}
			tv := succ(cond, core.EdgeTrue)
			for v := range g.ReachFrom(tv, true, core.AvoidVs(succ(cond, core.EdgeFalse))) {
				if rs, ok := v.AST.(*ast.ReturnStmt); ok {
					last := rs.Results[len(rs.Results)-1]
					if core.ObjOf(info, last) != errObj {
						// Wrap(err, ...) keeps the AuthenticationError reachable through errors.As; plain replacement does not
						if call, ok := last.(*ast.CallExpr); !ok || core.CalleeKey(info, call) != "pdf.Wrap" {
							o.FailAt(fn.Site(rs, ""), "a failed authentication does not return the authentication error")
						}
					}
					if !core.IsNil(info, rs.Results[0]) {
						o.FailAt(fn.Site(rs, ""), "a reader is returned although authentication failed")
					}
				}
				for _, cs := range core.CallsIn(info, nodeOrEmpty(v), false) {
					if strings.Contains(core.ExprStr(cs.Call.Fun), "shouldExit") {
						o.FailAt(fn.Site(cs.Call, ""), "the error-handling policy is consulted for an authentication failure (recover mode would open the file without a key)")
					}
				}
			}
			// r.enc and the permissions are assigned from the results
			encSet := false
			for _, l := range as.Lhs {
				if strings.HasSuffix(core.ExprStr(l), ".enc") {
					encSet = true
				}
			}
			for v := range g.ReachFrom(succ(cond, core.EdgeFalse), true, nil) {
				if a, ok := v.AST.(*ast.AssignStmt); ok {
					for _, l := range a.Lhs {
						if strings.HasSuffix(core.ExprStr(l), ".enc") {
							encSet = true
						}
					}
				}
			}
			o.Require(encSet, "the authenticated encryption info is not installed in the reader")
		})
	}
	c.Check("C09-R4", "pdf.(*stdSecHandler).authenticate", "the owner password is tried before the user password; owner access grants all permissions, user access the set derived from /P", func(o *core.Ob) {
		fn := c.Prog.Func("pdf", "(*stdSecHandler).authenticate")
		g := fn.Graph()
		info := fn.Info()
		pairs := [][2]string{{"pdf.(*stdSecHandler).authenticateOwner", "pdf.(*stdSecHandler).authenticateUser"}, {"pdf.(*stdSecHandler).authenticateOwner6", "pdf.(*stdSecHandler).authenticateUser6"}}
		for _, p := range pairs {
			ow := callVertices(g, p[0])
			us := callVertices(g, p[1])
			if len(ow) != 1 || len(us) != 1 {
				o.Count(1)
				o.Unrec("expected one call each of %s and %s", p[0], p[1])
				continue
			}
			o.At(fn.Site(ow[0].Call, "owner attempt"))
			o.At(fn.Site(us[0].Call, "user attempt"))
			o.Require(g.Dominates(ow[0].V, us[0].V), "the user password is tried before the owner password")
			// returns between
			for _, r := range g.Returns() {
				rs := r.AST.(*ast.ReturnStmt)
				if len(rs.Results) != 2 || !core.IsNil(info, rs.Results[1]) {
					continue
				}
				afterOwner := g.PathExists(ow[0].V, r, core.AvoidVs(us[0].V))
				afterUser := g.PathExists(us[0].V, r, nil)
				if !afterOwner && !afterUser {
					continue
				}
				okNil := g.GuardedBy(r, func(a core.Atom) bool {
					cmp, isCmp := a.AsCmp()
					return isCmp && cmp.Op == token.EQL && core.IsNil(info, cmp.R) && core.ExprStr(cmp.L) == "err"
				})
				o.Require(okNil, "permissions are granted without err == nil")
				val := core.ExprStrAliased(fn, rs.Results[0])
				val = strings.ReplaceAll(strings.ReplaceAll(val, "(sec.R)", "sec.R"), "(sec.P)", "sec.P")
				if afterOwner && !afterUser {
					o.Require(val == "PermAll", "owner access returns %s, want PermAll", val)
				}
				if afterUser {
					o.Require(val == "stdSecPToPerm(sec.R, sec.P)", "user access returns %s, want stdSecPToPerm(sec.R, sec.P)", val)
				}
			}
		}
		// the final return is an AuthenticationError
		last := g.Returns()
		okFinal := false
		for _, r := range last {
			rs := r.AST.(*ast.ReturnStmt)
			if len(rs.Results) == 2 && strings.Contains(core.ExprStr(rs.Results[1]), "AuthenticationError") {
				okFinal = true
			}
		}
		o.Require(okFinal, "authenticate does not end in an AuthenticationError")
	})
}

func nodeOrEmpty(v *core.V) ast.Node {
	if v.AST == nil {
		return &ast.EmptyStmt{}
	}
	return v.AST
}

// permission tables ----------------------------------------------------------

type permNode struct {
	Flag   string // Perm flag tested == 0 (writer) / list of P bits (reader)
	Bits   string // P bit(s) set in forbidden (writer) / Perm flags cleared (reader)
	Parent string
}

func bitOf(info *types.Info, e ast.Expr) (int, bool) {
	k, ok := core.IntConst(info, e)
	if !ok || k <= 0 {
		return 0, false
	}
	n := 0
	for k > 1 {
		if k&1 != 0 {
			return 0, false
		}
		k >>= 1
		n++
	}
	return n + 1, true // 1-based bit position as in ISO 32000
}

func ruleWriterPermTree(c *core.Ctx, o *core.Ob) map[string]permNode {
	fn := c.Prog.Func("pdf", "stdSecPermToP")
	info := fn.Info()
	out := map[string]permNode{}
	var walk func(stmts []ast.Stmt, parent string)
	walk = func(stmts []ast.Stmt, parent string) {
		for _, s := range stmts {
			is, ok := s.(*ast.IfStmt)
			if !ok {
				continue
			}
			// perm & FLAG == 0
			be, ok := ast.Unparen(is.Cond).(*ast.BinaryExpr)
			if !ok || be.Op != token.EQL || !isZero(info, be.Y) {
				core.Undecided("stdSecPermToP: condition %s is not 'perm&FLAG == 0'", core.ExprStr(is.Cond))
			}
			and, ok := ast.Unparen(be.X).(*ast.BinaryExpr)
			if !ok || and.Op != token.AND {
				core.Undecided("stdSecPermToP: condition %s is not 'perm&FLAG == 0'", core.ExprStr(is.Cond))
			}
			flag := core.ExprStr(and.Y)
			if is.Else != nil {
				core.Undecided("stdSecPermToP: unexpected else branch")
			}
			var bits []string
			for _, bs := range is.Body.List {
				if as, ok := bs.(*ast.AssignStmt); ok && as.Tok == token.OR_ASSIGN {
					b, ok := bitOf(info, as.Rhs[0])
					if !ok {
						core.Undecided("stdSecPermToP: %s is not a single bit", core.ExprStr(as.Rhs[0]))
					}
					bits = append(bits, itoa(b))
				}
			}
			o.At(fn.Site(is, "perm flag "+flag+" -> P bit "+strings.Join(bits, ",")))
			out[flag] = permNode{Flag: flag, Bits: strings.Join(bits, ","), Parent: parent}
			walk(is.Body.List, flag)
		}
	}
	walk(fn.Decl.Body.List, "")
	// initial value and result
	initOK, retOK := false, false
	ast.Inspect(fn.Decl.Body, func(n ast.Node) bool {
		switch x := n.(type) {
		case *ast.AssignStmt:
			if x.Tok == token.DEFINE && core.ExprStr(x.Lhs[0]) == "forbidden" {
				if call, ok := x.Rhs[0].(*ast.CallExpr); ok && len(call.Args) == 1 {
					if k, ok := core.IntConst(info, call.Args[0]); ok && k == 3 {
						initOK = true
					}
				}
			}
		case *ast.ReturnStmt:
			if u, ok := x.Results[0].(*ast.UnaryExpr); ok && u.Op == token.XOR && core.ExprStr(u.X) == "forbidden" {
				retOK = true
			}
		}
		return true
	})
	o.Require(initOK, "stdSecPermToP: bits 1 and 2 must start out forbidden (reserved, must be 0)")
	o.Require(retOK, "stdSecPermToP: the result must be the complement of the forbidden bits (reserved high bits 1)")
	return out
}

func rulePermTables(c *core.Ctx) {
	const rule = "C09-R5"
	// ISO 32000-2 Table 22 (1-based bit positions) with the library's flags
	want := map[string]permNode{
		"PermCopy":          {"PermCopy", "5", ""},
		"PermPrint":         {"PermPrint", "12", ""},
		"PermPrintDegraded": {"PermPrintDegraded", "3", "PermPrint"},
		"PermAnnotate":      {"PermAnnotate", "6", ""},
		"PermForms":         {"PermForms", "9", "PermAnnotate"},
		"PermAssemble":      {"PermAssemble", "11", ""},
		"PermModify":        {"PermModify", "4", ""},
	}
	c.Check(rule, "pdf.stdSecPermToP", "the writer's permission table equals ISO 32000-2 Table 22 with the documented implications (degraded printing is forbidden only together with printing, form filling only together with annotating)", func(o *core.Ob) {
		got := ruleWriterPermTree(c, o)
		for f, w := range want {
			o.Count(1)
			g, ok := got[f]
			if !ok {
				o.Fail("permission %s is never translated to a /P bit", f)
				continue
			}
			if g.Bits != w.Bits {
				o.Fail("%s clears P bit %s, Table 22 says bit %s", f, g.Bits, w.Bits)
			}
			if g.Parent != w.Parent {
				o.Fail("%s is tested under %q, expected under %q (the nesting encodes which combinations are expressible)", f, g.Parent, w.Parent)
			}
		}
		for f := range got {
			if _, ok := want[f]; !ok {
				o.Fail("unexpected permission flag %s in stdSecPermToP", f)
			}
		}
	})
	c.Check(rule, "pdf.stdSecPToPerm", "the reader's permission table is the inverse of the writer's: same bits, same flags, and the nesting that closes the result under the documented implications — tabulated for revisions 2 to 6 and all 128 settings of the seven permission bits", func(o *core.Ob) {
		fn := c.Prog.Func("pdf", "stdSecPToPerm")
		o.At(fn.Site(fn.Decl, ""))
		flag := func(n string) int64 { return c.Prog.ConstInt("pdf", n) }
		all := flag("PermAll")
		bits := []int{3, 4, 5, 6, 9, 11, 12}
		var pdom []int64
		for m := 0; m < 1<<len(bits); m++ {
			var p int64
			for i, b := range bits {
				if m&(1<<i) != 0 {
					p |= 1 << (b - 1)
				}
			}
			pdom = append(pdom, p)
		}
		// ISO 32000-2 Table 22 (and the writer's table stdSecPermToP)
		want := func(R, P int64) int64 {
			bit := func(i int) bool { return P&(1<<(i-1)) != 0 }
			perm := all
			switch {
			case R == 2:
				if !bit(3) {
					perm &^= flag("PermPrint") | flag("PermPrintDegraded")
				}
			case R >= 3:
				if !bit(3) && !bit(12) {
					perm &^= flag("PermPrint") | flag("PermPrintDegraded")
				} else if bit(3) && !bit(12) {
					perm &^= flag("PermPrint")
				}
			}
			if !bit(4) {
				perm &^= flag("PermModify")
				if !bit(11) {
					perm &^= flag("PermAssemble")
				}
			}
			if !bit(5) {
				perm &^= flag("PermCopy")
			}
			if !bit(6) {
				perm &^= flag("PermAnnotate")
				if !bit(9) {
					perm &^= flag("PermForms")
				}
			}
			return perm
		}
		params := fn.Decl.Type.Params.List
		if len(params) == 0 {
			core.Undecided("stdSecPToPerm has no parameters")
		}
		var names []string
		for _, f := range params {
			for _, n := range f.Names {
				names = append(names, n.Name)
			}
		}
		if len(names) != 2 {
			core.Undecided("stdSecPToPerm: expected the parameters (R, P)")
		}
		bad := 0
		decided, reason := c.Prog.TabulateFunc(fn, map[string][]int64{names[0]: {2, 3, 4, 5, 6}, names[1]: pdom}, func(env map[string]int64, got int64, _ bool) {
			o.Count(1)
			R, _ := core.EnvGet(env, names[0])
			P, _ := core.EnvGet(env, names[1])
			if w := want(R, P); got&all != w&all {
				bad++
				if bad <= 3 {
					o.Fail("for revision %d and /P bits %#x the reader grants %#x, Table 22 and the writer's table say %#x", R, P, got&all, w&all)
				}
			}
		})
		if !decided {
			core.Undecided("stdSecPToPerm not tabulated: %s", reason)
		}
	})
	c.Check(rule, "pdf.Perm.canR2", "revision 2 is chosen exactly for the permission sets it can express: a revision-2 reader grants the lower permission of each pair with the upper one (print/degraded print, annotate/forms, modify/assemble), so canR2 must be false whenever a lower permission is requested without its upper one — tabulated for all 128 permission sets", func(o *core.Ob) {
		fn := c.Prog.Func("pdf", "Perm.canR2")
		o.At(fn.Site(fn.Decl, ""))
		names := []string{"PermCopy", "PermPrintDegraded", "PermPrint", "PermForms", "PermAnnotate", "PermAssemble", "PermModify"}
		bit := map[string]int64{}
		for _, n := range names {
			bit[n] = c.Prog.ConstInt("pdf", n)
		}
		var dom []int64
		for m := 0; m < 1<<len(names); m++ {
			var v int64
			for i, n := range names {
				if m&(1<<i) != 0 {
					v |= bit[n]
				}
			}
			dom = append(dom, v)
		}
		recv := fn.Decl.Recv.List[0].Names[0].Name
		pairs := [][2]string{{"PermPrint", "PermPrintDegraded"}, {"PermAnnotate", "PermForms"}, {"PermModify", "PermAssemble"}}
		n, bad := 0, 0
		decided, reason := c.Prog.TabulateFunc(fn, map[string][]int64{recv: dom}, func(env map[string]int64, _ int64, got bool) {
			var perm int64
			for _, v := range env {
				perm = v
			}
			n++
			want := true
			for _, pr := range pairs {
				if perm&bit[pr[0]] == 0 && perm&bit[pr[1]] != 0 {
					want = false
				}
			}
			if got != want {
				bad++
				if bad <= 3 {
					var set []string
					for _, nm := range names {
						if perm&bit[nm] != 0 {
							set = append(set, nm)
						}
					}
					o.Fail("canR2(%s) = %v, expected %v", strings.Join(set, "|"), got, want)
				}
			}
		})
		if !decided {
			core.Undecided("canR2 could not be tabulated: %s", reason)
		}
		o.Count(n)
		o.Require(n == 128, "expected 128 permission sets, tabulated %d", n)
	})
	c.Check(rule, "pdf.Perm/constants", "the permission flags are distinct single bits and PermAll is their union", func(o *core.Ob) {
		names := []string{"PermCopy", "PermPrintDegraded", "PermPrint", "PermForms", "PermAnnotate", "PermAssemble", "PermModify"}
		var all int64
		for _, n := range names {
			v := c.Prog.ConstInt("pdf", n)
			o.Count(1)
			if v == 0 || v&(v-1) != 0 {
				o.Fail("%s = %d is not a single bit", n, v)
			}
			if all&v != 0 {
				o.Fail("%s overlaps another flag", n)
			}
			all |= v
		}
		if pa := c.Prog.ConstInt("pdf", "PermAll"); pa != all {
			o.Fail("PermAll = %d, union of the flags is %d", pa, all)
		}
	})
}

func nodeText(fn *core.Func) string {
	var b strings.Builder
	ast.Inspect(fn.Decl.Body, func(n ast.Node) bool {
		if id, ok := n.(*ast.Ident); ok {
			b.WriteString(id.Name)
			b.WriteByte(' ')
		}
		return true
	})
	return b.String()
}

func rulePasswordPrep(c *core.Ctx) {
	const rule = "C09-R6"
	c.Check(rule, "pdf.padPasswd", "revision <= 4 passwords are padded/truncated to exactly 32 bytes with the standard padding string", func(o *core.Ob) {
		fn := c.Prog.Func("pdf", "padPasswd")
		info := fn.Info()
		o.At(fn.Site(fn.Decl, ""))
		ok32, okPad := false, false
		ast.Inspect(fn.Decl.Body, func(n ast.Node) bool {
			if call, ok := n.(*ast.CallExpr); ok {
				switch core.CalleeKey(info, call) {
				case "builtin.make":
					if k, ok := core.IntConst(info, call.Args[1]); ok && k == 32 {
						ok32 = true
					}
				case "builtin.copy":
					if core.ExprStr(call.Args[1]) == "passwdPad" {
						okPad = true
					}
				}
			}
			return true
		})
		// the same as a fixed-size array whose full slice is returned
		ast.Inspect(fn.Decl.Body, func(n ast.Node) bool {
			if vs, ok := n.(*ast.ValueSpec); ok && vs.Type != nil {
				if at, isArr := info.TypeOf(vs.Type).(*types.Array); isArr && at.Len() == 32 {
					if b, isB := at.Elem().Underlying().(*types.Basic); isB && b.Kind() == types.Uint8 {
						ok32 = true
					}
				}
			}
			return true
		})
		o.Require(ok32, "padded password is not 32 bytes")
		o.Require(okPad, "the remainder is not filled from passwdPad")
		pad := c.Prog.ArrayTable("pdf", "passwdPad")
		want := []int64{0x28, 0xBF, 0x4E, 0x5E, 0x4E, 0x75, 0x8A, 0x41, 0x64, 0x00, 0x4E, 0x56, 0xFF, 0xFA, 0x01, 0x08, 0x2E, 0x2E, 0x00, 0xB6, 0xD0, 0x68, 0x3E, 0x80, 0x2F, 0x0C, 0xA9, 0xFE, 0x64, 0x53, 0x69, 0x7A}
		o.Count(32)
		if len(pad) != 32 {
			o.Fail("passwdPad has %d bytes", len(pad))
			return
		}
		for i := range want {
			if pad[i] != want[i] {
				o.Fail("passwdPad[%d] = %#02x, ISO 32000 Algorithm 2 says %#02x", i, pad[i], want[i])
			}
		}
	})
	c.Check(rule, "pdf.utf8Passwd", "revision 6 passwords go through SASLprep and are truncated to 127 bytes", func(o *core.Ob) {
		fn := c.Prog.Func("pdf", "utf8Passwd")
		info := fn.Info()
		o.At(fn.Site(fn.Decl, ""))
		sasl := false
		for _, cs := range core.CallsIn(info, fn.Decl, false) {
			if strings.HasSuffix(cs.Key, ".Prepare") && strings.Contains(core.ExprStr(cs.Call.Fun), "SASLprep") {
				sasl = true
			}
		}
		o.Require(sasl, "no SASLprep")
		var ks []int64
		ast.Inspect(fn.Decl.Body, func(n ast.Node) bool {
			if e, ok := n.(*ast.BasicLit); ok {
				if k, ok := core.IntConst(info, e); ok {
					ks = append(ks, k)
				}
			}
			return true
		})
		for _, k := range ks {
			o.Require(k == 127, "truncation constant %d, want 127", k)
		}
		o.Shape(len(ks) == 2, "expected the 127-byte limit in the test and in the truncation")
	})
}

func ruleStringDecryption(c *core.Ctx) {
	const rule = "C09-R7"
	for _, name := range []string{"ReadString", "ReadHexString"} {
		name := name
		c.Check(rule, "pdf.(*scanner)."+name, "a string is decrypted exactly when the scanner has an encryption context and a current object reference", func(o *core.Ob) {
			fn := c.Prog.Func("pdf", "(*scanner)."+name)
			g := fn.Graph()
			info := fn.Info()
			dv := callVertices(g, "pdf.(*encryptInfo).DecryptBytes")
			if len(dv) != 1 {
				o.Count(1)
				o.Unrec("expected exactly one DecryptBytes call, found %d", len(dv))
				return
			}
			o.At(fn.Site(dv[0].Call, "DecryptBytes"))
			conds := dominatingConds(g, dv[0].V)
			var relevant []string
			for _, dc := range conds {
				s := dc
				if strings.Contains(s, "enc") || strings.Contains(s, "encRef") {
					relevant = append(relevant, s)
				}
			}
			sort.Strings(relevant)
			o.Fact("decryption guarded by %v", relevant)
			o.Require(len(relevant) == 2 && relevant[0] == "s.enc != nil" && relevant[1] == "s.encRef != 0", "decryption must be guarded by exactly 's.enc != nil' and 's.encRef != 0', got %v", relevant)
			o.Require(core.ExprStr(dv[0].Call.Args[0]) == "s.encRef", "the string is decrypted with %s instead of the current object reference", core.ExprStr(dv[0].Call.Args[0]))
			_ = info
		})
	}
	c.Check(rule, "pdf.getObjStm/no-double-decrypt", "members of an encrypted object stream are not decrypted individually", func(o *core.Ob) {
		fn := c.Prog.Func("pdf", "getObjStm")
		g := fn.Graph()
		info := fn.Info()
		enc := paramObj(fn, "enc")
		var clr *core.V
		for _, dv := range defVertices(g, enc) {
			if as, ok := dv.AST.(*ast.AssignStmt); ok && core.IsNil(info, as.Rhs[0]) {
				clr = dv
				o.At(fn.Site(as, "enc = nil"))
			}
		}
		if clr == nil {
			o.Count(1)
			o.Fail("getObjStm never drops the encryption context for members")
			return
		}
		ok := g.GuardedBy(clr, func(a core.Atom) bool {
			cmp, isCmp := a.AsCmp()
			return isCmp && cmp.Op == token.NEQ && strings.HasSuffix(core.ExprStr(cmp.L), ".crypt") && core.IsNil(info, cmp.R)
		})
		o.Require(ok, "the context is not dropped exactly when the stream itself is encrypted")
		ns := callVertices(g, "pdf.newScanner")
		o.Require(len(ns) == 1 && g.PathExists(clr, ns[0].V, nil) && core.ObjOf(info, ns[0].Call.Args[2]) == enc, "the member scanner is not created with the (possibly cleared) context")
	})
}

// dominatingConds returns, as normalised strings, the atomic facts that hold
// on every path to v (facts of branch edges that dominate v).
func dominatingConds(g *core.Graph, v *core.V) []string {
	var out []string
	for _, bv := range g.BranchVertices() {
		if bv.Cond.Expr == nil {
			continue
		}
		for _, l := range []core.EdgeLabel{core.EdgeTrue, core.EdgeFalse} {
			if !g.EdgeDominates(v, core.EdgeRef{From: bv, Label: l}) {
				continue
			}
			for _, a := range bv.Implied(l) {
				if a.Tag != nil {
					op := " == "
					if a.Neg {
						op = " != "
					}
					out = append(out, core.ExprStr(a.Tag)+op+core.ExprStr(a.Expr))
					continue
				}
				if cmp, ok := a.AsCmp(); ok {
					out = append(out, core.ExprStr(cmp.L)+" "+cmp.Op.String()+" "+core.ExprStr(cmp.R))
					continue
				}
				s := core.ExprStr(a.Expr)
				if a.Neg {
					s = "!(" + s + ")"
				}
				out = append(out, s)
			}
		}
	}
	sort.Strings(out)
	return out
}

// ruleStringEncryptionUnconditional: formatString encrypts every string that
// goes to an encrypting position writer — no additional condition.
func ruleStringEncryptionUnconditional(c *core.Ctx, rule string) {
	c.Check(rule, "pdf.formatString/encrypt", "every string written to the file through an encrypting writer is encrypted: the EncryptBytes call is guarded only by 'the sink is the position writer' and 'encryption is on'", func(o *core.Ob) {
		fn := c.Prog.Func("pdf", "formatString")
		g := fn.Graph()
		ev := callVertices(g, "pdf.(*encryptInfo).EncryptBytes")
		if len(ev) != 1 {
			o.Count(1)
			o.Unrec("expected exactly one EncryptBytes call in formatString, found %d", len(ev))
			return
		}
		o.At(fn.Site(ev[0].Call, "EncryptBytes"))
		conds := dominatingConds(g, ev[0].V)
		o.Fact("guards: %v", conds)
		allowed := map[string]bool{"ok": true, "wenc.enc != nil": true}
		for _, cnd := range conds {
			o.Count(1)
			if !allowed[cnd] {
				o.Fail("string encryption is additionally conditioned on %q (some strings would be written in plaintext, or unreadable by a decrypting reader)", cnd)
			}
		}
		o.Shape(len(conds) == 2, "expected the two guards (type assertion ok, enc != nil), got %v", conds)
		o.Require(core.ExprStr(ev[0].Call.Args[0]) == "wenc.ref", "strings must be encrypted under the writer's current object reference")
		// the encrypted bytes are what is written: l = enc
		used := false
		if as, ok := ev[0].V.AST.(*ast.AssignStmt); ok {
			encObj := core.ObjOf(fn.Info(), as.Lhs[0])
			for _, v := range g.Vs {
				if a2, ok := v.AST.(*ast.AssignStmt); ok && len(a2.Rhs) == 1 && core.ObjOf(fn.Info(), a2.Rhs[0]) == encObj && core.ExprStr(a2.Lhs[0]) == "l" {
					used = g.Dominates(ev[0].V, v)
				}
			}
		}
		o.Require(used, "the ciphertext does not replace the plaintext before writing")
	})
}

// ruleWriterSideDefaults (C09-R13): (a) an empty owner password means "same
// as the user password" for every revision: the substitution is made before
// any use of the owner password, not only on the branch of one revision
// (otherwise a PDF 2.0 file written with a user password only can be opened
// with the empty password, as owner).  (b) The reader assumes
// /EncryptMetadata true when the entry is absent, and the key derivation of
// revision 4 depends on it: the writer emits /EncryptMetadata false whenever
// metadata is left unencrypted, for every revision that has the notion
// (R >= 4), not only next to /Perms.
func ruleWriterSideDefaults(c *core.Ctx, rule string) {
	c.Check(rule, "pdf.createStdSecHandler/owner-fallback", "every use of the owner password is dominated by the substitution of the user password for an empty owner password", func(o *core.Ob) {
		fn := c.Prog.Func("pdf", "createStdSecHandler")
		g := fn.Graph()
		info := fn.Info()
		owner := paramObj(fn, "ownerPwd")
		user := paramObj(fn, "userPwd")
		var subst *core.V
		for _, dv := range defVertices(g, owner) {
			if as, ok := dv.AST.(*ast.AssignStmt); ok && len(as.Rhs) == 1 && core.ObjOf(info, as.Rhs[0]) == user {
				subst = dv
				o.At(fn.Site(as, "empty owner password replaced"))
			}
		}
		if subst == nil {
			o.Count(1)
			o.Fail("createStdSecHandler never substitutes the user password for an empty owner password")
			return
		}
		// the test in front of the substitution
		var test *core.V
		for _, bv := range g.BranchVertices() {
			if bv.Cond.Expr != nil && condMentions(g, bv, owner) && g.EdgeDominates(subst, core.EdgeRef{From: bv, Label: core.EdgeTrue}) {
				test = bv
			}
		}
		if test == nil {
			core.Undecided("test for the empty owner password not found")
		}
		n := 0
		for _, v := range g.Vs {
			if v.AST == nil || v == subst || v == test {
				continue
			}
			uses := false
			for _, cs := range core.CallsIn(info, v.AST, false) {
				for _, a := range cs.Call.Args {
					if core.ObjOf(info, a) == owner {
						uses = true
					}
				}
			}
			if !uses {
				continue
			}
			n++
			o.Count(1)
			if !g.Dominates(test, v) {
				o.FailAt(fn.Site(v.AST, ""), "%s: the owner password is used on a path that has not passed the empty-owner-password substitution: with an empty owner password the owner entries are computed from the empty string and the file opens without any password", c.Prog.Pos(v.AST.Pos()))
			}
		}
		o.Shape(n >= 2, "uses of the owner password not found")
	})
	c.Check(rule, "pdf.(*encryptInfo).AsDict/EncryptMetadata", "/EncryptMetadata false is written whenever metadata is left unencrypted, for revision 4 as well as 6", func(o *core.Ob) {
		fn := c.Prog.Func("pdf", "(*encryptInfo).AsDict")
		g := fn.Graph()
		info := fn.Info()
		var stores []*core.V
		for _, v := range g.Vs {
			if as, ok := v.AST.(*ast.AssignStmt); ok {
				for _, l := range as.Lhs {
					if _, key, ok := core.MapIndexKey(info, l); ok && key == "EncryptMetadata" {
						stores = append(stores, v)
					}
				}
			}
		}
		if len(stores) == 0 {
			o.Count(1)
			o.Fail("AsDict never writes /EncryptMetadata")
			return
		}
		var flag, rSel ast.Expr
		ast.Inspect(fn.Decl.Body, func(m ast.Node) bool {
			if sel, ok := m.(*ast.SelectorExpr); ok {
				if sel.Sel.Name == "unencryptedMetadata" && flag == nil {
					flag = sel
				}
				if sel.Sel.Name == "R" && rSel == nil {
					if _, isSel := ast.Unparen(sel.X).(*ast.Ident); isSel {
						rSel = sel
					}
				}
			}
			return true
		})
		if flag == nil || rSel == nil {
			core.Undecided("AsDict does not look at unencryptedMetadata / R")
		}
		need := core.Formula{Fn: fn, Atoms: []core.Atom{{Expr: flag}, {Expr: &ast.BinaryExpr{X: rSel, Op: token.GEQ, Y: intLit(4)}}, {Expr: &ast.BinaryExpr{X: rSel, Op: token.LEQ, Y: intLit(6)}}}}
		okAny := false
		var why []string
		for _, st := range stores {
			o.Count(1)
			o.At(fn.Site(st.AST, "/EncryptMetadata written"))
			var atoms []core.Atom
			for _, a := range g.DominatingAtoms(st) {
				s := c.Prog.Src(a.Expr)
				if strings.Contains(s, "unencryptedMetadata") || strings.Contains(s, ".R") {
					atoms = append(atoms, a)
				}
			}
			holds, counter, decided := c.Prog.Implies(need, core.Formula{Fn: fn, Atoms: atoms})
			if !decided {
				core.Undecided("condition of the store not decided: %s", counter)
			}
			if holds {
				okAny = true
			} else {
				why = append(why, c.Prog.Pos(st.AST.Pos())+": written only under "+c.Prog.FormulaString(core.Formula{Atoms: atoms})+" (not for "+counter+")")
			}
		}
		if !okAny {
			o.Fail("/EncryptMetadata false is not written for every revision >= 4 with unencrypted metadata: %s; the reader then derives a different file key and rejects both passwords", strings.Join(why, "; "))
		}
	})
}

// ruleEncryptMetadataDomain (C09-R14): /EncryptMetadata is meaningful for V
// 4 and 5 (ISO 32000-2 Table 21), and the writer emits it for exactly those
// (AES) schemes.  The reader must honour the entry under a condition on V
// that is equivalent to V >= 4: if it is ignored for V = 4, a file written
// with unencrypted metadata derives a different file key on reading (the
// 0xFFFFFFFF suffix of Algorithm 2 step (g) is left out) and every correct
// password is rejected; if it is honoured for V < 4 the same happens the
// other way round for foreign files.
func ruleEncryptMetadataDomain(c *core.Ctx, rule string) {
	c.Check(rule, "pdf.openStdSecHandler/encrypt-metadata", "the reader honours /EncryptMetadata exactly when V >= 4", func(o *core.Ob) {
		fn := c.Prog.Func("pdf", "openStdSecHandler")
		g := fn.Graph()
		info := fn.Info()
		n := 0
		for _, v := range g.Vs {
			if v.AST == nil {
				continue
			}
			reads := false
			for _, cs := range core.CallsIn(info, v.AST, false) {
				if !strings.HasSuffix(cs.Key, ".Boolean") && !strings.HasSuffix(cs.Key, "GetBoolean") {
					continue
				}
				for _, a := range cs.Call.Args {
					if ix, ok := ast.Unparen(a).(*ast.IndexExpr); ok {
						if k, ok := core.StringConst(info, ix.Index); ok && k == "EncryptMetadata" {
							reads = true
						}
					}
				}
			}
			if !reads {
				continue
			}
			n++
			o.At(fn.Site(v.AST, "reads /EncryptMetadata"))
			// the dominating facts that compare one integer variable with a constant
			var vID *ast.Ident
			var vObj types.Object
			var atoms []core.Atom
			// (only the conditions of the innermost enclosing if statement that
			// has such a comparison: range checks of other entries further up do
			// not belong to this decision)
			var ifs []*ast.IfStmt
			ast.Inspect(fn.Decl.Body, func(m ast.Node) bool {
				if is, ok := m.(*ast.IfStmt); ok && is.Body.Pos() <= v.AST.Pos() && v.AST.End() <= is.Body.End() {
					ifs = append(ifs, is)
				}
				return true
			})
			all := g.DominatingAtoms(v)
			var local []core.Atom
			for i := len(ifs) - 1; i >= 0 && len(local) == 0; i-- {
				for _, a := range all {
					if _, isCmp := a.AsCmp(); isCmp && ifs[i].Cond.Pos() <= a.Expr.Pos() && a.Expr.End() <= ifs[i].Cond.End() {
						local = append(local, a)
					}
				}
			}
			for _, a := range local {
				cmp, ok := a.AsCmp()
				if !ok {
					continue
				}
				for _, pr := range [][2]ast.Expr{{cmp.L, cmp.R}, {cmp.R, cmp.L}} {
					id, isID := ast.Unparen(pr[0]).(*ast.Ident)
					_, isK := core.IntConst(info, pr[1])
					if !isID || !isK {
						continue
					}
					obj := info.ObjectOf(id)
					if b, isBasic := obj.Type().Underlying().(*types.Basic); !isBasic || b.Info()&types.IsInteger == 0 {
						continue
					}
					if vObj != nil && vObj != obj {
						o.Unrec("the read of /EncryptMetadata is guarded by conditions on two integer variables (%s, %s)", vObj.Name(), obj.Name())
						return
					}
					vObj, vID = obj, id
					atoms = append(atoms, a)
				}
			}
			if vObj == nil {
				o.FailAt(fn.Site(v.AST, ""), "/EncryptMetadata is honoured without regard to V (it is meaningful for V >= 4 only)")
				continue
			}
			want := core.Atom{Expr: &ast.BinaryExpr{X: vID, Op: token.GEQ, Y: &ast.BasicLit{Kind: token.INT, Value: "4"}}}
			// V ranges over the values parseEncryptDict lets through
			dom := core.Atom{Expr: &ast.BinaryExpr{X: vID, Op: token.GEQ, Y: &ast.BasicLit{Kind: token.INT, Value: "1"}}}
			dom2 := core.Atom{Expr: &ast.BinaryExpr{X: vID, Op: token.LEQ, Y: &ast.BasicLit{Kind: token.INT, Value: "5"}}}
			h1, c1, d1 := c.Prog.Implies(core.Formula{Fn: fn, Atoms: []core.Atom{want, dom, dom2}}, core.Formula{Fn: fn, Atoms: atoms})
			h2, c2, d2 := c.Prog.Implies(core.Formula{Fn: fn, Atoms: append([]core.Atom{dom, dom2}, atoms...)}, core.Formula{Fn: fn, Atoms: []core.Atom{want}})
			if !d1 || !d2 {
				o.Unrec("the condition on %s was not decided", vObj.Name())
				continue
			}
			if !h1 {
				o.FailAt(fn.Site(v.AST, ""), "/EncryptMetadata is ignored for a value of %s that is >= 4 (%s): a file written with plaintext metadata derives a different key on reading", vObj.Name(), c1)
			}
			if !h2 {
				o.FailAt(fn.Site(v.AST, ""), "/EncryptMetadata is honoured for a value of %s below 4 (%s)", vObj.Name(), c2)
			}
		}
		o.Shape(n > 0, "no read of /EncryptMetadata found in openStdSecHandler")
	})
}
