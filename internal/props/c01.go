package props

import (
	"fmt"
	"go/ast"
	"go/constant"
	"go/token"
	"go/types"
	"os"
	"strings"

	"pdfverif/internal/core"
)

func init() {
	register(&Property{
		ID:       "C01",
		Patterns: []string{"."},
		Run:      runC01,
		Explanation: "Static comparison of the object formatter (types.go) with the scanner (scanner.go): the byte-class table against ISO 32000-2 7.2.3; " +
			"the set of bytes formatName writes raw against the set ReadName keeps verbatim (abstract interpretation over the 256 byte values of every per-byte branch); " +
			"the literal-string escape table of formatString against the un-escape table of ReadString and ISO 32000-2 Table 3; hex-string alphabets; " +
			"the separator discipline of every type-switch case of doFormat (a case whose output may end in a regular byte must report that a separator is needed, a case whose output may start with one must honour needSep); " +
			"the forced decimal point of Real; absence of map-order dependence on every path reachable from Format; agreement of the reference limits. " +
			"Decides these structural necessary conditions for all inputs at once; does NOT decide numeric text/value equality, parenthesis balance arithmetic or nesting.",
		Assumptions: []string{"strconv.FormatInt/FormatFloat produce only digits, sign and '.' (documented alphabet)"},
	})
}

func runC01(c *core.Ctx) {
	c.Guard(func() { ruleClassTable(c, "C01-R1", "pdf") })
	c.Guard(func() { ruleNameEscape(c, "C01-R2", "pdf") })
	c.Guard(func() { ruleStringEscapes(c, "C01-R3", "pdf") })
	c.Guard(func() { ruleHexString(c, "C01-R4", "pdf") })
	c.Guard(func() { ruleSeparators(c, "C01-R5") })
	c.Guard(func() { ruleRealDot(c) })
	c.Guard(func() { ruleFormatDeterminism(c) })
	c.Guard(func() { ruleRefLimits(c, "C01-R8") })
	c.Guard(func() { ruleRealParse(c, "C01-R9", [2]string{"pdf", "(*scanner).ReadNumber"}) })
}

// ruleHexString: "<%x>" on the writer side; reader's digit alphabet is [0-9A-Fa-f].
func ruleHexString(c *core.Ctx, rule, readerPkg string) {
	c.Check(rule, readerPkg+".ReadHexString~pdf.formatString", "hex strings are written as '<' lowercase/uppercase hex '>' and the reader accepts exactly [0-9A-Fa-f] as digits and '>' as terminator", func(o *core.Ob) {
		fn := c.Prog.Func("pdf", "formatString")
		found := false
		for _, cs := range core.CallsIn(fn.Info(), fn.Decl, true) {
			if cs.Key == "fmt.Fprintf" && len(cs.Call.Args) >= 2 {
				if f, ok := core.StringConst(fn.Info(), cs.Call.Args[1]); ok && strings.HasPrefix(f, "<") {
					o.At(fn.Site(cs.Call, "hex form"))
					found = true
					if f != "<%x>" && f != "<%X>" {
						o.Fail("hex string format is %q, want \"<%%x>\"", f)
					}
				}
			}
		}
		if !found {
			// the same bytes through encoding/hex, with the brackets appended by hand
			hexCall, lt, gt := false, false, false
			for _, cs := range core.CallsIn(fn.Info(), fn.Decl, true) {
				if cs.Key == "encoding/hex.AppendEncode" || cs.Key == "encoding/hex.Encode" || cs.Key == "encoding/hex.EncodeToString" {
					hexCall = true
					o.At(fn.Site(cs.Call, "hex form (encoding/hex)"))
				}
				if cs.Key == "builtin.append" {
					for _, a := range cs.Call.Args[1:] {
						if k, ok := core.IntConst(fn.Info(), a); ok {
							lt = lt || k == '<'
							gt = gt || k == '>'
						}
					}
				}
			}
			found = hexCall && lt && gt
		}
		if !o.Shape(found, "formatString has no hex emission of a known form (<%%x>, or encoding/hex between '<' and '>')") {
			return
		}
		rd := c.Prog.Func(readerPkg, "(*scanner).ReadHexString")
		// find the byte variable: parameter of the closure passed to ScanBytes, or a local assigned from ReadByte
		var obj types.Object
		var g *core.Graph
		var starts []*core.V
		ast.Inspect(rd.Decl, func(n ast.Node) bool {
			if lit, ok := n.(*ast.FuncLit); ok && obj == nil && len(lit.Type.Params.List) == 1 {
				p := lit.Type.Params.List[0]
				if len(p.Names) == 1 {
					if b, ok := rd.Info().TypeOf(p.Type).Underlying().(*types.Basic); ok && b.Kind() == types.Uint8 {
						obj = rd.Info().ObjectOf(p.Names[0])
						g = rd.LitGraph(lit)
						starts = []*core.V{g.Entry}
					}
				}
			}
			return true
		})
		var stop func(*core.V) bool
		if obj == nil {
			g = rd.Graph()
			for _, v := range g.Vs {
				if as, ok := v.AST.(*ast.AssignStmt); ok && len(as.Rhs) == 1 {
					if call, ok := as.Rhs[0].(*ast.CallExpr); ok && strings.HasSuffix(core.CalleeKey(rd.Info(), call), ".ReadByte") {
						if id, ok := as.Lhs[0].(*ast.Ident); ok {
							obj = rd.Info().ObjectOf(id)
							for _, e := range v.Succs {
								starts = append(starts, e.To)
							}
							dv := v
							stop = func(x *core.V) bool { return x == dv }
						}
					}
				}
			}
		}
		if obj == nil {
			core.Undecided("%s: byte variable not found", rd.Key)
		}
		o.At(rd.Site(rd.Decl, "hex reader"))
		env := byteEnvFor(c.Prog, rd, obj)
		// digit = the byte reaches an assignment that hands a value computed
		// from it (directly, or through a local such as d := hexDigit(b) or
		// d = b - '0') to something other than such a local
		family := map[types.Object]bool{obj: true}
		ast.Inspect(g.Body, func(n ast.Node) bool {
			as, ok := n.(*ast.AssignStmt)
			if !ok {
				return true
			}
			for i, l := range as.Lhs {
				id, ok := ast.Unparen(l).(*ast.Ident)
				if !ok || len(as.Lhs) != len(as.Rhs) {
					continue
				}
				if core.Mentions(rd.Info(), as.Rhs[i], obj) {
					if lo := rd.Info().ObjectOf(id); lo != nil {
						family[lo] = true
					}
				}
			}
			return true
		})
		mentionsFamily := func(e ast.Expr) bool {
			for m := range family {
				if core.Mentions(rd.Info(), e, m) {
					return true
				}
			}
			return false
		}
		digits := env.ReachSet(g, starts, func(v *core.V) bool {
			as, ok := v.AST.(*ast.AssignStmt)
			if !ok || len(as.Lhs) != len(as.Rhs) {
				return false
			}
			for i, r := range as.Rhs {
				if !mentionsFamily(r) {
					continue
				}
				if id, ok := ast.Unparen(as.Lhs[i]).(*ast.Ident); ok && family[rd.Info().ObjectOf(id)] {
					continue
				}
				return true
			}
			return false
		}, stop)
		want := core.BytesOf("0123456789abcdefABCDEF")
		o.Count(256)
		o.Fact("%s digit set %s", rd.Key, digits.String())
		if !digits.Equal(want) {
			if digits.Len() == 256 {
				// every byte "can" reach the digit path: the classification of the byte was
				// not evaluated (a table built by calls, a helper that is not followed)
				o.Unrec("%s: which bytes count as hex digits is not decided (the classification of the byte is not evaluated)", rd.Key)
			} else {
				o.Fail("%s treats %s as hex digits, want exactly [0-9A-Fa-f]", rd.Key, digits.String())
			}
		}
	})
}

// write sites ------------------------------------------------------------

type writeSite struct {
	V        *core.V
	Call     *ast.CallExpr
	What     string
	First    byte // first byte if constant
	Last     byte // last byte if constant
	Const    bool
	EndsReg  bool // may end with a regular character
	StartReg bool // may start with a regular character
	IsSep    bool // writes exactly one white-space byte / begins with white space
}

// classifyWrite recognises calls that emit bytes to the writer.
func classifyWrite(fn *core.Func, v *core.V, reg core.ByteSet) *writeSite {
	if v.AST == nil {
		return nil
	}
	info := fn.Info()
	var found *writeSite
	ast.Inspect(v.AST, func(n ast.Node) bool {
		if _, ok := n.(*ast.FuncLit); ok {
			return false
		}
		call, ok := n.(*ast.CallExpr)
		if !ok || found != nil {
			return true
		}
		key := core.CalleeKey(info, call)
		ws := &writeSite{V: v, Call: call, What: key}
		setConst := func(s string) {
			if s == "" {
				return
			}
			ws.Const = true
			ws.First, ws.Last = s[0], s[len(s)-1]
			ws.StartReg = reg[s[0]]
			ws.EndsReg = reg[s[len(s)-1]]
			ws.IsSep = !reg[s[0]] && specClass()[s[0]] == 1
		}
		switch {
		case key == "io.WriteString" && len(call.Args) == 2:
			if s, ok := core.StringConst(info, call.Args[1]); ok {
				setConst(s)
			} else {
				ws.StartReg, ws.EndsReg = true, true
			}
		case strings.HasSuffix(key, ".Write") && len(call.Args) == 1:
			if s, ok := constBytes(info, call.Args[0]); ok {
				setConst(s)
			} else {
				ws.StartReg, ws.EndsReg = true, true
			}
		case key == "fmt.Fprintf" && len(call.Args) >= 2:
			if f, ok := core.StringConst(info, call.Args[1]); ok && f != "" {
				ws.Const = false
				// first/last byte of the format unless it is a verb
				ws.StartReg = f[0] == '%' || reg[f[0]]
				last := f[len(f)-1]
				ws.EndsReg = reg[last] // a trailing verb letter is regular anyway
			} else {
				ws.StartReg, ws.EndsReg = true, true
			}
		case key == "pdf.formatName":
			ws.StartReg, ws.EndsReg = false, true // starts with '/', ends with name bytes
		case key == "pdf.formatString" || key == "pdf.formatDict":
			ws.StartReg, ws.EndsReg = false, false // ( ) < > << >>
		case key == "pdf.Format":
			ws.StartReg, ws.EndsReg = true, true
		case key == "pdf.doFormat" && len(call.Args) == 4:
			// a recursive call handles the separator itself only if it is told that one is needed
			ws.EndsReg = true
			ws.StartReg = true
			if id, ok := ast.Unparen(call.Args[3]).(*ast.Ident); ok && id.Name == "needSep" {
				if _, isParam := info.ObjectOf(id).(*types.Var); isParam {
					ws.StartReg = false
				}
			}
		default:
			return true
		}
		found = ws
		return false
	})
	return found
}

// constBytes evaluates []byte{'a', 'b'} and []byte("ab") to a string.
func constBytes(info *types.Info, e ast.Expr) (string, bool) {
	if s, ok := core.StringConst(info, e); ok {
		return s, true
	}
	if cl, ok := ast.Unparen(e).(*ast.CompositeLit); ok {
		var b []byte
		for _, el := range cl.Elts {
			v, ok := core.IntConst(info, el)
			if !ok {
				return "", false
			}
			b = append(b, byte(v))
		}
		return string(b), len(b) > 0
	}
	return "", false
}

// ruleSeparators checks each case of doFormat's type switch.
func ruleSeparators(c *core.Ctx, rule string) {
	c.Floor(rule, 12)
	reg := specRegular()
	fn := c.Prog.Func("pdf", "doFormat")
	g := fn.Graph()
	info := fn.Info()
	needSep := func() types.Object {
		for _, f := range fn.Decl.Type.Params.List {
			for _, n := range f.Names {
				if n.Name == "needSep" {
					return info.ObjectOf(n)
				}
			}
		}
		return nil
	}()
	// edges on which needSep is false
	sepFalse := g.GuardEdges(func(a core.Atom) bool {
		id, ok := ast.Unparen(a.Expr).(*ast.Ident)
		return ok && needSep != nil && info.ObjectOf(id) == needSep && a.Neg && a.Tag == nil
	})
	errEdges := errNotNilEdges(g)

	// all write sites
	writes := map[*core.V]*writeSite{}
	var writeVs []*core.V
	for _, v := range g.Vs {
		if ws := classifyWrite(fn, v, reg); ws != nil {
			writes[v] = ws
			writeVs = append(writeVs, v)
		}
	}
	var sepVs []*core.V
	for v, ws := range writes {
		if ws.IsSep {
			sepVs = append(sepVs, v)
		}
	}
	// calls of helpers that write the separator themselves when handed needSep
	for _, v := range g.Vs {
		if v.AST == nil || needSep == nil {
			continue
		}
		for _, cs := range core.CallsIn(info, v.AST, false) {
			if cs.Fn == nil {
				continue
			}
			callee := c.Prog.FuncOf(cs.Fn)
			if callee == nil || callee == fn {
				continue
			}
			for i, a := range cs.Call.Args {
				if id, ok := ast.Unparen(a).(*ast.Ident); ok && info.ObjectOf(id) == needSep && sepFirstFunc(c, callee, i, reg, 0) {
					sepVs = append(sepVs, v)
				}
			}
		}
	}

	// type switch cases
	var tsw *ast.TypeSwitchStmt
	ast.Inspect(fn.Decl.Body, func(n ast.Node) bool {
		if s, ok := n.(*ast.TypeSwitchStmt); ok && tsw == nil {
			tsw = s
		}
		return tsw == nil
	})
	if tsw == nil {
		c.Check(rule, "pdf.doFormat", "type switch", func(o *core.Ob) { core.Undecided("doFormat has no type switch") })
		return
	}
	handled := map[string]bool{}
	for _, cl := range tsw.Body.List {
		cc := cl.(*ast.CaseClause)
		name := "default"
		if cc.List != nil {
			var ns []string
			for _, t := range cc.List {
				ns = append(ns, core.ExprStr(t))
				if tv := info.TypeOf(t); tv != nil {
					handled[core.TypeString(tv)] = true
				}
			}
			name = strings.Join(ns, ",")
		}
		if cc.List == nil {
			// default: must not return normally
			c.Check(rule, "pdf.doFormat/case default", "the default case of doFormat's type switch does not silently succeed", func(o *core.Ob) {
				o.At(fn.Site(cc, "default"))
				for _, s := range cc.Body {
					if r, ok := s.(*ast.ReturnStmt); ok {
						if len(r.Results) == 2 && core.IsNil(info, r.Results[1]) {
							o.FailAt(fn.Site(r, ""), "default case returns success")
						}
					}
				}
			})
			continue
		}
		c.Check(rule, "pdf.doFormat/case "+name, "a case whose output may start with a regular byte writes a separator when needSep holds; a case whose output may end in a regular byte returns true", func(o *core.Ob) {
			// vertices of this case body
			var bodyVs []*core.V
			in := map[*core.V]bool{}
			for _, v := range g.Vs {
				if v.AST != nil && v.AST.Pos() >= cc.Colon && v.AST.End() <= cc.End() {
					bodyVs = append(bodyVs, v)
					in[v] = true
				}
			}
			// case entry: the body block reached by the true edge of this clause's type test
			var entries []*core.V
			for _, bv := range g.BranchVertices() {
				if bv.Cond.TypeCase == cc {
					if e := succ(bv, core.EdgeTrue); e != nil {
						entries = append(entries, e)
					}
				}
			}
			// statements of helpers that were folded into the case keep the positions
			// of the helper: what belongs to the case is what its entry reaches
			for _, e := range entries {
				for v := range g.ReachFrom(e, true, nil) {
					if v.AST != nil && !in[v] {
						bodyVs = append(bodyVs, v)
						in[v] = true
					}
				}
			}
			if len(bodyVs) == 0 {
				o.Count(1)
				return
			}
			if len(entries) == 0 {
				core.Undecided("case %s: entry not found in control-flow graph", name)
			}
			o.At(fn.Site(cc, "case "+name))
			predCuts := typePredicateCuts(c, fn, g, tsw, cc, needSep)
			// (1) first writes
			for _, wv := range bodyVs {
				ws := writes[wv]
				if ws == nil || !ws.StartReg {
					continue
				}
				// is it a first write? reachable from an entry without passing another write
				others := []*core.V{}
				for _, x := range writeVs {
					if x != wv {
						others = append(others, x)
					}
				}
				first := false
				for _, e := range entries {
					if e == wv || g.ReachFrom(e, true, core.AvoidVs(others...))[wv] {
						first = true
					}
				}
				if !first {
					continue
				}
				o.Count(1)
				// must be unreachable from entries once the needSep-false edges and separator writes are cut
				av := core.AvoidVs(sepVs...).WithEdges(sepFalse...)
				bad := false
				for _, e := range entries {
					if g.ReachFrom(e, true, av)[wv] {
						bad = true
					}
				}
				if bad && len(predCuts) > 0 {
					// a separator written in front of the switch under a predicate on the
					// dynamic type: the edges the predicate rules out for this case's types are cut
					bad = g.ReachFrom(g.Entry, true, av.WithEdges(predCuts...))[wv]
				}
				if bad {
					o.FailAt(fn.Site(ws.Call, ws.What), "output may start with a regular byte but no separator is written when needSep is true")
				}
			}
			// (2) returns
			for _, rv := range bodyVs {
				r, ok := rv.AST.(*ast.ReturnStmt)
				if !ok || len(r.Results) != 2 {
					continue
				}
				// error-only return?
				if g.EdgeDominates(rv, errEdges...) {
					continue
				}
				// pass-through of a recursive call
				if len(r.Results) == 1 {
					continue
				}
				o.Count(1)
				bv := core.ConstOf(info, r.Results[0])
				// last writes before this return
				endsReg := false
				var witness *writeSite
				for _, wv := range bodyVs {
					ws := writes[wv]
					if ws == nil {
						continue
					}
					var others []*core.V
					for _, x := range writeVs {
						if x != wv {
							others = append(others, x)
						}
					}
					if wv == rv || g.ReachFrom(wv, false, core.AvoidVs(others...))[rv] {
						if ws.EndsReg {
							endsReg = true
							witness = ws
						}
					}
				}
				// a return statement may itself contain the write: return true, formatName(w, x)
				if ws := writes[rv]; ws != nil && ws.EndsReg {
					endsReg = true
					witness = ws
				}
				if endsReg {
					if bv == nil || bv.Kind() != constant.Bool || !constant.BoolVal(bv) {
						o.FailAt(fn.Site(r, "after "+witness.What), "output may end with a regular byte but the case does not return needSep=true")
					}
				}
			}
		})
	}
	// exhaustiveness over Native implementers
	c.Check(rule, "pdf.doFormat/exhaustive", "every type implementing pdf.Native has a case in doFormat", func(o *core.Ob) {
		pkg := c.Prog.Pkg("pdf")
		nat, ok := pkg.Types.Scope().Lookup("Native").(*types.TypeName)
		if !ok {
			core.Undecided("pdf.Native not found")
		}
		iface := nat.Type().Underlying().(*types.Interface)
		for _, name := range pkg.Types.Scope().Names() {
			tn, ok := pkg.Types.Scope().Lookup(name).(*types.TypeName)
			if !ok || tn.IsAlias() {
				continue
			}
			if _, isIface := tn.Type().Underlying().(*types.Interface); isIface {
				continue
			}
			for _, t := range []types.Type{tn.Type(), types.NewPointer(tn.Type())} {
				if types.Implements(t, iface) && declaresDirectly(t, "isNative") {
					// value types implementing it also make the pointer implement it; prefer the value form
					if _, isPtr := t.(*types.Pointer); isPtr && types.Implements(tn.Type(), iface) {
						continue
					}
					o.Count(1)
					if !handled[core.TypeString(t)] {
						o.Fail("native type %s has no case in doFormat", core.TypeString(t))
					}
				}
			}
		}
	})
	// formatDict: value after a name
	c.Check(rule, "pdf.formatDict/value-after-name", "in formatDict a value that follows a name without intervening white space is formatted with needSep=true", func(o *core.Ob) {
		fd := c.Prog.Func("pdf", "formatDict")
		gd := fd.Graph()
		var ws []*core.V
		wmap := map[*core.V]*writeSite{}
		for _, v := range gd.Vs {
			if w := classifyWrite(fd, v, reg); w != nil {
				ws = append(ws, v)
				wmap[v] = w
			}
		}
		for _, v := range gd.Vs {
			if v.AST == nil {
				continue
			}
			for _, call := range core.CallsTo(fd.Info(), v.AST, false, "pdf.doFormat") {
				o.At(fd.Site(call, "doFormat call"))
				if len(call.Args) != 4 {
					continue
				}
				bv := core.ConstOf(fd.Info(), call.Args[3])
				isTrue := bv != nil && bv.Kind() == constant.Bool && constant.BoolVal(bv)
				if isTrue {
					continue
				}
				// find last writes before this call
				for _, wv := range ws {
					var others []*core.V
					for _, x := range ws {
						if x != wv {
							others = append(others, x)
						}
					}
					if gd.ReachFrom(wv, false, core.AvoidVs(others...))[v] && wmap[wv].EndsReg {
						o.FailAt(fd.Site(call, ""), "value is formatted with needSep=%s directly after %s, whose output ends in a regular byte", core.ExprStr(call.Args[3]), wmap[wv].What)
					}
				}
			}
		}
	})
}

// ruleRealDot: the Real case forces a '.'.
func ruleRealDot(c *core.Ctx) {
	c.Check("C01-R6", "pdf.doFormat/case Real", "a Real is always written with a decimal point (the scanner tells Integer from Real by the '.')", func(o *core.Ob) {
		fn := c.Prog.Func("pdf", "doFormat")
		info := fn.Info()
		g := fn.Graph()
		var cc *ast.CaseClause
		ast.Inspect(fn.Decl.Body, func(n ast.Node) bool {
			if x, ok := n.(*ast.CaseClause); ok {
				for _, t := range x.List {
					if tv := info.TypeOf(t); tv != nil && core.TypeString(tv) == "pdf.Real" {
						cc = x
					}
				}
			}
			return true
		})
		if cc == nil {
			core.Undecided("no case for Real")
		}
		o.At(fn.Site(cc, "case Real"))
		// FormatFloat with 'f' format
		ff := core.CallsTo(info, cc, false, "strconv.FormatFloat")
		if len(ff) != 1 {
			core.Undecided("expected exactly one strconv.FormatFloat call in the Real case, found %d", len(ff))
		}
		if k, ok := core.IntConst(info, ff[0].Args[1]); !ok || k != 'f' {
			o.Fail("Real is not formatted with the 'f' format (exponents are not PDF syntax)")
		}
		// the guard: a condition !strings.Contains(s, ".") whose true edge appends "."
		var guard *core.V
		noDot := core.EdgeTrue // the edge of the guard on which the text has no '.'
		for _, v := range g.BranchVertices() {
			if v.AST == nil || v.AST.Pos() < cc.Pos() || v.AST.End() > cc.End() {
				continue
			}
			for _, lab := range []core.EdgeLabel{core.EdgeTrue, core.EdgeFalse} {
				for _, a := range v.Implied(lab) {
					if call, ok := a.HoldsCall(info, true, "strings.Contains", "strings.ContainsRune", "strings.ContainsAny"); ok {
						if s, ok := core.StringConst(info, call.Args[1]); ok && s == "." {
							guard, noDot = v, lab
						} else if k, ok := core.IntConst(info, call.Args[1]); ok && k == '.' {
							guard, noDot = v, lab
						}
					}
				}
			}
		}
		if guard == nil {
			o.Fail("the Real case has no test for a missing '.'")
			return
		}
		// on the true edge a "." must be appended to the string that is written
		hasDot := core.EdgeFalse
		if noDot == core.EdgeFalse {
			hasDot = core.EdgeTrue
		}
		tv := succ(guard, noDot)
		appended := false
		for v := range g.ReachFrom(tv, true, core.AvoidVs(succ(guard, hasDot))) {
			if as, ok := v.AST.(*ast.AssignStmt); ok && v.AST.Pos() >= cc.Pos() && v.AST.End() <= cc.End() {
				for _, r := range as.Rhs {
					ast.Inspect(r, func(n ast.Node) bool {
						if e, ok := n.(ast.Expr); ok {
							if s, ok := core.StringConst(info, e); ok && strings.Contains(s, ".") {
								appended = true
							}
						}
						return true
					})
				}
			}
		}
		o.Require(appended, "no '.' is appended when FormatFloat's result lacks one")
		// the write must come after the guard
		var wv *core.V
		for _, v := range g.Vs {
			if v.AST != nil && v.AST.Pos() >= cc.Pos() && v.AST.End() <= cc.End() {
				if ws := classifyWrite(fn, v, specRegular()); ws != nil && !ws.Const && ws.What == "io.WriteString" {
					wv = v
				}
			}
		}
		if wv == nil {
			core.Undecided("Real case: write of the number not found")
		}
		o.Require(g.Dominates(guard, wv), "the number is written on a path that bypasses the '.' test")
	})
}

// ruleFormatDeterminism: no map range reachable from Format may reach a write.
func ruleFormatDeterminism(c *core.Ctx) {
	const rule = "C01-R7"
	fns := []string{"Format", "doFormat", "formatName", "formatString", "formatDict", "Dict.SortedKeys"}
	for _, name := range fns {
		name := name
		c.Check(rule, "pdf."+name, "output does not depend on map iteration order: a range over a map may only collect keys that are sorted before use", func(o *core.Ob) {
			fn := c.Prog.Func("pdf", name)
			o.At(fn.Site(fn.Decl, ""))
			checkMapRanges(o, fn, true)
		})
	}
	c.Check(rule, "pdf.formatDict/sorted", "formatDict iterates the result of SortedKeys", func(o *core.Ob) {
		fn := c.Prog.Func("pdf", "formatDict")
		calls := core.CallsTo(fn.Info(), fn.Decl, false, "pdf.Dict.SortedKeys")
		o.Count(1)
		if len(calls) == 0 {
			o.Fail("formatDict does not call SortedKeys")
		}
	})
	c.Check(rule, "pdf.Dict.SortedKeys/sort", "SortedKeys sorts the collected keys (all keys other than the fixed prefix) before returning", func(o *core.Ob) {
		fn := c.Prog.Func("pdf", "Dict.SortedKeys")
		g := fn.Graph()
		var sortV *core.V
		for _, v := range g.Vs {
			if v.AST == nil {
				continue
			}
			for _, cs := range core.CallsIn(fn.Info(), v.AST, false) {
				if core.HasPrefixAny(cs.Key, "slices.Sort", "sort.Slice", "sort.Sort", "sort.Strings", "slices.SortFunc") {
					sortV = v
					o.At(fn.Site(cs.Call, "sort"))
				}
			}
		}
		if sortV == nil {
			o.Count(1)
			o.Fail("SortedKeys does not sort")
			return
		}
		for _, r := range g.Returns() {
			o.Count(1)
			if !g.Dominates(sortV, r) {
				o.FailAt(fn.Site(r.AST, ""), "return not preceded by the sort")
			}
		}
		// the map range must come before the sort
		for _, v := range g.BranchVertices() {
			if v.Cond.Range != nil {
				if _, ok := fn.Info().TypeOf(v.Cond.Range.X).Underlying().(*types.Map); ok {
					if g.PathExists(sortV, v, nil) {
						o.FailAt(fn.Site(v.Cond.Range, ""), "map range after the sort")
					}
				}
			}
		}
	})
}

// checkMapRanges fails for every range over a map in fn whose body does
// anything but collect into a slice / update counters, unless the loop is
// followed by a sort of the collected slice.
func checkMapRanges(o *core.Ob, fn *core.Func, strict bool) int {
	info := fn.Info()
	n := 0
	ast.Inspect(fn.Decl.Body, func(nd ast.Node) bool {
		rs, ok := nd.(*ast.RangeStmt)
		if !ok {
			return true
		}
		t := info.TypeOf(rs.X)
		if t == nil {
			return true
		}
		if _, isMap := t.Underlying().(*types.Map); !isMap {
			return true
		}
		n++
		o.At(fn.Site(rs, "range over map"))
		// body may only contain: appends to a local slice, map stores, counters, if/continue
		bad := ""
		ast.Inspect(rs.Body, func(m ast.Node) bool {
			switch x := m.(type) {
			case *ast.CallExpr:
				k := core.CalleeKey(info, x)
				switch {
				case k == "builtin.append" || k == "builtin.len" || k == "builtin.delete" || k == "builtin.cap" || k == "builtin.make" || k == "builtin.min" || k == "builtin.max":
				case k == "":
					// conversion or dynamic call
					if tv, ok := info.Types[x.Fun]; ok && tv.IsType() {
						return true
					}
					bad = "dynamic call " + core.ExprStr(x.Fun)
				default:
					if fnObj := core.Callee(info, x); fnObj != nil && isPureHelper(fnObj) {
						return true
					}
					bad = "call to " + k
				}
			case *ast.SendStmt, *ast.GoStmt, *ast.DeferStmt:
				bad = "concurrency statement"
			case *ast.ReturnStmt:
				if len(x.Results) > 0 {
					// returning a value chosen by iteration order
					for _, r := range x.Results {
						if core.ConstOf(info, r) == nil && !core.IsNil(info, r) {
							bad = "returns a value from inside the map range"
						}
					}
				}
			}
			return bad == ""
		})
		if bad != "" {
			o.FailAt(fn.Site(rs, ""), "range over map: %s (order-dependent effect)", bad)
		}
		return true
	})
	return n
}

func isPureHelper(fn *types.Func) bool {
	if fn.Pkg() == nil {
		return false
	}
	switch fn.Pkg().Path() {
	case "strings", "bytes", "math", "strconv", "unicode", "unicode/utf8", "cmp", "math/bits":
		return true
	}
	return false
}

// ruleRefLimits: NewReference and the scanner use the same limit constants.
func ruleRefLimits(c *core.Ctx, rule string) {
	c.Check(rule, "pdf.NewReference~scanner", "the object-number and generation limits enforced by NewReference are the constants the scanner compares against before building a reference", func(o *core.Ob) {
		nr := c.Prog.Func("pdf", "NewReference")
		pkg := c.Prog.Pkg("pdf")
		mx := pkg.Types.Scope().Lookup("maxXRefSize")
		mg := pkg.Types.Scope().Lookup("maxGeneration")
		if mx == nil || mg == nil {
			core.Undecided("limit constants maxXRefSize/maxGeneration not found")
		}
		o.At(nr.Site(nr.Decl, ""))
		o.Require(core.Mentions(nr.Info(), nr.Decl.Body, mx), "NewReference does not test maxXRefSize")
		// every non-test call of NewReference in package pdf from a function that parses input is dominated by comparisons with the same constants
		n := 0
		for _, raw := range c.Prog.Funcs(pkg) {
			// with unexported helpers folded in: the range test may sit in a predicate
			// (isValidReference) and the call in a constructor helper (makeReference)
			fn := raw
			if readPathRefFuncs[raw.Key] {
				if in := c.Prog.FuncOpt("pdf", strings.TrimPrefix(raw.Key, "pdf.")); in != nil {
					fn = in
				}
			}
			calls := core.CallsTo(fn.Info(), fn.Decl, true, "pdf.NewReference")
			if len(calls) == 0 {
				continue
			}
			for _, call := range calls {
				// constant arguments are fine
				_, c0 := core.IntConst(fn.Info(), call.Args[0])
				_, c1 := core.IntConst(fn.Info(), call.Args[1])
				if c0 && c1 {
					continue
				}
				n++
				if !readPathRefFuncs[fn.Key] {
					continue
				}
				o.At(fn.Site(call, "NewReference on read path"))
				lit := core.EnclosingFuncLit(fn.Decl, call)
				var g *core.Graph
				if lit != nil {
					g = fn.LitGraph(lit)
				} else {
					g = fn.Graph()
				}
				v := g.MustVertexOf(call)
				for i, lim := range []types.Object{mx, mg} {
					if _, isConst := core.IntConst(fn.Info(), call.Args[i]); isConst {
						continue
					}
					arg := call.Args[i]
					root := rootObj(fn.Info(), arg)
					wantOp := token.LSS // number < maxXRefSize
					if i == 1 {
						wantOp = token.LEQ // generation <= maxGeneration
						if root != nil && assignedFromParseUint(fn, root, 16) {
							continue // bounded by the bit size given to strconv.ParseUint
						}
					}
					ok := g.GuardedBy(v, func(a core.Atom) bool {
						cmp, ok := a.AsCmp()
						if !ok {
							return false
						}
						l, r, op := cmp.L, cmp.R, cmp.Op
						if core.ObjOf(fn.Info(), l) == lim {
							l, r, op = r, l, core.FlipOp(op)
						}
						if core.ObjOf(fn.Info(), r) != lim || root == nil || !core.Mentions(fn.Info(), l, root) {
							return false
						}
						return op == wantOp
					})
					if !ok {
						// a range test made by a predicate of the package that is not followed
						// (isValidReference(a, b)): not decided here
						viaPredicate := g.GuardedBy(v, func(a core.Atom) bool {
							pc, isCall := ast.Unparen(a.Expr).(*ast.CallExpr)
							if !isCall || a.Tag != nil {
								return false
							}
							f := core.Callee(fn.Info(), pc)
							if f == nil || f.Pkg() == nil || f.Pkg() != fn.Obj.Pkg() {
								return false
							}
							for _, pa := range pc.Args {
								if root != nil && core.Mentions(fn.Info(), pa, root) {
									return true
								}
							}
							return false
						})
						if os.Getenv("PDFVERIF_DEBUG_C01") != "" {
							for _, a := range g.DominatingAtoms(v) {
								fmt.Fprintf(os.Stderr, "atom neg=%v %T %s\n", a.Neg, a.Expr, core.ExprStr(a.Expr))
							}
						}
						if viaPredicate {
							o.Unrec("%s: argument %d (%s) of NewReference is tested by a predicate of the package that is not followed", c.Prog.Pos(call.Pos()), i, core.ExprStr(arg))
							continue
						}
						o.FailAt(fn.Site(call, ""), "argument %d (%s) of NewReference is not dominated by the exact comparison '%s %s %s' (the legal range must be accepted completely and nothing beyond it)", i, core.ExprStr(arg), core.ExprStr(arg), wantOp, lim.Name())
					}
				}
			}
		}
		o.Fact("%d non-constant NewReference call sites in package pdf", n)
	})
}

// functions of package pdf that build references from parsed input
var readPathRefFuncs = map[string]bool{
	"pdf.(*scanner).ReadArray":          true,
	"pdf.(*scanner).ReadDict":           true,
	"pdf.(*scanner).ReadIndirectObject": true,
	"pdf.(*Reader).getFromObjStm":       true,
	"pdf.(*Reader).getObjStm":           true,
	"pdf.decodeXRefStream":              true,
	"pdf.decodeXRefSection":             true,
	"pdf.(*FileInfo).locateObjects":     true,
	"pdf.(*FileInfo).makeXRef":          true,
	"pdf.(*Reader).readXRefStream":      true,
}

func rootObj(info *types.Info, e ast.Expr) types.Object {
	for {
		switch x := ast.Unparen(e).(type) {
		case *ast.Ident:
			return info.ObjectOf(x)
		case *ast.CallExpr:
			if len(x.Args) == 1 {
				e = x.Args[0]
				continue
			}
			return nil
		case *ast.SelectorExpr:
			return info.ObjectOf(x.Sel)
		case *ast.IndexExpr:
			e = x.X
			continue
		case *ast.TypeAssertExpr:
			e = x.X
			continue
		default:
			return nil
		}
	}
}

// declaresDirectly reports whether the method is declared on the type
// itself rather than promoted from an embedded field.
func declaresDirectly(t types.Type, name string) bool {
	ms := types.NewMethodSet(t)
	for i := 0; i < ms.Len(); i++ {
		sel := ms.At(i)
		if sel.Obj().Name() == name {
			return len(sel.Index()) == 1
		}
	}
	return false
}

// assignedFromParseUint reports whether every assignment to obj in fn is
// from strconv.ParseUint with a constant bit size <= bits.
func assignedFromParseUint(fn *core.Func, obj types.Object, bits int64) bool {
	as := core.AssignsTo(fn.Info(), fn.Decl, obj)
	if len(as) == 0 {
		return false
	}
	for _, n := range as {
		a, ok := n.(*ast.AssignStmt)
		if !ok || len(a.Rhs) != 1 {
			return false
		}
		call, ok := a.Rhs[0].(*ast.CallExpr)
		if !ok || core.CalleeKey(fn.Info(), call) != "strconv.ParseUint" || len(call.Args) != 3 {
			return false
		}
		k, ok := core.IntConst(fn.Info(), call.Args[2])
		if !ok || k > bits {
			return false
		}
	}
	return true
}

// ruleRealParse (C01-R9): a Real survives the round trip only if the scanner
// converts the literal with a correctly rounded decimal-to-binary conversion
// of the whole text (the formatter writes the shortest text that identifies
// the float64).  Every Real a number reader returns is the first result of
// strconv.ParseFloat(text, 64); no Real is assembled by floating-point
// arithmetic (a mantissa divided by a power of ten is rounded twice).
func ruleRealParse(c *core.Ctx, rule string, targets ...[2]string) {
	for _, t := range targets {
		t := t
		c.Check(rule, t[0]+"."+t[1]+"/real", "every Real returned by the number reader is the result of strconv.ParseFloat on the literal text", func(o *core.Ob) {
			fn := c.Prog.Func(t[0], t[1])
			info := fn.Info()
			n := 0
			ast.Inspect(fn.Decl.Body, func(m ast.Node) bool {
				call, ok := m.(*ast.CallExpr)
				if !ok || len(call.Args) != 1 {
					return true
				}
				tv, ok := info.Types[call.Fun]
				if !ok || !tv.IsType() || !core.IsNamed(tv.Type, "pdf", "Real") {
					return true
				}
				n++
				o.Count(1)
				o.At(fn.Site(call, "Real produced"))
				arg := ast.Unparen(call.Args[0])
				okSrc := false
				if obj := core.ObjOf(info, arg); obj != nil {
					defs := core.AssignsTo(info, fn.Decl, obj)
					okSrc = len(defs) > 0
					for _, d := range defs {
						as, isAs := d.(*ast.AssignStmt)
						if !isAs || len(as.Rhs) != 1 {
							okSrc = false
							continue
						}
						pc, isCall := core.IsCallTo(info, as.Rhs[0], "strconv.ParseFloat")
						if !isCall || core.ObjOf(info, as.Lhs[0]) != obj {
							okSrc = false
							continue
						}
						if k, isK := core.IntConst(info, pc.Args[1]); !isK || k != 64 {
							okSrc = false
						}
					}
				}
				if !okSrc {
					o.FailAt(fn.Site(call, ""), "%s: the Real %s is not the result of strconv.ParseFloat(text, 64): values assembled by floating-point arithmetic are rounded twice and differ from the written value in the last bit", c.Prog.Pos(call.Pos()), c.Prog.Src(call))
				}
				return true
			})
			o.Require(n >= 1, "%s produces no Real", fn.Key)
		})
	}
}

// sepFirstFunc reports whether fn, when its idx-th parameter (a bool) is
// true, writes a separator before anything else on every path: starting at
// the entry and following only edges on which the parameter is not known to
// be false, no write and no return is reachable without passing a separator
// write (or a call of another such function that is handed the parameter).
func sepFirstFunc(c *core.Ctx, fn *core.Func, idx int, reg core.ByteSet, depth int) bool {
	if depth > 3 || fn.Decl.Body == nil || fn.Decl.Type.Params == nil {
		return false
	}
	info := fn.Info()
	var param types.Object
	i := 0
	for _, f := range fn.Decl.Type.Params.List {
		for _, n := range f.Names {
			if i == idx {
				param = info.ObjectOf(n)
			}
			i++
		}
	}
	if param == nil {
		return false
	}
	if b, ok := param.Type().Underlying().(*types.Basic); !ok || b.Kind() != types.Bool {
		return false
	}
	// the parameter must not be reassigned
	reassigned := false
	ast.Inspect(fn.Decl.Body, func(n ast.Node) bool {
		if as, ok := n.(*ast.AssignStmt); ok {
			for _, l := range as.Lhs {
				if id, ok := ast.Unparen(l).(*ast.Ident); ok && info.ObjectOf(id) == param {
					reassigned = true
				}
			}
		}
		return true
	})
	if reassigned {
		return false
	}
	g := fn.Graph()
	pFalse := g.GuardEdges(func(a core.Atom) bool {
		id, ok := ast.Unparen(a.Expr).(*ast.Ident)
		return ok && info.ObjectOf(id) == param && a.Neg && a.Tag == nil
	})
	var seps []*core.V
	var bad []*core.V
	for _, v := range g.Vs {
		if v.AST == nil {
			continue
		}
		isSep := false
		if ws := classifyWrite(fn, v, reg); ws != nil {
			if ws.IsSep {
				isSep = true
			} else {
				bad = append(bad, v)
			}
		}
		for _, cs := range core.CallsIn(info, v.AST, false) {
			if cs.Fn == nil {
				continue
			}
			callee := c.Prog.FuncOf(cs.Fn)
			if callee == nil || callee == fn {
				continue
			}
			for i, a := range cs.Call.Args {
				if id, ok := ast.Unparen(a).(*ast.Ident); ok && info.ObjectOf(id) == param && sepFirstFunc(c, callee, i, reg, depth+1) {
					isSep = true
				}
			}
		}
		if isSep {
			seps = append(seps, v)
		} else if _, ok := v.AST.(*ast.ReturnStmt); ok {
			bad = append(bad, v)
		}
	}
	if len(seps) == 0 {
		return false
	}
	reach := g.ReachFrom(g.Entry, true, core.AvoidVs(seps...).WithEdges(pFalse...))
	for _, b := range bad {
		if reach[b] {
			return false
		}
	}
	return !reach[g.Exit]
}

// typePredicateCuts: conditions of doFormat that call a predicate on the
// dynamic type of the switch operand (a function whose body is a type switch
// over its parameter returning boolean constants).  For the types of the
// case clause cc the predicate has a known value; the edge that contradicts
// it is returned, to be cut from reachability queries about this clause.
func typePredicateCuts(c *core.Ctx, fn *core.Func, g *core.Graph, tsw *ast.TypeSwitchStmt, cc *ast.CaseClause, sepParam types.Object) []core.EdgeRef {
	info := fn.Info()
	// the operand of the switch
	var operand types.Object
	switch a := tsw.Assign.(type) {
	case *ast.AssignStmt:
		if ta, ok := ast.Unparen(a.Rhs[0]).(*ast.TypeAssertExpr); ok {
			operand = core.ObjOf(info, ta.X)
		}
	case *ast.ExprStmt:
		if ta, ok := ast.Unparen(a.X).(*ast.TypeAssertExpr); ok {
			operand = core.ObjOf(info, ta.X)
		}
	}
	if operand == nil {
		return nil
	}
	var cuts []core.EdgeRef
	// value of a conjunct that is a predicate call on the operand: (value, known)
	predValue := func(e ast.Expr) (bool, bool) {
		e = ast.Unparen(e)
		neg := false
		if u, ok := e.(*ast.UnaryExpr); ok && u.Op == token.NOT {
			e, neg = ast.Unparen(u.X), true
		}
		call, ok := e.(*ast.CallExpr)
		if !ok || len(call.Args) != 1 || core.ObjOf(info, call.Args[0]) != operand {
			return false, false
		}
		callee := core.Callee(info, call)
		if callee == nil {
			return false, false
		}
		pf := c.Prog.FuncOf(callee)
		if pf == nil || pf.Decl.Body == nil {
			return false, false
		}
		allTrue, allFalse := true, true
		for _, t := range cc.List {
			v, ok := typePredicateValue(pf, info.TypeOf(t), core.IsNil(info, t))
			if !ok {
				return false, false
			}
			if v {
				allFalse = false
			} else {
				allTrue = false
			}
		}
		if allTrue {
			return !neg, true
		}
		if allFalse {
			return neg, true
		}
		return false, false
	}
	var conjuncts func(e ast.Expr) []ast.Expr
	conjuncts = func(e ast.Expr) []ast.Expr {
		if be, ok := ast.Unparen(e).(*ast.BinaryExpr); ok && be.Op == token.LAND {
			return append(conjuncts(be.X), conjuncts(be.Y)...)
		}
		return []ast.Expr{e}
	}
	for _, bv := range g.BranchVertices() {
		if bv.Cond.Expr == nil || bv.Cond.Tag != nil {
			continue
		}
		var rest []ast.Expr
		known, falsified := false, false
		for _, cj := range conjuncts(bv.Cond.Expr) {
			v, ok := predValue(cj)
			if !ok {
				rest = append(rest, cj)
				continue
			}
			known = true
			if !v {
				falsified = true
			}
		}
		if !known {
			continue
		}
		if falsified {
			cuts = append(cuts, core.EdgeRef{From: bv, Label: core.EdgeTrue})
			continue
		}
		// the predicate conjuncts hold: the condition is the conjunction of the rest
		if len(rest) == 0 {
			cuts = append(cuts, core.EdgeRef{From: bv, Label: core.EdgeFalse})
		} else if len(rest) == 1 && sepParam != nil && core.ObjOf(info, rest[0]) == sepParam {
			// "needSep && p(x)" with p true: the false edge means needSep is false
			cuts = append(cuts, core.EdgeRef{From: bv, Label: core.EdgeFalse})
		}
	}
	return cuts
}

// typePredicateValue evaluates a predicate of the form
//
//	func p(x T) bool { switch x.(type) { case A, B: return true; default: return false } }
//
// for the dynamic type t (or for the nil interface).
func typePredicateValue(pf *core.Func, t types.Type, isNil bool) (bool, bool) {
	info := pf.Info()
	body := pf.Decl.Body.List
	if len(body) == 0 || len(body) > 2 {
		return false, false
	}
	ts, ok := body[0].(*ast.TypeSwitchStmt)
	if !ok {
		return false, false
	}
	retConst := func(stmts []ast.Stmt) (bool, bool) {
		if len(stmts) != 1 {
			return false, false
		}
		r, ok := stmts[0].(*ast.ReturnStmt)
		if !ok || len(r.Results) != 1 {
			return false, false
		}
		v := core.ConstOf(info, r.Results[0])
		if v == nil || v.Kind() != constant.Bool {
			return false, false
		}
		return constant.BoolVal(v), true
	}
	var def []ast.Stmt
	hasDef := false
	for _, cl := range ts.Body.List {
		cc := cl.(*ast.CaseClause)
		if cc.List == nil {
			def, hasDef = cc.Body, true
			continue
		}
		for _, ct := range cc.List {
			if core.IsNil(info, ct) {
				if isNil {
					return retConst(cc.Body)
				}
				continue
			}
			if ctt := info.TypeOf(ct); !isNil && ctt != nil && t != nil && types.Identical(ctt, t) {
				return retConst(cc.Body)
			}
			// an interface case would need an implements test: not evaluated
			if ctt := info.TypeOf(ct); ctt != nil {
				if _, isIface := ctt.Underlying().(*types.Interface); isIface {
					return false, false
				}
			}
		}
	}
	if hasDef {
		return retConst(def)
	}
	if len(body) == 2 {
		return retConst(body[1:])
	}
	return false, false
}
