package props

import (
	"fmt"
	"go/ast"
	"go/types"

	"golang.org/x/tools/go/packages"

	"pdfverif/internal/core"
)

// structTable evaluates a package-level slice or array literal whose elements
// are struct literals with constant integer fields.  Elements may be keyed by
// constant index (x/image style) and fields may be positional or named.
func structTable(pkg *packages.Package, name string) []map[string]int64 {
	obj := pkg.Types.Scope().Lookup(name)
	if obj == nil {
		core.Undecided("table %s.%s not found", pkg.PkgPath, name)
	}
	var lit *ast.CompositeLit
	for _, f := range pkg.Syntax {
		for _, d := range f.Decls {
			gd, ok := d.(*ast.GenDecl)
			if !ok {
				continue
			}
			for _, sp := range gd.Specs {
				vs, ok := sp.(*ast.ValueSpec)
				if !ok {
					continue
				}
				for i, nm := range vs.Names {
					if pkg.TypesInfo.Defs[nm] == obj && i < len(vs.Values) {
						lit, _ = ast.Unparen(vs.Values[i]).(*ast.CompositeLit)
					}
				}
			}
		}
	}
	if lit == nil {
		core.Undecided("table %s.%s is not initialised by a composite literal", pkg.PkgPath, name)
	}
	info := pkg.TypesInfo
	var elemT types.Type
	switch t := info.TypeOf(lit).Underlying().(type) {
	case *types.Slice:
		elemT = t.Elem()
	case *types.Array:
		elemT = t.Elem()
	default:
		core.Undecided("table %s.%s is not a slice or array", pkg.PkgPath, name)
	}
	st, ok := elemT.Underlying().(*types.Struct)
	if !ok {
		core.Undecided("table %s.%s does not hold structs", pkg.PkgPath, name)
	}
	out := map[int64]map[string]int64{}
	idx := int64(0)
	max := int64(-1)
	for _, el := range lit.Elts {
		v := el
		if kv, ok := el.(*ast.KeyValueExpr); ok {
			k, ok := core.IntConst(info, kv.Key)
			if !ok {
				core.Undecided("%s.%s: non-constant index", pkg.PkgPath, name)
			}
			idx = k
			v = kv.Value
		}
		cl, ok := ast.Unparen(v).(*ast.CompositeLit)
		if !ok {
			core.Undecided("%s.%s[%d]: element is not a literal", pkg.PkgPath, name, idx)
		}
		row := map[string]int64{}
		for i, fe := range cl.Elts {
			fname := ""
			fv := fe
			if kv, ok := fe.(*ast.KeyValueExpr); ok {
				fname = core.ExprStr(kv.Key)
				fv = kv.Value
			} else if i < st.NumFields() {
				fname = st.Field(i).Name()
			}
			n, ok := core.IntConst(info, fv)
			if !ok {
				core.Undecided("%s.%s[%d].%s is not a constant", pkg.PkgPath, name, idx, fname)
			}
			row[fname] = n
		}
		out[idx] = row
		if idx > max {
			max = idx
		}
		idx++
	}
	res := make([]map[string]int64, max+1)
	for k, v := range out {
		res[k] = v
	}
	return res
}

type ccittCode struct {
	code, width int64
	state       string
	param       int64
}

// ruleCCITTTables (C07-R2, C06-R6): the modified-Huffman code tables of the
// CCITT filter against an independent transcription of ITU-T T.4 Tables 2
// and 3 and T.6 Table 1 (the tables of golang.org/x/image/ccitt, a module
// the repository already depends on; its generated table.go is read as
// source, nothing is executed), and the repository's decoding tables against
// its own (now verified) encoding tables: every index of the flat lookup
// tables must decode to the unique code that is a prefix of it.
func ruleCCITTTables(c *core.Ctx, rule string) {
	const pk = "pdf/internal/filter/ccittfax"
	const ref = "golang.org/x/image/ccitt"
	refPkg := c.Prog.Pkgs[ref]
	if refPkg == nil || len(refPkg.Syntax) == 0 {
		c.Check(rule, pk+"/tables", "independent transcription available", func(o *core.Ob) {
			core.Undecided("package %s is not loaded with syntax", ref)
		})
		return
	}
	own := c.Prog.Pkg(pk)
	get := func(p *packages.Package, name, codeField, widthField string) [][2]int64 {
		rows := structTable(p, name)
		var out [][2]int64
		for i, r := range rows {
			if r == nil {
				core.Undecided("%s.%s[%d] missing", p.PkgPath, name, i)
			}
			out = append(out, [2]int64{r[codeField], r[widthField]})
		}
		return out
	}
	type pair struct {
		own, ref string
		off      int // index offset into the reference table
		n        int
		what     string
	}
	pairs := []pair{
		{"whiteTermEncodeTable", "whiteEncodeTable2", 0, 64, "white terminating codes 0..63 (T.4 Table 2)"},
		{"blackTermEncodeTable", "blackEncodeTable2", 0, 64, "black terminating codes 0..63 (T.4 Table 2)"},
		{"whiteMakeupEncodeTable", "whiteEncodeTable3", 0, 27, "white make-up codes 64..1728 (T.4 Table 3)"},
		{"blackMakeupEncodeTable", "blackEncodeTable3", 0, 27, "black make-up codes 64..1728 (T.4 Table 3)"},
		{"extMakeupEncodeTable", "whiteEncodeTable3", 27, 13, "common make-up codes 1792..2560 (T.4 Table 3), white copy"},
		{"extMakeupEncodeTable", "blackEncodeTable3", 27, 13, "common make-up codes 1792..2560 (T.4 Table 3), black copy"},
	}
	for _, p := range pairs {
		p := p
		c.Check(rule, pk+"."+p.own+"~"+p.ref, p.what+": the encoder's table equals the independent transcription entry by entry (code bits and length)", func(o *core.Ob) {
			a := get(own, p.own, "Code", "Width")
			b := get(refPkg, p.ref, "bits", "nBits")
			o.Require(len(a) == p.n, "%s has %d entries, expected %d", p.own, len(a), p.n)
			o.Require(len(b) >= p.off+p.n, "%s has %d entries, expected at least %d", p.ref, len(b), p.off+p.n)
			for i := 0; i < len(a) && p.off+i < len(b); i++ {
				o.Count(1)
				if a[i] != b[p.off+i] {
					o.Fail("%s[%d] is code %0*b (%d bits), the standard's table has %0*b (%d bits)", p.own, i, int(a[i][1]), a[i][0], a[i][1], int(b[p.off+i][1]), b[p.off+i][0], b[p.off+i][1])
				}
			}
		})
	}
	// decoding tables invert the encoding tables
	type dec struct {
		table string
		bits  int
		white bool
	}
	for _, d := range []dec{{"whiteTable", 12, true}, {"blackTable", 13, false}} {
		d := d
		c.Check(rule, pk+"."+d.table+"/inverse", fmt.Sprintf("the %d-bit lookup table decodes every bit pattern to the unique run-length code that is a prefix of it (state, code length and run length), and marks patterns without such a code as invalid", d.bits), func(o *core.Ob) {
			states := map[string]int64{}
			for _, n := range []string{"S_Null", "S_TermW", "S_TermB", "S_MakeUpW", "S_MakeUpB", "S_MakeUp", "S_EOL"} {
				states[n] = c.Prog.ConstInt(pk, n)
			}
			var codes []ccittCode
			add := func(name, state string, first, step int64) {
				for i, cw := range get(own, name, "Code", "Width") {
					codes = append(codes, ccittCode{cw[0], cw[1], state, first + int64(i)*step})
				}
			}
			if d.white {
				add("whiteTermEncodeTable", "S_TermW", 0, 1)
				add("whiteMakeupEncodeTable", "S_MakeUpW", 64, 64)
			} else {
				add("blackTermEncodeTable", "S_TermB", 0, 1)
				add("blackMakeupEncodeTable", "S_MakeUpB", 64, 64)
			}
			add("extMakeupEncodeTable", "S_MakeUp", 1792, 64)
			// prefix-freeness of the code set
			for i := range codes {
				for j := range codes {
					if i != j && codes[i].width <= codes[j].width && codes[j].code>>(codes[j].width-codes[i].width) == codes[i].code {
						o.Fail("code %0*b is a prefix of code %0*b", int(codes[i].width), codes[i].code, int(codes[j].width), codes[j].code)
					}
				}
			}
			rows := structTable(own, d.table)
			o.Require(len(rows) == 1<<d.bits, "%s has %d entries, expected %d", d.table, len(rows), 1<<d.bits)
			bad := 0
			for v, r := range rows {
				o.Count(1)
				var hit *ccittCode
				for i := range codes {
					cc := &codes[i]
					if int64(v)>>(int64(d.bits)-cc.width) == cc.code && cc.width <= int64(d.bits) {
						hit = cc
					}
				}
				switch {
				case hit != nil:
					want := states[hit.state]
					// the generator may label the common make-up codes with the colour-specific state
					okState := r["State"] == want || (hit.state == "S_MakeUp" && (r["State"] == states["S_MakeUpW"] || r["State"] == states["S_MakeUpB"]))
					if !okState || r["Width"] != hit.width || r["Param"] != hit.param {
						bad++
						if bad <= 3 {
							o.Fail("%s[%0*b] = {State %d, Width %d, Param %d}; the pattern starts with the code %0*b for run length %d (%s, %d bits)", d.table, d.bits, v, r["State"], r["Width"], r["Param"], int(hit.width), hit.code, hit.param, hit.state, hit.width)
						}
					}
				case int64(v)>>1 == 0 || (d.bits == 13 && int64(v)>>2 == 0):
					// eleven or more zeros: EOL / fill bits; any of EOL, Null is acceptable, never a run
					if r["Width"] != 0 && r["State"] != states["S_EOL"] {
						bad++
						if bad <= 3 {
							o.Fail("%s[%0*b] (EOL prefix) decodes as state %d width %d", d.table, d.bits, v, r["State"], r["Width"])
						}
					}
				default:
					if r["Width"] != 0 {
						bad++
						if bad <= 3 {
							o.Fail("%s[%0*b] = {State %d, Width %d, Param %d} although no run-length code is a prefix of this pattern", d.table, d.bits, v, r["State"], r["Width"], r["Param"])
						}
					}
				}
			}
			o.Fact("%d codes, %d table entries, %d mismatches", len(codes), len(rows), bad)
		})
	}
	// two-dimensional mode codes
	c.Check(rule, pk+".mainTable/modes", "the 7-bit mode table decodes Pass, Horizontal, V0, VR1-3, VL1-3 and Extension exactly as T.6 Table 1 (compared with the reference mode table)", func(o *core.Ob) {
		modes := get(refPkg, "modeEncodeTable", "bits", "nBits")
		o.Require(len(modes) >= 10, "reference mode table has %d entries", len(modes))
		type m struct {
			state string
			param int64
		}
		want := []m{{"S_Pass", 0}, {"S_Horiz", 0}, {"S_Vert", 0}, {"S_Vert", 1}, {"S_Vert", 2}, {"S_Vert", 3}, {"S_Vert", -1}, {"S_Vert", -2}, {"S_Vert", -3}, {"S_Ext", 0}}
		rows := structTable(own, "mainTable")
		o.Require(len(rows) == 128, "mainTable has %d entries, expected 128", len(rows))
		for v, r := range rows {
			o.Count(1)
			matched := false
			for i, w := range want {
				code, width := modes[i][0], modes[i][1]
				if int64(v)>>(7-width) != code {
					continue
				}
				matched = true
				p := r["Param"]
				if p > 32767 {
					p -= 65536
				}
				if r["State"] != c.Prog.ConstInt(pk, w.state) || r["Width"] != width || (w.state == "S_Vert" && p != w.param) {
					o.Fail("mainTable[%07b] = {State %d, Width %d, Param %d}; the pattern starts with the mode code %0*b (%s %d)", v, r["State"], r["Width"], p, int(width), code, w.state, w.param)
				}
			}
			if !matched && v != 0 && r["Width"] != 0 && r["State"] != c.Prog.ConstInt(pk, "S_EOL") {
				o.Fail("mainTable[%07b] decodes a pattern that no mode code matches", v)
			}
		}
	})
}
