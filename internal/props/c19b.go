package props

import (
	"go/ast"
	"go/token"
	"go/types"
	"strings"

	"pdfverif/internal/core"
)

// ruleC19Structure: the compensation path, the scanner latch and the
// error-handling policy closures.
func ruleC19Structure(c *core.Ctx) {
	c.Check("C19-R3", "pdf.DecodeStream/latch", "the raw stream reader is wrapped in the source-error latch below every filter (and below decryption), every error during chain construction goes through the latch's promote, and the reader handed out is the source-aware wrapper around the whole chain", func(o *core.Ob) {
		fn := c.Prog.Func("pdf", "DecodeStream")
		g := fn.Graph()
		info := fn.Info()
		src := localVar(fn, "src", 0)
		out := localVar(fn, "out", 0)
		srcDef := c.Prog.Src(defVertices(g, src)[0].AST)
		o.At(fn.Site(defVertices(g, src)[0].AST, "latch"))
		o.Shape(srcDef == "src:=&sourceErrChecker{r:x.NewReader()}", "the latch does not wrap the raw stream reader directly: %s", srcDef)
		outDefs := defVertices(g, out)
		first := c.Prog.Src(outDefs[0].AST)
		o.Shape(strings.Contains(first, "io.NopCloser(src)"), "the filter chain is not built on top of the latch: %s", first)
		// every Decode call takes `out` and assigns `out`
		n := 0
		for _, cv := range callVerticesSuffix(g, ".Decode") {
			n++
			o.At(fn.Site(cv.Call, "layer"))
			o.Require(core.ObjOf(info, cv.Call.Args[1]) == out, "a decoder layer reads from %s instead of the chain built so far", core.ExprStr(cv.Call.Args[1]))
		}
		o.Shape(n == 2, "expected the decryption layer and the filter loop, found %d Decode calls", n)
		for _, r := range g.Returns() {
			rs := r.AST.(*ast.ReturnStmt)
			if len(rs.Results) != 2 {
				continue
			}
			if core.IsNil(info, rs.Results[1]) {
				o.At(fn.Site(rs, "success"))
				o.Shape(c.Prog.Src(rs.Results[0]) == "&sourceAwareReader{inner:out,src:src}", "DecodeStream returns %s instead of the source-aware wrapper of the chain", c.Prog.Src(rs.Results[0]))
				continue
			}
			// error returns after the latch exists must promote
			if g.PathExists(defVertices(g, src)[0], r, nil) {
				o.At(fn.Site(rs, "error during construction"))
				o.Shape(c.Prog.Src(rs.Results[1]) == "src.promote(err)", "an error during chain construction is returned as %s; a source failure seen by a filter header read would be reported as malformed", c.Prog.Src(rs.Results[1]))
			}
		}
	})
	c.Check("C19-R3", "pdf.sourceErrChecker", "the latch records the first non-EOF error of the raw reader and passes every result through unchanged; promote and the source-aware reader substitute the latched error whenever they see an error", func(o *core.Ob) {
		rd := c.Prog.Func("pdf", "(*sourceErrChecker).Read")
		src := c.Prog.Src(rd.Decl.Body)
		o.At(rd.Site(rd.Decl, "latch"))
		o.Shape(strings.Contains(src, "n,err:=s.r.Read(p)") && strings.HasSuffix(src, "returnn,err}"), "the latch must return the raw reader's result unchanged")
		o.Shape(strings.Contains(src, "iferr!=nil&&!errors.Is(err,io.EOF)&&s.srcErr==nil{s.srcErr=err}"), "the latch must record the first non-EOF error: %s", src)
		pr := c.Prog.Func("pdf", "(*sourceErrChecker).promote")
		o.At(pr.Site(pr.Decl, "promote"))
		o.Shape(c.Prog.Src(pr.Decl.Body) == "{ifs.srcErr!=nil{returns.srcErr}returnerr}", "promote must prefer the latched error: %s", c.Prog.Src(pr.Decl.Body))
		sa := c.Prog.Func("pdf", "(*sourceAwareReader).Read")
		o.At(sa.Site(sa.Decl, "source-aware reader"))
		o.Shape(c.Prog.Src(sa.Decl.Body) == "{n,err:=s.inner.Read(p)iferr!=nil&&s.src.srcErr!=nil{err=s.src.srcErr}returnn,err}", "the source-aware reader must substitute the latched error whenever the chain reports an error: %s", c.Prog.Src(sa.Decl.Body))
		cl := c.Prog.Func("pdf", "(*sourceAwareReader).Close")
		o.Shape(c.Prog.Src(cl.Decl.Body) == "{returns.inner.Close()}", "Close must be forwarded to the chain")
	})
	for _, fname := range []string{"(*sourceAwareReader).Read", "(*sourceErrChecker).promote"} {
		fname := fname
		c.Check("C19-R3", "pdf."+fname+"/substitutes", "whenever the filter chain reports an error and a source error is latched, the latched error is returned (decided on path conditions: every way of returning anything else implies that the chain's error is nil or nothing is latched)", func(o *core.Ob) {
			fn := c.Prog.Func("pdf", fname)
			g := fn.Graph()
			info := fn.Info()
			delegates := false
			for _, r := range g.Returns() {
				rs := r.AST.(*ast.ReturnStmt)
				for _, res := range rs.Results {
					if call, ok := ast.Unparen(res).(*ast.CallExpr); ok && strings.HasSuffix(core.CalleeKey(info, call), ".promote") {
						delegates = true
					}
				}
			}
			// the latched error: the field srcErr, an accessor that returns it (Err()),
			// or a local that was given one of these once (sticky := s.Err())
			isLatchedDirect := func(e ast.Expr) bool {
				e = ast.Unparen(e)
				if sel, ok := e.(*ast.SelectorExpr); ok && sel.Sel.Name == "srcErr" {
					return true
				}
				if call, ok := e.(*ast.CallExpr); ok && len(call.Args) == 0 {
					if f := core.Callee(info, call); f != nil {
						if acc := c.Prog.FuncOf(f); acc != nil && acc.Decl.Body != nil && len(acc.Decl.Body.List) == 1 {
							if rs, isRet := acc.Decl.Body.List[0].(*ast.ReturnStmt); isRet && len(rs.Results) == 1 {
								if sel, isSel := ast.Unparen(rs.Results[0]).(*ast.SelectorExpr); isSel && sel.Sel.Name == "srcErr" {
									return true
								}
							}
						}
					}
				}
				return false
			}
			latchedLocals := map[types.Object]bool{}
			for _, v := range g.Vs {
				as, ok := v.AST.(*ast.AssignStmt)
				if !ok || len(as.Lhs) != len(as.Rhs) {
					continue
				}
				for i, l := range as.Lhs {
					if obj := core.ObjOf(info, l); obj != nil && isLatchedDirect(as.Rhs[i]) && len(defVertices(g, obj)) == 1 {
						latchedLocals[obj] = true
					}
				}
			}
			isLatched := func(e ast.Expr) bool {
				if isLatchedDirect(e) {
					return true
				}
				return latchedLocals[core.ObjOf(info, e)]
			}
			var latched ast.Expr
			for obj := range latchedLocals {
				if latched == nil {
					latched = identUse(fn, obj)
				}
			}
			ast.Inspect(fn.Decl.Body, func(n ast.Node) bool {
				if e, ok := n.(ast.Expr); ok && isLatchedDirect(e) && latched == nil {
					latched = e
				}
				return true
			})
			if latched == nil {
				if delegates {
					o.Count(1)
					o.Fact("the substitution is delegated to promote")
					return
				}
				o.Fail("%s never looks at the latched source error", fname)
				return
			}
			// the error of the inner read
			var innerDef *core.V
			var innerErr types.Object
			for _, v := range g.Vs {
				as, ok := v.AST.(*ast.AssignStmt)
				if !ok || len(as.Rhs) != 1 || len(as.Lhs) != 2 {
					continue
				}
				if call, ok := ast.Unparen(as.Rhs[0]).(*ast.CallExpr); ok && strings.HasSuffix(core.CalleeKey(info, call), ".Read") {
					innerDef, innerErr = v, core.ObjOf(info, as.Lhs[1])
				}
			}
			if innerErr == nil && fn.Decl.Type.Params != nil {
				// promote(err): the chain's error is the parameter
				for _, f := range fn.Decl.Type.Params.List {
					for _, nm := range f.Names {
						if core.IsErrorType(info.ObjectOf(nm).Type()) {
							innerErr = info.ObjectOf(nm)
						}
					}
				}
			}
			if innerErr == nil {
				core.Undecided("the error of the chain was not found in %s", fname)
			}
			if innerDef != nil {
				o.At(fn.Site(innerDef.AST, "inner read"))
			}
			nilID := &ast.Ident{Name: "nil"}
			n := 0
			for _, r := range g.Returns() {
				rs := r.AST.(*ast.ReturnStmt)
				if len(rs.Results) == 0 {
					continue
				}
				res := rs.Results[len(rs.Results)-1]
				if isLatched(res) {
					continue
				}
				obj := core.ObjOf(info, res)
				if obj == nil {
					if core.IsNil(info, res) {
						// returning success: only when the chain reported none
						atoms := g.DominatingAtoms(r)
						errID := identUse(fn, innerErr)
						want := &ast.BinaryExpr{X: errID, Op: token.EQL, Y: nilID}
						holds, _, decided := c.Prog.Implies(core.Formula{Fn: fn, Atoms: atoms}, core.Formula{Fn: fn, Atoms: []core.Atom{{Expr: want}}})
						o.Count(1)
						n++
						if !decided || !holds {
							o.FailAt(fn.Site(rs, ""), "success is returned although the chain may have reported an error")
						}
						continue
					}
					// a call such as s.src.promote(err): the substitution is made there (checked by the form rule above)
					n++
					continue
				}
				defs := defVertices(g, obj)
				if len(defs) == 0 {
					// a parameter returned as it came in
					n++
					o.Count(1)
					errID := identUse(fn, innerErr)
					want := &ast.BinaryExpr{
						X:  &ast.BinaryExpr{X: errID, Op: token.EQL, Y: nilID},
						Op: token.LOR,
						Y:  &ast.BinaryExpr{X: latched, Op: token.EQL, Y: nilID},
					}
					holds, counter, decided := c.Prog.Implies(core.Formula{Fn: fn, Atoms: g.DominatingAtoms(r)}, core.Formula{Fn: fn, Atoms: []core.Atom{{Expr: want}}})
					if !decided {
						core.Undecided("path condition not decided: %s", counter)
					}
					if !holds {
						o.FailAt(fn.Site(rs, ""), "%s: the error of the chain is returned although a source error is latched (%s)", c.Prog.Pos(rs.Pos()), counter)
					}
					continue
				}
				for _, d := range defs {
					var others []*core.V
					for _, x := range defs {
						if x != d {
							others = append(others, x)
						}
					}
					if !g.ReachFrom(d, false, core.AvoidVs(others...))[r] {
						continue
					}
					n++
					o.Count(1)
					// what is assigned here?
					if as, ok := d.AST.(*ast.AssignStmt); ok && len(as.Lhs) == len(as.Rhs) {
						subst := false
						for i, l := range as.Lhs {
							if core.ObjOf(info, l) == obj && isLatched(as.Rhs[i]) {
								subst = true
							}
						}
						if subst {
							continue // the latched error
						}
					}
					// anything else may be returned only if the chain's error is nil or nothing is latched
					atoms := append(append([]core.Atom{}, g.DominatingAtoms(d)...), atomsBetween(g, d, r, others)...)
					errID := identUse(fn, innerErr)
					want := &ast.BinaryExpr{
						X:  &ast.BinaryExpr{X: errID, Op: token.EQL, Y: nilID},
						Op: token.LOR,
						Y:  &ast.BinaryExpr{X: latched, Op: token.EQL, Y: nilID},
					}
					holds, counter, decided := c.Prog.Implies(core.Formula{Fn: fn, Atoms: atoms}, core.Formula{Fn: fn, Atoms: []core.Atom{{Expr: want}}})
					if !decided {
						core.Undecided("path condition not decided: %s", counter)
					}
					if !holds {
						o.FailAt(fn.Site(rs, ""), "%s: the error of the chain is returned although a source error is latched (%s): an I/O failure relabelled by a filter reaches the caller as a malformed-file error", c.Prog.Pos(rs.Pos()), counter)
					}
				}
			}
			o.Require(n >= 1, "no return of an error found")
		})
	}
	c.Check("C19-R3", "pdf.asMalformedFilter~filterContentReader", "the two relabelling points wrap exactly the errors that are neither malformed nor end of input", func(o *core.Ob) {
		am := c.Prog.Func("pdf", "asMalformedFilter")
		o.At(am.Site(am.Decl, ""))
		s1 := c.Prog.Src(am.Decl.Body)
		o.Shape(strings.Contains(s1, "iferr!=nil{if!IsMalformed(err){err=&MalformedFileError{Err:err}}returnnil,err}"), "asMalformedFilter: %s", s1)
		fr := c.Prog.Func("pdf", "(*filterContentReader).Read")
		o.At(fr.Site(fr.Decl, ""))
		s2 := c.Prog.Src(fr.Decl.Body)
		o.Shape(strings.Contains(s2, "iferr!=nil&&!errors.Is(err,io.EOF)&&!IsMalformed(err){err=&MalformedFileError{Err:err}}returnn,err"), "filterContentReader.Read: %s", s2)
	})
	c.Check("C19-R5", "pdf.(*scanner).refill/latch", "refill latches the first non-EOF error and returns it on every later call", func(o *core.Ob) {
		fn := c.Prog.Func("pdf", "(*scanner).refill")
		g := fn.Graph()
		info := fn.Info()
		o.At(fn.Site(fn.Decl, ""))
		// first statement: if s.err != nil { return s.err }
		first, ok := fn.Decl.Body.List[0].(*ast.IfStmt)
		o.Shape(ok && c.Prog.Src(first) == "ifs.err!=nil{returns.err}", "refill must start by returning a latched error")
		// the store s.err = err is on the edge where err is non-nil and not EOF
		stored := false
		for _, v := range g.Vs {
			if as, ok := v.AST.(*ast.AssignStmt); ok && c.Prog.Src(as) == "s.err=err" {
				stored = true
				conds := dominatingConds(g, v)
				o.Fact("latch store guarded by %v", conds)
				hasNonNil := false
				for _, cnd := range conds {
					if cnd == "err != nil" {
						hasNonNil = true
					}
				}
				o.Require(hasNonNil, "the latch store is not on the err != nil edge")
			}
		}
		o.Require(stored, "refill never latches the error")
		_ = info
	})
	for _, name := range []string{"NewReader", "(*FileInfo).MakeReader"} {
		name := name
		c.Check("C19-R6", "pdf."+name+"/shouldExit", "the error-handling policy may continue past an error only if the error is a malformed-file error; read errors are fatal in every mode", func(o *core.Ob) {
			fn := c.Prog.Func("pdf", name)
			info := fn.Info()
			var lit *ast.FuncLit
			ast.Inspect(fn.Decl.Body, func(n ast.Node) bool {
				if as, ok := n.(*ast.AssignStmt); ok && len(as.Lhs) == 1 && core.ExprStr(as.Lhs[0]) == "shouldExit" {
					if l, ok := as.Rhs[0].(*ast.FuncLit); ok {
						lit = l
					}
				}
				return true
			})
			var g *core.Graph
			var errObj types.Object
			if lit != nil {
				o.At(fn.Site(lit, "policy closure"))
				g = fn.LitGraph(lit)
				errObj = info.ObjectOf(lit.Type.Params.List[0].Names[0])
			} else {
				// the policy as a function or method of its own, called from here
				raw := c.Prog.RawFunc("pdf", name)
				for _, cs := range core.CallsIn(raw.Info(), raw.Decl.Body, true) {
					if cs.Fn == nil || cs.Fn.Name() != "shouldExit" {
						continue
					}
					pf := c.Prog.FuncOf(cs.Fn)
					if pf == nil || pf.Decl.Type.Params == nil {
						continue
					}
					for _, f := range pf.Decl.Type.Params.List {
						for _, n := range f.Names {
							if core.IsErrorType(pf.Info().ObjectOf(n).Type()) {
								errObj = pf.Info().ObjectOf(n)
							}
						}
					}
					if errObj != nil {
						fn = pf
						info = pf.Info()
						g = pf.Graph()
						o.At(pf.Site(pf.Decl, "policy function"))
						break
					}
				}
				if g == nil {
					core.Undecided("error-handling policy shouldExit not found (neither a closure nor a function of that name)")
				}
			}
			for _, r := range g.Returns() {
				rs := r.AST.(*ast.ReturnStmt)
				cv := core.ConstOf(info, rs.Results[0])
				mayBeFalse := cv == nil || cv.String() == "false"
				if !mayBeFalse {
					continue
				}
				o.At(fn.Site(rs, "may continue"))
				ok := g.GuardedBy(r, func(a core.Atom) bool {
					if cmp, isCmp := a.AsCmp(); isCmp && cmp.Op == token.EQL && core.ObjOf(info, cmp.L) == errObj && core.IsNil(info, cmp.R) {
						return true
					}
					if call, ok := a.HoldsCall(info, false, "pdf.IsMalformed"); ok && core.ObjOf(info, call.Args[0]) == errObj {
						return true
					}
					if call, ok := a.HoldsCall(info, true, "pdf.IsReadError"); ok && core.ObjOf(info, call.Args[0]) == errObj {
						return true
					}
					if call, ok := a.HoldsCall(info, false, "errors.As"); ok && core.ObjOf(info, call.Args[0]) == errObj {
						return true
					}
					return false
				})
				if !ok {
					o.FailAt(fn.Site(rs, ""), "the policy can decide to continue after an error that is not known to be a malformed-file error (an I/O failure would be swallowed in recover/report mode)")
				}
			}
		})
	}
	c.Check("C19-R4", "pdf.(*Writer).Close/flush", "Close returns the error of the final Flush and of closing the sink", func(o *core.Ob) {
		fn := c.Prog.Func("pdf", "(*Writer).Close")
		g := fn.Graph()
		n := 0
		for _, cv := range callVerticesSuffix(g, ".Flush", ".Close") {
			if cv.Key == "pdf.(*ResourceManager).Close" {
				continue
			}
			n++
			o.At(fn.Site(cv.Call, cv.Key))
			_, isAssign := cv.V.AST.(*ast.AssignStmt)
			if rs, isRet := cv.V.AST.(*ast.ReturnStmt); isRet {
				// returned directly
				for _, r := range rs.Results {
					if ast.Unparen(r) == ast.Expr(cv.Call) {
						isAssign = true
					}
				}
			}
			o.Require(isAssign, "the result of %s is not kept", cv.Key)
		}
		o.Shape(n >= 2, "expected the final Flush and the sink's Close in Writer.Close")
	})
}

// ruleDeferredErrorReachesCaller (C19-R7): a deferred closure that stores an
// error (of a Close, Seek, Flush ...) into a variable of the enclosing
// function reports it to the caller only if that variable is a named result:
// the return values have already been evaluated when the deferred function
// runs, and a store into an ordinary local is lost.  Checked for every
// deferred closure in package pdf and the filter packages.
func ruleDeferredErrorReachesCaller(c *core.Ctx) {
	nDefers := 0
	type finding struct {
		fn   *core.Func
		node ast.Node
		name string
	}
	var bad []finding
	for _, pkg := range c.Prog.RepoPkgs() {
		sp := core.ShortPkg(pkg.PkgPath)
		if !exploreAll && (!(sp == "pdf" || strings.HasPrefix(sp, "pdf/internal/filter")) || strings.HasSuffix(sp, "/generate")) {
			continue
		}
		for _, fn := range c.Prog.Funcs(pkg) {
			info := fn.Info()
			// enclosing function nodes: the declaration and every literal
			type scope struct {
				typ  *ast.FuncType
				body *ast.BlockStmt
			}
			scopes := []scope{{fn.Decl.Type, fn.Decl.Body}}
			ast.Inspect(fn.Decl.Body, func(n ast.Node) bool {
				if fl, ok := n.(*ast.FuncLit); ok {
					scopes = append(scopes, scope{fl.Type, fl.Body})
				}
				return true
			})
			for _, sc := range scopes {
				results := map[types.Object]bool{}
				if sc.typ.Results != nil {
					for _, f := range sc.typ.Results.List {
						for _, nm := range f.Names {
							results[info.Defs[nm]] = true
						}
					}
				}
				// defers directly in this function (not in nested literals)
				var walk func(n ast.Node) bool
				walk = func(n ast.Node) bool {
					if fl, ok := n.(*ast.FuncLit); ok && fl.Body != sc.body {
						return false
					}
					ds, ok := n.(*ast.DeferStmt)
					if !ok {
						return true
					}
					dl, ok := ds.Call.Fun.(*ast.FuncLit)
					if !ok {
						return true
					}
					nDefers++
					ast.Inspect(dl.Body, func(m ast.Node) bool {
						as, ok := m.(*ast.AssignStmt)
						if !ok || as.Tok != token.ASSIGN {
							return true
						}
						for _, l := range as.Lhs {
							id, ok := ast.Unparen(l).(*ast.Ident)
							if !ok {
								continue
							}
							v, ok := info.ObjectOf(id).(*types.Var)
							if !ok || !core.IsErrorType(v.Type()) {
								continue
							}
							// captured from the enclosing function (declared outside the deferred literal)
							if v.Pos() >= dl.Pos() && v.Pos() <= dl.End() {
								continue
							}
							if v.Pos() < sc.body.Pos() && !results[v] && !(v.Pos() >= sc.typ.Pos() && v.Pos() <= sc.typ.End()) {
								continue // belongs to an outer function: that function's own check covers it
							}
							if !results[v] {
								bad = append(bad, finding{fn, as, v.Name()})
							}
						}
						return true
					})
					return true
				}
				ast.Inspect(sc.body, walk)
			}
		}
	}
	c.Check("C19-R7", "deferred-error-stores", "every error stored by a deferred closure goes into a named result of the function that defers it", func(o *core.Ob) {
		o.Count(nDefers)
		o.Fact("%d deferred closures inspected", nDefers)
		o.Shape(nDefers >= 8, "only %d deferred closures found", nDefers)
		for _, b := range bad {
			o.FailAt(b.fn.Site(b.node, ""), "%s: the deferred function stores an error in %s, which is not a named result of the enclosing function: the error never reaches the caller", c.Prog.Pos(b.node.Pos()), b.name)
		}
	})
}

// exploreAll widens the generic rules to every loaded repository package
// (used by the exploration-only property X00, never by a registered command).
var exploreAll bool
