// Package props holds the per-property rule instances.
package props

import (
	"fmt"
	"os"
	"strings"

	"pdfverif/internal/core"
)

// Property describes one checked property.
type Property struct {
	ID          string
	Patterns    []string // package patterns to load (relative to repo root)
	Run         func(c *core.Ctx)
	Explanation string
	Assumptions []string
	Trusted     []string
}

// Registry maps property ids to their checks.
var Registry = map[string]*Property{}

func register(p *Property) { Registry[p.ID] = p }

var onlyRule = os.Getenv("PDFVERIF_ONLY_RULE")

// Run loads the repository and runs one property's obligations.
func Run(id, tier string) int {
	p := Registry[id]
	if p == nil {
		fmt.Printf("unknown property %q\n", id)
		return 2
	}
	if tier != "quick" && tier != "thorough" {
		fmt.Printf("unknown tier %q\n", tier)
		return 2
	}
	dir := core.RepoDir()
	patterns := p.Patterns
	if extra := os.Getenv("PDFVERIF_EXPLORE_PATTERNS"); extra != "" {
		// exploration only (never used by registered commands): widen the loaded scope
		patterns = append(append([]string{}, patterns...), strings.Fields(extra)...)
	}
	prog, err := core.Load(dir, nil, patterns...)
	if err == nil {
		setInlineKeep(prog)
	}
	if err != nil {
		// fail closed: a tree that does not load cannot be certified
		fmt.Printf("ERROR: %v\n", err)
		c := core.NewCtx(id, tier, &core.Program{Dir: dir})
		c.Explanation = p.Explanation
		c.Check("LOAD", "repository", "the repository must load and type-check", func(o *core.Ob) {
			o.Count(1)
			o.Fail("load failed: %v", err)
		})
		return c.Finish()
	}
	c := core.NewCtx(id, tier, prog)
	c.Explanation = p.Explanation
	c.Assumptions = append([]string{
		"go/packages + go/types resolve /repo's current working tree exactly as the compiler does (default build: linux/amd64, no tags, non-test files)",
		"every discharge is a necessary condition of the property (a way of breaking it is absent), not the property itself",
	}, p.Assumptions...)
	c.TrustedBase = append([]string{"go/types, go/ast, golang.org/x/tools/go/cfg (v0.50.0)", "rule tables in /verif/internal/props and /verif/spec (hand-confirmed against the source and the cited standards)"}, p.Trusted...)
	if prog.RestoredNames > 0 {
		c.Notes = append(c.Notes, fmt.Sprintf("%d renamed local variables were given the names of the reviewed tree before the rules ran (an alpha-conversion: the functions are the same functions); %d of them were paired by position only", prog.RestoredNames, len(prog.GuessedNames)))
	}
	p.Run(c)
	if out := os.Getenv("PDFVERIF_WRITE_COUNTS"); out != "" && tier == "quick" {
		if err := c.WriteCounts(out); err != nil {
			fmt.Printf("ERROR: %v\n", err)
			return 2
		}
	}
	if tier == "thorough" {
		thorough(c, p)
	}
	return c.Finish()
}

func ruleEnabled(rule string) bool {
	return onlyRule == "" || strings.HasPrefix(rule, onlyRule)
}
