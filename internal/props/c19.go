package props

import (
	"go/types"
	"sort"
	"strings"

	"pdfverif/internal/core"
)

func init() {
	register(&Property{
		ID:       "C19",
		Patterns: []string{".", "./internal/filter/..."},
		Run:      runC19,
		Explanation: "Error-fate analysis over package pdf and internal/filter: for every call whose error result may carry a failure of the byte source or sink (everything except calls proven pure by an interprocedural origin summary), the error must on every path be returned, stored, forwarded to a call, or be dropped only on an edge where it is known nil or classified (IsMalformed, errors.As/Is, comparison with io.EOF or a sentinel, !IsReadError). " +
			"Reported sinks: discarded (blank identifier or ignored call result), deferred (result of a deferred call lost), unchecked/swallowed (a path on which the possibly non-nil, unclassified error is never used), blamed (wrapped as MalformedFileError without classification). Accepted idioms and justified sites are listed with a one-line reason each, keyed by function and callee. " +
			"(R3) the compensation path that lets filters relabel errors: the raw reader is wrapped in the source-error latch below all filters and the source-aware reader above them. Decides the error-handling shape for all fault positions at once; does NOT decide 'returns exactly what it returns without the fault' as a value statement.",
	})
}

// justified sinks: key = function key + "|" + kind + "|" + callee.
// Every entry carries the reason why the sink cannot lose a source/sink failure.
var c19Justified = map[string]string{
	"pdf.asMalformedFilter|blamed|err":                                                                   "decoder set-up errors are relabelled here by design; a source failure underneath is recovered by the source-error latch (rule C19-R3: DecodeStream returns src.promote(err))",
	"pdf.(*filterContentReader).Read|blamed|err":                                                         "decoder read errors are relabelled here by design; sourceAwareReader above substitutes the latched source error (rule C19-R3)",
	"pdf.(*FilterJBIG2).Decode|swallowed|io.Reader.Read":                                                 "size probe: when the probe returns data the budget-exceeded error is reported instead; when it returns no data its error is returned (fixed in 026079f)",
	"pdf.getObjStm|discarded|io.Closer.Close":                                                            "Close of the decoder on the error path (only when another error is already being returned); the stream was only read",
	"pdf.Open|discarded|os.(*File).Close":                                                                "Close on the error path of Open: the primary error is returned, the file was only read",
	"pdf.(*scanner).ReadObject|discarded|pdf.(*scanner).PeekN":                                           "refill latches every non-EOF error in scanner.err; ReadIndirectObject's next read (endobj) returns it, and inside object streams a stream keyword is not legal so the dictionary is the complete object",
	"pdf.(*scanner).tryHex|discarded|pdf.(*scanner).PeekN":                                               "refill latches the error in scanner.err; ReadName's next PeekN returns it",
	"pdf.(*scanner).PeekN|unchecked|pdf.(*scanner).refill":                                               "refill latches every non-EOF error in scanner.err and returns it on every later call; PeekN drops it only when the requested bytes are already buffered (rule C19-R5)",
	"pdf.ParseString|discarded|pdf.(*scanner).PeekN":                                                     "the scanner reads from an in-memory bytes.Reader",
	"pdf.ParseName|discarded|pdf.(*scanner).PeekN":                                                       "the scanner reads from an in-memory bytes.Reader",
	"pdf/internal/filter/dct/jpeg.(*decoder).fill|swallowed|io.Reader.Read":                              "an error delivered together with data is dropped; the source-error latch below the filter chain keeps it and sourceAwareReader reports it (rule C19-R3)",
	"pdf/internal/filter/jbig2.prescanPageHeight|swallowed|pdf/internal/filter/jbig2.parseSegmentHeader": "parses an in-memory byte slice (bytes.NewReader(data))",
	"pdf/internal/filter/jbig2.decodeMMR|swallowed|io.ReadFull":                                          "reads from a decoder over an in-memory byte slice",
}

func runC19(c *core.Ctx) {
	ef := core.NewErrFlow(c.Prog)
	var pkgs []string
	for _, p := range c.Prog.RepoPkgs() {
		sp := core.ShortPkg(p.PkgPath)
		if strings.HasSuffix(sp, "/generate") {
			continue // table generator (a main package), not part of the library
		}
		if sp == "pdf" || strings.HasPrefix(sp, "pdf/internal/filter") || (exploreAll && !strings.Contains(sp, "/examples/") && !strings.Contains(sp, "viewer-tests") && !strings.HasPrefix(sp, "pdf/cmd/")) {
			pkgs = append(pkgs, sp)
		}
	}
	sort.Strings(pkgs)
	nFuncs, nFind := 0, 0
	for _, sp := range pkgs {
		pkg := c.Prog.Pkg(sp)
		for _, fn := range c.Prog.Funcs(pkg) {
			fn := fn
			nFuncs++
			fs := append(ef.Analyze(fn), ef.Blamed(fn)...)
			if len(fs) == 0 {
				continue
			}
			seen := map[string]int{}
			for _, f := range fs {
				f := f
				base := fn.Key + "|" + f.Kind + "|" + f.Callee
				seen[base]++
				key := base
				if seen[base] > 1 {
					key = base + "#" + itoa(seen[base])
				}
				nFind++
				rule := "C19-R1"
				if f.Kind == "blamed" {
					rule = "C19-R2"
				}
				// a recorded finding stays the same finding when its code is
				// moved into a helper that only the recorded function calls
				if caller := soleCaller(c, fn); caller != nil && !fn.Obj.Exported() {
					cand := caller.Key + "|" + f.Kind + "|" + f.Callee
					for _, kk := range c.KnownKeys() {
						if kk == rule+"|"+cand {
							key = cand
						}
					}
				}
				c.Check(rule, key, "an error that may carry a source/sink failure is never discarded, swallowed or relabelled as a malformed-file error", func(o *core.Ob) {
					o.At(fn.Site(f.Node, f.Kind+" error of "+f.Callee))
					if why, ok := c19JustifiedFor(c, fn, f.Kind, f.Callee, 0); ok {
						o.Fact("justified: %s", why)
						return
					}
					o.Fail("%s: %s (%s)", fn.Prog.Pos(f.Node.Pos()), f.Detail, f.Kind)
				})
			}
		}
	}
	if c19Extra != nil {
		c19Extra(c)
	}
	c.Guard(func() { ruleDeferredErrorReachesCaller(c) })
	c.Check("C19-R1", "census", "all functions of package pdf and internal/filter were analysed", func(o *core.Ob) {
		o.Count(nFuncs)
		o.Fact("%d functions analysed, %d sinks examined", nFuncs, nFind)
		o.Shape(nFuncs >= 600, "only %d functions analysed", nFuncs)
	})
}

func init() { c19Extra = ruleC19Structure }

var c19Extra func(c *core.Ctx)

// c19JustifiedFor looks a sink up in the table of justified sinks.  A
// justification given for a function also covers an unexported helper all of
// whose callers (in its package) are covered: moving the justified code into
// a helper does not change what happens to the error.
func c19JustifiedFor(c *core.Ctx, fn *core.Func, kind, callee string, depth int) (string, bool) {
	if why, ok := c19Justified[fn.Key+"|"+kind+"|"+callee]; ok {
		return why, true
	}
	// a justification whose function no longer exists (it was folded into
	// its caller) moves with its code: same kind of sink, same callee
	if depth == 0 {
		for k, why := range c19Justified {
			parts := strings.SplitN(k, "|", 3)
			if len(parts) != 3 || parts[1] != kind || parts[2] != callee {
				continue
			}
			short := core.ShortPkg(fn.Pkg.PkgPath)
			if !strings.HasPrefix(parts[0], short+".") {
				continue
			}
			if c.Prog.FuncOpt(short, strings.TrimPrefix(parts[0], short+".")) == nil {
				return why + " (the function " + parts[0] + " no longer exists; its code is taken to have moved here)", true
			}
		}
	}
	if depth >= 2 || fn.Obj.Exported() {
		return "", false
	}
	var why string
	n := 0
	for _, other := range c.Prog.Funcs(fn.Pkg) {
		if other == fn {
			continue
		}
		calls := false
		for _, cs := range core.CallsIn(other.Info(), other.Decl.Body, true) {
			if cs.Fn == fn.Obj {
				calls = true
			}
		}
		if !calls {
			continue
		}
		w, ok := c19JustifiedFor(c, other, kind, callee, depth+1)
		if !ok && kind == "blamed" && isFilterDecode(other) {
			// what a Filter.Decode returns is what asMalformedFilter relabels: the
			// same compensation (rule C19-R3) covers a relabelling done on its behalf
			w, ok = c19Justified["pdf.asMalformedFilter|blamed|"+callee]
		}
		if !ok {
			return "", false
		}
		why = w + " (code moved into " + fn.Obj.Name() + ", which only " + other.Obj.Name() + " calls)"
		n++
	}
	return why, n > 0
}

// isFilterDecode: the Decode method of a stream filter of package pdf.
func isFilterDecode(fn *core.Func) bool {
	sig := fn.Obj.Type().(*types.Signature)
	if fn.Obj.Name() != "Decode" || sig.Recv() == nil || core.ShortPkg(fn.Pkg.PkgPath) != "pdf" {
		return false
	}
	if sig.Params().Len() != 3 || sig.Results().Len() != 2 {
		return false
	}
	return core.TypeString(sig.Params().At(1).Type()) == "io.Reader" && core.TypeString(sig.Results().At(0).Type()) == "io.ReadCloser"
}

// soleCaller returns the only function of fn's package that calls fn, or nil.
func soleCaller(c *core.Ctx, fn *core.Func) *core.Func {
	var found *core.Func
	for _, other := range c.Prog.Funcs(fn.Pkg) {
		if other == fn {
			continue
		}
		for _, cs := range core.CallsIn(other.Info(), other.Decl.Body, true) {
			if cs.Fn == fn.Obj {
				if found != nil && found != other {
					return nil
				}
				found = other
			}
		}
	}
	return found
}
