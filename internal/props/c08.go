package props

import (
	"go/ast"
	"go/token"
	"go/types"
	"sort"
	"strings"

	"pdfverif/internal/core"
)

func init() {
	register(&Property{
		ID:       "C08",
		Patterns: []string{".", "./internal/filter/..."},
		Run:      runC08,
		Explanation: "Static rules on the decode side of the stream filters: (R1) every return of every Filter.Decode implementation is the malformed-classifier (asMalformedFilter), a delegation to another Decode, an identity pass-through of the input, or a plain failure, so that decoder errors are classified as malformed input; (R2) the per-stream budget given to Decode reaches a Charge (directly or through a callee that receives the budget), except for the listed constant-memory filters; DecodeStream derives one budget from the raw length and hands the same object to every layer; " +
			"(R3) output of formats with intrinsic dimensions is bounded: the CCITTFax row cap min(MaxImageHeight, MaxImagePixels/columns) is applied on every path before the reader is built, whatever /Rows says, and the progressive-JPEG work cap is evaluated for every block visit of every scan kind (not only first passes); (R5) the filter-chain length cap dominates the per-filter loop; " +
			"(R6) every wrapper around a closable reader forwards Close to the reader it wraps (so closing the outer reader releases a producer goroutine), dct.Decode hands out the pipe reader and its producer closes the writer on every path (shared with C05-R6). " +
			"Decides these for all parameter dictionaries and bodies; does NOT decide actual allocation totals, running time, or the dimension arithmetic inside the JBIG2/JPEG decoders.",
	})
}

func runC08(c *core.Ctx) {
	ruleDecodeReturns(c)
	ruleBudgetReaches(c)
	ruleDimensionCaps(c)
	ruleChainCap(c)
	ruleCloseForwarding(c)
}

// filterImplementers lists the named types of package pdf that implement pdf.Filter.
func filterImplementers(c *core.Ctx) []types.Type {
	pkg := c.Prog.Pkg("pdf")
	tn, ok := pkg.Types.Scope().Lookup("Filter").(*types.TypeName)
	if !ok {
		core.Undecided("pdf.Filter not found")
	}
	iface := tn.Type().Underlying().(*types.Interface)
	var out []types.Type
	for _, name := range pkg.Types.Scope().Names() {
		t, ok := pkg.Types.Scope().Lookup(name).(*types.TypeName)
		if !ok || t.IsAlias() {
			continue
		}
		if _, isIface := t.Type().Underlying().(*types.Interface); isIface {
			continue
		}
		if types.Implements(t.Type(), iface) {
			out = append(out, t.Type())
		} else if types.Implements(types.NewPointer(t.Type()), iface) {
			out = append(out, types.NewPointer(t.Type()))
		}
	}
	return out
}

func methodFunc(c *core.Ctx, t types.Type, name string) *core.Func {
	obj, _, _ := types.LookupFieldOrMethod(t, true, c.Prog.Pkg("pdf").Types, name)
	f, ok := obj.(*types.Func)
	if !ok {
		return nil
	}
	return c.Prog.FuncOf(f)
}

func ruleDecodeReturns(c *core.Ctx) {
	const rule = "C08-R1"
	impls := filterImplementers(c)
	c.Floor(rule, 14)
	for _, t := range impls {
		t := t
		fn := methodFunc(c, t, "Decode")
		if fn == nil {
			continue
		}
		c.Check(rule, fn.Key, "every way a decoder is handed out goes through the malformed-input classifier (or delegates to a Decode that does, or passes the input through unchanged)", func(o *core.Ob) {
			info := fn.Info()
			g := fn.Graph()
			for _, r := range g.Returns() {
				rs := r.AST.(*ast.ReturnStmt)
				o.At(fn.Site(rs, c.Prog.Src(rs)))
				if len(rs.Results) == 1 {
					call, ok := rs.Results[0].(*ast.CallExpr)
					if !ok {
						o.FailAt(fn.Site(rs, ""), "unrecognised return form")
						continue
					}
					k := core.CalleeKey(info, call)
					switch {
					case k == "pdf.asMalformedFilter":
					case strings.HasSuffix(k, ".Decode") && strings.HasPrefix(k, "pdf."):
					default:
						o.FailAt(fn.Site(rs, ""), "the decoder is returned through %s, not through asMalformedFilter: its errors would not be classified as malformed input", k)
					}
					continue
				}
				if len(rs.Results) != 2 {
					continue
				}
				if core.IsNil(info, rs.Results[0]) {
					continue // plain failure
				}
				// a non-nil reader returned directly: must be an identity pass-through or a decrypting reader
				src := c.Prog.Src(rs.Results[0])
				switch {
				case src == "io.NopCloser(r)":
				case strings.HasPrefix(src, "io.NopCloser(bytes.NewReader("):
					o.Fact("in-memory reader over already decoded data: cannot fail")
				case fn.Key == "pdf.(*filterCrypt).Decode" && (src == "rc" || src == "io.NopCloser(decrypted)"):
					o.Fact("decryption layer: errors of the cipher reader are I/O or padding errors handled by DecodeStream's latch")
				default:
					o.FailAt(fn.Site(rs, ""), "a decoding reader (%s) is returned without the malformed-input classifier", src)
				}
			}
		})
	}
}

func ruleBudgetReaches(c *core.Ctx) {
	const rule = "C08-R2"
	constantMemory := map[string]string{
		"pdf.FilterASCII85.Decode":           "constant-size state",
		"pdf.FilterASCIIHex.Decode":          "constant-size state",
		"pdf.FilterRunLength.Decode":         "constant-size state (128-byte run buffer)",
		"pdf.FilterCryptIdentity.Decode":     "identity",
		"pdf.FilterCryptStandard.Decode":     "not implemented: returns an error",
		"pdf.FilterCryptNamed.Decode":        "not implemented: returns an error",
		"pdf.FilterJPX.Decode":               "not implemented: returns an error",
		"pdf.(*filterNotImplemented).Decode": "returns an error",
		"pdf.(*filterCrypt).Decode":          "block cipher with constant-size state",
	}
	for _, t := range filterImplementers(c) {
		fn := methodFunc(c, t, "Decode")
		if fn == nil {
			continue
		}
		fn2 := fn
		c.Check(rule, fn2.Key, "the per-stream memory budget is charged (or handed to a callee that charges it) by every decoder that allocates in proportion to its parameters or input", func(o *core.Ob) {
			o.At(fn2.Site(fn2.Decl, ""))
			if why, ok := constantMemory[fn2.Key]; ok {
				o.Fact("exempt: %s", why)
				return
			}
			// the budget parameter is named and used as an argument or receiver of Charge
			params := fn2.Decl.Type.Params.List
			last := params[len(params)-1]
			if len(last.Names) == 0 || last.Names[0].Name == "_" {
				o.Fail("the budget parameter is ignored")
				return
			}
			b := fn2.Info().ObjectOf(last.Names[0])
			used := false
			for _, cs := range core.CallsIn(fn2.Info(), fn2.Decl, true) {
				for _, a := range cs.Call.Args {
					if core.ObjOf(fn2.Info(), a) == b {
						used = true
					}
				}
				if se, ok := cs.Call.Fun.(*ast.SelectorExpr); ok && core.ObjOf(fn2.Info(), se.X) == b && (se.Sel.Name == "Charge" || se.Sel.Name == "Available") {
					used = true
				}
			}
			o.Require(used, "the budget is neither charged nor passed on")
		})
	}
	c.Check(rule, "pdf.decodeFlateLZW", "the Flate/LZW decode helper passes the budget to the predictor reader", func(o *core.Ob) {
		fn := c.Prog.Func("pdf", "decodeFlateLZW")
		info := fn.Info()
		b := paramObj(fn, "budget")
		ok := false
		for _, cs := range core.CallsIn(info, fn.Decl, true) {
			if strings.HasSuffix(cs.Key, "predict.NewReader") {
				o.At(fn.Site(cs.Call, "predictor"))
				for _, a := range cs.Call.Args {
					if core.ObjOf(info, a) == b {
						ok = true
					}
				}
			}
		}
		o.Require(ok, "predict.NewReader does not receive the budget")
	})
	c.Check(rule, "pdf.DecodeStream/budget", "one budget is derived from the raw stream length and the same budget object is given to every layer of the chain", func(o *core.Ob) {
		for _, name := range []string{"DecodeStream", "RawStreamReader"} {
			fn := c.Prog.Func("pdf", name)
			info := fn.Info()
			src := c.Prog.Src(fn.Decl.Body)
			o.At(fn.Site(fn.Decl, ""))
			o.Require(strings.Contains(src, "budget:=membudget.New(limits.StreamBudget(x.length))"), "%s does not derive the budget from the raw stream length", name)
			b := localVar(fn, "budget", 0)
			for _, cs := range core.CallsIn(info, fn.Decl, true) {
				if strings.HasSuffix(cs.Key, ".Decode") {
					o.Require(core.ObjOf(info, cs.Call.Args[len(cs.Call.Args)-1]) == b, "%s: a layer is created with a different budget", name)
				}
			}
		}
	})
}

func ruleDimensionCaps(c *core.Ctx) {
	const rule = "C08-R3"
	c.Check(rule, "pdf.FilterCCITTFax.Decode/row-cap", "the number of rows a CCITTFax stream may produce is capped at min(MaxImageHeight, MaxImagePixels/columns) on every path, also when the dictionary declares /Rows", func(o *core.Ob) {
		fn := c.Prog.Func("pdf", "FilterCCITTFax.Decode")
		g := fn.Graph()
		info := fn.Info()
		nr := callVerticesSuffix(g, "ccittfax.NewReader")
		if len(nr) != 1 {
			o.Count(1)
			o.Fail("expected one ccittfax.NewReader call")
			return
		}
		o.At(fn.Site(nr[0].Call, "reader built"))
		src := c.Prog.Src(fn.Decl.Body)
		o.Require(strings.Contains(src, "geoMax:=max(1,min(limits.MaxImageHeight,limits.MaxImagePixels/cols))"), "the geometric cap is not max(1, min(MaxImageHeight, MaxImagePixels/cols))")
		o.Require(strings.Contains(src, "cols:=max(params.Columns,1)"), "the column count used for the cap is not clamped to at least 1")
		geo := localVar(fn, "geoMax", 0)
		// on every path to NewReader: either MaxRows was assigned geoMax, or the fact MaxRows <= geoMax && MaxRows > 0 holds
		var assign []*core.V
		for _, v := range g.Vs {
			if as, ok := v.AST.(*ast.AssignStmt); ok && strings.HasSuffix(core.ExprStr(as.Lhs[0]), ".MaxRows") {
				if core.ObjOf(info, as.Rhs[0]) == geo {
					assign = append(assign, v)
					o.At(fn.Site(as, "cap applied"))
				} else {
					o.FailAt(fn.Site(as, ""), "MaxRows is set to %s, which is not the geometric cap", core.ExprStr(as.Rhs[0]))
				}
			}
		}
		// edges on which MaxRows is known to be within (0, geoMax]
		okEdges := g.GuardEdges(func(a core.Atom) bool {
			// negation of (MaxRows <= 0 || MaxRows > geoMax) gives both MaxRows > 0 and MaxRows <= geoMax
			cmp, ok := a.AsCmp()
			if !ok || !strings.HasSuffix(core.ExprStr(cmp.L), ".MaxRows") {
				return false
			}
			return cmp.Op == token.LEQ && core.ObjOf(info, cmp.R) == geo
		})
		reach := g.ReachFrom(g.Entry, true, core.AvoidVs(assign...).WithEdges(okEdges...))
		if reach[nr[0].V] {
			o.Fail("the reader can be built on a path where MaxRows is neither set to the geometric cap nor known to be at most the cap (an explicit /Rows would lift the output bound)")
		}
		// the buffer is charged first
		ch := callVerticesSuffix(g, ".Charge")
		o.Require(len(ch) == 1 && g.Dominates(ch[0].V, nr[0].V), "the row buffers are not charged to the budget before the reader is built")
	})
	c.Check(rule, "pdf/internal/filter/dct/jpeg.(*decoder).processSOS/work-cap", "the progressive-scan work cap is evaluated for every block visit of every scan (first passes and refinement passes alike)", func(o *core.Ob) {
		fn := c.Prog.Func("pdf/internal/filter/dct/jpeg", "(*decoder).processSOS")
		g := fn.Graph()
		var cap *core.V
		for _, bv := range g.BranchVertices() {
			if bv.Cond.Expr != nil && strings.Contains(core.ExprStr(bv.Cond.Expr), "progVisits") {
				cap = bv
				o.At(fn.Site(bv.AST, "work cap"))
			}
		}
		if cap == nil {
			o.Count(1)
			o.Fail("processSOS has no progressive work cap")
			return
		}
		o.Require(strings.ReplaceAll(core.ExprStr(cap.Cond.Expr), " ", "") == "d.progVisits>maxProgPasses*d.totalProgBlocks", "the cap is %s", core.ExprStr(cap.Cond.Expr))
		conds := dominatingConds(g, cap)
		o.Fact("cap evaluated under %v", conds)
		for _, cnd := range conds {
			s := strings.ReplaceAll(cnd, " ", "")
			if strings.HasPrefix(s, "ah") || strings.Contains(s, "zigStart") || strings.Contains(s, "al") && strings.HasPrefix(s, "al") {
				o.Fail("the work cap is only evaluated when %s: scans of the other kind are not counted", cnd)
			}
		}
		hasProg := false
		for _, cnd := range conds {
			if cnd == "d.progressive" {
				hasProg = true
			}
		}
		o.Require(hasProg, "the cap is not tied to progressive mode")
		// the counter is incremented right before
		inc := false
		for _, v := range g.Vs {
			if id, ok := v.AST.(*ast.IncDecStmt); ok && strings.HasSuffix(core.ExprStr(id.X), ".progVisits") && g.Dominates(v, cap) {
				inc = true
			}
		}
		o.Require(inc, "the visit counter is not incremented before the cap is tested")
		// the true edge returns an error
		for v := range g.ReachFrom(succ(cap, core.EdgeTrue), true, core.AvoidVs(succ(cap, core.EdgeFalse))) {
			if rs, ok := v.AST.(*ast.ReturnStmt); ok {
				o.Require(!core.IsNil(fn.Info(), rs.Results[0]), "exceeding the cap does not fail")
			}
		}
		// every refine / decode of a block is after the cap within the iteration
		for _, cv := range callVerticesSuffix(g, ".refine") {
			o.At(fn.Site(cv.Call, "refinement pass"))
			var nonProg []core.EdgeRef
			for _, bv := range g.BranchVertices() {
				if bv.Cond.Expr != nil && core.ExprStr(bv.Cond.Expr) == "d.progressive" {
					nonProg = append(nonProg, core.EdgeRef{From: bv, Label: core.EdgeFalse})
				}
			}
			reach := g.ReachFrom(g.Entry, true, core.AvoidVs(cap).WithEdges(nonProg...))
			o.Require(!reach[cv.V], "in progressive mode a refinement pass can run without passing the work cap")
		}
	})
}

func ruleChainCap(c *core.Ctx) {
	const rule = "C08-R5"
	c.Check(rule, "pdf.GetFilters/chain-cap", "the filter chain length is capped before any filter of an array is built", func(o *core.Ob) {
		fn := c.Prog.Func("pdf", "GetFilters")
		g := fn.Graph()
		info := fn.Info()
		var cap *core.V
		for _, bv := range g.BranchVertices() {
			if bv.Cond.Expr != nil && strings.Contains(core.ExprStr(bv.Cond.Expr), "maxFilterChainLength") {
				cap = bv
				o.At(fn.Site(bv.AST, "cap"))
			}
		}
		if cap == nil {
			o.Count(1)
			o.Fail("no chain-length cap")
			return
		}
		o.Require(strings.ReplaceAll(core.ExprStr(cap.Cond.Expr), " ", "") == "len(f)>maxFilterChainLength", "cap condition is %s", core.ExprStr(cap.Cond.Expr))
		o.Require(c.Prog.ConstInt("pdf", "maxFilterChainLength") == 8, "the cap is %d, the documented limit is 8", c.Prog.ConstInt("pdf", "maxFilterChainLength"))
		n := 0
		for _, cv := range callVertices(g, "pdf.MakeFilter") {
			// the one inside the array loop
			inLoop := false
			for _, h := range loopHeads(g) {
				if g.ReachFrom(succ(h, core.EdgeTrue), true, core.AvoidVs(h))[cv.V] {
					inLoop = true
				}
			}
			if !inLoop {
				continue
			}
			n++
			o.At(fn.Site(cv.Call, "per-filter construction"))
			o.Require(g.EdgeDominates(cv.V, core.EdgeRef{From: cap, Label: core.EdgeFalse}), "filters of an array are built without passing the length cap")
		}
		o.Require(n == 1, "expected one MakeFilter call in the array loop, found %d", n)
		_ = info
	})
}

func ruleCloseForwarding(c *core.Ctx) {
	const rule = "C08-R6"
	closer := types.NewInterfaceType([]*types.Func{
		types.NewFunc(token.NoPos, nil, "Close", types.NewSignatureType(nil, nil, nil, nil, types.NewTuple(types.NewVar(token.NoPos, nil, "", types.Universe.Lookup("error").Type())), false)),
	}, nil)
	closer.Complete()
	n := 0
	var keys []string
	checks := map[string]func(o *core.Ob){}
	for _, pkg := range c.Prog.RepoPkgs() {
		sp := core.ShortPkg(pkg.PkgPath)
		if sp != "pdf" && !strings.HasPrefix(sp, "pdf/internal/filter") {
			continue
		}
		for _, name := range pkg.Types.Scope().Names() {
			tn, ok := pkg.Types.Scope().Lookup(name).(*types.TypeName)
			if !ok || tn.IsAlias() {
				continue
			}
			st, ok := tn.Type().Underlying().(*types.Struct)
			if !ok {
				continue
			}
			// fields that can be closed and are readers
			var inner []*types.Var
			for i := 0; i < st.NumFields(); i++ {
				f := st.Field(i)
				ft := f.Type()
				if _, isIface := ft.Underlying().(*types.Interface); !isIface {
					continue
				}
				if types.Implements(ft, closer) && hasMethod(ft, "Read") {
					inner = append(inner, f)
				}
			}
			if len(inner) == 0 {
				continue
			}
			// does the type have its own Close?
			var cl *core.Func
			for _, t := range []types.Type{tn.Type(), types.NewPointer(tn.Type())} {
				obj, idx, _ := types.LookupFieldOrMethod(t, true, pkg.Types, "Close")
				if f, ok := obj.(*types.Func); ok && len(idx) == 1 {
					cl = c.Prog.FuncOf(f)
				}
			}
			if cl == nil {
				continue // Close is promoted from the embedded reader: forwards by construction
			}
			n++
			key := sp + "." + name
			fields := inner
			clf := cl
			keys = append(keys, key)
			checks[key] = func(o *core.Ob) {
				o.At(clf.Site(clf.Decl, "Close"))
				info := clf.Info()
				ok := false
				for _, cs := range core.CallsIn(info, clf.Decl, true) {
					se, isSel := cs.Call.Fun.(*ast.SelectorExpr)
					if !isSel || se.Sel.Name != "Close" {
						continue
					}
					// x.field.Close() or x.Embedded.Close()
					if inSel, ok2 := ast.Unparen(se.X).(*ast.SelectorExpr); ok2 {
						for _, f := range fields {
							if info.ObjectOf(inSel.Sel) == f {
								ok = true
							}
						}
					}
				}
				if !ok {
					var fn []string
					for _, f := range fields {
						fn = append(fn, f.Name())
					}
					o.Fail("%s has its own Close but does not close the reader it wraps (%s): closing the outer reader would not release the producer underneath", key, strings.Join(fn, ", "))
				}
			}
		}
	}
	sort.Strings(keys)
	for _, k := range keys {
		c.Check(rule, k, "a reader wrapper with its own Close forwards Close to the reader it wraps", checks[k])
	}
	c.Check(rule, "wrappers/census", "reader wrappers with an own Close method were found", func(o *core.Ob) {
		o.Count(n)
		o.Require(n >= 2, "only %d wrappers found", n)
	})
	c.Check(rule, "pdf/internal/filter/dct.Decode", "the DCT decoder hands out the pipe reader itself, so Close on it unblocks the producer, and the producer closes the pipe writer on every path", func(o *core.Ob) {
		fn := c.Prog.Func("pdf/internal/filter/dct", "Decode")
		info := fn.Info()
		g := fn.Graph()
		var pr, pw types.Object
		for _, v := range g.Vs {
			if as, ok := v.AST.(*ast.AssignStmt); ok && len(as.Rhs) == 1 {
				if call, ok := as.Rhs[0].(*ast.CallExpr); ok && core.CalleeKey(info, call) == "io.Pipe" {
					pr, pw = core.ObjOf(info, as.Lhs[0]), core.ObjOf(info, as.Lhs[1])
					o.At(fn.Site(as, "pipe"))
				}
			}
		}
		if pr == nil {
			o.Fail("no pipe")
			return
		}
		for _, r := range g.Returns() {
			rs := r.AST.(*ast.ReturnStmt)
			if core.IsNil(info, rs.Results[1]) {
				o.Require(core.ObjOf(info, rs.Results[0]) == pr, "Decode returns %s instead of the pipe reader", core.ExprStr(rs.Results[0]))
			}
		}
		ast.Inspect(fn.Decl.Body, func(m ast.Node) bool {
			gs, ok := m.(*ast.GoStmt)
			if !ok {
				return true
			}
			lit, ok := gs.Call.Fun.(*ast.FuncLit)
			if !ok {
				return true
			}
			lg := fn.LitGraph(lit)
			var closes []*core.V
			for _, x := range lg.Vs {
				if x.AST == nil {
					continue
				}
				for _, cs := range core.CallsIn(info, x.AST, false) {
					if se, ok := cs.Call.Fun.(*ast.SelectorExpr); ok && (se.Sel.Name == "Close" || se.Sel.Name == "CloseWithError") && core.ObjOf(info, se.X) == pw {
						closes = append(closes, x)
					}
				}
			}
			o.Count(len(closes))
			if lg.ReachFrom(lg.Entry, true, core.AvoidVs(closes...))[lg.Exit] {
				o.Fail("the producer goroutine can end without closing the pipe writer (the consumer would block forever)")
			}
			return true
		})
	})
}

func hasMethod(t types.Type, name string) bool {
	ms := types.NewMethodSet(t)
	for i := 0; i < ms.Len(); i++ {
		if ms.At(i).Obj().Name() == name {
			return true
		}
	}
	return false
}
