package props

import (
	"go/ast"
	"go/constant"
	"go/token"
	"go/types"
	"sort"
	"strconv"
	"strings"

	"pdfverif/internal/core"
)

func init() {
	register(&Property{
		ID:       "C08",
		Patterns: []string{".", "./internal/filter/...", "image/jpeg"},
		Run:      runC08,
		Explanation: "Static rules on the decode side of the stream filters: (R1) every return of every Filter.Decode implementation is the malformed-classifier (asMalformedFilter), a delegation to another Decode, an identity pass-through of the input, or a plain failure, so that decoder errors are classified as malformed input; (R2) the per-stream budget given to Decode reaches a Charge (directly or through a callee that receives the budget), except for the listed constant-memory filters; DecodeStream derives one budget from the raw length and hands the same object to every layer; " +
			"(R3) output of formats with intrinsic dimensions is bounded: the CCITTFax row cap min(MaxImageHeight, MaxImagePixels/columns) is applied on every path before the reader is built, whatever /Rows says, and the progressive-JPEG work cap is evaluated for every block visit of every scan kind (not only first passes); (R5) the filter-chain length cap dominates the per-filter loop; " +
			"(R6) every wrapper around a closable reader forwards Close to the reader it wraps (so closing the outer reader releases a producer goroutine), dct.Decode hands out the pipe reader and its producer closes the writer on every path (shared with C05-R6). " +
			"Decides these for all parameter dictionaries and bodies; does NOT decide actual allocation totals, running time, or the dimension arithmetic inside the JBIG2/JPEG decoders.",
	})
}

func runC08(c *core.Ctx) {
	c.Guard(func() { ruleDecodeReturns(c) })
	c.Guard(func() { ruleBudgetReaches(c) })
	c.Guard(func() { ruleDimensionCaps(c) })
	c.Guard(func() { ruleChainCap(c) })
	c.Guard(func() { ruleCloseForwarding(c) })
	c.Guard(func() { rulePoolOwnership(c) })
	c.Guard(func() { ruleLZWPrefixOrder(c) })
	c.Guard(func() { ruleIndexClamps(c) })
	c.Guard(func() { ruleDCTPlaneCharge(c) })
	c.Guard(func() { ruleJPEGHeaderValidation(c) })
	c.Guard(func() { ruleFuncTableSlots(c, "C08-R14") })
	c.Guard(func() { ruleAllocAfterCharge(c, "C08-R15") })
	c.Guard(func() {
		ruleAliasHygiene(c, [3]string{"C08-R11", "C08-R12", "C08-R13"}, "pdf/internal/filter/jbig2", "pdf/internal/filter/dct/jpeg")
	})
}

// filterImplementers lists the named types of package pdf that implement pdf.Filter.
func filterImplementers(c *core.Ctx) []types.Type {
	pkg := c.Prog.Pkg("pdf")
	tn, ok := pkg.Types.Scope().Lookup("Filter").(*types.TypeName)
	if !ok {
		core.Undecided("pdf.Filter not found")
	}
	iface := tn.Type().Underlying().(*types.Interface)
	var out []types.Type
	for _, name := range pkg.Types.Scope().Names() {
		t, ok := pkg.Types.Scope().Lookup(name).(*types.TypeName)
		if !ok || t.IsAlias() {
			continue
		}
		if _, isIface := t.Type().Underlying().(*types.Interface); isIface {
			continue
		}
		if types.Implements(t.Type(), iface) {
			out = append(out, t.Type())
		} else if types.Implements(types.NewPointer(t.Type()), iface) {
			out = append(out, types.NewPointer(t.Type()))
		}
	}
	return out
}

func methodFunc(c *core.Ctx, t types.Type, name string) *core.Func {
	obj, _, _ := types.LookupFieldOrMethod(t, true, c.Prog.Pkg("pdf").Types, name)
	f, ok := obj.(*types.Func)
	if !ok {
		return nil
	}
	return c.Prog.FuncOf(f)
}

func ruleDecodeReturns(c *core.Ctx) {
	const rule = "C08-R1"
	impls := filterImplementers(c)
	c.Floor(rule, 14)
	for _, t := range impls {
		t := t
		fn := methodFunc(c, t, "Decode")
		if fn == nil {
			continue
		}
		c.Check(rule, fn.Key, "every way a decoder is handed out goes through the malformed-input classifier (or delegates to a Decode that does, or passes the input through unchanged)", func(o *core.Ob) {
			info := fn.Info()
			g := fn.Graph()
			for _, r := range g.Returns() {
				rs := r.AST.(*ast.ReturnStmt)
				o.At(fn.Site(rs, c.Prog.Src(rs)))
				if len(rs.Results) == 1 {
					call, ok := rs.Results[0].(*ast.CallExpr)
					if !ok {
						o.FailAt(fn.Site(rs, ""), "unrecognised return form")
						continue
					}
					k := core.CalleeKey(info, call)
					switch {
					case k == "pdf.asMalformedFilter":
					case strings.HasSuffix(k, ".Decode") && strings.HasPrefix(k, "pdf."):
					default:
						o.FailAt(fn.Site(rs, ""), "the decoder is returned through %s, not through asMalformedFilter: its errors would not be classified as malformed input", k)
					}
					continue
				}
				if len(rs.Results) != 2 {
					continue
				}
				if core.IsNil(info, rs.Results[0]) {
					continue // plain failure
				}
				// a non-nil reader returned directly: must be an identity pass-through or a decrypting reader
				src := c.Prog.Src(rs.Results[0])
				switch {
				case src == "io.NopCloser(r)":
				case strings.HasPrefix(src, "io.NopCloser(bytes.NewReader("):
					o.Fact("in-memory reader over already decoded data: cannot fail")
				case fn.Key == "pdf.(*filterCrypt).Decode" && (src == "rc" || src == "io.NopCloser(decrypted)"):
					o.Fact("decryption layer: errors of the cipher reader are I/O or padding errors handled by DecodeStream's latch")
				default:
					o.FailAt(fn.Site(rs, ""), "a decoding reader (%s) is returned without the malformed-input classifier", src)
				}
			}
		})
	}
}

func ruleBudgetReaches(c *core.Ctx) {
	const rule = "C08-R2"
	constantMemory := map[string]string{
		"pdf.FilterASCII85.Decode":           "constant-size state",
		"pdf.FilterASCIIHex.Decode":          "constant-size state",
		"pdf.FilterRunLength.Decode":         "constant-size state (128-byte run buffer)",
		"pdf.FilterCryptIdentity.Decode":     "identity",
		"pdf.FilterCryptStandard.Decode":     "not implemented: returns an error",
		"pdf.FilterCryptNamed.Decode":        "not implemented: returns an error",
		"pdf.FilterJPX.Decode":               "not implemented: returns an error",
		"pdf.(*filterNotImplemented).Decode": "returns an error",
		"pdf.(*filterCrypt).Decode":          "block cipher with constant-size state",
	}
	for _, t := range filterImplementers(c) {
		fn := methodFunc(c, t, "Decode")
		if fn == nil {
			continue
		}
		fn2 := fn
		c.Check(rule, fn2.Key, "the per-stream memory budget is charged (or handed to a callee that charges it) by every decoder that allocates in proportion to its parameters or input", func(o *core.Ob) {
			o.At(fn2.Site(fn2.Decl, ""))
			if why, ok := constantMemory[fn2.Key]; ok {
				o.Fact("exempt: %s", why)
				return
			}
			// the budget parameter is named and used as an argument or receiver of Charge
			params := fn2.Decl.Type.Params.List
			last := params[len(params)-1]
			if len(last.Names) == 0 || last.Names[0].Name == "_" {
				o.Fail("the budget parameter is ignored")
				return
			}
			b := fn2.Info().ObjectOf(last.Names[0])
			used := false
			for _, cs := range core.CallsIn(fn2.Info(), fn2.Decl, true) {
				for _, a := range cs.Call.Args {
					if core.ObjOf(fn2.Info(), a) == b {
						used = true
					}
				}
				if se, ok := cs.Call.Fun.(*ast.SelectorExpr); ok && core.ObjOf(fn2.Info(), se.X) == b && (se.Sel.Name == "Charge" || se.Sel.Name == "Available") {
					used = true
				}
			}
			o.Require(used, "the budget is neither charged nor passed on")
		})
	}
	c.Check(rule, "pdf.decodeFlateLZW", "the Flate/LZW decode helper passes the budget to the predictor reader", func(o *core.Ob) {
		fn := c.Prog.Func("pdf", "decodeFlateLZW")
		info := fn.Info()
		b := paramObj(fn, "budget")
		ok := false
		for _, cs := range core.CallsIn(info, fn.Decl, true) {
			if strings.HasSuffix(cs.Key, "predict.NewReader") {
				o.At(fn.Site(cs.Call, "predictor"))
				for _, a := range cs.Call.Args {
					if core.ObjOf(info, a) == b {
						ok = true
					}
				}
			}
		}
		o.Require(ok, "predict.NewReader does not receive the budget")
	})
	c.Check(rule, "pdf.DecodeStream/budget", "one budget is derived from the raw stream length and the same budget object is given to every layer of the chain", func(o *core.Ob) {
		for _, name := range []string{"DecodeStream", "RawStreamReader"} {
			fn := c.Prog.Func("pdf", name)
			info := fn.Info()
			src := c.Prog.Src(fn.Decl.Body)
			o.At(fn.Site(fn.Decl, ""))
			o.Shape(strings.Contains(src, "budget:=membudget.New(limits.StreamBudget(x.length))"), "%s does not derive the budget from the raw stream length", name)
			b := localVar(fn, "budget", 0)
			g := fn.Graph()
			for _, v := range g.Vs {
				if v.AST == nil {
					continue
				}
				for _, cs := range core.CallsIn(info, v.AST, false) {
					if !strings.HasSuffix(cs.Key, ".Decode") || len(cs.Call.Args) == 0 {
						continue
					}
					// the budget itself, or a local / a field of a local struct that was given it
					arg := cs.Call.Args[len(cs.Call.Args)-1]
					same := core.ObjOf(info, arg) == b
					at := v
					for depth := 0; !same && depth < 4; depth++ {
						vc := valueCases(g, at, arg, 1)
						if len(vc) != 1 || vc[0].V == nil || vc[0].Expr == arg {
							break
						}
						arg, at = vc[0].Expr, vc[0].V
						same = core.ObjOf(info, arg) == b
					}
					o.Require(same, "%s: a layer is created with a different budget", name)
				}
			}
		}
	})
}

func ruleDimensionCaps(c *core.Ctx) {
	const rule = "C08-R3"
	c.Check(rule, "pdf.FilterCCITTFax.Decode/row-cap", "the number of rows a CCITTFax stream may produce is capped at min(MaxImageHeight, MaxImagePixels/columns) on every path, also when the dictionary declares /Rows", func(o *core.Ob) {
		fn := c.Prog.Func("pdf", "FilterCCITTFax.Decode")
		g := fn.Graph()
		info := fn.Info()
		nr := callVerticesSuffix(g, "ccittfax.NewReader")
		if len(nr) != 1 {
			o.Count(1)
			o.Unrec("expected one ccittfax.NewReader call")
			return
		}
		o.At(fn.Site(nr[0].Call, "reader built"))
		src := c.Prog.Src(fn.Decl.Body)
		o.Shape(strings.Contains(src, "geoMax:=max(1,min(limits.MaxImageHeight,limits.MaxImagePixels/cols))"), "the geometric cap is not max(1, min(MaxImageHeight, MaxImagePixels/cols))")
		o.Shape(strings.Contains(src, "cols:=max(params.Columns,1)"), "the column count used for the cap is not clamped to at least 1")
		geo := localVar(fn, "geoMax", 0)
		// on every path to NewReader: either MaxRows was assigned geoMax, or the fact MaxRows <= geoMax && MaxRows > 0 holds
		var assign []*core.V
		for _, v := range g.Vs {
			if as, ok := v.AST.(*ast.AssignStmt); ok && strings.HasSuffix(core.ExprStr(as.Lhs[0]), ".MaxRows") {
				if core.ObjOf(info, as.Rhs[0]) == geo {
					assign = append(assign, v)
					o.At(fn.Site(as, "cap applied"))
				} else if strings.ReplaceAll(core.ExprStr(ast.Unparen(as.Rhs[0])), " ", "") == strings.ReplaceAll(core.ExprStr(as.Lhs[0]), " ", "") {
					// MaxRows = MaxRows (a folded-in helper handing its argument back): no change
				} else if _, isK := core.IntConst(info, as.Rhs[0]); isK || strings.Contains(core.ExprStr(as.Rhs[0]), "Rows") {
					o.FailAt(fn.Site(as, ""), "MaxRows is set to %s, which is not the geometric cap", core.ExprStr(as.Rhs[0]))
				} else {
					o.Unrec("%s: MaxRows is set to %s: not traced to the geometric cap", c.Prog.Pos(as.Pos()), core.ExprStr(as.Rhs[0]))
					assign = append(assign, v)
				}
			}
		}
		// edges on which MaxRows is known to be within (0, geoMax]
		okEdges := g.GuardEdges(func(a core.Atom) bool {
			// negation of (MaxRows <= 0 || MaxRows > geoMax) gives both MaxRows > 0 and MaxRows <= geoMax
			cmp, ok := a.AsCmp()
			if !ok || !strings.HasSuffix(core.ExprStr(cmp.L), ".MaxRows") {
				return false
			}
			return cmp.Op == token.LEQ && core.ObjOf(info, cmp.R) == geo
		})
		reach := g.ReachFrom(g.Entry, true, core.AvoidVs(assign...).WithEdges(okEdges...))
		if reach[nr[0].V] {
			o.Fail("the reader can be built on a path where MaxRows is neither set to the geometric cap nor known to be at most the cap (an explicit /Rows would lift the output bound)")
		}
		// the buffer is charged first
		ch := callVerticesSuffix(g, ".Charge")
		o.Require(len(ch) == 1 && g.Dominates(ch[0].V, nr[0].V), "the row buffers are not charged to the budget before the reader is built")
	})
	c.Check(rule, "pdf/internal/filter/dct/jpeg.(*decoder).processSOS/work-cap", "the progressive-scan work cap is evaluated for every block visit of every scan (first passes and refinement passes alike)", func(o *core.Ob) {
		fn := c.Prog.Func("pdf/internal/filter/dct/jpeg", "(*decoder).processSOS")
		g := fn.Graph()
		var cap *core.V
		for _, bv := range g.BranchVertices() {
			if bv.Cond.Expr != nil && strings.Contains(core.ExprStr(bv.Cond.Expr), "progVisits") {
				cap = bv
				o.At(fn.Site(bv.AST, "work cap"))
			}
		}
		if cap == nil {
			o.Count(1)
			o.Fail("processSOS has no progressive work cap")
			return
		}
		o.Shape(strings.ReplaceAll(core.ExprStr(cap.Cond.Expr), " ", "") == "d.progVisits>maxProgPasses*d.totalProgBlocks", "the cap is %s", core.ExprStr(cap.Cond.Expr))
		conds := dominatingConds(g, cap)
		o.Fact("cap evaluated under %v", conds)
		for _, cnd := range conds {
			s := strings.ReplaceAll(cnd, " ", "")
			if strings.HasPrefix(s, "ah") || strings.Contains(s, "zigStart") || strings.Contains(s, "al") && strings.HasPrefix(s, "al") {
				o.Fail("the work cap is only evaluated when %s: scans of the other kind are not counted", cnd)
			}
		}
		hasProg := false
		for _, cnd := range conds {
			if cnd == "d.progressive" {
				hasProg = true
			}
		}
		o.Require(hasProg, "the cap is not tied to progressive mode")
		// the counter is incremented right before
		inc := false
		for _, v := range g.Vs {
			if id, ok := v.AST.(*ast.IncDecStmt); ok && strings.HasSuffix(core.ExprStr(id.X), ".progVisits") && g.Dominates(v, cap) {
				inc = true
			}
		}
		o.Require(inc, "the visit counter is not incremented before the cap is tested")
		// the true edge returns an error
		for v := range g.ReachFrom(succ(cap, core.EdgeTrue), true, core.AvoidVs(succ(cap, core.EdgeFalse))) {
			if rs, ok := v.AST.(*ast.ReturnStmt); ok {
				o.Require(!core.IsNil(fn.Info(), rs.Results[0]), "exceeding the cap does not fail")
			}
		}
		// every refine / decode of a block is after the cap within the iteration
		for _, cv := range callVerticesSuffix(g, ".refine") {
			o.At(fn.Site(cv.Call, "refinement pass"))
			var nonProg []core.EdgeRef
			for _, bv := range g.BranchVertices() {
				if bv.Cond.Expr != nil && core.ExprStr(bv.Cond.Expr) == "d.progressive" {
					nonProg = append(nonProg, core.EdgeRef{From: bv, Label: core.EdgeFalse})
				}
			}
			reach := g.ReachFrom(g.Entry, true, core.AvoidVs(cap).WithEdges(nonProg...))
			o.Require(!reach[cv.V], "in progressive mode a refinement pass can run without passing the work cap")
		}
	})
}

func ruleChainCap(c *core.Ctx) {
	const rule = "C08-R5"
	c.Check(rule, "pdf.GetFilters/chain-cap", "the filter chain length is capped before any filter of an array is built", func(o *core.Ob) {
		fn := c.Prog.Func("pdf", "GetFilters")
		g := fn.Graph()
		info := fn.Info()
		var cap *core.V
		for _, bv := range g.BranchVertices() {
			if bv.Cond.Expr != nil && strings.Contains(core.ExprStr(bv.Cond.Expr), "maxFilterChainLength") {
				cap = bv
				o.At(fn.Site(bv.AST, "cap"))
			}
		}
		if cap == nil {
			o.Count(1)
			o.Fail("no chain-length cap")
			return
		}
		o.Shape(strings.ReplaceAll(core.ExprStr(cap.Cond.Expr), " ", "") == "len(f)>maxFilterChainLength", "cap condition is %s", core.ExprStr(cap.Cond.Expr))
		o.Require(c.Prog.ConstInt("pdf", "maxFilterChainLength") == 8, "the cap is %d, the documented limit is 8", c.Prog.ConstInt("pdf", "maxFilterChainLength"))
		n := 0
		for _, cv := range callVertices(g, "pdf.MakeFilter") {
			// the one inside the array loop
			inLoop := false
			for _, h := range loopHeads(g) {
				if g.ReachFrom(succ(h, core.EdgeTrue), true, core.AvoidVs(h))[cv.V] {
					inLoop = true
				}
			}
			if !inLoop {
				continue
			}
			n++
			o.At(fn.Site(cv.Call, "per-filter construction"))
			o.Require(g.EdgeDominates(cv.V, core.EdgeRef{From: cap, Label: core.EdgeFalse}), "filters of an array are built without passing the length cap")
		}
		o.Shape(n == 1, "expected one MakeFilter call in the array loop, found %d", n)
		_ = info
	})
}

func ruleCloseForwarding(c *core.Ctx) {
	const rule = "C08-R6"
	closer := types.NewInterfaceType([]*types.Func{
		types.NewFunc(token.NoPos, nil, "Close", types.NewSignatureType(nil, nil, nil, nil, types.NewTuple(types.NewVar(token.NoPos, nil, "", types.Universe.Lookup("error").Type())), false)),
	}, nil)
	closer.Complete()
	n := 0
	var keys []string
	checks := map[string]func(o *core.Ob){}
	for _, pkg := range c.Prog.RepoPkgs() {
		sp := core.ShortPkg(pkg.PkgPath)
		if sp != "pdf" && !strings.HasPrefix(sp, "pdf/internal/filter") {
			continue
		}
		for _, name := range pkg.Types.Scope().Names() {
			tn, ok := pkg.Types.Scope().Lookup(name).(*types.TypeName)
			if !ok || tn.IsAlias() {
				continue
			}
			st, ok := tn.Type().Underlying().(*types.Struct)
			if !ok {
				continue
			}
			// fields that can be closed and are readers
			var inner []*types.Var
			for i := 0; i < st.NumFields(); i++ {
				f := st.Field(i)
				ft := f.Type()
				if _, isIface := ft.Underlying().(*types.Interface); !isIface {
					continue
				}
				if types.Implements(ft, closer) && hasMethod(ft, "Read") {
					inner = append(inner, f)
				}
			}
			if len(inner) == 0 {
				continue
			}
			// does the type have its own Close?
			var cl *core.Func
			for _, t := range []types.Type{tn.Type(), types.NewPointer(tn.Type())} {
				obj, idx, _ := types.LookupFieldOrMethod(t, true, pkg.Types, "Close")
				if f, ok := obj.(*types.Func); ok && len(idx) == 1 {
					cl = c.Prog.FuncOf(f)
				}
			}
			if cl == nil {
				continue // Close is promoted from the embedded reader: forwards by construction
			}
			n++
			key := sp + "." + name
			fields := inner
			clf := cl
			keys = append(keys, key)
			checks[key] = func(o *core.Ob) {
				o.At(clf.Site(clf.Decl, "Close"))
				info := clf.Info()
				ok := false
				for _, cs := range core.CallsIn(info, clf.Decl, true) {
					se, isSel := cs.Call.Fun.(*ast.SelectorExpr)
					if !isSel || se.Sel.Name != "Close" {
						continue
					}
					// x.field.Close() or x.Embedded.Close(), also through a local that holds the field
					recvX := ast.Unparen(se.X)
					if id, isID := recvX.(*ast.Ident); isID {
						if al, has := clf.FieldAliases()[info.ObjectOf(id)]; has {
							recvX = ast.Unparen(al)
						}
					}
					if inSel, ok2 := recvX.(*ast.SelectorExpr); ok2 {
						for _, f := range fields {
							if info.ObjectOf(inSel.Sel) == f {
								ok = true
							}
						}
					}
				}
				if !ok {
					var fn []string
					for _, f := range fields {
						fn = append(fn, f.Name())
					}
					o.Fail("%s has its own Close but does not close the reader it wraps (%s): closing the outer reader would not release the producer underneath", key, strings.Join(fn, ", "))
				}
			}
		}
	}
	sort.Strings(keys)
	for _, k := range keys {
		c.Check(rule, k, "a reader wrapper with its own Close forwards Close to the reader it wraps", checks[k])
	}
	c.Check(rule, "wrappers/census", "reader wrappers with an own Close method were found", func(o *core.Ob) {
		o.Count(n)
		o.Shape(n >= 2, "only %d wrappers found", n)
	})
	c.Check(rule, "pdf/internal/filter/dct.Decode", "the DCT decoder hands out the pipe reader itself, so Close on it unblocks the producer, and the producer closes the pipe writer on every path", func(o *core.Ob) {
		fn := c.Prog.Func("pdf/internal/filter/dct", "Decode")
		info := fn.Info()
		g := fn.Graph()
		var pr, pw types.Object
		for _, v := range g.Vs {
			if as, ok := v.AST.(*ast.AssignStmt); ok && len(as.Rhs) == 1 {
				if call, ok := as.Rhs[0].(*ast.CallExpr); ok && core.CalleeKey(info, call) == "io.Pipe" {
					pr, pw = core.ObjOf(info, as.Lhs[0]), core.ObjOf(info, as.Lhs[1])
					o.At(fn.Site(as, "pipe"))
				}
			}
		}
		if pr == nil {
			o.Fail("no pipe")
			return
		}
		for _, r := range g.Returns() {
			rs := r.AST.(*ast.ReturnStmt)
			if core.IsNil(info, rs.Results[1]) {
				o.Require(core.ObjOf(info, rs.Results[0]) == pr, "Decode returns %s instead of the pipe reader", core.ExprStr(rs.Results[0]))
			}
		}
		ast.Inspect(fn.Decl.Body, func(m ast.Node) bool {
			gs, ok := m.(*ast.GoStmt)
			if !ok {
				return true
			}
			lit, ok := gs.Call.Fun.(*ast.FuncLit)
			if !ok {
				return true
			}
			lg := fn.LitGraph(lit)
			var closes []*core.V
			for _, x := range lg.Vs {
				if x.AST == nil {
					continue
				}
				for _, cs := range core.CallsIn(info, x.AST, false) {
					if se, ok := cs.Call.Fun.(*ast.SelectorExpr); ok && (se.Sel.Name == "Close" || se.Sel.Name == "CloseWithError") && core.ObjOf(info, se.X) == pw {
						closes = append(closes, x)
					}
				}
			}
			o.Count(len(closes))
			if lg.ReachFrom(lg.Entry, true, core.AvoidVs(closes...))[lg.Exit] {
				o.Fail("the producer goroutine can end without closing the pipe writer (the consumer would block forever)")
			}
			return true
		})
	})
}

func hasMethod(t types.Type, name string) bool {
	ms := types.NewMethodSet(t)
	for i := 0; i < ms.Len(); i++ {
		if ms.At(i).Obj().Name() == name {
			return true
		}
	}
	return false
}

// rulePoolOwnership (C08-R7): the JBIG2 working-memory pool counts live
// bytes; freeBitmap(x) subtracts len(x.Pix) and panics when more is released
// than is live.  A bitmap that is still retained elsewhere (a stored segment,
// a symbol table entry) must therefore never be released: the accounting
// would drop below what is really allocated (budget bypass) and a second
// release panics.  Decided per freeBitmap(x) with a local x: every
// definition of x that reaches the call is the result of a call (a fresh
// allocation or decode) or nil; a definition that borrows stored data
// (field, index or map read) is allowed only when the release is guarded by
// a flag that can only be true on paths that do not pass the borrowing
// definition.
func rulePoolOwnership(c *core.Ctx) {
	const rule = "C08-R7"
	const pk = "pdf/internal/filter/jbig2"
	pkg := c.Prog.Pkg(pk)
	n := 0
	for _, fn := range c.Prog.Funcs(pkg) {
		fn := fn
		calls := core.CallsTo(fn.Info(), fn.Decl.Body, false, pk+".(*bitmapPool).freeBitmap")
		if len(calls) == 0 {
			continue
		}
		n++
		c.Check(rule, fn.Key, "only bitmaps owned by this function (results of an allocation or decode call) are released to the pool", func(o *core.Ob) {
			info := fn.Info()
			g := fn.Graph()
			for _, call := range calls {
				o.Count(1)
				fv := g.VertexOf(call)
				x := core.ObjOf(info, call.Args[0])
				if fv == nil {
					core.Undecided("release at %s not found in the control-flow graph", c.Prog.Pos(call.Pos()))
				}
				if x == nil {
					o.FailAt(fn.Site(call, ""), "%s: %s is released directly from storage", c.Prog.Pos(call.Pos()), c.Prog.Src(call.Args[0]))
					continue
				}
				if _, isVar := x.(*types.Var); !isVar || x.Parent() == x.Pkg().Scope() {
					o.FailAt(fn.Site(call, ""), "%s: %s is not a local variable", c.Prog.Pos(call.Pos()), x.Name())
					continue
				}
				defs := defVertices(g, x)
				var borrowed []*core.V
				for _, d := range defs {
					// reaching?
					var others []*core.V
					for _, e := range defs {
						if e != d {
							others = append(others, e)
						}
					}
					if !g.ReachFrom(d, false, core.AvoidVs(others...))[fv] {
						continue
					}
					if rs, ok := d.AST.(*ast.RangeStmt); ok {
						_ = rs
						borrowed = append(borrowed, d)
						continue
					}
					r, ok := rhsFor(info, d, x)
					if !ok {
						// multi-value assignment from a call: x, err = f(...)
						if as, isAs := d.AST.(*ast.AssignStmt); isAs && len(as.Rhs) == 1 {
							if _, isCall := ast.Unparen(as.Rhs[0]).(*ast.CallExpr); isCall {
								continue
							}
						}
						borrowed = append(borrowed, d)
						continue
					}
					if r == nil || core.IsNil(info, r) {
						continue
					}
					if _, isCall := ast.Unparen(r).(*ast.CallExpr); isCall {
						continue
					}
					// a move from another owned local: y's definitions are calls or nil, and y is
					// not released after the move without being redefined first
					if y, ok := core.ObjOf(info, r).(*types.Var); ok && y != nil && y.Parent() != y.Pkg().Scope() && !y.IsField() && y != x {
						ydefs := defVertices(g, y)
						owned := len(ydefs) > 0
						for _, yd := range ydefs {
							yr, ok := rhsFor(info, yd, y)
							if !ok {
								if as, isAs := yd.AST.(*ast.AssignStmt); isAs && len(as.Rhs) == 1 {
									if _, isCall := ast.Unparen(as.Rhs[0]).(*ast.CallExpr); isCall {
										continue
									}
								}
								owned = false
								continue
							}
							if yr == nil || core.IsNil(info, yr) {
								continue
							}
							if _, isCall := ast.Unparen(yr).(*ast.CallExpr); !isCall {
								owned = false
							}
						}
						if owned {
							after := g.ReachFrom(d, false, core.AvoidVs(ydefs...))
							double := false
							for _, c2 := range calls {
								if core.ObjOf(info, c2.Args[0]) == y && after[g.VertexOf(c2)] {
									double = true
								}
							}
							if !double {
								continue
							}
						}
					}
					// a borrowing definition whose condition excludes the release; only facts
					// about variables that do not change between the two sites count
					stableAtom := func(a core.Atom) bool {
						stable := true
						ast.Inspect(a.Expr, func(m ast.Node) bool {
							if id, ok := m.(*ast.Ident); ok {
								if vo, ok := info.ObjectOf(id).(*types.Var); ok && !vo.IsField() {
									for _, vd := range defVertices(g, vo) {
										if g.ReachFrom(d, false, core.AvoidVs(others...))[vd] && g.ReachFrom(vd, false, core.AvoidVs(defs...))[fv] {
											stable = false
										}
									}
								}
							}
							if _, isCall := m.(*ast.CallExpr); isCall {
								if tv, ok := info.Types[m.(*ast.CallExpr).Fun]; !ok || !(tv.IsType() || tv.IsBuiltin()) {
									stable = false
								}
							}
							return true
						})
						return stable
					}
					var both []core.Atom
					for _, a := range append(append([]core.Atom{}, g.DominatingAtoms(d)...), g.DominatingAtoms(fv)...) {
						if stableAtom(a) {
							both = append(both, a)
						}
					}
					unsat, _, decided := c.Prog.Implies(core.Formula{Fn: fn, Atoms: both}, core.Formula{Fn: fn, Atoms: []core.Atom{{Expr: core.FalseExpr}}})
					if decided && unsat {
						o.At(fn.Site(d.AST, "borrowed only when the release is excluded: "+c.Prog.FormulaString(core.Formula{Atoms: both})))
						continue
					}
					borrowed = append(borrowed, d)
				}
				// parameters and range variables have no definition vertex: a released parameter is the caller's
				if len(defs) == 0 {
					if paramIndexOf(fn, x) >= 0 {
						o.Fact("%s releases its parameter %s (ownership passes from the caller)", fn.Key, x.Name())
						continue
					}
					// range value: borrowed from the ranged container
					borrowedRange := true
					_ = borrowedRange
				}
				if len(borrowed) == 0 {
					o.At(fn.Site(call, "releases owned "+x.Name()))
					continue
				}
				// flag guard
				var flags []types.Object
				for _, a := range g.DominatingAtoms(fv) {
					if id, ok := ast.Unparen(a.Expr).(*ast.Ident); ok && !a.Neg && a.Tag == nil {
						if fo := info.ObjectOf(id); fo != nil && isBoolObj(fo) {
							flags = append(flags, fo)
						}
					}
				}
				okFlag := false
				for _, f := range flags {
					good := true
					for _, s := range defVertices(g, f) {
						r, ok := rhsFor(info, s, f)
						if ok && (r == nil || (core.ConstOf(info, r) != nil && core.ConstOf(info, r).String() == "false")) {
							continue
						}
						if !ok || core.ConstOf(info, r) == nil {
							good = false
							continue
						}
						for _, b := range borrowed {
							if g.ReachFrom(b, false, nil)[s] || g.ReachFrom(s, false, nil)[b] {
								good = false
							}
						}
					}
					if good {
						okFlag = true
						o.At(fn.Site(call, "releases "+x.Name()+" under ownership flag "+f.Name()))
					}
				}
				if !okFlag {
					for _, b := range borrowed {
						o.FailAt(fn.Site(b.AST, "borrowed here"), "%s: %s may hold a bitmap that is still retained elsewhere (%s) when it is released at %s", c.Prog.Pos(b.AST.Pos()), x.Name(), c.Prog.Src(b.AST), c.Prog.Pos(call.Pos()))
					}
				}
			}
		})
	}
	c.Floor(rule, 6)
	_ = n
}

func isBoolObj(o types.Object) bool {
	b, ok := o.Type().Underlying().(*types.Basic)
	return ok && b.Info()&types.IsBoolean != 0
}

func paramIndexOf(fn *core.Func, obj types.Object) int {
	i := 0
	for _, fl := range fn.Decl.Type.Params.List {
		for _, nm := range fl.Names {
			if fn.Info().Defs[nm] == obj {
				return i
			}
			i++
		}
	}
	return -1
}

// ruleLZWPrefixOrder (C08-R8): the LZW decoder expands a code by walking
// prefix[c] until it reaches a literal; the walk ends because every table
// entry points to a smaller code (prefix[hi] = last with last < hi).  The
// order holds because hi grows by one whenever last is set to the code just
// read.  On the one path where hi is taken back (table full), last may equal
// hi, so last has to be invalidated before it is read again; otherwise a
// repeated top code creates prefix[hi] == hi and the walk never ends.
func ruleLZWPrefixOrder(c *core.Ctx) {
	const rule = "C08-R8"
	const pk = "pdf/internal/filter/lzw"
	c.Check(rule, pk+".(*Reader).decode/prefix-order", "whenever the table index hi is decremented, last is reset to the invalid code before its next use (so that prefix[hi] = last always stores a smaller code)", func(o *core.Ob) {
		fn := c.Prog.Func(pk, "(*Reader).decode")
		g := fn.Graph()
		info := fn.Info()
		isField := func(e ast.Expr, name string) bool {
			sel, ok := ast.Unparen(e).(*ast.SelectorExpr)
			if !ok || sel.Sel.Name != name {
				return false
			}
			v, ok := info.ObjectOf(sel.Sel).(*types.Var)
			return ok && v.IsField()
		}
		invalid := c.Prog.Pkg(pk).Types.Scope().Lookup("decoderInvalidCode")
		if invalid == nil {
			core.Undecided("decoderInvalidCode not found")
		}
		var decs, resets, otherSets, reads []*core.V
		for _, v := range g.Vs {
			if v.AST == nil {
				continue
			}
			switch s := v.AST.(type) {
			case *ast.IncDecStmt:
				if s.Tok == token.DEC && isField(s.X, "hi") {
					decs = append(decs, v)
				}
				continue
			case *ast.AssignStmt:
				assignsLast := false
				for i, l := range s.Lhs {
					if isField(l, "last") {
						assignsLast = true
						if len(s.Rhs) == len(s.Lhs) && core.ObjOf(info, s.Rhs[i]) == invalid {
							resets = append(resets, v)
						} else {
							otherSets = append(otherSets, v)
						}
					}
					if isField(l, "hi") && s.Tok == token.SUB_ASSIGN {
						decs = append(decs, v)
					}
				}
				readsLast := false
				for _, r := range s.Rhs {
					ast.Inspect(r, func(m ast.Node) bool {
						if e, ok := m.(ast.Expr); ok && isField(e, "last") {
							readsLast = true
						}
						return true
					})
				}
				if readsLast {
					reads = append(reads, v)
				}
				_ = assignsLast
				continue
			}
			if v.Cond != nil && v.Cond.Expr != nil {
				found := false
				ast.Inspect(v.Cond.Expr, func(m ast.Node) bool {
					if e, ok := m.(ast.Expr); ok && isField(e, "last") {
						found = true
					}
					return true
				})
				if found {
					reads = append(reads, v)
				}
			}
		}
		o.Fact("%d decrements of hi, %d resets of last, %d other assignments, %d reads", len(decs), len(resets), len(otherSets), len(reads))
		o.Shape(len(reads) >= 3, "uses of last not found")
		if len(decs) == 0 {
			// nothing to protect; but then hi must not be capped some other way
			o.Count(1)
			return
		}
		for _, d := range decs {
			o.Count(1)
			o.At(fn.Site(d.AST, "hi taken back"))
			// a reset that dominates the decrement with no other assignment in between
			ok := false
			for _, r := range resets {
				if g.Dominates(r, d) {
					clean := true
					for _, x := range otherSets {
						if g.ReachFrom(r, false, core.AvoidVs(r))[x] && g.ReachFrom(x, false, core.AvoidVs(r))[d] {
							clean = false
						}
					}
					if clean {
						ok = true
					}
				}
			}
			if !ok {
				// every path from the decrement to a read passes a reset (or a fresh assignment)
				free := g.ReachFrom(d, false, core.AvoidVs(append(append([]*core.V{}, resets...), otherSets...)...))
				ok = true
				for _, rd := range reads {
					if free[rd] {
						ok = false
						o.FailAt(fn.Site(rd.AST, "last read here"), "%s: hi is decremented at %s while last still holds the code just read (possibly equal to hi); it is used at %s without having been reset to decoderInvalidCode: a self-referential table entry makes the expansion loop endless", c.Prog.Pos(rd.AST.Pos()), c.Prog.Pos(d.AST.Pos()), c.Prog.Pos(rd.AST.Pos()))
						break
					}
				}
			}
		}
	})
}

// ruleIndexClamps (C08-R9): decoders clamp table indices taken from the data
// ("if i >= len(table) { i = 0 }") before indexing.  A clamp that compares
// with ">" lets the index equal to the length through and the access panics.
// For every if statement in the filter packages whose condition compares a
// variable i with n, where n is len(S) or a variable defined as len(S), whose
// body reassigns i, and where S[i] is evaluated afterwards: the comparison
// must cover i == n.
func ruleIndexClamps(c *core.Ctx) {
	n := 0
	for _, pkg := range c.Prog.RepoPkgs() {
		sp := core.ShortPkg(pkg.PkgPath)
		if !strings.HasPrefix(sp, "pdf/internal/filter") || strings.HasSuffix(sp, "/generate") {
			continue
		}
		for _, fn := range c.Prog.Funcs(pkg) {
			fn := fn
			info := fn.Info()
			lenOf := func(e ast.Expr) types.Object {
				e = ast.Unparen(e)
				if call, ok := e.(*ast.CallExpr); ok {
					if id, ok := call.Fun.(*ast.Ident); ok && id.Name == "len" && len(call.Args) == 1 {
						return core.ObjOf(info, call.Args[0])
					}
				}
				if obj := core.ObjOf(info, e); obj != nil {
					defs := core.AssignsTo(info, fn.Decl, obj)
					if len(defs) == 1 {
						if as, ok := defs[0].(*ast.AssignStmt); ok && len(as.Rhs) == 1 && len(as.Lhs) == 1 {
							if call, ok := ast.Unparen(as.Rhs[0]).(*ast.CallExpr); ok {
								if id, ok := call.Fun.(*ast.Ident); ok && id.Name == "len" && len(call.Args) == 1 {
									return core.ObjOf(info, call.Args[0])
								}
							}
						}
					}
				}
				return nil
			}
			ast.Inspect(fn.Decl.Body, func(m ast.Node) bool {
				is, ok := m.(*ast.IfStmt)
				if !ok || is.Else != nil || is.Init != nil {
					return true
				}
				be, ok := ast.Unparen(is.Cond).(*ast.BinaryExpr)
				if !ok {
					return true
				}
				var iv types.Object
				var table types.Object
				var covers bool
				switch be.Op {
				case token.GEQ, token.GTR:
					iv, table = core.ObjOf(info, be.X), lenOf(be.Y)
					covers = be.Op == token.GEQ
				case token.LEQ, token.LSS:
					iv, table = core.ObjOf(info, be.Y), lenOf(be.X)
					covers = be.Op == token.LEQ
				default:
					return true
				}
				if iv == nil || table == nil {
					return true
				}
				// body reassigns iv (a clamp), and nothing else
				reassigns := false
				for _, st := range is.Body.List {
					if as, ok := st.(*ast.AssignStmt); ok && len(as.Lhs) == 1 && core.ObjOf(info, as.Lhs[0]) == iv {
						reassigns = true
					}
				}
				if !reassigns {
					return true
				}
				// table[iv] used after the if
				used := false
				ast.Inspect(fn.Decl.Body, func(k ast.Node) bool {
					if ix, ok := k.(*ast.IndexExpr); ok && ix.Pos() > is.End() && core.ObjOf(info, ix.X) == table && core.ObjOf(info, ix.Index) == iv {
						used = true
					}
					return true
				})
				if !used {
					return true
				}
				n++
				c.Check("C08-R9", fn.Key+"/clamp:"+iv.Name(), "an index clamp in a decoder covers the value equal to the table length", func(o *core.Ob) {
					o.Count(1)
					o.At(fn.Site(is, "clamp of "+iv.Name()+" against len("+table.Name()+")"))
					if !covers {
						o.Fail("%s: the clamp %s lets %s == len(%s) through; %s[%s] then panics on data the file controls", c.Prog.Pos(is.Pos()), c.Prog.Src(is.Cond), iv.Name(), table.Name(), table.Name(), iv.Name())
					}
				})
				return true
			})
		}
	}
	c.Floor("C08-R9", 1)
	_ = n
}

// ruleDCTPlaneCharge (C08-R10): the JPEG decoder charges the per-stream
// budget for its pixel planes before allocating them (makeImg charges
// pixelPlaneBytes).  Every plane is (8·h·mxx) × (8·v·storeMyy) bytes; the
// charge covers the allocation only if every plane term of the cost
// includes the number of stored MCU rows.  In pixelPlaneBytes every product
// that contains a component's vertical sampling factor also contains the
// storeMyy parameter, and in makeImg every plane allocation does too.
func ruleDCTPlaneCharge(c *core.Ctx) {
	const pk = "pdf/internal/filter/dct/jpeg"
	c.Check("C08-R10", pk+".(*decoder).pixelPlaneBytes", "every plane term of the charged cost (a product containing a vertical sampling factor .v) includes the number of stored MCU rows", func(o *core.Ob) {
		for _, name := range []string{"(*decoder).pixelPlaneBytes", "(*decoder).makeImg"} {
			fn := c.Prog.Func(pk, name)
			info := fn.Info()
			var rows types.Object
			for _, fl := range fn.Decl.Type.Params.List {
				for _, nm := range fl.Names {
					if nm.Name == "storeMyy" {
						rows = info.Defs[nm]
					}
				}
			}
			if rows == nil {
				ast.Inspect(fn.Decl.Body, func(m ast.Node) bool {
					if as, ok := m.(*ast.AssignStmt); ok && as.Tok == token.DEFINE && len(as.Lhs) == 1 && core.ExprStr(as.Lhs[0]) == "storeMyy" {
						rows = core.ObjOf(info, as.Lhs[0])
					}
					return true
				})
			}
			if rows == nil {
				core.Undecided("%s: the stored-rows variable was not found", fn.Key)
			}
			// local aliases of a .v factor (v0 := d.comp[0].v)
			vAlias := map[types.Object]bool{}
			ast.Inspect(fn.Decl.Body, func(m ast.Node) bool {
				if as, ok := m.(*ast.AssignStmt); ok && as.Tok == token.DEFINE && len(as.Lhs) == 1 && len(as.Rhs) == 1 {
					if sel, ok := ast.Unparen(as.Rhs[0]).(*ast.SelectorExpr); ok && sel.Sel.Name == "v" {
						vAlias[core.ObjOf(info, as.Lhs[0])] = true
					}
				}
				return true
			})
			hasV := func(e ast.Expr) bool {
				found := false
				ast.Inspect(e, func(m ast.Node) bool {
					switch x := m.(type) {
					case *ast.SelectorExpr:
						if x.Sel.Name == "v" {
							if v, ok := info.ObjectOf(x.Sel).(*types.Var); ok && v.IsField() {
								found = true
							}
						}
					case *ast.Ident:
						if vAlias[info.ObjectOf(x)] {
							found = true
						}
					}
					return true
				})
				return found
			}
			n := 0
			seen := map[ast.Node]bool{}
			ast.Inspect(fn.Decl.Body, func(m ast.Node) bool {
				be, ok := m.(*ast.BinaryExpr)
				if !ok || be.Op != token.MUL || seen[be] {
					return true
				}
				// maximal product: mark nested products as seen
				ast.Inspect(be, func(k ast.Node) bool {
					if b2, ok := k.(*ast.BinaryExpr); ok && b2.Op == token.MUL {
						seen[b2] = true
					}
					return true
				})
				if !hasV(be) {
					return true
				}
				if as := enclosingAssign(fn, be); as != nil && len(as.Lhs) == 1 {
					if sel, ok := ast.Unparen(as.Lhs[0]).(*ast.SelectorExpr); ok && strings.HasSuffix(sel.Sel.Name, "Ratio") {
						return true
					}
				}
				n++
				o.Count(1)
				o.At(fn.Site(be, "plane height term"))
				if !core.Mentions(info, be, rows) {
					o.FailAt(fn.Site(be, ""), "%s: the plane term %s does not include the number of stored MCU rows (%s): the planes allocated in full-buffer mode are larger than what is charged to the budget", c.Prog.Pos(be.Pos()), c.Prog.Src(be), rows.Name())
				}
				return true
			})
			o.Shape(n >= 3, "%s: expected at least three plane terms, found %d", fn.Key, n)
		}
	})
}

func enclosingAssign(fn *core.Func, n ast.Node) *ast.AssignStmt {
	var out *ast.AssignStmt
	ast.Inspect(fn.Decl.Body, func(m ast.Node) bool {
		if as, ok := m.(*ast.AssignStmt); ok && as.Pos() <= n.Pos() && n.End() <= as.End() {
			out = as
		}
		return true
	})
	return out
}

// ruleJPEGHeaderValidation (C08-R14): the JPEG decoder is a fork of the
// standard library's image/jpeg.  The frame-header checks of the reference
// (processSOF: precision, component count, sampling factors, equal chroma
// subsampling ...) are what keeps the plane geometry used by makeImg and the
// block reconstruction consistent; a header that passes fewer checks than
// the reference makes the decoder index past the planes it allocated.  Every
// "if cond { return err }" of the reference's processSOF, identified by its
// enclosing case labels and its condition, is present in the fork.
func ruleJPEGHeaderValidation(c *core.Ctx) {
	const pk = "pdf/internal/filter/dct/jpeg"
	ref := c.Prog.Pkgs["image/jpeg"]
	if ref == nil || len(ref.Syntax) == 0 {
		c.Check("C08-R14", pk+".processSOF/reference", "reference implementation available", func(o *core.Ob) {
			core.Undecided("package image/jpeg is not loaded with syntax")
		})
		return
	}
	c.Check("C08-R14", pk+".(*decoder).processSOF/checks", "every frame-header check of the reference decoder (image/jpeg processSOF) is performed by the fork", func(o *core.Ob) {
		collect := func(decl *ast.FuncDecl, src func(ast.Node) string) map[string]bool {
			out := map[string]bool{}
			var walk func(n ast.Node, ctx string)
			walk = func(n ast.Node, ctx string) {
				ast.Inspect(n, func(m ast.Node) bool {
					switch x := m.(type) {
					case *ast.CaseClause:
						if m == n {
							return true
						}
						var ls []string
						for _, e := range x.List {
							ls = append(ls, src(e))
						}
						for _, st := range x.Body {
							walk(st, ctx+"/case "+strings.Join(ls, ","))
						}
						return false
					case *ast.IfStmt:
						if len(x.Body.List) == 1 {
							if rs, ok := x.Body.List[0].(*ast.ReturnStmt); ok && len(rs.Results) == 1 {
								out[ctx+" if "+src(x.Cond)] = true
							}
						}
					}
					return true
				})
			}
			walk(decl.Body, "")
			return out
		}
		var refDecl *ast.FuncDecl
		for _, f := range ref.Syntax {
			for _, d := range f.Decls {
				if fd, ok := d.(*ast.FuncDecl); ok && fd.Name.Name == "processSOF" && fd.Body != nil {
					refDecl = fd
				}
			}
		}
		if refDecl == nil {
			core.Undecided("image/jpeg.processSOF not found")
		}
		fn := c.Prog.Func(pk, "(*decoder).processSOF")
		want := collect(refDecl, c.Prog.Src)
		got := collect(fn.Decl, c.Prog.Src)
		o.At(fn.Site(fn.Decl, ""))
		o.Fact("%d checks in the reference, %d in the fork", len(want), len(got))
		o.Shape(len(want) >= 8, "only %d checks found in the reference", len(want))
		var missing []string
		for k := range want {
			o.Count(1)
			if !got[k] {
				missing = append(missing, k)
			}
		}
		sort.Strings(missing)
		if len(missing) == 0 {
			return
		}
		// The comparison above is textual.  A check that is missing as text may have been
		// rewritten (merged with another one by ||, moved into a helper that reports a
		// boolean, written over renamed locals).  It counts as dropped only if the fork and the
		// helpers processSOF calls have no rejecting test at all that compares with the same
		// constants; otherwise the two cannot be compared.
		type testSig struct{ lits, ops map[string]bool }
		sigOf := func(e ast.Expr, info *types.Info) testSig {
			sg := testSig{map[string]bool{}, map[string]bool{}}
			ast.Inspect(e, func(m ast.Node) bool {
				if ex, ok := m.(ast.Expr); ok {
					if k, isK := core.IntConst(info, ex); isK {
						sg.lits[strconv.FormatInt(k, 10)] = true
						return false
					}
				}
				if be, ok := m.(*ast.BinaryExpr); ok {
					switch be.Op {
					case token.EQL, token.NEQ, token.LSS, token.GTR, token.LEQ, token.GEQ, token.REM:
						op := be.Op.String()
						// a < b and b > a are the same test
						if be.Op == token.GTR {
							op = "<"
						}
						if be.Op == token.GEQ {
							op = "<="
						}
						sg.ops[op] = true
					}
				}
				return true
			})
			return sg
		}
		covers := func(have, want testSig) bool {
			for l := range want.lits {
				if !have.lits[l] {
					return false
				}
			}
			for op := range want.ops {
				// an equality may be written as its negation in a helper that reports a boolean
				if !have.ops[op] && !(op == "==" && have.ops["!="]) && !(op == "!=" && have.ops["=="]) {
					return false
				}
			}
			return true
		}
		var forkTests []testSig
		var scan func(f *core.Func, depth int)
		seenF := map[*core.Func]bool{}
		scan = func(f *core.Func, depth int) {
			if f == nil || seenF[f] || f.Decl.Body == nil {
				return
			}
			seenF[f] = true
			ast.Inspect(f.Decl.Body, func(m ast.Node) bool {
				switch x := m.(type) {
				case *ast.IfStmt:
					forkTests = append(forkTests, sigOf(x.Cond, f.Info()))
					// the parts of a disjunction
					var parts func(e ast.Expr)
					parts = func(e ast.Expr) {
						if be, ok := ast.Unparen(e).(*ast.BinaryExpr); ok && (be.Op == token.LOR || be.Op == token.LAND) {
							parts(be.X)
							parts(be.Y)
							return
						}
						forkTests = append(forkTests, sigOf(e, f.Info()))
					}
					parts(x.Cond)
				case *ast.ReturnStmt:
					// a helper that reports the outcome of a test: return a == b
					for _, r := range x.Results {
						if isBoolExpr(f.Info(), r) {
							forkTests = append(forkTests, sigOf(r, f.Info()))
						}
					}
				case *ast.CallExpr:
					if depth > 0 {
						if callee := core.Callee(f.Info(), x); callee != nil && callee.Pkg() == f.Obj.Pkg() {
							scan(c.Prog.FuncOf(callee), depth-1)
						}
					}
				}
				return true
			})
		}
		scan(c.Prog.RawFunc(pk, "(*decoder).processSOF"), 2)
		refInfo := ref.TypesInfo
		condOf := map[string]ast.Expr{}
		var walkRef func(n ast.Node, ctx string)
		walkRef = func(n ast.Node, ctx string) {
			ast.Inspect(n, func(m ast.Node) bool {
				switch x := m.(type) {
				case *ast.CaseClause:
					if m == n {
						return true
					}
					var ls []string
					for _, e := range x.List {
						ls = append(ls, c.Prog.Src(e))
					}
					for _, st := range x.Body {
						walkRef(st, ctx+"/case "+strings.Join(ls, ","))
					}
					return false
				case *ast.IfStmt:
					condOf[ctx+" if "+c.Prog.Src(x.Cond)] = x.Cond
				}
				return true
			})
		}
		walkRef(refDecl.Body, "")
		for _, m := range missing {
			cond := condOf[m]
			if cond != nil {
				want := sigOf(cond, refInfo)
				found := false
				for _, ft := range forkTests {
					if covers(ft, want) {
						found = true
					}
				}
				if found {
					o.Unrec("the reference decoder rejects a frame header [%s]; the fork has no test written like this one, but it has a test with the same comparisons against the same constants: rewritten, not compared", strings.TrimSpace(m))
					continue
				}
			}
			o.Fail("the reference decoder rejects a frame header [%s]; the fork has no such check", strings.TrimSpace(m))
		}
	})
}

// ruleFuncTableSlots (C08-R14): a call through a package-level table of
// function values, indexed by a value that comes from the input, must not be
// able to select an empty slot: calling a nil function value panics.  For
// every such call in the decoders the slots of the table's literal are
// enumerated; for every empty slot the path condition of the call together
// with "index == slot" must be unsatisfiable (or the call is guarded by a
// test of the slot itself).
func ruleFuncTableSlots(c *core.Ctx, rule string) {
	c.Check(rule, "decoders/function-tables", "no decoder calls through an empty slot of a table of functions", func(o *core.Ob) {
		calls, scanned := 0, 0
		for _, pkg := range c.Prog.RepoPkgs() {
			sp := core.ShortPkg(pkg.PkgPath)
			if sp != "pdf" && !strings.HasPrefix(sp, "pdf/internal/filter") {
				continue
			}
			for _, fn := range c.Prog.Funcs(pkg) {
				if fn.Decl.Body == nil || c.Prog.IsTestFile(fn.Decl.Pos()) {
					continue
				}
				info := fn.Info()
				scanned++
				// reads of a slot of a package-level table of functions
				isTableRead := func(e ast.Expr) (*ast.IndexExpr, *types.Var, int64) {
					ix, ok := ast.Unparen(e).(*ast.IndexExpr)
					if !ok {
						return nil, nil, 0
					}
					id, ok := ast.Unparen(ix.X).(*ast.Ident)
					if !ok {
						return nil, nil, 0
					}
					tv, ok := info.ObjectOf(id).(*types.Var)
					if !ok || tv.Pkg() == nil || tv.Parent() != tv.Pkg().Scope() {
						return nil, nil, 0
					}
					var elem types.Type
					length := int64(-1)
					switch t := tv.Type().Underlying().(type) {
					case *types.Array:
						elem, length = t.Elem(), t.Len()
					case *types.Slice:
						elem = t.Elem()
					default:
						return nil, nil, 0
					}
					if _, isFunc := elem.Underlying().(*types.Signature); !isFunc {
						return nil, nil, 0
					}
					return ix, tv, length
				}
				has := false
				ast.Inspect(fn.Decl.Body, func(n ast.Node) bool {
					if e, ok := n.(ast.Expr); ok {
						if ix, _, _ := isTableRead(e); ix != nil {
							has = true
						}
					}
					return true
				})
				if !has {
					continue
				}
				g := fn.Graph()
				for _, v := range g.Vs {
					var root ast.Node = v.AST
					if root == nil && v.Cond != nil {
						root = v.Cond.Expr
					}
					if root == nil {
						continue
					}
					if _, isLoop := root.(*ast.RangeStmt); isLoop {
						continue
					}
					if _, isLoop := root.(*ast.ForStmt); isLoop {
						continue
					}
					nilCompared := map[*ast.IndexExpr]bool{}
					ast.Inspect(root, func(n ast.Node) bool {
						if be, ok := n.(*ast.BinaryExpr); ok && (be.Op == token.EQL || be.Op == token.NEQ) {
							for _, pr := range [][2]ast.Expr{{be.X, be.Y}, {be.Y, be.X}} {
								if ix, _, _ := isTableRead(pr[0]); ix != nil && core.IsNil(info, pr[1]) {
									nilCompared[ix] = true
								}
							}
						}
						return true
					})
					ast.Inspect(root, func(n ast.Node) bool {
						if _, isLit := n.(*ast.FuncLit); isLit {
							return false
						}
						e, ok := n.(ast.Expr)
						if !ok {
							return true
						}
						ix, tv, length := isTableRead(e)
						if ix == nil || nilCompared[ix] {
							return true
						}
						_, init, ipkg := c.Prog.Var(core.ShortPkg(tv.Pkg().Path()), tv.Name())
						cl, isCL := ast.Unparen(init).(*ast.CompositeLit)
						if init == nil || !isCL {
							o.Unrec("%s: the table %s is not initialised by a literal", fn.Key, tv.Name())
							return true
						}
						calls++
						o.At(fn.Site(ix, "slot of "+tv.Name()+" read"))
						filled := map[int64]bool{}
						next := int64(0)
						for _, el := range cl.Elts {
							val := el
							if kv, isKV := el.(*ast.KeyValueExpr); isKV {
								k, isK := core.IntConst(ipkg.TypesInfo, kv.Key)
								if !isK {
									o.Unrec("%s: a key of the table %s is not constant", fn.Key, tv.Name())
									return true
								}
								next, val = k, kv.Value
							}
							if !core.IsNil(ipkg.TypesInfo, val) {
								filled[next] = true
							}
							next++
						}
						if length < next {
							length = next
						}
						var empty []int64
						for k := int64(0); k < length && k < 4096; k++ {
							if !filled[k] {
								empty = append(empty, k)
							}
						}
						o.Fact("%s: %s has %d slots, %d empty", c.Prog.Pos(ix.Pos()), tv.Name(), length, len(empty))
						// can the index have the value k at this read?  Per reaching definition of
						// the index variable: a constant is compared directly; otherwise the facts
						// that hold on every path from that definition to the read are used (a
						// clamp "if i >= len(t) { i = 0 }" leaves the original value only on the
						// edge where it is in range)
						// a closed domain of the index, when it has one: the declared constants of
						// its (repository-defined) enumeration type, or 0..K-1 after "x %= K" of a
						// sum of non-negative terms
						var domain []int64
						hasDomain := false
						if named, isNamed := info.TypeOf(ix.Index).(*types.Named); isNamed && named.Obj().Pkg() != nil && strings.HasPrefix(named.Obj().Pkg().Path(), core.ModulePath) {
							scope := named.Obj().Pkg().Scope()
							for _, nm := range scope.Names() {
								if cst, ok := scope.Lookup(nm).(*types.Const); ok && types.Identical(cst.Type(), named) {
									if kv, exact := constant.Int64Val(constant.ToInt(cst.Val())); exact {
										domain = append(domain, kv)
										hasDomain = true
									}
								}
							}
						}
						if id, isID := ast.Unparen(ix.Index).(*ast.Ident); isID && !hasDomain {
							if obj := info.ObjectOf(id); obj != nil {
								mod := int64(0)
								nonNeg := true
								for _, d := range defVertices(g, obj) {
									switch x := d.AST.(type) {
									case *ast.AssignStmt:
										for i, l := range x.Lhs {
											if core.ObjOf(info, l) != obj {
												continue
											}
											switch x.Tok {
											case token.REM_ASSIGN:
												if kv, ok := core.IntConst(info, x.Rhs[0]); ok && kv > 0 {
													mod = kv
												}
											case token.ADD_ASSIGN:
												// += int(<unsigned>)
												r := ast.Unparen(x.Rhs[0])
												if cv, ok := r.(*ast.CallExpr); ok && len(cv.Args) == 1 {
													r = ast.Unparen(cv.Args[0])
												}
												if b, ok := info.TypeOf(r).Underlying().(*types.Basic); !ok || b.Info()&types.IsUnsigned == 0 {
													nonNeg = false
												}
											case token.ASSIGN, token.DEFINE:
												if i < len(x.Rhs) {
													if kv, ok := core.IntConst(info, x.Rhs[i]); !ok || kv < 0 {
														nonNeg = false
													}
												}
											default:
												nonNeg = false
											}
										}
									case *ast.ValueSpec:
										if len(x.Values) != 0 {
											nonNeg = false
										}
									default:
										nonNeg = false
									}
								}
								// the read must come after the reduction
								if mod > 0 && nonNeg {
									reduced := false
									for _, d := range defVertices(g, obj) {
										if as, ok := d.AST.(*ast.AssignStmt); ok && as.Tok == token.REM_ASSIGN && g.Dominates(d, v) {
											// no further growth between the reduction and the read
											grows := false
											for _, d2 := range defVertices(g, obj) {
												if d2 != d && g.PathExists(d, d2, nil) && g.PathExists(d2, v, core.AvoidVs(d)) {
													grows = true
												}
											}
											reduced = !grows
										}
									}
									if reduced {
										for kv := int64(0); kv < mod; kv++ {
											domain = append(domain, kv)
										}
										hasDomain = true
									}
								}
							}
						}
						possible := func(k int64) (bool, bool, string) {
							if hasDomain {
								for _, dv := range domain {
									if dv == k {
										return true, true, "a value of the index's closed domain"
									}
								}
								return false, true, ""
							}
							lit := &ast.BasicLit{Kind: token.INT, Value: itoa(int(k))}
							type pathCase struct {
								atoms []core.Atom
							}
							var cases []pathCase
							idxExpr := ast.Unparen(ix.Index)
							if conv, isConv := idxExpr.(*ast.CallExpr); isConv && len(conv.Args) == 1 {
								if tvv, ok := info.Types[conv.Fun]; ok && tvv.IsType() {
									idxExpr = ast.Unparen(conv.Args[0])
								}
							}
							if id, isID := idxExpr.(*ast.Ident); isID {
								if obj := info.ObjectOf(id); obj != nil {
									defs := defVertices(g, obj)
									for _, d := range defs {
										var others []*core.V
										for _, x := range defs {
											if x != d {
												others = append(others, x)
											}
										}
										if d != v && !g.ReachFrom(d, false, core.AvoidVs(others...))[v] {
											continue
										}
										// a constant definition
										if as, isAs := d.AST.(*ast.AssignStmt); isAs && len(as.Lhs) == len(as.Rhs) {
											isConstDef := false
											for i, l := range as.Lhs {
												if core.ObjOf(info, l) == obj {
													if kk, isK := core.IntConst(info, as.Rhs[i]); isK {
														isConstDef = true
														if kk == k {
															return true, true, "the constant assigned at " + c.Prog.Pos(as.Pos())
														}
													}
												}
											}
											if isConstDef {
												continue
											}
										}
										atoms := append(append([]core.Atom{}, g.DominatingAtoms(d)...), atomsBetween(g, d, v, others)...)
										cases = append(cases, pathCase{atoms})
									}
								}
							}
							if len(cases) == 0 {
								cases = append(cases, pathCase{g.DominatingAtoms(v)})
							}
							for _, pc := range cases {
								f := core.Formula{Fn: fn, Atoms: append(append([]core.Atom{}, pc.atoms...), core.Atom{Tag: ix.Index, Expr: lit})}
								sat, decided := c.Prog.Satisfiable(f)
								if !decided {
									return false, false, ""
								}
								if sat {
									return true, true, c.Prog.FormulaString(core.Formula{Fn: fn, Atoms: pc.atoms})
								}
							}
							return false, true, ""
						}
						// the index stays inside the table: unless its type cannot exceed it,
						// the path condition of the read must exclude index == len
						if it, isBasic := info.TypeOf(ix.Index).Underlying().(*types.Basic); isBasic {
							maxByType := int64(-1)
							switch it.Kind() {
							case types.Uint8:
								maxByType = 255
							case types.Uint16:
								maxByType = 65535
							}
							if _, isConst := core.IntConst(info, ix.Index); !isConst && (maxByType < 0 || maxByType >= length) {
								if can, decided, why := possible(length); decided && can {
									o.FailAt(fn.Site(ix, ""), "the index %s can be %d, one past the last slot of %s (conditions: %s): the read panics", core.ExprStr(ix.Index), length, tv.Name(), why)
								} else if !decided {
									o.Unrec("%s: whether the index of %s stays in range was not decided", fn.Key, tv.Name())
								}
							}
						}
						if len(empty) == 0 {
							return true
						}
						// guarded by a test of the slot itself, or the value is kept in a
						// local that is tested before every call?
						slot := strings.ReplaceAll(core.ExprStr(ix), " ", "")
						if g.GuardedBy(v, func(a core.Atom) bool {
							cmp, ok := a.AsCmp()
							return ok && cmp.Op == token.NEQ && strings.ReplaceAll(core.ExprStr(cmp.L), " ", "") == slot && core.IsNil(info, cmp.R)
						}) {
							return true
						}
						if as, isAs := v.AST.(*ast.AssignStmt); isAs && len(as.Lhs) == len(as.Rhs) {
							for i, r := range as.Rhs {
								if ast.Unparen(r) != ast.Expr(ix) {
									continue
								}
								local := core.ObjOf(info, as.Lhs[i])
								if local == nil {
									continue
								}
								allGuarded, any := true, false
								for _, w := range g.Vs {
									if w.AST == nil {
										continue
									}
									ast.Inspect(w.AST, func(m ast.Node) bool {
										if call, ok := m.(*ast.CallExpr); ok && core.ObjOf(info, call.Fun) == local {
											any = true
											if !g.GuardedBy(w, func(a core.Atom) bool {
												cmp, ok := a.AsCmp()
												return ok && cmp.Op == token.NEQ && core.ObjOf(info, cmp.L) == local && core.IsNil(info, cmp.R)
											}) {
												allGuarded = false
											}
										}
										return true
									})
								}
								if any && allGuarded {
									return true
								}
							}
						}
						for _, k := range empty {
							can, decided, why := possible(k)
							if !decided {
								o.Unrec("%s: whether slot %d of %s can be selected was not decided", fn.Key, k, tv.Name())
								continue
							}
							if can {
								o.FailAt(fn.Site(ix, ""), "slot %d of %s is empty and the index %s can have that value here (conditions: %s): calling the value panics on a nil function", k, tv.Name(), core.ExprStr(ix.Index), why)
							}
						}
						return true
					})
				}
			}
		}
		o.Count(scanned)
		o.Fact("%d functions scanned, %d reads of slots of function tables", scanned, calls)
	})
}

// ruleAllocAfterCharge (C08-R15): in the decoders, a function that charges
// the per-stream budget for its working buffers allocates them only after the
// charge succeeded, and the charge accounts for each of them: every make of
// a non-constant size in such a function is dominated by a Charge call whose
// argument contains the size as (part of) a summand, once per buffer.
func ruleAllocAfterCharge(c *core.Ctx, rule string) {
	c.Check(rule, "decoders/alloc-after-charge", "in a decoder function that charges the budget, working buffers of input-controlled size are allocated only after a charge", func(o *core.Ob) {
		nFuncs := 0
		for _, pkg := range c.Prog.RepoPkgs() {
			sp := core.ShortPkg(pkg.PkgPath)
			if !strings.HasPrefix(sp, "pdf/internal/filter") {
				continue
			}
			for _, fn := range c.Prog.Funcs(pkg) {
				if fn.Decl.Body == nil || c.Prog.IsTestFile(fn.Decl.Pos()) {
					continue
				}
				info := fn.Info()
				g := fn.Graph()
				charges := callVerticesSuffix(g, ".Charge")
				if len(charges) == 0 {
					continue
				}
				nFuncs++
				norm := func(e ast.Expr) string { return strings.ReplaceAll(core.ExprStr(e), " ", "") }
				var terms func(e ast.Expr) []string
				terms = func(e ast.Expr) []string {
					if be, ok := ast.Unparen(e).(*ast.BinaryExpr); ok && be.Op == token.ADD {
						return append(terms(be.X), terms(be.Y)...)
					}
					return []string{norm(e)}
				}
				used := map[*core.V]map[int]bool{}
				for _, v := range g.Vs {
					if v.AST == nil {
						continue
					}
					as, ok := v.AST.(*ast.AssignStmt)
					if !ok {
						continue
					}
					for _, r := range as.Rhs {
						call, ok := ast.Unparen(r).(*ast.CallExpr)
						if !ok || core.CalleeKey(info, call) != "builtin.make" || len(call.Args) < 2 {
							continue
						}
						if _, isSlice := info.TypeOf(call).Underlying().(*types.Slice); !isSlice {
							continue
						}
						size := call.Args[len(call.Args)-1]
						if _, isConst := core.IntConst(info, size); isConst {
							continue
						}
						o.Count(1)
						o.At(fn.Site(call, "buffer of size "+norm(size)))
						// a dominating charge
						var dom []callV
						for _, ch := range charges {
							if ch.V != v && g.Dominates(ch.V, v) {
								dom = append(dom, ch)
							}
						}
						if len(dom) == 0 {
							o.FailAt(fn.Site(call, ""), "%s allocates %s before any budget charge in this function has succeeded", fn.Key, norm(r))
							continue
						}
						// accounted for: a summand of a dominating charge mentions the size
						// (each summand pays for one buffer); sizes resolved through one local
						sizes := []string{norm(size)}
						for _, vc := range valueCases(g, v, size, 1) {
							sizes = append(sizes, norm(vc.Expr))
						}
						paid := false
						for _, ch := range dom {
							if len(ch.Call.Args) != 1 {
								continue
							}
							var ts []string
							for _, vc := range valueCases(g, ch.V, ch.Call.Args[0], 1) {
								ts = append(ts, terms(vc.Expr)...)
							}
							ts = append(ts, terms(ch.Call.Args[0])...)
							if used[ch.V] == nil {
								used[ch.V] = map[int]bool{}
							}
							for i, t := range ts {
								if used[ch.V][i] || paid {
									continue
								}
								for _, sz := range sizes {
									if t == sz || strings.Contains(t, sz) {
										used[ch.V][i] = true
										paid = true
										break
									}
								}
							}
						}
						if !paid {
							// the amount may be computed in another form (a product, a helper):
							// recorded, not judged
							o.Fact("%s: no summand of the dominating charge names the size of %s", c.Prog.Pos(call.Pos()), norm(r))
						}
					}
				}
			}
		}
		o.Fact("%d decoder functions charge the budget", nFuncs)
		o.Shape(nFuncs > 0, "no decoder function charges the budget")
	})
}
