package props

import (
	"fmt"
	"go/ast"
	"go/constant"
	"go/token"
	"go/types"
	"os"
	"regexp"
	"strconv"
	"strings"

	"pdfverif/internal/core"
)

func init() {
	register(&Property{
		ID:       "C03",
		Patterns: []string{"."},
		Run:      runC03,
		Explanation: "Static rules on the file writer: (R1) every constant string / fmt format the writer emits for file structure matches the ISO 32000-2 7.5 grammar held in the checker (header + binary comment, 'N G obj' EOL, 'stream' followed by exactly LF or CRLF, EOL before 'endstream', 20-byte xref entries computed from the format verbs, trailer, startxref/%%EOF); " +
			"(R2) every recorded offset or length is sampled at the program point adjacent to the bytes it describes (xref Pos before the object header with no write in between, xRefPos after the last object and before the xref section and it is the value printed after startxref, startPos right after 'stream' EOL, length before 'endstream', declared-/Length mismatch test before success); " +
			"(R3) xref-stream rows have exactly 1+w2+w3 bytes in every branch, both field maxima are updated for every entry, W/Columns are built from the same w2,w3, required keys are set before OpenStream; (R4) object-stream header offsets are sampled before the member is appended, /First after the last pair, members are checked; " +
			"(R5) encryption is switched off before the xref section; write-state guards (inStream) protect every object-writing entry point. " +
			"Decides the literal grammar and the sampling points for all write programs at once; does NOT decide numeric correctness of offsets for a given program (that needs the strict parser the property describes).",
	})
}

func runC03(c *core.Ctx) {
	c.Guard(func() { ruleEmissionLiterals(c, "C03-R1") })
	c.Guard(func() { ruleOffsetCapture(c, "C03-R2") })
	c.Guard(func() { ruleXRefStreamRows(c, "C03-R3") })
	c.Guard(func() { ruleObjStmHeader(c, "C03-R4") })
	c.Guard(func() { ruleEncOffBeforeXRef(c, "C03-R5") })
	c.Guard(func() { ruleInStreamGuards(c, "C03-R6") })
	c.Guard(func() { ruleSeparators(c, "C03-R7") }) // tokens must stay separated for an independent tokenizer too
	c.Guard(func() { rulePredictorGeometry(c, "C03-R8") })
	c.Guard(func() { ruleTrailerSizeLast(c) })
	c.Guard(func() { ruleObjStmSlots(c, "C03-R10") })
	c.Guard(func() { ruleLoopCarriedTemplates(c, "C03-R11", "pdf") })
	c.Guard(func() { rulePaeth(c, "C03-R8") }) // PNG-predicted stream data (xref streams, user streams) must be decodable by any reader
}

// literalsWritten collects constant strings written in fn (format strings of
// Fprintf and literal arguments of Write/WriteString), in source order.
type lit struct {
	S    string
	Call *ast.CallExpr
	Fmt  bool
}

func literalsWritten(fn *core.Func) []lit {
	var out []lit
	info := fn.Info()
	for _, cs := range core.CallsIn(info, fn.Decl, true) {
		switch {
		case cs.Key == "fmt.Fprintf" && len(cs.Call.Args) >= 2:
			if s, ok := core.StringConst(info, cs.Call.Args[1]); ok {
				out = append(out, lit{s, cs.Call, true})
			}
		case (strings.HasSuffix(cs.Key, ".Write") || strings.HasSuffix(cs.Key, ".WriteString")) && len(cs.Call.Args) == 1:
			if s, ok := constBytes(info, cs.Call.Args[0]); ok {
				out = append(out, lit{s, cs.Call, false})
			}
		case cs.Key == "io.WriteString" && len(cs.Call.Args) == 2:
			if s, ok := core.StringConst(info, cs.Call.Args[1]); ok {
				out = append(out, lit{s, cs.Call, false})
			}
		}
	}
	return out
}

// fmtShape expands a format string into a regular-expression-like shape:
// %0Nd -> N digits "D{N}", %d -> "D+", %s -> "S", %% -> "%".
func fmtShape(f string) string {
	var b strings.Builder
	for i := 0; i < len(f); i++ {
		if f[i] != '%' {
			b.WriteByte(f[i])
			continue
		}
		i++
		if i >= len(f) {
			b.WriteString("<?>")
			break
		}
		if f[i] == '%' {
			b.WriteByte('%')
			continue
		}
		// flags/width
		j := i
		for j < len(f) && (f[j] == '0' || f[j] == '-' || f[j] == '+' || f[j] == ' ' || (f[j] >= '1' && f[j] <= '9')) {
			j++
		}
		spec := f[i:j]
		if j >= len(f) {
			b.WriteString("<?>")
			break
		}
		switch f[j] {
		case 'd':
			if len(spec) >= 2 && spec[0] == '0' {
				b.WriteString("D{" + spec[1:] + "}")
			} else if spec == "" {
				b.WriteString("D+")
			} else {
				b.WriteString("<%" + spec + "d>")
			}
		case 's':
			b.WriteString("S")
		default:
			b.WriteString("<%" + spec + string(f[j]) + ">")
		}
		i = j
	}
	return b.String()
}

type litRule struct {
	fn      string // function key suffix within package pdf
	allowed []string
	need    []string // patterns that must occur at least once
	what    string
}

func ruleEmissionLiterals(c *core.Ctx, rule string) {
	eol := `(\n|\r\n)`
	rules := []litRule{
		{"NewWriter", []string{`^%PDF-S` + eol + `%[\x80-\xff]{4,}` + eol + `$`, `^\n$`}, []string{`^%PDF-S`}, "header '%PDF-x.y' EOL, then a comment line with at least four bytes >= 0x80"},
		{"(*Writer).Put", []string{`^D\+ D\+ obj` + eol + `$`, `^` + eol + `endobj` + eol + `$`, `^\n$`}, []string{`obj`, `endobj`}, "'N G obj' EOL ... EOL 'endobj' EOL"},
		{"(*streamWriter).startWriting", []string{`^D\+ D\+ obj` + eol + `$`, `^` + eol + `?stream` + eol + `$`}, []string{`obj`, `stream`}, "'stream' keyword followed by exactly LF or CRLF (7.3.8.1)"},
		{"(*streamWriter).Close", []string{`^` + eol + `endstream` + eol + `endobj` + eol + `$`, `^\n$`}, []string{`endstream`}, "EOL before 'endstream', then 'endobj'"},
		{"(*Writer).writeXRefTable", []string{`^xref` + eol + `0 D\+` + eol + `$`, `^D\{10\} D\{5\} n( \r| \n|\r\n)$`, `^[0-9]{10} [0-9]{5} f( \r| \n|\r\n)$`, `^trailer` + eol + `$`, `^\n$`}, []string{`^xref`, ` n`, ` f`, `^trailer`}, "xref header, 20-byte in-use and free entries (7.5.4), trailer keyword"},
		{"(*Writer).Close", []string{`^startxref` + eol + `D\+` + eol + `%%EOF` + eol + `?$`}, []string{`startxref`}, "startxref EOL offset EOL %%EOF"},
	}
	c.Floor(rule, len(rules))
	for _, lr := range rules {
		lr := lr
		c.Check(rule, "pdf."+lr.fn, "file-structure literals match the ISO 32000-2 grammar: "+lr.what, func(o *core.Ob) {
			fn := c.Prog.Func("pdf", lr.fn)
			lits := literalsWritten(fn)
			// writes of a buffer that is formatted by hand: their symbolic shape
			shaped := map[*ast.CallExpr]bool{}
			{
				g := fn.Graph()
				for _, v := range g.Vs {
					if v.AST == nil {
						continue
					}
					for _, cs := range core.CallsIn(fn.Info(), v.AST, false) {
						if !(strings.HasSuffix(cs.Key, ".Write") || strings.HasSuffix(cs.Key, ".WriteString")) || len(cs.Call.Args) != 1 {
							continue
						}
						if _, isConst := constBytes(fn.Info(), cs.Call.Args[0]); isConst {
							continue
						}
						s, ok := bufferShape(c, fn, g, v, cs.Call.Args[0], 8)
						if ok && s != "" {
							lits = append(lits, lit{s, cs.Call, false})
							shaped[cs.Call] = true
						}
					}
				}
			}
			if len(lits) == 0 {
				core.Undecided("no literals written in %s", fn.Key)
			}
			needSeen := make([]bool, len(lr.need))
			for _, l := range lits {
				shape := l.S
				if l.Fmt {
					shape = fmtShape(l.S)
				}
				o.At(fn.Site(l.Call, "emits "+quote(l.S)))
				// literals that are not structure (error text etc.) do not occur in these functions' writes
				ok := false
				for _, a := range lr.allowed {
					if regexp.MustCompile(a).MatchString(latin1(shape)) {
						ok = true
					}
				}
				if !ok {
					o.FailAt(fn.Site(l.Call, ""), "literal %s (shape %s) does not match the file grammar", quote(l.S), quote(shape))
				}
				for i, n := range lr.need {
					if regexp.MustCompile(n).MatchString(shape) {
						needSeen[i] = true
					}
				}
				// 20-byte rule, computed
				if strings.Contains(shape, "D{10} D{5}") || regexp.MustCompile(`^[0-9]{10} [0-9]{5} f`).MatchString(shape) {
					n := shapeLen(shape)
					if n != 20 {
						o.FailAt(fn.Site(l.Call, ""), "cross-reference entry is %d bytes long, must be exactly 20", n)
					}
				}
			}
			opaque := 0
			for _, cs := range core.CallsIn(fn.Info(), fn.Decl, true) {
				if (strings.HasSuffix(cs.Key, ".Write") || strings.HasSuffix(cs.Key, ".WriteString")) && len(cs.Call.Args) == 1 {
					if _, isConst := constBytes(fn.Info(), cs.Call.Args[0]); !isConst && !shaped[cs.Call] {
						opaque++
					}
				}
			}
			for i, seen := range needSeen {
				if !seen && opaque > 0 {
					o.Unrec("%s: no literal matching %q is written, but %d write(s) emit a buffer that is not a constant (a template filled at run time?)", fn.Key, lr.need[i], opaque)
					continue
				}
				if !seen {
					o.Fail("%s: no literal matching %q is written", fn.Key, lr.need[i])
				}
			}
		})
	}
	c.Check(rule, "pdf.(*Writer).writeXRefTable/free-entry", "an object number without entry gets a free entry (every number below /Size has exactly one entry) and the loop covers 0..nextRef", func(o *core.Ob) {
		fn := c.Prog.Func("pdf", "(*Writer).writeXRefTable")
		g := fn.Graph()
		info := fn.Info()
		heads := loopHeads(g)
		if len(heads) > 1 {
			// loops of helpers that were folded in: the entry loop is the one bounded by nextRef
			var own []*core.V
			for _, h := range heads {
				if loopBound(g, h) != nil && mentionsFieldVia(g, h, loopBound(g, h), "nextRef") {
					own = append(own, h)
				}
			}
			heads = own
		}
		if len(heads) != 1 {
			core.Undecided("expected one loop")
		}
		o.At(fn.Site(heads[0].AST, "entry loop"))
		// loop bound mentions nextRef
		o.Require(loopBound(g, heads[0]) != nil && mentionsFieldVia(g, heads[0], loopBound(g, heads[0]), "nextRef"), "the entry loop is not bounded by nextRef")
		// header count is nextRef too
		headerSeen := false
		for _, l := range literalsWritten(fn) {
			if l.Fmt && strings.HasPrefix(l.S, "xref") {
				headerSeen = true
				hv := g.VertexOf(l.Call)
				o.Require(len(l.Call.Args) == 3 && hv != nil && mentionsFieldVia(g, hv, l.Call.Args[2], "nextRef"), "the subsection header does not print nextRef as its count")
			}
		}
		// the in-use entry prints (offset, generation) of the entry of the loop's number;
		// the same for lines formatted by hand
		checkEntryOps := func(site ast.Node, ops []vcase) {
			if len(ops) != 2 {
				o.Unrec("in-use entry with %d numeric fields", len(ops))
				return
			}
			for k, want := range []string{"Pos", "Generation"} {
				got := ""
				if ops[k].V != nil {
					got = fieldOfOperand(fn, g, ops[k].V, ops[k].Expr)
				}
				if got == "" {
					o.Unrec("%s: operand %s of the in-use entry is not a field of the cross-reference entry", c.Prog.Pos(site.Pos()), core.ExprStr(ops[k].Expr))
				} else if got != want {
					o.FailAt(fn.Site(site, ""), "field %d of the in-use entry prints the entry's %s, must be its %s (7.5.4: offset, then generation)", k+1, got, want)
				}
			}
		}
		for _, l := range literalsWritten(fn) {
			if l.Fmt && strings.Contains(fmtShape(l.S), "D{10} D{5} n") && len(l.Call.Args) >= 2 {
				if v := g.VertexOf(l.Call); v != nil {
					var ops []vcase
					for _, a := range l.Call.Args[2:] {
						ops = append(ops, vcase{a, v})
					}
					checkEntryOps(l.Call, ops)
				}
			}
		}
		for _, v := range g.Vs {
			if v.AST == nil {
				continue
			}
			for _, cs := range core.CallsIn(info, v.AST, false) {
				if !(strings.HasSuffix(cs.Key, ".Write") || strings.HasSuffix(cs.Key, ".WriteString")) || len(cs.Call.Args) != 1 {
					continue
				}
				if _, isConst := constBytes(info, cs.Call.Args[0]); isConst {
					continue
				}
				var ops []vcase
				sh, ok := bufferShapeArgs(c, fn, g, v, cs.Call.Args[0], 8, &ops)
				if !ok {
					continue
				}
				if strings.HasPrefix(sh, "xref") {
					headerSeen = true
					o.At(fn.Site(cs.Call, "subsection header (formatted by hand)"))
					o.Require(len(ops) == 1 && ops[0].V != nil && mentionsFieldVia(g, ops[0].V, ops[0].Expr, "nextRef"), "the subsection header does not print nextRef as its count")
				}
				if strings.Contains(sh, "D{10} D{5} n") {
					checkEntryOps(cs.Call, ops)
				}
			}
		}
		o.Shape(headerSeen, "the subsection header 'xref' EOL '0 N' was not found among the writes")
		// every path through the body writes exactly one entry
		var entryWrites []*core.V
		for _, v := range g.Vs {
			if v.AST == nil {
				continue
			}
			for _, cs := range core.CallsIn(info, v.AST, false) {
				if cs.Key == "fmt.Fprintf" || strings.HasSuffix(cs.Key, ".Write") {
					if g.ReachFrom(succ(heads[0], core.EdgeTrue), true, core.AvoidVs(heads[0]))[v] {
						entryWrites = append(entryWrites, v)
					}
				}
			}
		}
		o.Count(len(entryWrites))
		body := succ(heads[0], core.EdgeTrue)
		r := reachSkippingFailures(g, body, core.AvoidVs(entryWrites...))
		if r[heads[0]] {
			o.Fail("some path through the entry loop writes no entry (a number below /Size would have no entry)")
		}
		for _, w := range entryWrites {
			for _, w2 := range entryWrites {
				if g.ReachFrom(w, false, core.AvoidVs(heads[0]))[w2] {
					o.Fail("a path through the entry loop writes two entries")
				}
			}
		}
	})
}

// latin1 maps every byte to the rune of the same value so that byte
// classes can be written as rune classes.
func latin1(s string) string {
	r := make([]rune, len(s))
	for i := 0; i < len(s); i++ {
		r[i] = rune(s[i])
	}
	return string(r)
}

func quote(s string) string {
	var b strings.Builder
	b.WriteByte('"')
	for i := 0; i < len(s); i++ {
		ch := s[i]
		switch {
		case ch == '\n':
			b.WriteString(`\n`)
		case ch == '\r':
			b.WriteString(`\r`)
		case ch < 0x20 || ch >= 0x7f:
			b.WriteString(`\x` + "0123456789abcdef"[ch>>4:ch>>4+1] + "0123456789abcdef"[ch&15:ch&15+1])
		default:
			b.WriteByte(ch)
		}
	}
	b.WriteByte('"')
	return b.String()
}

// shapeLen computes the byte length of a shape with fixed-width digits.
func shapeLen(shape string) int {
	n := 0
	for i := 0; i < len(shape); i++ {
		if strings.HasPrefix(shape[i:], "D{") {
			j := strings.IndexByte(shape[i:], '}')
			w := 0
			for _, ch := range shape[i+2 : i+j] {
				w = w*10 + int(ch-'0')
			}
			n += w
			i += j
			continue
		}
		n++
	}
	return n
}

// posWriterWrites lists the vertices of g that (may) write to the
// positional writer: calls whose receiver or first argument is a
// *posWriter value, and calls to in-package functions that are known to
// write (Format, Put, OpenStream, writeXRef*, rm.*).
func posWriterWrites(g *core.Graph) []*core.V {
	var out []*core.V
	info := g.Info
	isPW := func(e ast.Expr) bool {
		t := info.TypeOf(e)
		return t != nil && core.IsNamed(t, "pdf", "posWriter")
	}
	for _, v := range g.Vs {
		if v.AST == nil {
			continue
		}
		w := false
		for _, cs := range core.CallsIn(info, v.AST, false) {
			if len(cs.Call.Args) > 0 && isPW(cs.Call.Args[0]) {
				w = true
			}
			if se, ok := cs.Call.Fun.(*ast.SelectorExpr); ok && isPW(se.X) {
				w = true
			}
			switch cs.Key {
			case "pdf.(*Writer).Put", "pdf.(*Writer).OpenStream", "pdf.(*Writer).WriteCompressed", "pdf.(*Writer).writeXRefStream", "pdf.(*Writer).writeXRefTable",
				"pdf.(*ResourceManager).Store", "pdf.(*ResourceManager).Embed", "pdf.(*ResourceManager).Close", "pdf.(*streamWriter).Write", "pdf.(*streamWriter).startWriting":
				w = true
			}
		}
		if w {
			out = append(out, v)
		}
	}
	return out
}

func isPosSel(info *types.Info, e ast.Expr) bool {
	_, ok := core.FieldSel(info, e, "pdf", "posWriter", "pos")
	return ok
}

func mentionsPos(info *types.Info, n ast.Node) bool {
	found := false
	ast.Inspect(n, func(m ast.Node) bool {
		if e, ok := m.(ast.Expr); ok && isPosSel(info, e) {
			found = true
		}
		return !found
	})
	return found
}

func ruleOffsetCapture(c *core.Ctx, rule string) {
	c.Floor(rule, 5)
	for _, name := range []string{"(*Writer).Put", "(*Writer).OpenStream"} {
		name := name
		c.Check(rule, "pdf."+name+"/xref-pos", "the offset stored in the xref entry is the writer position read immediately before the object header: no write happens between sampling and the header", func(o *core.Ob) {
			fn := c.Prog.Func("pdf", name)
			g := fn.Graph()
			info := fn.Info()
			cvs := callVertices(g, "pdf.(*Writer).setXRef")
			if len(cvs) != 1 {
				core.Undecided("expected one setXRef call in %s, found %d", name, len(cvs))
			}
			sx := cvs[0]
			o.At(fn.Site(sx.Call, "setXRef"))
			entryExpr := sx.Call.Args[1]
			if _, isID := ast.Unparen(entryExpr).(*ast.Ident); isID {
				// entry := &xRefEntry{...}; w.setXRef(ref, entry)
				if vc := valueCases(g, sx.V, entryExpr, 1); len(vc) == 1 && vc[0].V != nil && vc[0].V != sx.V {
					entryExpr = vc[0].Expr
				}
			}
			fields := compositeFields(info, entryExpr)
			if len(fields) == 0 {
				o.Unrec("the entry handed to setXRef (%s) is not a literal here: its fields are not followed", core.ExprStr(sx.Call.Args[1]))
				return
			}
			if fields["Pos"] == nil || !isPosSel(info, fields["Pos"]) {
				o.Fail("xref entry Pos is %s, want the current writer position", core.ExprStr(fields["Pos"]))
			}
			if fields["Generation"] == nil || !strings.Contains(core.ExprStr(fields["Generation"]), "Generation()") {
				o.Fail("xref entry does not record ref.Generation()")
			}
			if !strings.Contains(core.ExprStr(sx.Call.Args[0]), "ref") {
				o.Fail("xref entry is registered for %s instead of the reference being written", core.ExprStr(sx.Call.Args[0]))
			}
			writes := posWriterWrites(g)
			// no write may precede setXRef in this function
			for _, w := range writes {
				if w != sx.V && g.PathExists(w, sx.V, nil) {
					o.FailAt(fn.Site(w.AST, ""), "bytes are written before the xref position is sampled")
				}
			}
			if name == "(*Writer).Put" {
				// the first write after setXRef is the "N G obj" header
				var header *core.V
				for _, w := range writes {
					for _, cs := range core.CallsIn(info, w.AST, false) {
						if cs.Key == "fmt.Fprintf" {
							if s, ok := core.StringConst(info, cs.Call.Args[1]); ok && strings.Contains(s, "obj") && g.PathExists(sx.V, w, nil) {
								header = w
								var ops []vcase
								for _, a := range cs.Call.Args[2:] {
									ops = append(ops, vcase{a, w})
								}
								checkHeaderOps(o, fn, g, cs.Call, ops)
							}
						}
					}
				}
				if header == nil {
					// the same header formatted by hand
					for _, w := range writes {
						if !g.PathExists(sx.V, w, nil) {
							continue
						}
						for _, cs := range core.CallsIn(info, w.AST, false) {
							if !(strings.HasSuffix(cs.Key, ".Write") || strings.HasSuffix(cs.Key, ".WriteString")) || len(cs.Call.Args) != 1 {
								continue
							}
							var ops []vcase
							if s, ok := bufferShapeArgs(c, fn, g, w, cs.Call.Args[0], 8, &ops); ok && strings.HasPrefix(s, "D+ D+ obj") && header == nil {
								header = w
								checkHeaderOps(o, fn, g, cs.Call, ops)
							}
						}
					}
				}
				if header == nil {
					after := 0
					for _, w := range writes {
						if w != sx.V && g.PathExists(sx.V, w, nil) {
							after++
						}
					}
					if after > 0 {
						o.Unrec("the object header is not written with a format string containing 'obj' (%d other writes follow setXRef): which write is the header is not decided", after)
					} else {
						o.Fail("no object header write follows setXRef")
					}
					return
				}
				var others []*core.V
				for _, w := range writes {
					if w != header && w != sx.V {
						others = append(others, w)
					}
				}
				if !g.MustPassBefore(sx.V, others, []*core.V{header}) {
					o.Fail("some write can happen between sampling the position and writing the object header")
				}
			} else {
				// OpenStream: nothing is written after setXRef inside OpenStream; the header is written by startWriting
				for _, w := range writes {
					if w != sx.V && g.PathExists(sx.V, w, nil) {
						o.FailAt(fn.Site(w.AST, ""), "OpenStream writes to the file between sampling the stream's position and handing out the stream writer")
					}
				}
			}
		})
	}
	c.Check(rule, "pdf.(*Writer).Close/xrefpos", "startxref prints the position sampled after the last object and immediately before the cross-reference section", func(o *core.Ob) {
		fn := c.Prog.Func("pdf", "(*Writer).Close")
		g := fn.Graph()
		info := fn.Info()
		var def *core.V
		var obj types.Object
		for _, v := range g.Vs {
			if as, ok := v.AST.(*ast.AssignStmt); ok && len(as.Rhs) == 1 && isPosSel(info, as.Rhs[0]) {
				def = v
				obj = core.ObjOf(info, as.Lhs[0])
				o.At(fn.Site(as, "xRefPos sampled"))
			}
		}
		if def == nil {
			o.Count(1)
			o.Fail("Close does not sample the writer position")
			return
		}
		xw := callVertices(g, "pdf.(*Writer).writeXRefStream", "pdf.(*Writer).writeXRefTable")
		if len(xw) != 2 {
			core.Undecided("expected calls to writeXRefStream and writeXRefTable")
		}
		writes := posWriterWrites(g)
		var xvs []*core.V
		for _, x := range xw {
			xvs = append(xvs, x.V)
			o.At(fn.Site(x.Call, "xref section"))
			if !g.Dominates(def, x.V) {
				o.Fail("xref section written before the position is sampled")
			}
		}
		var others []*core.V
		for _, w := range writes {
			isX := false
			for _, x := range xvs {
				if x == w {
					isX = true
				}
			}
			if !isX && w != def {
				others = append(others, w)
			}
		}
		if !g.MustPassBefore(def, others, xvs) {
			o.Fail("something may be written between sampling xRefPos and the xref section")
		}
		// objects written after sampling? any earlier write-capable call must not be reachable after def except the trailer/startxref
		for _, l := range literalsWritten(fn) {
			if l.Fmt && strings.HasPrefix(l.S, "startxref") {
				o.At(fn.Site(l.Call, "startxref"))
				if len(l.Call.Args) != 3 || core.ObjOf(info, l.Call.Args[2]) != obj {
					o.Fail("startxref prints %s instead of the sampled position", core.ExprStr(l.Call.Args[len(l.Call.Args)-1]))
				}
				v := g.MustVertexOf(l.Call)
				for _, x := range xvs {
					if g.PathExists(v, x, nil) {
						o.Fail("startxref is written before the xref section")
					}
				}
			}
		}
		// /Size
		sz := false
		for k, sites := range core.DictKeysWritten(info, fn.Decl, "pdf", "Dict") {
			if k == "Size" {
				for _, s := range sites {
					if as, ok := s.(*ast.AssignStmt); ok && strings.Contains(core.ExprStr(as.Rhs[0]), "nextRef") {
						sz = true
					}
				}
			}
		}
		o.Require(sz, "trailer /Size is not set from nextRef")
	})
	c.Check(rule, "pdf.(*streamWriter).startWriting/startpos", "the stream's data start is sampled immediately after the 'stream' EOL is written and before any data", func(o *core.Ob) {
		fn := c.Prog.Func("pdf", "(*streamWriter).startWriting")
		g := fn.Graph()
		info := fn.Info()
		var def *core.V
		for _, v := range g.Vs {
			if as, ok := v.AST.(*ast.AssignStmt); ok && len(as.Rhs) == 1 && isPosSel(info, as.Rhs[0]) {
				if _, nm, ok := selName(as.Lhs[0]); ok && nm == "startPos" {
					def = v
					o.At(fn.Site(as, "startPos sampled"))
				}
			}
		}
		if def == nil {
			o.Count(1)
			o.Fail("startPos is not sampled from the writer position")
			return
		}
		var kw *core.V
		writes := posWriterWrites(g)
		for _, w := range writes {
			for _, cs := range core.CallsIn(info, w.AST, false) {
				if len(cs.Call.Args) == 1 {
					if s, ok := constBytes(info, cs.Call.Args[0]); ok && strings.Contains(s, "stream") {
						kw = w
					}
				}
			}
		}
		if kw == nil {
			o.Unrec("'stream' keyword write not found")
			return
		}
		o.Require(g.Dominates(kw, def), "startPos is sampled before the 'stream' keyword is written")
		var others []*core.V
		for _, w := range writes {
			if w != kw {
				others = append(others, w)
			}
		}
		// between kw and def: no other write
		r := g.ReachFrom(kw, false, core.AvoidVs(def))
		for _, w := range others {
			if r[w] && g.PathExists(w, def, nil) {
				o.FailAt(fn.Site(w.AST, ""), "bytes are written between the 'stream' keyword and sampling startPos")
			}
		}
		// dictionary is written before the keyword
		fm := callVertices(g, "pdf.Format")
		o.Require(len(fm) == 1 && g.Dominates(fm[0].V, kw), "the stream dictionary is not written before the 'stream' keyword")
		o.Require(len(fm) == 1 && strings.Contains(core.ExprStr(fm[0].Call.Args[2]), "streamDict"), "startWriting formats something other than the stream dictionary")
	})
	c.Check(rule, "pdf.(*streamWriter).Close/length", "/Length is computed as position minus startPos before the EOL+'endstream' is written, is the value given to the placeholder, and a caller-declared /Length that differs is an error before success", func(o *core.Ob) {
		fn := c.Prog.Func("pdf", "(*streamWriter).Close")
		g := fn.Graph()
		info := fn.Info()
		length := localVar(fn, "length", 0)
		// the computations may sit in a helper that was folded in: then the variable is a
		// copy (of a copy) of the helper's variables, whose definitions are the computations
		var compDefs []*core.V
		seenObj := map[types.Object]bool{}
		var collect func(obj types.Object, depth int)
		collect = func(obj types.Object, depth int) {
			if obj == nil || seenObj[obj] || depth < 0 {
				return
			}
			seenObj[obj] = true
			for _, dv := range defVertices(g, obj) {
				rhs, found := rhsFor(info, dv, obj)
				if found && rhs != nil {
					if inner, isVar := core.ObjOf(info, rhs).(*types.Var); isVar && !inner.IsField() && inner.Pkg() != nil && inner.Parent() != inner.Pkg().Scope() {
						collect(inner, depth-1)
						continue
					}
				}
				compDefs = append(compDefs, dv)
			}
		}
		collect(length, 3)
		var defs []*core.V
		for _, dv := range compDefs {
			if as, ok := dv.AST.(*ast.AssignStmt); ok {
				defs = append(defs, dv)
				o.At(fn.Site(as, "length := "+core.ExprStr(as.Rhs[0])))
				rhs := core.ExprStr(as.Rhs[0])
				if mentionsPos(info, as.Rhs[0]) {
					if !strings.Contains(rhs, "startPos") {
						o.Fail("length is computed from the position without subtracting startPos")
					}
					if be := findBinary(as.Rhs[0], token.SUB); be == nil || !isPosSel(info, be.X) {
						o.Fail("length must be pos - startPos, got %s", rhs)
					}
				} else if !strings.Contains(rhs, "len(") || !strings.Contains(rhs, "buf") {
					o.Fail("length of an unstarted stream must be len(buf), got %s", rhs)
				}
			}
		}
		o.Shape(len(defs) == 2, "expected two computations of the length (started / buffered), found %d", len(defs))
		// endstream write
		var end *core.V
		for _, v := range g.Vs {
			if v.AST == nil {
				continue
			}
			for _, cs := range core.CallsIn(info, v.AST, false) {
				if len(cs.Call.Args) == 1 {
					if s, ok := constBytes(info, cs.Call.Args[0]); ok && strings.Contains(s, "endstream") {
						end = v
					}
				}
			}
		}
		if end == nil {
			o.Unrec("'endstream' write not found")
			return
		}
		for _, d := range defs {
			if g.PathExists(end, d, nil) {
				o.Fail("length is computed after 'endstream' was written")
			}
		}
		// Set(length) calls use the variable
		sets := callVertices(g, "pdf.(*Placeholder).Set")
		o.Require(len(sets) >= 1, "the placeholder for /Length is never set")
		for _, s := range sets {
			o.At(fn.Site(s.Call, "Set"))
			if core.ObjOf(info, s.Call.Args[0]) != length {
				if id, isID := ast.Unparen(s.Call.Args[0]).(*ast.Ident); isID && id.Name == "length" {
					// the variable of the same role in another scope (helper folded in twice)
					o.Unrec("placeholder is set to %s: not connected with the computed length", core.ExprStr(s.Call.Args[0]))
				} else {
					o.Fail("placeholder is set to %s instead of the computed length", core.ExprStr(s.Call.Args[0]))
				}
			}
			if g.PathExists(end, s.V, nil) {
				o.Fail("placeholder set after endstream")
			}
		}
		// mismatch test dominates endstream write
		ok := false
		for _, bv := range g.BranchVertices() {
			if bv.Cond.Expr != nil && core.Mentions(info, bv.Cond.Expr, length) && strings.Contains(core.ExprStr(bv.Cond.Expr), "!=") {
				if g.Dominates(bv, end) {
					ok = true
					// true edge must return an error
					tv := succ(bv, core.EdgeTrue)
					if g.ReachFrom(tv, true, nil)[end] {
						o.Fail("a declared /Length that differs from the data does not prevent success")
					}
				}
			}
		}
		o.Require(ok, "no comparison of a declared /Length with the actual length before 'endstream'")
		// in the buffered case startWriting is called after Set
		sw := callVertices(g, "pdf.(*streamWriter).startWriting")
		o.Require(len(sw) == 1, "Close must start writing a still-buffered stream exactly once")
	})
}

func findBinary(e ast.Expr, op token.Token) *ast.BinaryExpr {
	var out *ast.BinaryExpr
	ast.Inspect(e, func(n ast.Node) bool {
		if be, ok := n.(*ast.BinaryExpr); ok && be.Op == op && out == nil {
			out = be
		}
		return out == nil
	})
	return out
}

func ruleXRefStreamRows(c *core.Ctx, rule string) {
	fn := c.Prog.Func("pdf", "(*Writer).writeXRefStream")
	g := fn.Graph()
	info := fn.Info()
	_ = loopHeads
	c.Check(rule, "pdf.(*Writer).writeXRefStream/maxima", "the width of each field is derived from a maximum that is updated for every entry, independently of the other field", func(o *core.Ob) {
		head, _ := xrefStreamLoops(g)
		o.At(fn.Site(head.AST, "sizing loop"))
		w2, w3 := xrefWidthVars(fn)
		inLoop := g.ReachFrom(succ(head, core.EdgeTrue), true, core.AvoidVs(head))
		for i, w := range []types.Object{w2, w3} {
			k := []string{"2", "3"}[i]
			// wK = (bits.Len64(mx) + 7) / 8
			var mx types.Object
			for _, n := range core.AssignsTo(info, fn.Decl, w) {
				as, ok := n.(*ast.AssignStmt)
				if !ok || len(as.Rhs) != 1 {
					continue
				}
				src := core.ExprStr(as.Rhs[0])
				if !strings.Contains(src, "+ 7") || !strings.Contains(src, "/ 8") {
					continue
				}
				for _, call := range core.CallsTo(info, as.Rhs[0], false, "math/bits.Len64") {
					if len(call.Args) == 1 {
						mx = core.ObjOf(info, call.Args[0])
					}
				}
			}
			if mx == nil {
				o.Unrec("the width of field %s is not computed as (bits.Len64(maximum)+7)/8 in this function: where the width comes from is not followed", k)
				continue
			}
			// the maximum may be handed over by a folded-in helper (maxField2, maxField3 = a, b):
			// follow plain copies to the variable the loop updates
			for steps := 0; steps < 3; steps++ {
				var src types.Object
				n, inL := 0, false
				for _, dv := range defVertices(g, mx) {
					if inLoop[dv] {
						inL = true
					}
					as, ok := dv.AST.(*ast.AssignStmt)
					if !ok {
						if vs, isVS := dv.AST.(*ast.ValueSpec); isVS && len(vs.Values) == 0 {
							continue
						}
						if ds, isDS := dv.AST.(*ast.DeclStmt); isDS {
							_ = ds
							continue
						}
						n += 2
						continue
					}
					n++
					if len(as.Lhs) == len(as.Rhs) {
						for j, l := range as.Lhs {
							if core.ObjOf(info, l) == mx {
								if so, isVar := core.ObjOf(info, as.Rhs[j]).(*types.Var); isVar && !so.IsField() {
									if _, isID := ast.Unparen(as.Rhs[j]).(*ast.Ident); isID {
										src = so
									}
								}
							}
						}
					}
				}
				if inL || n != 1 || src == nil {
					break
				}
				mx = src
			}
			// updates of the maximum inside the sizing loop: mx = f under f > mx, or mx = max(mx, f)
			var f types.Object
			var updates []*core.V
			for _, dv := range defVertices(g, mx) {
				if !inLoop[dv] {
					continue
				}
				as, ok := dv.AST.(*ast.AssignStmt)
				if !ok || as.Tok != token.ASSIGN || len(as.Rhs) != 1 {
					o.FailAt(fn.Site(dv.AST, ""), "the maximum of field %s is changed in a way the analysis does not understand", k)
					continue
				}
				if call, ok := ast.Unparen(as.Rhs[0]).(*ast.CallExpr); ok && core.CalleeKey(info, call) == "builtin.max" && len(call.Args) == 2 {
					for j, a := range call.Args {
						if core.ObjOf(info, a) == mx {
							f = core.ObjOf(info, call.Args[1-j])
						}
					}
					updates = append(updates, dv)
					continue
				}
				cand := core.ObjOf(info, as.Rhs[0])
				if cand == nil {
					o.FailAt(fn.Site(as, ""), "the maximum of field %s is not updated from the field value", k)
					continue
				}
				// guarded by cand > mx (or mx < cand); the comparison is the update point
				for _, bv := range g.BranchVertices() {
					if bv.Cond.Expr == nil || !core.Mentions(info, bv.Cond.Expr, mx) || !core.Mentions(info, bv.Cond.Expr, cand) {
						continue
					}
					if g.EdgeDominates(dv, core.EdgeRef{From: bv, Label: core.EdgeTrue}) {
						okCmp := false
						for _, a := range bv.Implied(core.EdgeTrue) {
							if cmp, ok := a.AsCmp(); ok {
								l, r, op := cmp.L, cmp.R, cmp.Op
								if op == token.LSS || op == token.LEQ {
									l, r = r, l
									op = map[token.Token]token.Token{token.LSS: token.GTR, token.LEQ: token.GEQ}[op]
								}
								if (op == token.GTR || op == token.GEQ) && core.ObjOf(info, l) == cand && core.ObjOf(info, r) == mx {
									okCmp = true
								}
							}
						}
						if okCmp {
							f = cand
							updates = append(updates, bv)
						}
					}
				}
			}
			if f == nil || len(updates) == 0 {
				// never assigned in the loop, and not the result of a helper either: the
				// maximum does not depend on the entries at all
				inLoopDefs, viaHelper := 0, false
				for _, dv := range defVertices(g, mx) {
					if inLoop[dv] {
						inLoopDefs++
					}
					if dv.AST == nil {
						continue
					}
					for _, cs := range core.CallsIn(info, dv.AST, false) {
						if callee := core.Callee(info, cs.Call); callee != nil && callee.Pkg() == fn.Obj.Pkg() {
							viaHelper = true
						}
					}
				}
				if inLoopDefs == 0 && !viaHelper {
					o.FailAt(fn.Site(head.AST, ""), "the maximum of field %s is never updated from the entries: the width of the field does not depend on the values written into it", k)
					continue
				}
				o.Unrec("no update of the maximum of field %s from the field value was found in the sizing loop (computed by a helper?)", k)
				continue
			}
			o.At(fn.Site(updates[0].AST, "max update "+k))
			// every assignment of the field value must be followed by the update before the next iteration
			for _, dv := range defVertices(g, f) {
				if _, isSpec := dv.AST.(*ast.ValueSpec); isSpec || !inLoop[dv] {
					continue
				}
				if ds, isDecl := dv.AST.(*ast.DeclStmt); isDecl {
					_ = ds
					continue
				}
				o.Count(1)
				if !g.MustPassBefore(dv, []*core.V{head}, updates) {
					o.FailAt(fn.Site(dv.AST, ""), "after this assignment of the field-%s value the loop can continue without updating the maximum (the field would be written truncated)", k)
				}
			}
		}
	})
	c.Check(rule, "pdf.(*Writer).writeXRefStream/rows", "every row of the cross-reference stream consists of exactly one type byte, one field of width w2 and one of width w3, in this order, in every branch", func(o *core.Ob) {
		_, head := xrefStreamLoops(g)
		o.At(fn.Site(head.AST, "writing loop"))
		w2, w3 := xrefWidthVars(fn)
		body := succ(head, core.EdgeTrue)
		inBody := g.ReachFrom(body, true, core.AvoidVs(head))
		var tb, f2, f3 []*core.V
		for v := range inBody {
			if v.AST == nil {
				continue
			}
			for _, cs := range core.CallsIn(info, v.AST, false) {
				if strings.HasSuffix(cs.Key, ".WriteByte") {
					tb = append(tb, v)
				}
				if cs.Key == "pdf.encodeInt64" && len(cs.Call.Args) == 3 {
					_, widthArg := encArgs(info, cs.Call)
					switch core.ObjOf(info, widthArg) {
					case w2:
						f2 = append(f2, v)
					case w3:
						f3 = append(f3, v)
					default:
						o.FailAt(fn.Site(cs.Call, ""), "field written with width %s, want w2 or w3", core.ExprStr(widthArg))
					}
				}
			}
		}
		// three kinds of emission are decided by paths, however many sites write them
		// (one per branch, or one for all branches after a row was computed)
		if len(tb) > 0 && len(f2) > 0 && len(f3) > 0 {
			o.Count(3)
		}
		errE := errNotNilEdges(g)
		cut := core.AvoidEdges(errE...)
		seq := [][]*core.V{tb, f2, f3}
		names := []string{"type byte", "field 2", "field 3"}
		// every error-free path from body start to the head passes each kind exactly once, in order
		cur := []*core.V{body}
		for i, kind := range seq {
			for _, st := range cur {
				r := g.ReachFrom(st, st == body, cut.With(kind...))
				if r[head] {
					o.Fail("a row can be completed without writing its %s", names[i])
				}
			}
			// no two of the same kind on one iteration
			for _, a := range kind {
				r := g.ReachFrom(a, false, cut.With(head))
				for _, b := range kind {
					if r[b] {
						o.Fail("a row can contain two %ss", names[i])
					}
				}
				// order: next kinds must not precede
				for j := 0; j < i; j++ {
					for _, b := range seq[j] {
						if r[b] {
							o.Fail("%s can be written before %s", names[i], names[j])
						}
					}
				}
			}
			cur = kind
		}
		// type values 0,1,2 only (written at the call or chosen in a branch before it)
		for _, v := range tb {
			for _, cs := range core.CallsIn(info, v.AST, false) {
				if strings.HasSuffix(cs.Key, ".WriteByte") {
					for _, vc := range valueCases(g, v, cs.Call.Args[0], 2) {
						k, ok := core.IntConst(info, vc.Expr)
						if !ok || k < 0 || k > 2 {
							o.FailAt(fn.Site(cs.Call, ""), "entry type %s is not 0, 1 or 2", core.ExprStr(vc.Expr))
						}
					}
				}
			}
		}
		if lb := loopBound(g, head); lb == nil {
			o.Unrec("the bound of the row loop was not found")
		} else {
			o.Require(strings.Contains(core.ExprStr(lb)+" "+resolveText(g, head, lb, 3), "nextRef"), "the row loop is not bounded by nextRef")
		}
	})
	c.Check(rule, "pdf.(*Writer).writeXRefStream/dict", "/W is [1 w2 w3], the predictor's Columns is 1+w2+w3, and /Type /Size /W /Filter /DecodeParms /Length (direct) are set before the stream is opened", func(o *core.Ob) {
		keys := core.DictKeysWritten(info, fn.Decl, "pdf", "Dict")
		os := callVertices(g, "pdf.(*Writer).OpenStream")
		if len(os) != 1 {
			core.Undecided("expected one OpenStream call")
		}
		for _, k := range []string{"Type", "Size", "W", "Filter", "DecodeParms", "Length"} {
			o.Count(1)
			sites := keys[k]
			if len(sites) == 0 {
				o.Fail("/%s is not set", k)
				continue
			}
			for _, s := range sites {
				v := g.VertexOf(s)
				if v == nil || !g.Dominates(v, os[0].V) {
					o.Fail("/%s is not set on every path before OpenStream", k)
				}
			}
		}
		if s := keys["Size"]; len(s) == 1 {
			if as, ok := s[0].(*ast.AssignStmt); ok {
				txt := core.ExprStr(as.Rhs[0])
				if v := g.VertexOf(s[0]); v != nil {
					txt += " " + resolveText(g, v, as.Rhs[0], 3)
				}
				o.Require(strings.Contains(txt, "nextRef"), "/Size is not nextRef")
			}
		}
		if s := keys["Length"]; len(s) == 1 {
			if as, ok := s[0].(*ast.AssignStmt); ok {
				t := info.TypeOf(as.Rhs[0])
				o.Require(t != nil && core.IsNamed(t, "pdf", "Integer"), "/Length of the xref stream must be a direct Integer")
				o.Require(strings.Contains(core.ExprStr(as.Rhs[0]), "len("), "/Length is not the length of the encoded data")
			}
		}
		// W literal
		okW, okCols := false, false
		ast.Inspect(fn.Decl.Body, func(n ast.Node) bool {
			switch x := n.(type) {
			case *ast.CompositeLit:
				t := info.TypeOf(x)
				if t != nil && core.IsNamed(t, "pdf", "Array") && len(x.Elts) == 3 {
					s := []string{core.ExprStr(x.Elts[0]), core.ExprStr(x.Elts[1]), core.ExprStr(x.Elts[2])}
					ww2, ww3 := xrefWidthVars(fn)
					k0, isK0 := core.IntConst(info, x.Elts[0])
					if s[0] == "Integer(1)" && s[1] == "Integer(w2)" && s[2] == "Integer(w3)" {
						okW = true
					} else if isK0 && k0 == 1 && ww2 != nil && ww3 != nil && core.ObjOf(info, peelConv(info, x.Elts[1])) == ww2 && core.ObjOf(info, peelConv(info, x.Elts[2])) == ww3 {
						// the same by identity: the widths the rows are written with
						okW = true
					} else {
						o.Fail("/W is %v, want [1 w2 w3]", s)
					}
				}
				if t != nil && core.IsNamed(t, "pdf", "FilterFlate") {
					f := compositeFields(info, x)
					if f["Columns"] != nil {
						s := strings.ReplaceAll(core.ExprStr(f["Columns"]), " ", "")
						sumOK := false
						if ww2, ww3 := xrefWidthVars(fn); ww2 != nil && ww3 != nil {
							// a sum of exactly the constant 1 and the two widths, in any order
							var terms []ast.Expr
							var flat func(e ast.Expr) bool
							flat = func(e ast.Expr) bool {
								e = ast.Unparen(e)
								if be, isBin := e.(*ast.BinaryExpr); isBin {
									if be.Op != token.ADD {
										return false
									}
									return flat(be.X) && flat(be.Y)
								}
								terms = append(terms, e)
								return true
							}
							if flat(f["Columns"]) && len(terms) == 3 {
								n1, n2, n3 := 0, 0, 0
								for _, t := range terms {
									if k, isK := core.IntConst(info, t); isK && k == 1 {
										n1++
									} else if core.ObjOf(info, peelConv(info, t)) == ww2 {
										n2++
									} else if core.ObjOf(info, peelConv(info, t)) == ww3 {
										n3++
									}
								}
								sumOK = n1 == 1 && n2 == 1 && n3 == 1
							}
						}
						if s == "1+w2+w3" || s == "w2+w3+1" || s == "1+w3+w2" || sumOK {
							okCols = true
						} else {
							o.Fail("predictor Columns is %s, want 1+w2+w3", s)
						}
					}
					if f["Predictor"] == nil {
						o.Fail("the xref stream filter has no predictor although /DecodeParms is written")
					}
				}
			}
			return true
		})
		o.Shape(okW, "/W literal [1 w2 w3] not found")
		o.Shape(okCols, "Columns: 1+w2+w3 not found")
	})
	c.Check(rule, "pdf.encodeInt64", "encodeInt64 writes exactly w bytes, most significant first", func(o *core.Ob) {
		f := c.Prog.Func("pdf", "encodeInt64")
		gg := f.Graph()
		hs := loopHeads(gg)
		if len(hs) != 1 {
			core.Undecided("expected one loop")
		}
		o.At(f.Site(hs[0].AST, "byte loop"))
		var loopBody *ast.BlockStmt
		up, down := false, false
		if hs[0].Cond != nil && hs[0].Cond.Range != nil {
			// for i := range w
			rs := hs[0].Cond.Range
			if id, isID := ast.Unparen(rs.X).(*ast.Ident); isID && id.Name == "w" && rs.Key != nil && core.ExprStr(rs.Key) == "i" && rs.Value == nil {
				up, loopBody = true, rs.Body
			}
		} else if fs, ok := hs[0].Block.Stmt.(*ast.ForStmt); ok && fs.Cond != nil {
			init, post := "", ""
			if ia, isA := fs.Init.(*ast.AssignStmt); isA && len(ia.Rhs) == 1 {
				init = core.ExprStr(ia.Rhs[0])
			}
			cond := core.ExprStr(fs.Cond)
			if p, ok := fs.Post.(*ast.IncDecStmt); ok {
				post = p.Tok.String()
			}
			up = strings.ReplaceAll(init, " ", "") == "0" && (strings.ReplaceAll(cond, " ", "") == "i<w") && post == "++"
			down = strings.ReplaceAll(init, " ", "") == "w-1" && (strings.ReplaceAll(cond, " ", "") == "i>=0") && post == "--"
			loopBody = fs.Body
		}
		if !up && !down || loopBody == nil {
			o.Unrec("the byte loop has neither of the known forms (0..w-1 up, w-1..0 down, range w); what it writes is not decided")
			return
		}
		wb := 0
		shiftOK := false
		ast.Inspect(loopBody, func(n ast.Node) bool {
			if call, ok := n.(*ast.CallExpr); ok && strings.HasSuffix(core.CalleeKey(f.Info(), call), ".WriteByte") {
				wb++
				s := strings.ReplaceAll(core.ExprStr(call.Args[0]), " ", "")
				if down && strings.Contains(s, ">>(8*i)") || up && strings.Contains(s, ">>(8*(w-1-i))") || down && strings.Contains(s, ">>(i*8)") {
					shiftOK = true
				}
				// the same by value: the shift amount is 8*i counting down, 8*(w-1-i) counting up
				if !shiftOK {
					ast.Inspect(call.Args[0], func(m ast.Node) bool {
						be, isBin := m.(*ast.BinaryExpr)
						if !isBin || be.Op != token.SHR {
							return true
						}
						var is, ws []int64
						for k := int64(0); k < 8; k++ {
							is = append(is, k)
							ws = append(ws, k+1)
						}
						good, n := true, 0
						dec, _ := c.Prog.Tabulate(f, be.Y, nil, map[string][]int64{"i": is, "w": ws}, func(env map[string]int64, v int64, _ bool) {
							iv, _ := core.EnvGet(env, "i")
							wv, hasW := core.EnvGet(env, "w")
							if hasW && iv >= wv || !hasW && up {
								return
							}
							n++
							want := 8 * iv
							if up {
								want = 8 * (wv - 1 - iv)
							}
							if v != want {
								good = false
							}
						})
						if dec && good && n > 0 {
							shiftOK = true
						}
						return false
					})
				}
			}
			return true
		})
		o.Require(wb == 1, "each iteration must write exactly one byte")
		o.Require(shiftOK, "bytes are not extracted most-significant first (x >> (8*i) with i counting down)")
	})
}

func ruleObjStmHeader(c *core.Ctx, rule string) {
	fn := c.Prog.Func("pdf", "(*Writer).WriteCompressed")
	g := fn.Graph()
	info := fn.Info()
	c.Check(rule, "pdf.(*Writer).WriteCompressed/offsets", "each header pair is 'number SP offset LF' with the offset sampled from the body buffer before the member is appended; /First is the header length after the last pair; /N is the number of members", func(o *core.Ob) {
		// the body buffer is the one whose length is put into a header pair: strconv.Itoa(B.Len())
		var body types.Object
		var samples, appends []*core.V
		var headWrite *core.V
		for _, v := range g.Vs {
			if v.AST == nil {
				continue
			}
			for _, call := range core.CallsTo(info, v.AST, false, "strconv.Itoa") {
				if len(call.Args) != 1 {
					continue
				}
				if inner, ok := ast.Unparen(call.Args[0]).(*ast.CallExpr); ok {
					if se, ok := inner.Fun.(*ast.SelectorExpr); ok && se.Sel.Name == "Len" {
						if b := core.ObjOf(info, se.X); b != nil {
							if body != nil && body != b {
								core.Undecided("offsets are sampled from two different buffers")
							}
							body = b
							samples = append(samples, v)
						}
					}
				}
			}
		}
		if body == nil {
			core.Undecided("header construction not recognised: no strconv.Itoa(<buffer>.Len()) found")
		}
		for _, v := range g.Vs {
			if v.AST == nil {
				continue
			}
			for _, cs := range core.CallsIn(info, v.AST, false) {
				if se, ok := cs.Call.Fun.(*ast.SelectorExpr); ok && se.Sel.Name == "WriteString" && core.ObjOf(info, se.X) != body {
					for _, sv := range samples {
						if sv == v || g.ReachFrom(sv, false, nil)[v] {
							headWrite = v
						}
					}
				}
				if cs.Key == "pdf.Format" && core.ObjOf(info, cs.Call.Args[0]) == body {
					appends = append(appends, v)
				}
			}
		}
		if len(appends) == 0 || headWrite == nil {
			core.Undecided("header construction not recognised (append=%v headWrite=%v)", len(appends) > 0, headWrite != nil)
		}
		appendV := appends[0]
		o.At(fn.Site(appendV.AST, "member appended"))
		var lh *core.V
		inLoopSamples := 0
		for _, sample := range samples {
			o.At(fn.Site(sample.AST, "offset sampled"))
			var loop *core.V
			for _, h := range loopHeads(g) {
				if g.ReachFrom(succ(h, core.EdgeTrue), true, core.AvoidVs(h))[sample] {
					loop = h
				}
			}
			if loop == nil {
				continue // sampled once, outside the member loop (a peeled last member)
			}
			inLoopSamples++
			lh = loop
			for _, av := range appends {
				// within one iteration the sample precedes the append
				if g.ReachFrom(av, false, core.AvoidVs(loop))[sample] {
					o.Fail("the offset is sampled after the member was appended")
				}
			}
			follows := false
			for _, av := range appends {
				if g.ReachFrom(sample, false, core.AvoidVs(loop))[av] {
					follows = true
				}
			}
			o.Require(follows, "the member append does not follow the offset sample within the iteration")
			// pair text: Itoa(number) + " " + Itoa(body.Len()) + "\n"
			if as, ok := sample.AST.(*ast.AssignStmt); ok {
				s := core.ExprStr(as.Rhs[0])
				parts := strings.Split(s, " + ")
				okShape := len(parts) == 4 && strings.Contains(parts[0], "Number()") && parts[1] == `" "` && strings.Contains(parts[2], ".Len()") && parts[3] == `"\n"`
				o.Require(okShape, "header pair is built as %s, want number + \" \" + offset + \"\\n\"", s)
			}
		}
		if lh == nil || inLoopSamples == 0 {
			core.Undecided("member loop not found")
		}
		// a member separator: after each buffered member one white-space byte
		sep := false
		for _, v := range g.Vs {
			if v.AST == nil {
				continue
			}
			for _, cs := range core.CallsIn(info, v.AST, false) {
				if se, ok := cs.Call.Fun.(*ast.SelectorExpr); ok && se.Sel.Name == "WriteByte" && core.ObjOf(info, se.X) == body {
					if k, ok := core.IntConst(info, cs.Call.Args[0]); ok && specClass()[byte(k)] == 1 && g.PathExists(appendV, v, core.AvoidVs(lh)) {
						sep = true
					}
				}
			}
		}
		o.Require(sep, "no white-space separator is appended after a buffered member")
		// dict
		ast.Inspect(fn.Decl.Body, func(n ast.Node) bool {
			cl, ok := n.(*ast.CompositeLit)
			if !ok || !core.IsNamed(info.TypeOf(cl), "pdf", "Dict") {
				return true
			}
			f := map[string]ast.Expr{}
			for _, el := range cl.Elts {
				if kv, ok := el.(*ast.KeyValueExpr); ok {
					if k, ok := core.StringConst(info, kv.Key); ok {
						f[k] = kv.Value
					}
				}
			}
			if f["N"] == nil && f["First"] == nil {
				return true
			}
			o.At(fn.Site(cl, "object stream dict"))
			v := g.MustVertexOf(cl)
			if f["First"] == nil || strings.ReplaceAll(core.ExprStr(f["First"]), " ", "") != "Integer(head.Len())" {
				o.Fail("/First is %s, want head.Len()", core.ExprStr(f["First"]))
			}
			if g.PathExists(v, headWrite, nil) {
				o.Fail("/First is sampled before the last header pair is written")
			}
			if f["N"] == nil {
				o.Fail("/N missing")
			} else {
				nObj := rootObj(info, f["N"])
				okN := false
				if nObj != nil {
					for _, d := range core.AssignsTo(info, fn.Decl, nObj) {
						if as, ok := d.(*ast.AssignStmt); ok && core.ExprStr(as.Rhs[0]) == "len(objects)" {
							okN = true
						}
					}
				}
				if core.ExprStr(f["N"]) == "Integer(len(objects))" {
					okN = true
				}
				o.Require(okN, "/N is %s, want the number of objects", core.ExprStr(f["N"]))
			}
			if t, ok := core.StringConst(info, ast.Unparen(f["Type"]).(*ast.CallExpr).Args[0]); !ok || t != "ObjStm" {
				o.Fail("/Type is not /ObjStm")
			}
			return true
		})
		// order of the stream contents: head, then body, then last object
		var ws []callV
		for _, v := range g.Vs {
			if v.AST == nil {
				continue
			}
			for _, cs := range core.CallsIn(info, v.AST, false) {
				if se, ok := cs.Call.Fun.(*ast.SelectorExpr); ok && se.Sel.Name == "Write" && strings.Contains(core.ExprStr(se.X), "streamBody") {
					ws = append(ws, callV{v, cs.Call, core.ExprStr(cs.Call.Args[0])})
				}
			}
		}
		if len(ws) == 2 {
			o.Require(strings.Contains(ws[0].Key, "head") && strings.Contains(ws[1].Key, "body") && g.Dominates(ws[0].V, ws[1].V), "the stream must contain the header first, then the members")
		} else {
			o.Unrec("expected the header and the buffered members to be written to the stream (2 writes), found %d", len(ws))
		}
	})
	c.Check(rule, "pdf.(*Writer).WriteCompressed/xref", "every member is registered as compressed in the allocated stream with its index, after the members were validated", func(o *core.Ob) {
		cc := callVertices(g, "pdf.checkCompressed")
		sx := callVertices(g, "pdf.(*Writer).setXRef")
		if len(cc) != 1 || len(sx) != 1 {
			core.Undecided("expected one checkCompressed and one setXRef call")
		}
		o.At(fn.Site(sx[0].Call, "setXRef"))
		o.Require(g.Dominates(cc[0].V, sx[0].V), "members are registered before they are validated")
		// the entry: a literal, or a struct (or a pointer to an element of a pre-allocated
		// slice) whose fields are assigned before the call
		earg := sx[0].Call.Args[1]
		inS := fieldText(g, sx[0].V, earg, "InStream", 4)
		posS := fieldText(g, sx[0].V, earg, "Pos", 4)
		unresolved := func(t string) bool { return strings.HasSuffix(t, ".InStream") || strings.HasSuffix(t, ".Pos") }
		if unresolved(inS) || unresolved(posS) {
			o.Unrec("the fields of the member entry handed to setXRef (%s) are not followed to their values", core.ExprStr(earg))
		} else {
			o.Require(inS == "sRef", "member entries must point at the allocated object stream")
			o.Require(posS != "<zero>" && regexp.MustCompile(`\bi\b`).MatchString(posS), "member entries must record the member index")
		}
		os := callVertices(g, "pdf.(*Writer).OpenStream")
		o.Require(len(os) == 1 && core.ExprStr(os[0].Call.Args[0]) == "sRef", "the object stream is not written under the allocated reference")
		// fallback
		put := callVertices(g, "pdf.(*Writer).Put")
		o.Require(len(put) == 1, "no fallback to Put when object streams are disabled")
	})
	c.Check(rule, "pdf.checkCompressed", "object streams hold only generation-0, non-stream, non-reference objects", func(o *core.Ob) {
		f := c.Prog.Func("pdf", "checkCompressed")
		gg := f.Graph()
		inf := f.Info()
		var stream, ref, gen bool
		for _, bv := range gg.BranchVertices() {
			if bv.Cond.Expr == nil {
				continue
			}
			// the true edge must reach only error returns
			onlyErr := true
			for v := range gg.ReachFrom(succ(bv, core.EdgeTrue), true, core.AvoidVs(succ(bv, core.EdgeFalse))) {
				if rs, ok := v.AST.(*ast.ReturnStmt); ok && len(rs.Results) == 1 && core.IsNil(inf, rs.Results[0]) {
					onlyErr = false
				}
			}
			s := core.ExprStr(bv.Cond.Expr)
			if !onlyErr {
				continue
			}
			o.At(f.Site(bv.AST, "rejects"))
			switch {
			case s == "isStream":
				stream = true
			case s == "isRef":
				ref = true
			case strings.Contains(s, "Generation()") && (strings.Contains(s, "> 0") || strings.Contains(s, "!= 0")):
				gen = true
			}
		}
		// the same by structure: a type test (comma-ok assertion or type-switch case) whose
		// success leads to nothing but the return of an error
		rejectsOnly := func(body *ast.BlockStmt) bool {
			if body == nil || len(body.List) == 0 {
				return false
			}
			rs, ok := body.List[len(body.List)-1].(*ast.ReturnStmt)
			return ok && len(rs.Results) == 1 && !core.IsNil(inf, rs.Results[0])
		}
		typeTests := 0
		note := func(t types.Type) {
			if t == nil {
				return
			}
			if pt, isPtr := t.(*types.Pointer); isPtr && core.IsNamed(pt.Elem(), "pdf", "Stream") {
				stream = true
			}
			if core.IsNamed(t, "pdf", "Reference") {
				ref = true
			}
		}
		okVars := map[types.Object]types.Type{}
		ast.Inspect(f.Decl.Body, func(n ast.Node) bool {
			switch x := n.(type) {
			case *ast.TypeSwitchStmt:
				typeTests++
				for _, st := range x.Body.List {
					cc := st.(*ast.CaseClause)
					if cc.List == nil || !rejectsOnly(&ast.BlockStmt{List: cc.Body}) {
						continue
					}
					for _, te := range cc.List {
						note(inf.TypeOf(te))
					}
				}
			case *ast.AssignStmt:
				if len(x.Lhs) == 2 && len(x.Rhs) == 1 {
					if ta, isTA := ast.Unparen(x.Rhs[0]).(*ast.TypeAssertExpr); isTA && ta.Type != nil {
						typeTests++
						if obj := core.ObjOf(inf, x.Lhs[1]); obj != nil {
							okVars[obj] = inf.TypeOf(ta.Type)
						}
					}
				}
			}
			return true
		})
		ast.Inspect(f.Decl.Body, func(n ast.Node) bool {
			if is, ok := n.(*ast.IfStmt); ok && rejectsOnly(is.Body) {
				if t, has := okVars[core.ObjOf(inf, is.Cond)]; has {
					note(t)
				}
			}
			return true
		})
		if (!stream || !ref) && typeTests == 0 {
			o.Unrec("checkCompressed makes no type test of the objects itself (a helper?): which kinds of object it rejects is not decided")
		} else {
			o.Require(stream, "streams are not rejected")
			o.Require(ref, "references are not rejected")
		}
		o.Require(gen, "non-zero generations are not rejected")
	})
}

// ruleEncOffBeforeXRef: shared by C03 and C10.
func ruleEncOffBeforeXRef(c *core.Ctx, rule string) {
	c.Check(rule, "pdf.(*Writer).Close/enc-off", "encryption is switched off on every path before the cross-reference section and trailer are written", func(o *core.Ob) {
		fn := c.Prog.Func("pdf", "(*Writer).Close")
		g := fn.Graph()
		info := fn.Info()
		var off *core.V
		for _, v := range g.Vs {
			if as, ok := v.AST.(*ast.AssignStmt); ok && len(as.Lhs) == 1 {
				if _, ok := core.FieldSel(info, as.Lhs[0], "pdf", "posWriter", "enc"); ok && core.IsNil(info, as.Rhs[0]) {
					off = v
					o.At(fn.Site(as, "enc = nil"))
				}
			}
		}
		if off == nil {
			o.Count(1)
			o.Fail("Close never disables encryption")
			return
		}
		for _, x := range callVertices(g, "pdf.(*Writer).writeXRefStream", "pdf.(*Writer).writeXRefTable") {
			o.At(fn.Site(x.Call, "xref section"))
			if !g.Dominates(off, x.V) {
				o.Fail("the xref section can be written with encryption still enabled")
			}
		}
		// and only after all objects were written: rm.Close dominates off
		rc := callVertices(g, "pdf.(*ResourceManager).Close")
		o.Require(len(rc) == 1 && g.Dominates(rc[0].V, off), "encryption is disabled before the resource manager flushed its objects")
		for _, w := range callVertices(g, "pdf.(*ResourceManager).Store", "pdf.(*ResourceManager).Embed") {
			if g.PathExists(off, w.V, nil) {
				o.Fail("objects may be written after encryption was disabled")
			}
		}
	})
}

// ruleInStreamGuards: shared by C02/C03.
func ruleInStreamGuards(c *core.Ctx, rule string) {
	type ent struct {
		name string
		mode string // "refuse" or "defer"
	}
	// the stream stays "open" until its length has been set and its trailer
	// written: an object that the length placeholder emits (the indirect
	// /Length of a non-seekable output) must still be deferred, or it lands
	// inside the stream data
	c.Check(rule, "pdf.(*streamWriter).Close/inStream-cleared-late", "closing a stream clears the writer's inStream flag only after the length was set and the stream trailer written", func(o *core.Ob) {
		fn := c.Prog.Func("pdf", "(*streamWriter).Close")
		g := fn.Graph()
		info := fn.Info()
		n := 0
		for _, v := range g.Vs {
			as, ok := v.AST.(*ast.AssignStmt)
			if !ok {
				continue
			}
			for i := range as.Lhs {
				if i > 0 {
					break
				}
				if val, ok := inStreamStore(info, as); !ok || val {
					continue
				}
				n++
				o.At(fn.Site(as, "stream no longer open"))
				reach := g.ReachFrom(v, false, nil)
				for w := range reach {
					if w.AST == nil {
						continue
					}
					for _, cs := range core.CallsIn(info, w.AST, false) {
						if strings.HasSuffix(cs.Key, "(*Placeholder).Set") {
							o.FailAt(fn.Site(cs.Call, ""), "the stream length is set after inStream was cleared at %s: an indirect /Length object is then written into the stream data instead of being deferred", c.Prog.Pos(as.Pos()))
						}
						if (strings.HasSuffix(cs.Key, ".Write") || strings.HasSuffix(cs.Key, "io.WriteString")) && len(cs.Call.Args) >= 1 {
							for _, a := range cs.Call.Args {
								str, isS := constBytes(info, a)
								if !isS {
									for _, vc := range valueCases(g, w, a, 2) {
										if s2, ok := core.StringConst(info, vc.Expr); ok {
											str, isS = s2, true
										}
									}
								}
								if isS && strings.Contains(str, "endstream") {
									o.FailAt(fn.Site(cs.Call, ""), "the stream trailer is written after inStream was cleared at %s", c.Prog.Pos(as.Pos()))
								}
							}
						}
					}
				}
			}
		}
		o.Shape(n > 0, "no store that clears inStream found in streamWriter.Close")
	})
	for _, e := range []ent{{"(*Writer).Put", "defer"}, {"(*Writer).WriteCompressed", "refuse"}, {"(*Writer).OpenStream", "refuse"}, {"(*Writer).Close", "refuse"}} {
		e := e
		c.Check(rule, "pdf."+e.name+"/inStream", "no object may be interleaved with an open stream: the entry point tests inStream before anything else and refuses or defers", func(o *core.Ob) {
			fn := c.Prog.Func("pdf", e.name)
			g := fn.Graph()
			info := fn.Info()
			var guard *core.V
			openOn := core.EdgeTrue
			for _, bv := range g.BranchVertices() {
				if bv.Cond.Expr == nil {
					continue
				}
				if on, ok := inStreamTest(info, bv.Cond.Expr); ok {
					guard, openOn = bv, on
				}
			}
			if guard == nil {
				o.Count(1)
				if !inStreamKnown(c) {
					o.Unrec("the open-stream state is neither the boolean field Writer.inStream nor a bit named ...InStream: the test of %s is not located", e.name)
					return
				}
				o.Fail("%s does not test inStream", e.name)
				return
			}
			notOpen := core.EdgeFalse
			if openOn == core.EdgeFalse {
				notOpen = core.EdgeTrue
			}
			o.At(fn.Site(guard.AST, "inStream test"))
			// every write / state change is on the false edge
			for _, w := range posWriterWrites(g) {
				if !g.EdgeDominates(w, core.EdgeRef{From: guard, Label: notOpen}) {
					o.FailAt(fn.Site(w.AST, ""), "reachable while a stream is open")
				}
			}
			for _, sx := range callVertices(g, "pdf.(*Writer).setXRef", "pdf.(*Writer).Alloc") {
				if !g.EdgeDominates(sx.V, core.EdgeRef{From: guard, Label: notOpen}) {
					o.FailAt(fn.Site(sx.Call, ""), "xref state is modified while a stream is open")
				}
			}
			// stores to posWriter.ref (the reference that keys string encryption)
			var refStores []*core.V
			for _, v := range g.Vs {
				if as, ok := v.AST.(*ast.AssignStmt); ok {
					for _, l := range as.Lhs {
						if _, ok := core.FieldSel(info, l, "pdf", "posWriter", "ref"); ok {
							o.At(fn.Site(as, "current object reference"))
							refStores = append(refStores, v)
							if !g.EdgeDominates(v, core.EdgeRef{From: guard, Label: notOpen}) {
								o.FailAt(fn.Site(as, ""), "the writer's current object reference is changed while a stream is open (its dictionary would be encrypted under the wrong key)")
							}
						}
					}
				}
			}
			// OpenStream writes the stream dictionary later (when the first data arrives): every
			// successful return must have installed the stream's own reference, whatever the
			// encryption settings of the stream data are (strings in the dictionary of a stream
			// with an Identity crypt filter are still encrypted under the object's key)
			if e.name == "(*Writer).OpenStream" {
				for _, r := range g.Returns() {
					rs := r.AST.(*ast.ReturnStmt)
					if len(rs.Results) != 2 || !core.IsNil(info, rs.Results[1]) {
						continue
					}
					o.Count(1)
					dom := false
					for _, sv := range refStores {
						if g.Dominates(sv, r) {
							dom = true
						}
					}
					if !dom {
						o.FailAt(fn.Site(rs, ""), "%s: OpenStream can return successfully without having installed the stream's reference as the current object reference: the strings of its dictionary are encrypted under the previous object's key", c.Prog.Pos(rs.Pos()))
					}
				}
			}
			tv := succ(guard, openOn)
			reach := g.ReachFrom(tv, true, core.AvoidVs(succ(guard, notOpen)))
			if e.mode == "defer" {
				ok := false
				for v := range reach {
					if as, ok2 := v.AST.(*ast.AssignStmt); ok2 && strings.Contains(core.ExprStr(as.Lhs[0]), "afterStream") {
						ok = true
					}
				}
				o.Require(ok, "Put during an open stream is not queued")
			} else {
				for v := range reach {
					if rs, ok := v.AST.(*ast.ReturnStmt); ok {
						last := rs.Results[len(rs.Results)-1]
						if core.IsNil(info, last) {
							o.FailAt(fn.Site(rs, ""), "returns success while a stream is open")
						}
					}
				}
			}
		})
	}
	c.Check(rule, "pdf.inStream/protocol", "inStream is set on the success return of OpenStream and cleared by the stream writer's Close before queued objects are replayed", func(o *core.Ob) {
		fn := c.Prog.Func("pdf", "(*Writer).OpenStream")
		g := fn.Graph()
		info := fn.Info()
		var set *core.V
		for _, v := range g.Vs {
			if as, ok := v.AST.(*ast.AssignStmt); ok {
				if val, ok := inStreamStore(info, as); ok && val {
					set = v
					o.At(fn.Site(as, "inStream = true"))
				}
			}
		}
		if set == nil && !inStreamKnown(c) {
			o.Count(1)
			o.Unrec("the open-stream state is neither the boolean field Writer.inStream nor a bit named ...InStream: its protocol is not located")
			return
		}
		if set == nil {
			o.Count(1)
			o.Fail("OpenStream never sets inStream")
		} else {
			for _, r := range g.Returns() {
				rs := r.AST.(*ast.ReturnStmt)
				if len(rs.Results) == 2 && core.IsNil(info, rs.Results[1]) {
					o.Require(g.Dominates(set, r), "OpenStream can succeed without setting inStream")
				} else if g.PathExists(set, r, nil) {
					o.Fail("OpenStream can fail after setting inStream")
				}
			}
		}
		cl := c.Prog.Func("pdf", "(*streamWriter).Close")
		cg := cl.Graph()
		var clr *core.V
		for _, v := range cg.Vs {
			if as, ok := v.AST.(*ast.AssignStmt); ok {
				if val, ok := inStreamStore(cl.Info(), as); ok && !val {
					clr = v
					o.At(cl.Site(as, "inStream = false"))
				}
			}
		}
		if clr == nil {
			o.Fail("streamWriter.Close never clears inStream")
			return
		}
		for _, p := range callVertices(cg, "pdf.(*Writer).Put") {
			o.Require(cg.Dominates(clr, p.V), "queued objects are replayed while inStream is still set")
		}
		// and after endstream
		for _, v := range cg.Vs {
			if v.AST == nil {
				continue
			}
			for _, cs := range core.CallsIn(cl.Info(), v.AST, false) {
				if len(cs.Call.Args) == 1 {
					if s, ok := constBytes(cl.Info(), cs.Call.Args[0]); ok && strings.Contains(s, "endstream") {
						o.Require(cg.Dominates(v, clr), "inStream is cleared before 'endstream' is written")
					}
				}
			}
		}
	})
}

// ruleTrailerSizeLast (C03-R9): /Size in the trailer is one more than the
// highest object number in the cross-reference table.  Writer.Close takes it
// from the allocation counter; everything that can still allocate an object
// (embedding the Info dictionary, flushing pending object streams, ...) has
// to happen before that.  Between the store of /Size and the writing of the
// cross-reference data only calls that cannot allocate are allowed.
func ruleTrailerSizeLast(c *core.Ctx) {
	c.Check("C03-R9", "pdf.(*Writer).Close/size-last", "the trailer's /Size is read from the allocation counter after the last object has been allocated: no call that can reach Writer.Alloc lies between the store of /Size and the writing of the cross-reference data", func(o *core.Ob) {
		fn := c.Prog.Func("pdf", "(*Writer).Close")
		g := fn.Graph()
		info := fn.Info()
		var sizeV []*core.V
		for _, v := range g.Vs {
			as, ok := v.AST.(*ast.AssignStmt)
			if !ok || len(as.Lhs) != 1 {
				continue
			}
			if _, key, ok := core.MapIndexKey(info, as.Lhs[0]); ok && key == "Size" {
				sizeV = append(sizeV, v)
				o.At(fn.Site(as, "/Size stored"))
				o.Require(strings.Contains(c.Prog.Src(as.Rhs[0]), "nextRef"), "/Size is not taken from the allocation counter: %s", c.Prog.Src(as.Rhs[0]))
			}
		}
		if len(sizeV) != 1 {
			core.Undecided("expected one store of /Size in Writer.Close, found %d", len(sizeV))
		}
		xw := callVertices(g, "pdf.(*Writer).writeXRefStream", "pdf.(*Writer).writeXRefTable")
		if len(xw) < 2 {
			core.Undecided("calls writing the cross-reference data not found")
		}
		// functions of package pdf that can reach Alloc (static calls and pdf's own interface methods by name)
		pkg := c.Prog.Pkg("pdf")
		canAlloc := map[string]bool{"pdf.(*Writer).Alloc": true}
		for changed := true; changed; {
			changed = false
			for _, f := range c.Prog.Funcs(pkg) {
				if canAlloc[f.Key] {
					continue
				}
				for _, cs := range core.CallsIn(f.Info(), f.Decl, true) {
					dyn := false
					if cs.Fn != nil && cs.Fn.Pkg() != nil && strings.HasPrefix(cs.Fn.Pkg().Path(), core.ModulePath) {
						if sig, ok := cs.Fn.Type().(*types.Signature); ok && sig.Recv() != nil {
							if _, isIface := sig.Recv().Type().Underlying().(*types.Interface); isIface && cs.Fn.Name() == "Embed" {
								dyn = true // Embedder implementations allocate their objects
							}
						}
					}
					if canAlloc[cs.Key] || dyn {
						canAlloc[f.Key] = true
						changed = true
						break
					}
				}
			}
		}
		o.Fact("%d functions of package pdf can allocate", len(canAlloc))
		for _, x := range xw {
			o.Require(g.Dominates(sizeV[0], x.V), "%s: the cross-reference data is written on a path that has not stored /Size", c.Prog.Pos(x.Call.Pos()))
		}
		after := g.ReachFrom(sizeV[0], false, nil)
		for _, v := range g.Vs {
			if v.AST == nil || !after[v] {
				continue
			}
			reachesX := false
			for _, x := range xw {
				if v == x.V {
					reachesX = false
					break
				}
				if g.ReachFrom(v, false, nil)[x.V] {
					reachesX = true
				}
			}
			if !reachesX {
				continue
			}
			for _, cs := range core.CallsIn(info, v.AST, false) {
				o.Count(1)
				if canAlloc[cs.Key] || (cs.Fn != nil && cs.Fn.Pkg() != nil && strings.HasPrefix(cs.Fn.Pkg().Path(), core.ModulePath) && c.Prog.FuncOf(cs.Fn) == nil) {
					o.FailAt(fn.Site(cs.Call, ""), "%s: %s is called after /Size was stored and may allocate another object: the table then has an entry whose number is not below /Size", c.Prog.Pos(cs.Call.Pos()), cs.Key)
				}
				// interface methods of the repository (Embed etc.)
				if cs.Fn != nil {
					if sig, ok := cs.Fn.Type().(*types.Signature); ok && sig.Recv() != nil {
						if _, isIface := sig.Recv().Type().Underlying().(*types.Interface); isIface && cs.Fn.Pkg() != nil && strings.HasPrefix(cs.Fn.Pkg().Path(), core.ModulePath) {
							o.FailAt(fn.Site(cs.Call, ""), "%s: %s (an interface method of the repository) is called after /Size was stored and may allocate", c.Prog.Pos(cs.Call.Pos()), cs.Key)
						}
					}
				}
			}
		}
	})
}

// ruleObjStmSlots (C03-R10): a type-2 cross-reference entry names an object
// stream and the INDEX of the object inside it.  WriteCompressed registers
// refs[i] under index i, so the i-th header pair and the i-th member must be
// refs[i] and objects[i] as well: every access to the two parameter slices
// is indexed by the position variable of a loop over them (or by len-1 for
// the member written last), never by a permutation.
func ruleObjStmSlots(c *core.Ctx, rule string) {
	c.Check(rule, "pdf.(*Writer).WriteCompressed/slots", "slot i of the object stream holds refs[i] and objects[i] (the index stored in the cross-reference entry): both slices are indexed only by loop positions or by N-1", func(o *core.Ob) {
		fn := c.Prog.Func("pdf", "(*Writer).WriteCompressed")
		info := fn.Info()
		refs0 := paramObj(fn, "refs")
		objects0 := paramObj(fn, "objects")
		// the two slices, and the copies handed to helpers that were folded in
		isRefs := map[types.Object]bool{refs0: true}
		isObjects := map[types.Object]bool{objects0: true}
		for round := 0; round < 2; round++ {
			ast.Inspect(fn.Decl.Body, func(m ast.Node) bool {
				as, ok := m.(*ast.AssignStmt)
				if !ok || len(as.Lhs) != len(as.Rhs) {
					return true
				}
				for i, l := range as.Lhs {
					lo := core.ObjOf(info, l)
					ro := core.ObjOf(info, as.Rhs[i])
					if lo == nil || ro == nil || len(core.AssignsTo(info, fn.Decl, lo)) != 1 {
						continue
					}
					if isRefs[ro] {
						isRefs[lo] = true
					}
					if isObjects[ro] {
						isObjects[lo] = true
					}
				}
				return true
			})
		}
		// position variables: key of `range N`, `range refs`, `range objects`, or counters of three-clause loops from 0
		pos := map[types.Object]bool{}
		nVars := map[types.Object]bool{}
		ast.Inspect(fn.Decl.Body, func(m ast.Node) bool {
			switch x := m.(type) {
			case *ast.AssignStmt:
				if x.Tok == token.DEFINE && len(x.Lhs) == 1 && len(x.Rhs) == 1 {
					if call, ok := ast.Unparen(x.Rhs[0]).(*ast.CallExpr); ok {
						if id, ok := call.Fun.(*ast.Ident); ok && id.Name == "len" && len(call.Args) == 1 {
							if a := core.ObjOf(info, call.Args[0]); isRefs[a] || isObjects[a] {
								nVars[core.ObjOf(info, x.Lhs[0])] = true
							}
						}
					}
					// last := N - 1 (the slot of the last member)
					if be, ok := ast.Unparen(x.Rhs[0]).(*ast.BinaryExpr); ok && be.Op == token.SUB {
						if k, ok := core.IntConst(info, be.Y); ok && k == 1 && nVars[core.ObjOf(info, be.X)] {
							if lo := core.ObjOf(info, x.Lhs[0]); lo != nil && len(core.AssignsTo(info, fn.Decl, lo)) == 1 {
								pos[lo] = true
							}
						}
					}
				}
			case *ast.RangeStmt:
				if x.Key == nil {
					return true
				}
				over := core.ObjOf(info, x.X)
				isLen := false
				if call, ok := ast.Unparen(x.X).(*ast.CallExpr); ok {
					if id, ok := call.Fun.(*ast.Ident); ok && id.Name == "len" {
						isLen = true
					}
				}
				if isRefs[over] || isObjects[over] || nVars[over] || isLen {
					pos[core.ObjOf(info, x.Key)] = true
				} else if t := info.TypeOf(x.X); t != nil {
					// a range over a parallel slice (one element per member, e.g. the recorded offsets) also counts positions
					if _, isSlice := t.Underlying().(*types.Slice); isSlice {
						pos[core.ObjOf(info, x.Key)] = true
					}
					// range over an integer (the number of members kept in a local or a field): counts positions
					if b, isBasic := t.Underlying().(*types.Basic); isBasic && b.Info()&types.IsInteger != 0 {
						pos[core.ObjOf(info, x.Key)] = true
					}
				}
			case *ast.ForStmt:
				if as, ok := x.Init.(*ast.AssignStmt); ok && len(as.Lhs) == 1 && len(as.Rhs) == 1 {
					if k, ok := core.IntConst(info, as.Rhs[0]); ok && k == 0 {
						pos[core.ObjOf(info, as.Lhs[0])] = true
					}
				}
			}
			return true
		})
		n := 0
		ast.Inspect(fn.Decl.Body, func(m ast.Node) bool {
			ix, ok := m.(*ast.IndexExpr)
			if !ok {
				return true
			}
			base := core.ObjOf(info, ix.X)
			if !isRefs[base] && !isObjects[base] {
				return true
			}
			n++
			o.Count(1)
			idx := ast.Unparen(ix.Index)
			if obj := core.ObjOf(info, idx); obj != nil && pos[obj] {
				return true
			}
			if be, ok := idx.(*ast.BinaryExpr); ok && be.Op == token.SUB {
				if k, ok := core.IntConst(info, be.Y); ok && k == 1 {
					if nVars[core.ObjOf(info, be.X)] {
						return true
					}
					if call, ok := ast.Unparen(be.X).(*ast.CallExpr); ok {
						if id, ok := call.Fun.(*ast.Ident); ok && id.Name == "len" {
							return true
						}
					}
					// N-1 with the number of members kept somewhere this rule does not follow (a field)
					o.Unrec("%s: %s: whether %s is the number of members is not followed", c.Prog.Pos(ix.Pos()), c.Prog.Src(ix), core.ExprStr(be.X))
					return true
				}
			}
			o.FailAt(fn.Site(ix, ""), "%s: %s is not indexed by a slot position: the members are written in another order than the one registered in the cross-reference entries (which store the slot index)", c.Prog.Pos(ix.Pos()), c.Prog.Src(ix))
			return true
		})
		o.Shape(n >= 3, "accesses to refs/objects not found")
	})
}

// xrefWidthVars finds the width variables of the two fields by their role:
// the third argument of the first and of the second encodeInt64 call of a row.
func xrefWidthVars(fn *core.Func) (w2, w3 types.Object) {
	g := fn.Graph()
	info := fn.Info()
	_, head := xrefStreamLoops(g)
	body := g.ReachFrom(succ(head, core.EdgeTrue), true, core.AvoidVs(head))
	type em struct {
		v *core.V
		w types.Object
	}
	var ems []em
	for v := range body {
		if v.AST == nil {
			continue
		}
		for _, call := range core.CallsTo(info, v.AST, false, "pdf.encodeInt64") {
			if len(call.Args) == 3 {
				_, widthArg := encArgs(info, call)
				ems = append(ems, em{v, core.ObjOf(info, widthArg)})
			}
		}
	}
	for _, a := range ems {
		first := true
		for _, b := range ems {
			if b.w != a.w && g.ReachFrom(b.v, false, core.AvoidVs(head))[a.v] {
				first = false
			}
		}
		if a.w == nil {
			core.Undecided("writeXRefStream: a field is written with a width that is not a variable")
		}
		if first {
			if w2 != nil && w2 != a.w {
				core.Undecided("writeXRefStream: the first field of a row is written with different widths")
			}
			w2 = a.w
		} else {
			if w3 != nil && w3 != a.w {
				core.Undecided("writeXRefStream: the second field of a row is written with different widths")
			}
			w3 = a.w
		}
	}
	if w2 == nil || w3 == nil {
		core.Undecided("writeXRefStream: field widths not found")
	}
	return w2, w3
}

// ruleLoopCarriedTemplates (C03-R11, C02-R16): a buffer that lives across the
// iterations of a loop and is emitted in every iteration is a template; every
// field of it that is filled inside the loop must be filled on every path to
// the emission.  A field that is filled only under a condition keeps the
// value of an earlier iteration (the generation of the previous in-use entry
// in a cross-reference line, say), and the emitted record no longer describes
// the current item.
func ruleLoopCarriedTemplates(c *core.Ctx, rule string, shortPkg string) {
	c.Check(rule, shortPkg+"/loop-carried-templates", "a buffer reused across loop iterations and emitted in each has all its variable fields rewritten before every emission", func(o *core.Ob) {
		pkg := c.Prog.Pkg(shortPkg)
		scanned := 0
		for _, fn := range c.Prog.Funcs(pkg) {
			if fn.Decl.Body == nil || c.Prog.IsTestFile(fn.Decl.Pos()) {
				continue
			}
			hasLoop := false
			ast.Inspect(fn.Decl.Body, func(n ast.Node) bool {
				switch n.(type) {
				case *ast.ForStmt, *ast.RangeStmt:
					hasLoop = true
				}
				return !hasLoop
			})
			scanned++
			if !hasLoop {
				continue
			}
			info := fn.Info()
			g := fn.Graph()
			for _, head := range loopHeads(g) {
				in := naturalLoop(g, head)
				// fills and emissions of local byte slices, by object
				type use struct {
					v      *core.V
					target string
					node   ast.Node
				}
				fills := map[types.Object][]use{}
				emits := map[types.Object][]use{}
				localBuf := func(e ast.Expr) types.Object {
					id, ok := ast.Unparen(e).(*ast.Ident)
					if !ok {
						return nil
					}
					v, ok := info.ObjectOf(id).(*types.Var)
					if !ok || v.IsField() || v.Pkg() == nil || v.Parent() == v.Pkg().Scope() {
						return nil
					}
					switch t := v.Type().Underlying().(type) {
					case *types.Slice:
						if b, ok := t.Elem().Underlying().(*types.Basic); ok && b.Kind() == types.Uint8 {
							return v
						}
					case *types.Array:
						if b, ok := t.Elem().Underlying().(*types.Basic); ok && b.Kind() == types.Uint8 {
							return v
						}
					}
					return nil
				}
				part := func(e ast.Expr) (types.Object, string) {
					switch x := ast.Unparen(e).(type) {
					case *ast.SliceExpr:
						if x.Low == nil && x.High == nil {
							return nil, ""
						}
						if obj := localBuf(x.X); obj != nil {
							return obj, strings.ReplaceAll(core.ExprStr(x), " ", "")
						}
					case *ast.IndexExpr:
						if obj := localBuf(x.X); obj != nil {
							return obj, strings.ReplaceAll(core.ExprStr(x), " ", "")
						}
					}
					return nil, ""
				}
				whole := func(e ast.Expr) types.Object {
					if se, ok := ast.Unparen(e).(*ast.SliceExpr); ok && se.Low == nil && se.High == nil {
						return localBuf(se.X)
					}
					return localBuf(e)
				}
				for v := range in {
					if v.AST == nil {
						continue
					}
					switch x := v.AST.(type) {
					case *ast.AssignStmt:
						for _, l := range x.Lhs {
							if obj, t := part(l); obj != nil {
								if _, isIdx := ast.Unparen(l).(*ast.IndexExpr); isIdx {
									fills[obj] = append(fills[obj], use{v, t, x})
								}
							}
						}
					}
					if _, isLoop := v.AST.(*ast.RangeStmt); isLoop {
						continue
					}
					if _, isLoop := v.AST.(*ast.ForStmt); isLoop {
						continue
					}
					for _, cs := range core.CallsIn(info, v.AST, false) {
						for i, a := range cs.Call.Args {
							writes := calleeWritesArg(c, cs, i, 2)
							if obj, t := part(a); obj != nil && writes {
								fills[obj] = append(fills[obj], use{v, t, cs.Call})
							}
							if obj := whole(a); obj != nil && writes {
								// the callee rewrites the whole buffer -- io.ReadFull(r, buf), or
								// CryptBlocks(buf, src) with a source as long as buf (buf itself,
								// or src[:n] with n := len(buf)): this covers every part of it
								full := cs.Key == "io.ReadFull" || cs.Key == "crypto/rand.Read"
								if !full && len(cs.Call.Args) == 2 && i == 0 && (strings.HasSuffix(cs.Key, ".CryptBlocks") || strings.HasSuffix(cs.Key, ".XORKeyStream")) {
									src := ast.Unparen(cs.Call.Args[1])
									if whole(src) == obj {
										full = true
									} else if se, isSl := src.(*ast.SliceExpr); isSl && se.Low == nil && se.High != nil {
										h := se.High
										if id, isID := ast.Unparen(h).(*ast.Ident); isID {
											if vc := valueCases(g, v, id, 1); len(vc) == 1 && vc[0].V != nil && vc[0].Expr != ast.Expr(id) {
												h = vc[0].Expr
											}
										}
										if lc, isCall := ast.Unparen(h).(*ast.CallExpr); isCall && core.CalleeKey(info, lc) == "builtin.len" && len(lc.Args) == 1 {
											if whole(lc.Args[0]) == obj {
												full = true
											} else if lo := core.ObjOf(info, lc.Args[0]); lo == nil {
												// len(w.buf) with buf := w.buf
												if vc := valueCases(g, v, ast.NewIdent(core.VarName(obj)), 1); len(vc) == 1 {
													_ = vc
												}
												for _, d := range defVertices(g, obj) {
													if rhs, ok := rhsFor(info, d, obj); ok && rhs != nil && core.SameExpr(info, rhs, lc.Args[0]) && len(defVertices(g, obj)) == 1 {
														full = true
													}
												}
											}
										}
									}
								}
								if full {
									fills[obj] = append(fills[obj], use{v, core.VarName(obj), cs.Call})
								}
							}
							if obj := whole(a); obj != nil && !writes && !strings.HasPrefix(cs.Key, "builtin.") {
								emits[obj] = append(emits[obj], use{v, "", cs.Call})
							}
						}
					}
				}
				// vertices of loops nested in this one: a fill there is an element-wise
				// fill whose completeness is the inner loop's business
				nested := map[*core.V]*core.V{}
				for _, h2 := range loopHeads(g) {
					if h2 != head && in[h2] {
						for v := range naturalLoop(g, h2) {
							nested[v] = h2
						}
					}
				}
				for obj, fs := range fills {
					es := emits[obj]
					if len(es) == 0 {
						continue
					}
					// loop-carried: no definition of the buffer inside the loop
					carried := true
					for _, d := range defVertices(g, obj) {
						if in[d] && d != head {
							carried = false
						}
					}
					if !carried {
						continue
					}
					for _, f := range fs {
						if h2 := nested[f.v]; h2 != nil {
							// an element-wise fill in an inner loop covers the same elements in
							// every outer iteration only if the inner loop's extent does not depend
							// on the data: its condition must be about the index it fills with
							if len(es) > 0 && h2.Cond != nil && h2.Cond.Range == nil && h2.Cond.Expr != nil {
								if ix, isIx := ast.Unparen(fillTarget(f.node)).(*ast.IndexExpr); isIx {
									if idx := core.ObjOf(info, ix.Index); idx != nil && !core.Mentions(info, h2.Cond.Expr, idx) {
										o.Count(1)
										o.FailAt(fn.Site(f.node, ""), "%s is filled by an inner loop whose extent (%s) does not depend on the index: how many elements are rewritten varies from one iteration of the outer loop to the next, the others keep their old value, and %s is emitted in every iteration", f.target, core.ExprStr(h2.Cond.Expr), obj.Name())
									}
								}
							}
							continue
						}
						o.Count(1)
						o.At(fn.Site(f.node, "fills "+f.target))
						var same []*core.V
						for _, f2 := range fs {
							// the same part, or the whole buffer (which covers every part of it)
							if f2.target == f.target || f2.target == core.VarName(obj) {
								same = append(same, f2.v)
							}
						}
						avoid := append([]*core.V{}, same...)
						for _, v := range g.Vs {
							if !in[v] {
								avoid = append(avoid, v)
							}
						}
						for _, e := range es {
							if e.v == f.v {
								continue
							}
							if g.ReachFrom(head, false, core.AvoidVs(avoid...))[e.v] {
								o.FailAt(fn.Site(f.node, ""), "%s is filled only on some paths of the iteration, but %s is emitted at %s on all of them: on the other paths the field keeps the value of an earlier iteration", f.target, obj.Name(), c.Prog.Pos(e.node.Pos()))
								break
							}
						}
					}
				}
			}
		}
		o.Count(scanned)
	})
}

// calleeWritesArg: does the call store into the byte slice passed at
// position i?  Known library writers, and repository functions whose
// parameter is the target of an element store or of copy, directly or through
// one more call.
func calleeWritesArg(c *core.Ctx, cs core.CallSite, i int, depth int) bool {
	switch {
	case cs.Key == "builtin.copy":
		return i == 0
	case strings.HasPrefix(cs.Key, "builtin."):
		return false
	case cs.Key == "io.ReadFull" || cs.Key == "io.ReadAtLeast":
		return i == 1
	case strings.HasSuffix(cs.Key, ".Read") || strings.HasSuffix(cs.Key, ".ReadAt"):
		return i == 0
	case strings.Contains(cs.Key, "ndian.PutUint"):
		return i == 0
	case cs.Key == "encoding/hex.Encode" || cs.Key == "crypto/rand.Read" || strings.HasSuffix(cs.Key, ".XORKeyStream") || strings.HasSuffix(cs.Key, ".Decrypt") || strings.HasSuffix(cs.Key, ".Encrypt") || strings.HasSuffix(cs.Key, ".CryptBlocks"):
		return i == 0
	}
	if cs.Fn == nil || depth == 0 {
		return false
	}
	callee := c.Prog.FuncOf(cs.Fn)
	if callee == nil || callee.Decl.Body == nil || callee.Decl.Type.Params == nil {
		return false
	}
	var param types.Object
	k := 0
	for _, f := range callee.Decl.Type.Params.List {
		for _, n := range f.Names {
			if k == i {
				param = callee.Info().ObjectOf(n)
			}
			k++
		}
		if len(f.Names) == 0 {
			k++
		}
	}
	if param == nil {
		return false
	}
	info := callee.Info()
	base := func(e ast.Expr) types.Object {
		for {
			switch x := ast.Unparen(e).(type) {
			case *ast.IndexExpr:
				e = x.X
				continue
			case *ast.SliceExpr:
				e = x.X
				continue
			case *ast.Ident:
				return info.ObjectOf(x)
			}
			return nil
		}
	}
	found := false
	ast.Inspect(callee.Decl.Body, func(n ast.Node) bool {
		switch x := n.(type) {
		case *ast.AssignStmt:
			for _, l := range x.Lhs {
				if _, isIdx := ast.Unparen(l).(*ast.IndexExpr); isIdx && base(l) == param {
					found = true
				}
			}
		case *ast.IncDecStmt:
			if _, isIdx := ast.Unparen(x.X).(*ast.IndexExpr); isIdx && base(x.X) == param {
				found = true
			}
		}
		return !found
	})
	if found {
		return true
	}
	for _, cs2 := range core.CallsIn(info, callee.Decl.Body, false) {
		for j, a := range cs2.Call.Args {
			if base(a) == param && calleeWritesArg(c, cs2, j, depth-1) {
				return true
			}
		}
	}
	return false
}

// fillTarget returns the expression a fill stores into (the left-hand side of
// an element assignment); nil for fills through calls.
func fillTarget(n ast.Node) ast.Expr {
	if as, ok := n.(*ast.AssignStmt); ok {
		for _, l := range as.Lhs {
			if _, isIx := ast.Unparen(l).(*ast.IndexExpr); isIx {
				return l
			}
		}
	}
	return &ast.Ident{Name: "_"}
}

// bufferShape evaluates, symbolically, the bytes of a buffer that is built by
// a chain of appends and handed to a write: literals stand for themselves,
// strconv.AppendUint/AppendInt in base 10 for "D+", a repository helper of the
// form func(dst []byte, ...) []byte for the shape of its own chain.  Anything
// it cannot follow (loops, several reaching definitions, other calls) makes
// the result unknown.  The shape has the form fmtShape produces for a format
// string, so that manual formatting and fmt.Fprintf are judged by the same
// grammar.
func bufferShape(c *core.Ctx, fn *core.Func, g *core.Graph, at *core.V, e ast.Expr, depth int) (string, bool) {
	return bufferShapeArgs(c, fn, g, at, e, depth, nil)
}

// bufferShapeArgs is bufferShape that also collects, in order, the operand
// printed by every numeric field of the shape (as an expression of fn; an
// operand inside a helper that is one of its parameters is replaced by the
// argument of the call).
func bufferShapeArgs(c *core.Ctx, fn *core.Func, g *core.Graph, at *core.V, e ast.Expr, depth int, ops *[]vcase) (string, bool) {
	info := fn.Info()
	if os.Getenv("PDFVERIF_DEBUG_SHAPE") != "" {
		fmt.Fprintf(os.Stderr, "shape %s depth=%d: %s\n", fn.Key, depth, core.ExprStr(e))
	}
	if depth <= 0 {
		return "", false
	}
	e = ast.Unparen(e)
	if s, ok := constBytes(info, e); ok {
		return s, true
	}
	switch x := e.(type) {
	case *ast.SliceExpr:
		// scratch[:0], buf[:0]: empty
		if x.High != nil {
			if k, ok := core.IntConst(info, x.High); ok && k == 0 {
				return "", true
			}
		}
		if x.Low == nil && x.High == nil {
			return bufferShapeArgs(c, fn, g, at, x.X, depth, ops)
		}
		return "", false
	case *ast.SelectorExpr:
		// a scratch buffer kept in a field (w.scratch = f(w.scratch[:0], ..); Write(w.scratch)):
		// followed only when the assignment is the statement right before the use
		if s := info.Selections[x]; s == nil || s.Kind() != types.FieldVal {
			return "", false
		}
		want := resolveText(g, at, x.X, 2) + "." + x.Sel.Name
		var def *core.V
		live := g.ReachFrom(g.Entry, true, nil)
		for cur := at; ; {
			var preds []*core.V
			for _, p := range cur.Preds {
				if live[p] {
					preds = append(preds, p)
				}
			}
			if len(preds) != 1 {
				return "", false
			}
			def = preds[0]
			if _, isEmpty := def.AST.(*ast.EmptyStmt); (isEmpty || def.AST == nil) && len(def.Succs) == 1 {
				cur = def // the join after a folded-in helper
				continue
			}
			break
		}
		if def == nil || len(def.Succs) != 1 {
			return "", false
		}
		as, isAs := def.AST.(*ast.AssignStmt)
		if !isAs || len(as.Lhs) != 1 || len(as.Rhs) != 1 || as.Tok != token.ASSIGN {
			return "", false
		}
		lsel, isSel := ast.Unparen(as.Lhs[0]).(*ast.SelectorExpr)
		if !isSel || resolveText(g, def, lsel.X, 2)+"."+lsel.Sel.Name != want {
			return "", false
		}
		return bufferShapeArgs(c, fn, g, def, as.Rhs[0], depth-1, ops)
	case *ast.Ident:
		if core.IsNil(info, x) {
			return "", true
		}
		cs := usesBefore(g, at, x)
		if len(cs) != 1 || cs[0].V == nil || cs[0].V == at || cs[0].Expr == ast.Expr(x) {
			return "", false
		}
		return bufferShapeArgs(c, fn, g, cs[0].V, cs[0].Expr, depth-1, ops)
	case *ast.CallExpr:
		key := core.CalleeKey(info, x)
		// conversions: []byte("...")
		if tv, ok := info.Types[x.Fun]; ok && tv.IsType() && len(x.Args) == 1 {
			return bufferShapeArgs(c, fn, g, at, x.Args[0], depth, ops)
		}
		switch key {
		case "builtin.make":
			if len(x.Args) >= 2 {
				if k, ok := core.IntConst(info, x.Args[1]); ok && k == 0 {
					return "", true
				}
			}
			return "", false
		case "builtin.append":
			if len(x.Args) < 1 {
				return "", false
			}
			if x.Ellipsis.IsValid() && len(x.Args) == 2 {
				// append(buf, digits...) after a loop that pads buf with zeros up to a
				// constant width (a padding helper folded into this function)
				if s, ok := paddedAppend(c, fn, g, at, x, depth, ops); ok {
					return s, true
				}
			}
			base, ok := bufferShapeArgs(c, fn, g, at, x.Args[0], depth, ops)
			if !ok {
				return "", false
			}
			if x.Ellipsis.IsValid() && len(x.Args) == 2 {
				s, ok := bufferShapeArgs(c, fn, g, at, x.Args[1], depth, ops)
				if !ok {
					// a string that is not a constant: what %s stands for in a format
					if b, isB := info.TypeOf(x.Args[1]).Underlying().(*types.Basic); isB && b.Info()&types.IsString != 0 {
						return base + "S", true
					}
					return "", false
				}
				return base + s, true
			}
			for _, a := range x.Args[1:] {
				k, ok := core.IntConst(info, a)
				if !ok || k < 0 || k > 255 {
					return "", false
				}
				base += string(rune(k))
			}
			return base, true
		case "strconv.AppendUint", "strconv.AppendInt":
			if len(x.Args) == 3 {
				if b, ok := core.IntConst(info, x.Args[2]); ok {
					base, ok := bufferShapeArgs(c, fn, g, at, x.Args[0], depth, ops)
					if ok {
						if ops != nil {
							*ops = append(*ops, vcase{x.Args[1], at})
						}
						if b != 10 {
							// a number in another base: no part of the file grammar
							return base + "<base" + strconv.FormatInt(b, 10) + ">", true
						}
						return base + "D+", true
					}
				}
			}
			return "", false
		}
		// a repository helper func(dst []byte, ...) []byte whose body is such a chain
		callee := core.Callee(info, x)
		if callee == nil || len(x.Args) == 0 {
			return "", false
		}
		h := c.Prog.FuncOf(callee)
		if h == nil || h.Decl.Body == nil || h.Decl.Type.Params == nil || len(h.Decl.Type.Params.List) == 0 || len(h.Decl.Type.Params.List[0].Names) == 0 {
			return "", false
		}
		base, ok := bufferShapeArgs(c, fn, g, at, x.Args[0], depth, ops)
		if !ok {
			return "", false
		}
		if opIdx, wIdx, isPad := padHelper(h); isPad && opIdx < len(x.Args) && wIdx < len(x.Args) {
			// zero padding to a constant width: the text of %0Nd
			if k, ok := core.IntConst(info, x.Args[wIdx]); ok && k >= 1 && k <= 20 {
				if ops != nil {
					*ops = append(*ops, vcase{x.Args[opIdx], at})
				}
				return base + "D{" + strconv.FormatInt(k, 10) + "}", true
			}
			return "", false
		}
		hg := h.Graph()
		dst := h.Info().ObjectOf(h.Decl.Type.Params.List[0].Names[0])
		rets := hg.Returns()
		if len(rets) != 1 {
			return "", false
		}
		rs, ok := rets[0].AST.(*ast.ReturnStmt)
		if !ok || len(rs.Results) != 1 {
			return "", false
		}
		// loops in the helper: not a straight chain
		if len(loopHeads(hg)) > 0 {
			return "", false
		}
		var hops []vcase
		s, ok := helperShape(c, h, hg, rets[0], rs.Results[0], dst, depth-1, &hops)
		if !ok {
			return "", false
		}
		if ops != nil {
			for _, op := range hops {
				// an operand that is a parameter of the helper: the call's argument,
				// evaluated here; anything else stays an expression of the helper
				// (no vertex of this graph)
				k := paramIndex(h, op.Expr)
				unassigned := false
				if id, isID := peelConv(h.Info(), op.Expr).(*ast.Ident); isID && k >= 0 {
					unassigned = len(defVertices(hg, h.Info().ObjectOf(id))) == 0
				}
				if k >= 0 && k < len(x.Args) && unassigned {
					*ops = append(*ops, vcase{x.Args[k], at})
				} else {
					*ops = append(*ops, vcase{op.Expr, nil})
				}
			}
		}
		return base + s, true
	}
	return "", false
}

// helperShape is bufferShape inside a helper, with the helper's destination
// parameter standing for the empty prefix.
func helperShape(c *core.Ctx, h *core.Func, g *core.Graph, at *core.V, e ast.Expr, dst types.Object, depth int, ops *[]vcase) (string, bool) {
	info := h.Info()
	if id, ok := ast.Unparen(e).(*ast.Ident); ok && info.ObjectOf(id) == dst {
		if len(defVertices(g, dst)) == 0 {
			return "", true
		}
		cs := usesBefore(g, at, id)
		if len(cs) == 1 && cs[0].V != nil && cs[0].V != at {
			return helperShape(c, h, g, cs[0].V, cs[0].Expr, dst, depth-1, ops)
		}
		if len(cs) == 0 || (len(cs) == 1 && cs[0].Expr == ast.Expr(id)) {
			return "", true // no assignment reaches this use: the parameter's own value
		}
		return "", false
	}
	if depth <= 0 {
		return "", false
	}
	if call, ok := ast.Unparen(e).(*ast.CallExpr); ok && len(call.Args) >= 1 {
		key := core.CalleeKey(info, call)
		switch key {
		case "builtin.append":
			base, ok := helperShape(c, h, g, at, call.Args[0], dst, depth, ops)
			if !ok {
				return "", false
			}
			if call.Ellipsis.IsValid() && len(call.Args) == 2 {
				s, ok := constBytes(info, call.Args[1])
				if !ok {
					return "", false
				}
				return base + s, true
			}
			for _, a := range call.Args[1:] {
				k, ok := core.IntConst(info, a)
				if !ok || k < 0 || k > 255 {
					return "", false
				}
				base += string(rune(k))
			}
			return base, true
		case "strconv.AppendUint", "strconv.AppendInt":
			if len(call.Args) == 3 {
				if b, ok := core.IntConst(info, call.Args[2]); ok && b == 10 {
					base, ok := helperShape(c, h, g, at, call.Args[0], dst, depth, ops)
					if ok {
						if ops != nil {
							*ops = append(*ops, vcase{call.Args[1], at})
						}
						return base + "D+", true
					}
				}
			}
		}
		return "", false
	}
	if id, ok := ast.Unparen(e).(*ast.Ident); ok {
		cs := usesBefore(g, at, id)
		if len(cs) == 1 && cs[0].V != nil && cs[0].V != at && cs[0].Expr != ast.Expr(id) {
			return helperShape(c, h, g, cs[0].V, cs[0].Expr, dst, depth-1, ops)
		}
	}
	return "", false
}

// mentionsFieldVia is mentionsField that also looks through locals with a
// single definition (numEntries := w.nextRef; i < numEntries).
func mentionsFieldVia(g *core.Graph, at *core.V, e ast.Expr, name string) bool {
	info := g.Info
	if mentionsField(info, e, name) {
		return true
	}
	found := false
	ast.Inspect(e, func(n ast.Node) bool {
		id, ok := n.(*ast.Ident)
		if !ok || found {
			return !found
		}
		if v, isVar := info.ObjectOf(id).(*types.Var); isVar && !v.IsField() {
			cs := valueCases(g, at, id, 1)
			if len(cs) == 1 && cs[0].V != nil && cs[0].Expr != ast.Expr(id) && mentionsField(info, cs[0].Expr, name) {
				found = true
			}
		}
		return !found
	})
	return found
}

// mentionsField reports whether e selects a field (or calls a method) of the given name.
func mentionsField(info *types.Info, e ast.Expr, name string) bool {
	found := false
	ast.Inspect(e, func(n ast.Node) bool {
		if sel, ok := n.(*ast.SelectorExpr); ok && sel.Sel.Name == name {
			if _, isVar := info.ObjectOf(sel.Sel).(*types.Var); isVar {
				found = true
			}
		}
		return !found
	})
	return found
}

// fieldOfOperand names the field of a cross-reference entry that the operand
// at vertex `at` prints: the operand itself (through conversions) or the
// single definition of the local it names must select a field of *xRefEntry.
func fieldOfOperand(fn *core.Func, g *core.Graph, at *core.V, e ast.Expr) string {
	info := fn.Info()
	for depth := 0; depth < 4; depth++ {
		for {
			e = ast.Unparen(e)
			call, ok := e.(*ast.CallExpr)
			if !ok || len(call.Args) != 1 {
				break
			}
			if tv, isT := info.Types[call.Fun]; !isT || !tv.IsType() {
				break
			}
			e = call.Args[0]
		}
		switch x := e.(type) {
		case *ast.SelectorExpr:
			if s := info.Selections[x]; s != nil && s.Kind() == types.FieldVal {
				recv := s.Recv()
				if p, isP := recv.(*types.Pointer); isP {
					recv = p.Elem()
				}
				if n, isN := recv.(*types.Named); isN && n.Obj().Name() == "xRefEntry" {
					return x.Sel.Name
				}
			}
			return ""
		case *ast.Ident:
			cs := valueCases(g, at, x, 1)
			if len(cs) != 1 || cs[0].Expr == ast.Expr(x) || cs[0].V == nil {
				return ""
			}
			e, at = cs[0].Expr, cs[0].V
		default:
			return ""
		}
	}
	return ""
}

// paddedAppend recognises, in the graph of fn,
//
//	for n := len(d); n < W; n++ { buf = append(buf, '0') }   (or n := W-len(d); n > 0; n--)
//	... append(buf, d...)
//
// where d has the shape of one decimal number and W is a constant: the text
// of %0Wd appended to what buf held before the loop.
func paddedAppend(c *core.Ctx, fn *core.Func, g *core.Graph, at *core.V, call *ast.CallExpr, depth int, ops *[]vcase) (string, bool) {
	info := fn.Info()
	bufID, ok1 := ast.Unparen(call.Args[0]).(*ast.Ident)
	digID, ok2 := ast.Unparen(call.Args[1]).(*ast.Ident)
	if !ok1 || !ok2 || depth <= 1 {
		return padFail(1)
	}
	buf, dig := info.ObjectOf(bufID), info.ObjectOf(digID)
	if buf == nil || dig == nil {
		return padFail(2)
	}
	cs := usesBefore(g, at, bufID)
	if len(cs) != 2 {
		return padFail(3)
	}
	isPad := func(vc vcase) bool {
		if vc.V == nil {
			return false
		}
		ap, ok := ast.Unparen(vc.Expr).(*ast.CallExpr)
		if !ok || core.CalleeKey(info, ap) != "builtin.append" || len(ap.Args) != 2 || ap.Ellipsis.IsValid() || core.ObjOf(info, ap.Args[0]) != buf {
			return false
		}
		k, isK := core.IntConst(info, ap.Args[1])
		return isK && k == '0'
	}
	var pad, first vcase
	switch {
	case isPad(cs[0]) && !isPad(cs[1]):
		pad, first = cs[0], cs[1]
	case isPad(cs[1]) && !isPad(cs[0]):
		pad, first = cs[1], cs[0]
	default:
		return padFail(4)
	}
	if first.V == nil || first.Expr == ast.Expr(bufID) {
		return padFail(5)
	}
	// the loop around the padding statement
	var head *core.V
	for _, h := range loopHeads(g) {
		if h.Cond.Expr == nil {
			continue
		}
		body := succ(h, core.EdgeTrue)
		if body == nil {
			continue
		}
		in := g.ReachFrom(body, true, core.AvoidVs(h))
		if !in[pad.V] {
			continue
		}
		// nothing else happens in the loop
		okBody := true
		for v := range in {
			if v == pad.V || v.AST == nil || !g.ReachFrom(v, false, core.AvoidVs())[h] {
				continue
			}
			if _, isInc := v.AST.(*ast.IncDecStmt); isInc {
				continue
			}
			if v.Cond != nil {
				okBody = false
			}
			if _, isStmt := v.AST.(ast.Stmt); isStmt {
				okBody = false
			}
		}
		if okBody {
			head = h
		}
	}
	if head == nil {
		return padFail(6)
	}
	cond, ok := ast.Unparen(head.Cond.Expr).(*ast.BinaryExpr)
	if !ok {
		return padFail(7)
	}
	nID, ok := ast.Unparen(cond.X).(*ast.Ident)
	if !ok {
		return padFail(8)
	}
	n := info.ObjectOf(nID)
	isLenDigits := func(e ast.Expr) bool {
		lc, isCall := ast.Unparen(e).(*ast.CallExpr)
		return isCall && core.CalleeKey(info, lc) == "builtin.len" && len(lc.Args) == 1 && core.ObjOf(info, lc.Args[0]) == dig
	}
	var initRHS ast.Expr
	step := token.ILLEGAL
	var initV *core.V
	for _, d := range reachingDefs(g, head, n) {
		switch st := d.AST.(type) {
		case *ast.AssignStmt:
			if initRHS != nil || len(st.Lhs) != 1 || len(st.Rhs) != 1 || g.ReachFrom(succ(head, core.EdgeTrue), true, core.AvoidVs(head))[d] {
				return padFail(9)
			}
			initRHS = st.Rhs[0]
			initV = d
		case *ast.IncDecStmt:
			if step != token.ILLEGAL {
				return padFail(10)
			}
			step = st.Tok
		default:
			return padFail(11)
		}
	}
	if initRHS == nil {
		return padFail(12)
	}
	var widthExpr ast.Expr
	switch {
	case cond.Op == token.LSS && step == token.INC && isLenDigits(initRHS):
		widthExpr = cond.Y
	case cond.Op == token.GTR && step == token.DEC:
		if k, isK := core.IntConst(info, cond.Y); !isK || k != 0 {
			return padFail(13)
		}
		sub, isSub := ast.Unparen(initRHS).(*ast.BinaryExpr)
		if !isSub || sub.Op != token.SUB || !isLenDigits(sub.Y) {
			return padFail(14)
		}
		widthExpr = sub.X
	default:
		return padFail(15)
	}
	width, ok := intConstVia(g, head, widthExpr)
	if !ok || width < 1 || width > 20 {
		return padFail(16)
	}
	// the digits: one decimal number, defined once, before the loop
	digDefs := reachingDefs(g, at, dig)
	if d0 := reachingDefs(g, initV, dig); len(digDefs) != 1 || len(d0) != 1 || d0[0] != digDefs[0] {
		return padFail(17)
	}
	var dops []vcase
	ds, ok := bufferShapeArgs(c, fn, g, at, digID, depth-1, &dops)
	if !ok || ds != "D+" || len(dops) != 1 {
		return padFail(18)
	}
	base, ok := bufferShapeArgs(c, fn, g, first.V, first.Expr, depth-1, ops)
	if !ok {
		return padFail(19)
	}
	if ops != nil {
		*ops = append(*ops, dops[0])
	}
	return base + "D{" + strconv.FormatInt(width, 10) + "}", true
}

func padFail(k int) (string, bool) {
	if os.Getenv("PDFVERIF_DEBUG_SHAPE") != "" {
		fmt.Fprintf(os.Stderr, "paddedAppend: exit %d\n", k)
	}
	return "", false
}

// reachingDefs lists the definitions of obj that reach vertex at.
func reachingDefs(g *core.Graph, at *core.V, obj types.Object) []*core.V {
	defs := defVertices(g, obj)
	var out []*core.V
	for _, d := range defs {
		var others []*core.V
		for _, x := range defs {
			if x != d {
				others = append(others, x)
			}
		}
		if g.ReachFrom(d, false, core.AvoidVs(others...))[at] {
			out = append(out, d)
		}
	}
	return out
}

// intConstVia evaluates e at vertex `at` to an integer constant, following
// single definitions of locals (width := 10 of a folded-in helper).
func intConstVia(g *core.Graph, at *core.V, e ast.Expr) (int64, bool) {
	for depth := 0; depth < 4; depth++ {
		if k, ok := core.IntConst(g.Info, e); ok {
			return k, true
		}
		id, ok := ast.Unparen(e).(*ast.Ident)
		if !ok {
			return 0, false
		}
		cs := valueCases(g, at, id, 1)
		if len(cs) != 1 || cs[0].V == nil || cs[0].Expr == ast.Expr(id) {
			return 0, false
		}
		e, at = cs[0].Expr, cs[0].V
	}
	return 0, false
}

// checkHeaderOps: the two numbers of an object header "N G obj" are the
// number and the generation of one reference, in this order.
func checkHeaderOps(o *core.Ob, fn *core.Func, g *core.Graph, site ast.Node, ops []vcase) {
	if len(ops) != 2 {
		o.FailAt(fn.Site(site, ""), "object header prints %d numbers, must print the object number and the generation", len(ops))
		return
	}
	var recv [2]string
	for k, want := range []string{"Number", "Generation"} {
		got := ""
		if ops[k].V != nil {
			got, recv[k] = methodOfOperand(fn, g, ops[k].V, ops[k].Expr)
		}
		switch {
		case got == "":
			o.Unrec("object header: operand %s is not the result of Reference.Number/Generation in a form that is followed", core.ExprStr(ops[k].Expr))
			return
		case got != want:
			o.FailAt(fn.Site(site, ""), "field %d of the object header prints the reference's %s(), must be its %s() ('N G obj': object number, then generation)", k+1, got, want)
			return
		}
	}
	if recv[0] != recv[1] {
		o.FailAt(fn.Site(site, ""), "object header takes the number from %s and the generation from %s", recv[0], recv[1])
	}
}

// methodOfOperand: the operand (through conversions and single definitions
// of locals) is a call of a method of pdf.Reference; its name and receiver text.
func methodOfOperand(fn *core.Func, g *core.Graph, at *core.V, e ast.Expr) (string, string) {
	info := fn.Info()
	for depth := 0; depth < 4; depth++ {
		e = peelConv(info, e)
		switch x := e.(type) {
		case *ast.CallExpr:
			sel, ok := ast.Unparen(x.Fun).(*ast.SelectorExpr)
			if !ok || len(x.Args) != 0 {
				return "", ""
			}
			if s := info.Selections[sel]; s != nil && s.Kind() == types.MethodVal && core.IsNamed(s.Recv(), "pdf", "Reference") {
				return sel.Sel.Name, resolveText(g, at, sel.X, 4)
			}
			return "", ""
		case *ast.Ident:
			cs := valueCases(g, at, x, 1)
			if len(cs) != 1 || cs[0].Expr == ast.Expr(x) || cs[0].V == nil {
				return "", ""
			}
			e, at = cs[0].Expr, cs[0].V
		default:
			return "", ""
		}
	}
	return "", ""
}

// peelConv strips parentheses and type conversions.
func peelConv(info *types.Info, e ast.Expr) ast.Expr {
	for {
		e = ast.Unparen(e)
		call, ok := e.(*ast.CallExpr)
		if !ok || len(call.Args) != 1 {
			return e
		}
		if tv, isT := info.Types[call.Fun]; !isT || !tv.IsType() {
			return e
		}
		e = call.Args[0]
	}
}

// paramIndex returns the position of the parameter of h that e denotes
// (through conversions and parentheses), or -1.
func paramIndex(h *core.Func, e ast.Expr) int {
	info := h.Info()
	e = peelConv(info, e)
	id, ok := e.(*ast.Ident)
	if !ok || h.Decl.Type.Params == nil {
		return -1
	}
	obj := info.ObjectOf(id)
	k := 0
	for _, f := range h.Decl.Type.Params.List {
		for _, n := range f.Names {
			if info.ObjectOf(n) == obj {
				return k
			}
			k++
		}
	}
	return -1
}

// padHelper recognises a helper func(dst []byte, x <integer>, width int) []byte
// that appends the decimal digits of x padded with leading zeros to at least
// width digits -- the text of the fmt verb %0*d for a non-negative value:
//
//	d := strconv.AppendUint(tmp[:0], x, 10)
//	for n := len(d); n < width; n++ { dst = append(dst, '0') }
//	return append(dst, d...)
//
// (or the loop counting width-len(d) down to zero).  It returns the
// positions of the operand and of the width among the parameters.
func padHelper(h *core.Func) (opIdx, widthIdx int, ok bool) {
	info := h.Info()
	if h.Decl.Body == nil || h.Decl.Type.Params == nil || paramCount(h) < 3 {
		return 0, 0, false
	}
	dstIdx := 0
	var digits types.Object
	opIdx, widthIdx = -1, -1
	stage := 0 // 0: before the digits, 1: digits known, 2: padded, 3: returned
	for _, st := range h.Decl.Body.List {
		switch x := st.(type) {
		case *ast.DeclStmt:
			// var tmp [20]byte
			continue
		case *ast.AssignStmt:
			if stage != 0 || len(x.Lhs) != 1 || len(x.Rhs) != 1 || x.Tok != token.DEFINE {
				return 0, 0, false
			}
			call, isCall := ast.Unparen(x.Rhs[0]).(*ast.CallExpr)
			if !isCall || len(call.Args) != 3 {
				return 0, 0, false
			}
			key := core.CalleeKey(info, call)
			if key != "strconv.AppendUint" && key != "strconv.AppendInt" {
				return 0, 0, false
			}
			if b, isK := core.IntConst(info, call.Args[2]); !isK || b != 10 {
				return 0, 0, false
			}
			se, isSl := ast.Unparen(call.Args[0]).(*ast.SliceExpr)
			if !isSl || se.High == nil {
				return 0, 0, false
			}
			if k, isK := core.IntConst(info, se.High); !isK || k != 0 {
				return 0, 0, false
			}
			opIdx = paramIndex(h, call.Args[1])
			if opIdx <= dstIdx {
				return 0, 0, false
			}
			digits = core.ObjOf(info, x.Lhs[0])
			stage = 1
		case *ast.ForStmt:
			if stage != 1 || digits == nil {
				return 0, 0, false
			}
			init, isA := x.Init.(*ast.AssignStmt)
			cond, isB := x.Cond.(*ast.BinaryExpr)
			post, isI := x.Post.(*ast.IncDecStmt)
			if !isA || !isB || !isI || len(init.Lhs) != 1 || len(init.Rhs) != 1 || init.Tok != token.DEFINE {
				return 0, 0, false
			}
			n := core.ObjOf(info, init.Lhs[0])
			if n == nil || core.ObjOf(info, cond.X) != n || core.ObjOf(info, post.X) != n {
				return 0, 0, false
			}
			isLenDigits := func(e ast.Expr) bool {
				call, isCall := ast.Unparen(e).(*ast.CallExpr)
				return isCall && core.CalleeKey(info, call) == "builtin.len" && len(call.Args) == 1 && core.ObjOf(info, call.Args[0]) == digits
			}
			switch {
			case isLenDigits(init.Rhs[0]) && cond.Op == token.LSS && post.Tok == token.INC:
				widthIdx = paramIndex(h, cond.Y)
			case cond.Op == token.GTR && post.Tok == token.DEC:
				if k, isK := core.IntConst(info, cond.Y); !isK || k != 0 {
					return 0, 0, false
				}
				sub, isSub := ast.Unparen(init.Rhs[0]).(*ast.BinaryExpr)
				if !isSub || sub.Op != token.SUB || !isLenDigits(sub.Y) {
					return 0, 0, false
				}
				widthIdx = paramIndex(h, sub.X)
			default:
				return 0, 0, false
			}
			if widthIdx <= dstIdx || widthIdx == opIdx {
				return 0, 0, false
			}
			// body: dst = append(dst, '0')
			if len(x.Body.List) != 1 {
				return 0, 0, false
			}
			as, isAs := x.Body.List[0].(*ast.AssignStmt)
			if !isAs || len(as.Lhs) != 1 || len(as.Rhs) != 1 || paramIndex(h, as.Lhs[0]) != dstIdx {
				return 0, 0, false
			}
			call, isCall := ast.Unparen(as.Rhs[0]).(*ast.CallExpr)
			if !isCall || core.CalleeKey(info, call) != "builtin.append" || len(call.Args) != 2 || call.Ellipsis.IsValid() || paramIndex(h, call.Args[0]) != dstIdx {
				return 0, 0, false
			}
			if k, isK := core.IntConst(info, call.Args[1]); !isK || k != '0' {
				return 0, 0, false
			}
			stage = 2
		case *ast.ReturnStmt:
			if stage != 2 || len(x.Results) != 1 {
				return 0, 0, false
			}
			call, isCall := ast.Unparen(x.Results[0]).(*ast.CallExpr)
			if !isCall || core.CalleeKey(info, call) != "builtin.append" || len(call.Args) != 2 || !call.Ellipsis.IsValid() || paramIndex(h, call.Args[0]) != dstIdx || core.ObjOf(info, call.Args[1]) != digits {
				return 0, 0, false
			}
			stage = 3
		default:
			return 0, 0, false
		}
	}
	return opIdx, widthIdx, stage == 3
}

func paramCount(h *core.Func) int {
	k := 0
	for _, f := range h.Decl.Type.Params.List {
		k += len(f.Names)
	}
	return k
}

// usesBefore is valueCases for a use on the right-hand side of the statement
// at `at`: the definition made by that very statement (x = f(x)) does not
// reach its own operand, unless the statement lies on a cycle.
func usesBefore(g *core.Graph, at *core.V, id *ast.Ident) []vcase {
	info := g.Info
	obj := info.ObjectOf(id)
	if obj == nil {
		return []vcase{{id, at}}
	}
	defs := defVertices(g, obj)
	isDefHere := false
	for _, d := range defs {
		if d == at {
			isDefHere = true
		}
	}
	if !isDefHere {
		return valueCases(g, at, id, 1)
	}
	var out []vcase
	for _, d := range defs {
		if d == at && !g.InLoop(at) {
			continue
		}
		var others []*core.V
		for _, x := range defs {
			if x != d && x != at {
				others = append(others, x)
			}
		}
		if !g.ReachFrom(d, false, core.AvoidVs(others...))[at] {
			continue
		}
		var rhs ast.Expr
		switch s := d.AST.(type) {
		case *ast.AssignStmt:
			if len(s.Lhs) == len(s.Rhs) {
				for i, l := range s.Lhs {
					if core.ObjOf(info, l) == obj {
						rhs = s.Rhs[i]
					}
				}
			}
		case *ast.ValueSpec:
			if len(s.Values) == len(s.Names) {
				for i, n := range s.Names {
					if info.ObjectOf(n) == obj {
						rhs = s.Values[i]
					}
				}
			}
		}
		if rhs == nil {
			return []vcase{{id, at}}
		}
		out = append(out, vcase{rhs, d})
	}
	return out
}

// The writer's "a stream is open" state is the boolean field Writer.inStream,
// or one bit of an integer field of Writer named by a constant whose name
// contains "instream" (w.flags&flagInStream != 0, w.flags |= flagInStream,
// w.flags &^= flagInStream).

// inStreamBit reports whether e is such a constant.
func inStreamBit(info *types.Info, e ast.Expr) bool {
	c, ok := core.ObjOf(info, e).(*types.Const)
	return ok && strings.Contains(strings.ToLower(c.Name()), "instream")
}

// inStreamTest: e tests the state; openOn is the edge on which a stream is open.
func inStreamTest(info *types.Info, e ast.Expr) (openOn core.EdgeLabel, ok bool) {
	e = ast.Unparen(e)
	if _, isF := core.FieldSel(info, e, "pdf", "Writer", "inStream"); isF {
		return core.EdgeTrue, true
	}
	be, isBin := e.(*ast.BinaryExpr)
	if !isBin || be.Op != token.NEQ && be.Op != token.EQL {
		return core.EdgeTrue, false
	}
	for _, pr := range [][2]ast.Expr{{be.X, be.Y}, {be.Y, be.X}} {
		and, isAnd := ast.Unparen(pr[0]).(*ast.BinaryExpr)
		if !isAnd || and.Op != token.AND {
			continue
		}
		if !inStreamBit(info, and.X) && !inStreamBit(info, and.Y) {
			continue
		}
		// compared with 0 (bit clear) or with the bit itself (bit set)
		if k, isK := core.IntConst(info, pr[1]); isK && k == 0 {
			if be.Op == token.NEQ {
				return core.EdgeTrue, true
			}
			return core.EdgeFalse, true
		}
		if inStreamBit(info, pr[1]) {
			if be.Op == token.EQL {
				return core.EdgeTrue, true
			}
			return core.EdgeFalse, true
		}
	}
	return core.EdgeTrue, false
}

// inStreamStore: the statement sets (val true) or clears (val false) the state.
func inStreamStore(info *types.Info, as *ast.AssignStmt) (val bool, ok bool) {
	if len(as.Lhs) != 1 || len(as.Rhs) != 1 {
		// w.a, w.inStream = x, false
		for i, l := range as.Lhs {
			if _, isF := core.FieldSel(info, l, "pdf", "Writer", "inStream"); isF && i < len(as.Rhs) && len(as.Lhs) == len(as.Rhs) {
				if cv := core.ConstOf(info, as.Rhs[i]); cv != nil && cv.Kind() == constant.Bool {
					return constant.BoolVal(cv), true
				}
			}
		}
		return false, false
	}
	if _, isF := core.FieldSel(info, as.Lhs[0], "pdf", "Writer", "inStream"); isF && as.Tok == token.ASSIGN {
		if cv := core.ConstOf(info, as.Rhs[0]); cv != nil && cv.Kind() == constant.Bool {
			return constant.BoolVal(cv), true
		}
		return false, false
	}
	if !inStreamBit(info, as.Rhs[0]) {
		return false, false
	}
	switch as.Tok {
	case token.OR_ASSIGN:
		return true, true
	case token.AND_NOT_ASSIGN:
		return false, true
	}
	return false, false
}

// inStreamKnown: the package keeps the state in one of the two recognised forms.
func inStreamKnown(c *core.Ctx) bool {
	for _, name := range []string{"(*Writer).OpenStream", "(*streamWriter).Close"} {
		fn := c.Prog.FuncOpt("pdf", name)
		if fn == nil {
			continue
		}
		found := false
		ast.Inspect(fn.Decl.Body, func(n ast.Node) bool {
			if as, ok := n.(*ast.AssignStmt); ok {
				if _, ok := inStreamStore(fn.Info(), as); ok {
					found = true
				}
			}
			return !found
		})
		if found {
			return true
		}
	}
	return false
}
