package props

import "pdfverif/internal/core"

func thoroughExtra(c *core.Ctx, p *Property) {}
