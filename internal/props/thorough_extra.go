package props

import (
	"encoding/json"
	"fmt"
	"io"
	"io/fs"
	"os"
	"os/exec"
	"path/filepath"
	"sort"
	"strings"

	"pdfverif/internal/core"
)

type selftestEntry struct {
	File     string `json:"file"`
	Property string `json:"property"`
	Expect   string `json:"expect"` // "fire", "silent" or "unrecognised"
	Rule     string `json:"rule"`
	What     string `json:"what"`
}

// copyTree copies the working tree of the repository (without .git) to dst.
func copyTree(src, dst string) error {
	return filepath.WalkDir(src, func(path string, d fs.DirEntry, err error) error {
		if err != nil {
			return err
		}
		rel, _ := filepath.Rel(src, path)
		if rel == ".git" {
			return filepath.SkipDir
		}
		target := filepath.Join(dst, rel)
		if d.IsDir() {
			return os.MkdirAll(target, 0o755)
		}
		if !d.Type().IsRegular() {
			return nil
		}
		in, err := os.Open(path)
		if err != nil {
			return err
		}
		defer in.Close()
		out, err := os.Create(target)
		if err != nil {
			return err
		}
		if _, err := io.Copy(out, in); err != nil {
			out.Close()
			return err
		}
		return out.Close()
	})
}

// runOn loads the tree at dir and runs the property's obligations without
// writing evidence; it returns the obligations.
func runOn(dir string, p *Property, extraEnv []string) ([]*core.Ob, error) {
	prog, err := core.Load(dir, extraEnv, p.Patterns...)
	if err == nil {
		setInlineKeep(prog)
	}
	if err != nil {
		return nil, err
	}
	c := core.NewCtx(p.ID, "selftest", prog)
	p.Run(c)
	c.ApplyFloors()
	return c.Obs, nil
}

// thoroughExtra: (1) the same obligations under two more build
// configurations, (2) the checker self-test: every catalogued mutant that
// targets this property must be reported by the named rule, every catalogued
// behaviour-preserving variant must leave the property's check silent.
func thoroughExtra(c *core.Ctx, p *Property) {
	// (1) build configurations (64-bit only: the repository itself does not type-check for 32-bit targets —
	// font/cmap/file.go uses the untyped constant 0xFFFF_FFFF as an int — so GOARCH=386 is not a configuration the build covers)
	for _, cfg := range [][]string{{"GOOS=windows", "GOARCH=amd64"}, {"GOOS=darwin", "GOARCH=arm64"}} {
		cfg := cfg
		c.Check("BUILD", strings.Join(cfg, ","), "the verdict does not depend on the build configuration: all obligations discharge for this GOOS/GOARCH as well", func(o *core.Ob) {
			obs, err := runOn(c.Prog.Dir, p, cfg)
			if err != nil {
				o.Count(1)
				o.Fail("loading with %v failed: %v", cfg, err)
				return
			}
			known := map[string]bool{}
			for _, k := range c.KnownKeys() {
				known[k] = true
			}
			for _, ob := range obs {
				o.Count(1)
				if ob.Status != core.Discharged && !known[ob.Rule+"|"+ob.Key] {
					o.Fail("%s %s %s under %v: %s", ob.Status, ob.Rule, ob.Key, cfg, ob.Detail)
				}
			}
		})
	}
	// (2) self-test
	b, err := os.ReadFile(filepath.Join(c.VerifDir, "selftest", "catalogue.json"))
	if err != nil {
		c.Notes = append(c.Notes, "self-test catalogue not found: "+err.Error())
		return
	}
	var cat []selftestEntry
	if err := json.Unmarshal(b, &cat); err != nil {
		c.Notes = append(c.Notes, "self-test catalogue unreadable: "+err.Error())
		return
	}
	// group by patch file
	byFile := map[string][]selftestEntry{}
	for _, e := range cat {
		if e.Property == p.ID {
			byFile[e.File] = append(byFile[e.File], e)
		}
	}
	var files []string
	for f := range byFile {
		files = append(files, f)
	}
	sort.Strings(files)
	base, err := os.MkdirTemp("", "pdfverif-selftest-")
	if err != nil {
		c.Notes = append(c.Notes, "cannot create scratch directory: "+err.Error())
		return
	}
	defer os.RemoveAll(base)
	applied, skipped, agree, disagree := 0, 0, 0, 0
	var lines []string
	for i, f := range files {
		dir := filepath.Join(base, fmt.Sprintf("v%d", i))
		if err := copyTree(c.Prog.Dir, dir); err != nil {
			c.Notes = append(c.Notes, "scratch copy failed: "+err.Error())
			os.RemoveAll(dir)
			continue
		}
		patch, _ := filepath.Abs(filepath.Join(c.VerifDir, f))
		cmd := exec.Command("git", "apply", "--whitespace=nowarn", patch)
		cmd.Dir = dir
		cmd.Env = append(os.Environ(), "GIT_CEILING_DIRECTORIES="+base)
		if out, err := cmd.CombinedOutput(); err != nil {
			skipped++
			lines = append(lines, fmt.Sprintf("SKIP %s (does not apply to the current tree: %s)", f, firstLine(string(out))))
			os.RemoveAll(dir)
			continue
		}
		applied++
		obs, err := runOn(dir, p, nil)
		os.RemoveAll(dir)
		fired := map[string]bool{}
		anyFired := false
		if err != nil {
			anyFired = true
			fired["LOAD"] = true
		}
		known := map[string]bool{}
		for _, k := range c.KnownKeys() {
			known[k] = true
		}
		unrec := map[string]bool{}
		for _, ob := range obs {
			if ob.Status != core.Discharged && !known[ob.Rule+"|"+ob.Key] {
				anyFired = true
				fired[ob.Rule] = true
			}
			if len(ob.Unrecognised) > 0 {
				unrec[ob.Rule] = true
			}
		}
		for _, e := range byFile[f] {
			ok := false
			switch e.Expect {
			case "fire":
				ok = fired[e.Rule]
			case "silent":
				ok = !anyFired
			case "unrecognised":
				// a change the rule cannot judge: it must say so, and must not alarm
				ok = unrec[e.Rule] && !fired[e.Rule]
			}
			if ok {
				agree++
				lines = append(lines, fmt.Sprintf("OK   %-6s %s %s", e.Expect, f, e.Rule))
			} else {
				disagree++
				var fr []string
				for r := range fired {
					fr = append(fr, r)
				}
				sort.Strings(fr)
				lines = append(lines, fmt.Sprintf("MISMATCH expected %s %s for %s, rules that fired: %v", e.Expect, e.Rule, f, fr))
				fmt.Printf("SELFTEST-MISMATCH property=%s expected=%s rule=%s variant=%s fired=%v\n", p.ID, e.Expect, e.Rule, f, fr)
			}
		}
	}
	c.Census["selftest_variants_applied"] = applied
	c.Census["selftest_variants_skipped_not_applicable"] = skipped
	c.Census["selftest_expectations_met"] = agree
	c.Census["selftest_expectations_missed"] = disagree
	if len(lines) > 60 {
		lines = lines[:60]
	}
	c.Notes = append(c.Notes, lines...)
	fmt.Printf("%s self-test: %d variants applied, %d skipped, %d expectations met, %d missed\n", p.ID, applied, skipped, agree, disagree)
}

func firstLine(s string) string {
	if i := strings.IndexByte(s, '\n'); i >= 0 {
		return s[:i]
	}
	return s
}
