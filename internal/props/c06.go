package props

import (
	"fmt"
	"go/ast"
	"go/token"
	"go/types"
	"sort"
	"strings"

	"pdfverif/internal/core"
)

func init() {
	register(&Property{
		ID:       "C06",
		Patterns: []string{".", "./internal/filter/...", "golang.org/x/image/ccitt"},
		Run:      runC06,
		Explanation: "Static rules on the encodable stream filters: (R1) every filter name an Info method can emit is a case of MakeFilter; (R2) for each parameterised filter the set of DecodeParms keys written by Info/toDict equals the set read by its parse function; (R4) in every filter type Encode and Decode hand the same parameters, position by position, to the encoder/decoder pair, and FilterCompress selects Flate vs LZW by the same version predicate in Info, Encode and Decode; " +
			"(R5) OpenStream applies the filters of its argument slice in one loop that calls Encode, then Info, then appendFilter, so the /Filter order is the application order; (R7) the LZW encoder advances its code width after every data code it emits (also the last one, before the end-of-data code), and encoder and decoder share the same width/clear/eof constants. " +
			"Decides these structural conditions for all inputs and parameter sets; does NOT decide the codecs' algorithms (code-width switching arithmetic, row arithmetic, CCITT line coding, chunking independence).",
	})
	register(&Property{
		ID:       "C07",
		Patterns: []string{".", "./internal/filter/...", "golang.org/x/image/ccitt"},
		Run:      runC07,
		Explanation: "Only the part of interoperability that lives in constants shared by an encoder and its decoder, which a round-trip test cannot see because a single edit keeps the pair consistent: (R1) LZW literal width 8, maximum width 12, clear 256, end-of-data 257, first code width 9 (TIFF 6 / ISO 32000-2 7.4.4); (R3) RunLength end-of-data 128, ASCII85 terminator and 'z' shortcut, PNG predictor tag = Predictor - 10, Flate uses compress/zlib (zlib wrapper); " +
			"(R4) the Paeth predictor's tie-breaking order a, b, c (PNG specification) as a shape over its three comparisons; (R5) the LZW writer's width advance after the final data code (a decoder widens after every code). Decides these constants and shapes; everything algorithmic and decoding of foreign-encoded data is NOT decided.",
	})
}

func runC06(c *core.Ctx) {
	c.Guard(func() { ruleFilterNames(c) })
	c.Guard(func() { ruleFilterKeys(c) })
	c.Guard(func() { ruleEncodeDecodeArgs(c) })
	c.Guard(func() { ruleOpenStreamFilterOrder(c) })
	c.Guard(func() { ruleLZWWidthAdvance(c, "C06-R7") })
	c.Guard(func() { ruleLZWConstants(c, "C06-R7") })
	c.Guard(func() { ruleCCITTRunBoundary(c) })
	c.Guard(func() { ruleRunLengthBounds(c, "C06-R9") })
	c.Guard(func() { ruleCCITTRefLine(c, "C06-R10") })
	c.Guard(func() { ruleLZWEarlyChange(c) })
	c.Guard(func() { ruleCCITTNoEOLInGroup4(c) })
	c.Guard(func() { ruleCCITTTables(c, "C06-R6") })
	c.Guard(func() { ruleBitAccumulatorReset(c, "C06-R15") })
	c.Guard(func() { rulePredictorInDict(c, "C06-R16") })
	c.Guard(func() { rulePoolPutOwnership(c, "C06-R17") })
	c.Guard(func() { ruleASCII85PendingOutput(c, "C06-R18") })
	c.Guard(func() { ruleCCITTByteAlign(c, "C06-R19") })
	c.Guard(func() { ruleCCITTRunLoops(c, "C06-R20") })
	c.Guard(func() { ruleCCITTLookahead(c, "C06-R21") })
	c.Guard(func() { ruleCCITTTagAfterEOL(c, "C06-R22") })
	c.Guard(func() { ruleCCITTEncoderTerminating(c, "C06-R23") })
	c.Guard(func() { ruleCCITTColourTables(c, "C06-R24") })
	c.Guard(func() { ruleResetComplete(c, "C06-R25") })
	c.Guard(func() {
		ruleAliasHygiene(c, [3]string{"C06-R12", "C06-R13", "C06-R14"}, "pdf/internal/filter/lzw", "pdf/internal/filter/predict", "pdf/internal/filter/runlength", "pdf/internal/filter/ccittfax", "pdf/internal/filter/ascii85", "pdf/internal/filter/asciihex")
	})
}

// ruleCCITTRunBoundary: make-up codes may add up to exactly the row width; the
// terminating code that must follow (T.4: every run ends with a terminating
// code, possibly of length 0) is still read.
func ruleCCITTRunBoundary(c *core.Ctx) {
	const pk = "pdf/internal/filter/ccittfax"
	c.Check("C06-R8", pk+".(*Reader).decodeFullRun/boundary", "a run whose make-up codes already add up to the full row width is legal (the encoder writes it for full-width runs when the width is a multiple of 64) and is followed by a terminating code: the overflow exit must be strict (total > Columns)", func(o *core.Ob) {
		fn := c.Prog.Func(pk, "(*Reader).decodeFullRun")
		g := fn.Graph()
		info := fn.Info()
		total := localVar(fn, "total", 0)
		n := 0
		for _, bv := range g.BranchVertices() {
			if bv.Cond.Expr == nil || !core.Mentions(info, bv.Cond.Expr, total) {
				continue
			}
			for _, a := range bv.Implied(core.EdgeTrue) {
				cmp, ok := a.AsCmp()
				if !ok || !strings.HasSuffix(core.ExprStr(cmp.R), ".Columns") && !strings.HasSuffix(core.ExprStr(cmp.L), ".Columns") {
					continue
				}
				n++
				o.At(fn.Site(bv.AST, "overflow exit "+core.ExprStr(bv.Cond.Expr)))
				op := cmp.Op
				if strings.HasSuffix(core.ExprStr(cmp.L), ".Columns") {
					op = core.FlipOp(op)
				}
				if op != token.GTR {
					o.Fail("the run is abandoned when total %s Columns; a run of exactly Columns pixels would lose its terminating code and the rest of the image is decoded out of step", op)
				}
			}
		}
		o.Shape(n == 1, "expected one overflow comparison of total with Columns, found %d", n)
		// the terminating states end the run
		src := c.Prog.Src(fn.Decl.Body)
		o.Shape(strings.Contains(src, "st==S_TermW||st==S_TermB||st==S_EOL||r.err!=nil"), "the run must end at a terminating code, at EOL or on error")
	})
}

func runC07(c *core.Ctx) {
	c.Guard(func() { ruleLZWConstants(c, "C07-R1") })
	c.Guard(func() { ruleCodecConstants(c) })
	c.Guard(func() { rulePaeth(c, "C07-R4") })
	c.Guard(func() { ruleLZWWidthAdvance(c, "C07-R5") })
	c.Guard(func() { rulePredictorGeometry(c, "C07-R6") })
	c.Guard(func() { ruleTIFF16Carry(c, "C07-R7") })
	c.Guard(func() { rulePNGAverage(c, "C07-R8") })
	c.Guard(func() { ruleCCITTTables(c, "C07-R2") })
	c.Guard(func() { ruleBitAccumulatorReset(c, "C07-R9") })
	// foreign Group 3/4 data end rows with make-up codes and omit end-of-block patterns as well
	c.Guard(func() { ruleCCITTRunLoops(c, "C07-R10") })
	c.Guard(func() { ruleCCITTLookahead(c, "C07-R11") })
	c.Guard(func() { ruleCCITTEncoderTerminating(c, "C07-R12") })
	c.Guard(func() { ruleCCITTColourTables(c, "C07-R13") })
}

func ruleFilterNames(c *core.Ctx) {
	const rule = "C06-R1"
	c.Check(rule, "pdf.MakeFilter/names", "every filter name that an Info method can return is handled by MakeFilter (the filter can be rebuilt from the dictionary it emitted)", func(o *core.Ob) {
		mf := c.Prog.Func("pdf", "MakeFilter")
		cases := map[string]bool{}
		ast.Inspect(mf.Decl.Body, func(n ast.Node) bool {
			if cc, ok := n.(*ast.CaseClause); ok {
				for _, e := range cc.List {
					if s, ok := core.StringConst(mf.Info(), e); ok {
						cases[s] = true
					}
				}
			}
			return true
		})
		for k := range mapLiteralKeysUsed(c, mf) {
			cases[k] = true // a table of constructors instead of a switch
		}
		o.Fact("MakeFilter cases %s", joinSet(cases))
		for _, t := range filterImplementers(c) {
			fn := methodFunc(c, t, "Info")
			if fn == nil {
				continue
			}
			info := fn.Info()
			for _, r := range fn.Graph().Returns() {
				rs := r.AST.(*ast.ReturnStmt)
				if len(rs.Results) != 3 {
					continue
				}
				if s, ok := core.StringConst(info, rs.Results[0]); ok && s != "" {
					o.At(fn.Site(rs, "emits /"+s))
					if !cases[s] {
						o.Fail("%s can emit the filter name %q, which MakeFilter does not know", fn.Key, s)
					}
				}
			}
		}
		o.Shape(len(cases) >= 10, "only %d filter names in MakeFilter", len(cases))
	})
}

func ruleFilterKeys(c *core.Ctx) {
	const rule = "C06-R2"
	type pair struct{ name, write, read string }
	pairs := []pair{
		{"Flate", "FilterFlate.toDict", "parseFlate"},
		{"LZW", "FilterLZW.toDict", "parseLZW"},
		{"CCITTFax", "FilterCCITTFax.Info", "parseCCITTFax"},
		{"DCT", "FilterDCT.Info", "parseDCT"},
	}
	for _, p := range pairs {
		p := p
		c.Check(rule, "pdf."+p.name, "the DecodeParms keys written for the filter are exactly the keys its parser reads", func(o *core.Ob) {
			// key sets are compared per declared function (the LZW pair
			// delegates the predictor keys to the Flate pair on both sides)
			wr := c.Prog.FuncOpt("pdf", p.write)
			if wr == nil {
				wr = c.Prog.Func("pdf", strings.Replace(p.write, ".toDict", ".Info", 1))
			}
			wr = c.Prog.RawFunc("pdf", strings.TrimPrefix(wr.Key, "pdf."))
			rd := c.Prog.RawFunc("pdf", p.read)
			wk := map[string]bool{}
			for k := range core.DictKeysWritten(wr.Info(), wr.Decl, "pdf", "Dict") {
				wk[k] = true
			}
			rk := map[string]bool{}
			for k := range core.DictKeysRead(rd.Info(), rd.Decl, "pdf", "Dict") {
				rk[k] = true
			}
			o.At(wr.Site(wr.Decl, "writes "+joinSet(wk)))
			o.At(rd.Site(rd.Decl, "reads "+joinSet(rk)))
			o.Count(len(wk) + len(rk))
			for _, k := range diff(wk, rk) {
				o.Fail("/%s is written but never read back", k)
			}
			for _, k := range diff(rk, wk) {
				o.Fail("/%s is read but never written (a parameter set with this field cannot survive the dictionary)", k)
			}
			o.Require(len(wk) >= 1, "no keys found on the write side")
		})
	}
	c.Check(rule, "pdf.defaults", "defaults: a missing key means the same value on both sides (Predictor 1, Colors 1, BitsPerComponent 8, Columns 1 for Flate/LZW and 1728 for CCITTFax, EarlyChange 1)", func(o *core.Ob) {
		pc := c.Prog.Func("pdf", "parseCCITTFax")
		src := c.Prog.Src(pc.Decl.Body)
		o.At(pc.Site(pc.Decl, ""))
		o.Shape(strings.Contains(src, "Columns:1728,"), "CCITTFax /Columns default on read is not 1728")
		tp := c.Prog.Func("pdf", "FilterCCITTFax.toParams")
		o.Shape(strings.Contains(c.Prog.Src(tp.Decl.Body), "ifcols==0{cols=1728}"), "CCITTFax zero Columns is not mapped to the default 1728 for the codec")
		pp := c.Prog.Func("pdf", "predictParams")
		ps := c.Prog.Src(pp.Decl.Body)
		o.At(pp.Site(pp.Decl, ""))
		for _, want := range []string{"colors=1", "bpc=8", "columns=1"} {
			o.Require(strings.Contains(ps, want), "predictParams does not map the zero value to the PDF default (%s)", want)
		}
		pl := c.Prog.Func("pdf", "parseLZW")
		o.Require(strings.Contains(c.Prog.Src(pl.Decl.Body), `d["EarlyChange"]`), "parseLZW does not read /EarlyChange")
	})
}

// argument selector lists of the codec calls in Encode and Decode
func ruleEncodeDecodeArgs(c *core.Ctx) {
	const rule = "C06-R4"
	for _, tname := range []string{"FilterFlate", "FilterLZW"} {
		tname := tname
		c.Check(rule, "pdf."+tname, "Encode and Decode give the same parameters, position by position, to the encoder and the decoder", func(o *core.Ob) {
			enc := c.Prog.Func("pdf", tname+".Encode")
			dec := c.Prog.Func("pdf", tname+".Decode")
			args := func(fn *core.Func, callee string) []string {
				for _, call := range core.CallsTo(fn.Info(), fn.Decl, false, callee) {
					o.At(fn.Site(call, callee))
					var out []string
					for _, a := range call.Args {
						s := core.ExprStr(a)
						if s == "w" || s == "r" || s == "budget" {
							continue
						}
						out = append(out, s)
					}
					return out
				}
				return nil
			}
			ea := args(enc, "pdf.encodeFlateLZW")
			da := args(dec, "pdf.decodeFlateLZW")
			if ea == nil || da == nil {
				core.Undecided("codec calls not found")
			}
			o.Count(len(ea))
			// by parameter name when the two helpers name their parameters alike: the order of
			// the parameters of either helper does not matter then
			byName := func(fn *core.Func, callee string) map[string]string {
				for _, call := range core.CallsTo(fn.Info(), fn.Decl, false, callee) {
					sig, _ := fn.Info().TypeOf(call.Fun).(*types.Signature)
					if sig == nil || sig.Params().Len() != len(call.Args) || sig.Variadic() {
						return nil
					}
					out := map[string]string{}
					for i, a := range call.Args {
						s := core.ExprStr(a)
						if s == "w" || s == "r" || s == "budget" {
							continue
						}
						name := sig.Params().At(i).Name()
						if name == "" || name == "_" {
							return nil
						}
						out[name] = s
					}
					return out
				}
				return nil
			}
			en, dn := byName(enc, "pdf.encodeFlateLZW"), byName(dec, "pdf.decodeFlateLZW")
			sameNames := en != nil && dn != nil && len(en) == len(dn)
			for k := range en {
				if _, ok := dn[k]; !ok {
					sameNames = false
				}
			}
			if sameNames {
				var diff []string
				for k, v := range en {
					if dn[k] != v {
						diff = append(diff, fmt.Sprintf("%s: Encode passes %s, Decode passes %s", k, v, dn[k]))
					}
				}
				sort.Strings(diff)
				if len(diff) > 0 {
					o.Fail("%s", strings.Join(diff, "; "))
				}
				return
			}
			if strings.Join(ea, ",") != strings.Join(da, ",") {
				// one side may bundle the parameters into a struct literal: then the values are
				// compared as a set (zero values left out); the positions cannot be compared
				bundled := false
				values := func(fn *core.Func, callee string) []string {
					var out []string
					for _, call := range core.CallsTo(fn.Info(), fn.Decl, false, callee) {
						for _, a := range call.Args {
							s := core.ExprStr(a)
							if s == "w" || s == "r" || s == "budget" {
								continue
							}
							// cfg := settings{...}; decode(r, cfg, budget)
							if id, isID := ast.Unparen(a).(*ast.Ident); isID {
								if obj := fn.Info().ObjectOf(id); obj != nil {
									if ds := core.AssignsTo(fn.Info(), fn.Decl, obj); len(ds) == 1 {
										if das, isAs := ds[0].(*ast.AssignStmt); isAs && len(das.Lhs) == 1 && len(das.Rhs) == 1 {
											a = das.Rhs[0]
										}
									}
								}
							}
							if cl, isCL := ast.Unparen(a).(*ast.CompositeLit); isCL {
								bundled = true
								for _, v := range compositeFields(fn.Info(), cl) {
									out = append(out, core.ExprStr(v))
								}
								continue
							}
							out = append(out, s)
						}
						break
					}
					var nz []string
					for _, v := range out {
						if v != "false" && v != "0" && v != "nil" {
							nz = append(nz, v)
						}
					}
					sort.Strings(nz)
					return nz
				}
				ev, dv := values(enc, "pdf.encodeFlateLZW"), values(dec, "pdf.decodeFlateLZW")
				if bundled && strings.Join(ev, ",") == strings.Join(dv, ",") {
					o.Unrec("%s: the parameters are handed over in a struct on one side: the same values (%s) reach both sides, their positions are not compared", tname, strings.Join(ev, ", "))
				} else {
					o.Fail("Encode passes (%s) but Decode passes (%s)", strings.Join(ea, ", "), strings.Join(da, ", "))
				}
			}
		})
	}
	c.Check(rule, "pdf.encodeFlateLZW~decodeFlateLZW", "the helper pair maps its parameters to the codec and predictor identically", func(o *core.Ob) {
		enc := c.Prog.Func("pdf", "encodeFlateLZW")
		dec := c.Prog.Func("pdf", "decodeFlateLZW")
		es, ds := c.Prog.Src(enc.Decl.Body), c.Prog.Src(dec.Decl.Body)
		o.At(enc.Site(enc.Decl, ""))
		o.At(dec.Site(dec.Decl, ""))
		o.Shape(strings.Contains(es, "lzw.NewWriter(w,lzwOffByOne)") && strings.Contains(ds, "lzw.NewReader(r,lzwOffByOne)"), "the early-change flag is not handed to both LZW sides")
		o.Shape(strings.Contains(es, "predictParams(p,colors,bpc,columns)") && strings.Contains(ds, "predictParams(p,colors,bpc,columns)"), "the predictor parameters differ between the two sides")
	})
	c.Check(rule, "pdf.FilterCCITTFax", "CCITTFax Encode and Decode derive the codec parameters through the same function", func(o *core.Ob) {
		for _, m := range []string{"Encode", "Decode"} {
			fn := c.Prog.Func("pdf", "FilterCCITTFax."+m)
			o.At(fn.Site(fn.Decl, m))
			o.Require(len(core.CallsTo(fn.Info(), fn.Decl, false, "pdf.FilterCCITTFax.toParams")) == 1, "FilterCCITTFax.%s does not use toParams", m)
		}
	})
	c.Check(rule, "pdf.FilterCompress", "FilterCompress picks Flate or LZW by the same version test when it describes, encodes and decodes", func(o *core.Ob) {
		var preds []string
		for _, m := range []string{"Info", "Encode", "Decode"} {
			fn := c.Prog.Func("pdf", "FilterCompress."+m)
			g := fn.Graph()
			o.At(fn.Site(fn.Decl, m))
			for _, bv := range g.BranchVertices() {
				if bv.Cond.Expr != nil && strings.Contains(core.ExprStr(bv.Cond.Expr), "V1_") {
					preds = append(preds, strings.ReplaceAll(core.ExprStr(bv.Cond.Expr), " ", ""))
				}
			}
		}
		o.Shape(len(preds) == 3, "expected one version test in each of Info, Encode and Decode, found %v", preds)
		for _, p := range preds {
			if p != preds[0] {
				o.Fail("version tests differ: %v", preds)
				break
			}
		}
	})
}

func ruleOpenStreamFilterOrder(c *core.Ctx) {
	const rule = "C06-R5"
	c.Check(rule, "pdf.(*Writer).OpenStream/filters", "filters are applied by one loop over the argument slice that wraps the writer with Encode, then records Info via appendFilter, so /Filter lists the filters in application order", func(o *core.Ob) {
		fn := c.Prog.Func("pdf", "(*Writer).OpenStream")
		g := fn.Graph()
		info := fn.Info()
		var head *core.V
		for _, h := range loopHeads(g) {
			if h.Cond.Range != nil && core.ExprStr(h.Cond.Range.X) == "filters" {
				// the loop that calls Encode
				if len(callVerticesInLoop(g, h, ".Encode")) > 0 {
					head = h
				}
			}
		}
		if head == nil {
			o.Count(1)
			o.Fail("no loop over filters that calls Encode")
			return
		}
		o.At(fn.Site(head.Cond.Range, "filter loop"))
		enc := callVerticesInLoop(g, head, ".Encode")
		inf := callVerticesInLoop(g, head, ".Info")
		app := callVerticesInLoop(g, head, "pdf.appendFilter")
		if len(enc) != 1 || len(inf) != 1 || len(app) != 1 {
			o.Unrec("the loop must call Encode, Info and appendFilter once each (found %d/%d/%d)", len(enc), len(inf), len(app))
			return
		}
		for _, cv := range [][]callV{enc, inf} {
			se := cv[0].Call.Fun.(*ast.SelectorExpr)
			o.Require(core.ObjOf(info, se.X) == info.ObjectOf(head.Cond.Range.Value.(*ast.Ident)), "the loop calls %s on something other than the current filter", cv[0].Key)
		}
		o.Require(g.Dominates(enc[0].V, app[0].V) && g.Dominates(inf[0].V, app[0].V), "a filter can be recorded without having been applied")
		// Encode wraps the current writer and replaces it
		as, ok := enc[0].V.AST.(*ast.AssignStmt)
		o.Require(ok && core.ExprStr(as.Lhs[0]) == "streamBody" && core.ExprStr(enc[0].Call.Args[1]) == "streamBody", "Encode must wrap the writer built so far and replace it")
		o.Require(core.ExprStr(app[0].Call.Args[0]) == "streamDict", "appendFilter must extend the stream's own dictionary")
	})
	c.Check(rule, "pdf.appendFilter", "appendFilter keeps /DecodeParms aligned with /Filter when it writes arrays", func(o *core.Ob) {
		fn := c.Prog.Func("pdf", "appendFilter")
		src := c.Prog.Src(fn.Decl.Body)
		o.At(fn.Site(fn.Decl, ""))
		o.Shape(strings.Contains(src, "forlen(pp)<len(filter)"), "the parameter array is not padded to the length of the filter array before appending")
	})
}

func callVerticesInLoop(g *core.Graph, head *core.V, suffix string) []callV {
	body := g.ReachFrom(succ(head, core.EdgeTrue), true, core.AvoidVs(head))
	var out []callV
	for _, cv := range callVerticesSuffix(g, suffix) {
		// in the loop: reached from the head and leading back to it (code
		// after a break or a jump out of the body is not part of the loop)
		if body[cv.V] && g.ReachFrom(cv.V, false, nil)[head] {
			out = append(out, cv)
		}
	}
	return out
}

// ruleLZWWidthAdvance: after every emitted data code the writer calls incHi.
func ruleLZWWidthAdvance(c *core.Ctx, rule string) {
	const pk = "pdf/internal/filter/lzw"
	c.Check(rule, pk+".(*Writer)/width-advance", "the encoder advances its code table (and with it the code width) after every data code it emits, including the last pending code written by Close before the end-of-data code: decoders widen after every code", func(o *core.Ob) {
		for _, name := range []string{"(*Writer).Close", "(*Writer).Write"} {
			fn := c.Prog.Func(pk, name)
			g := fn.Graph()
			info := fn.Info()
			errE := errNotNilEdges(g)
			inc := callVertices(g, pk+".(*Writer).incHi")
			var incVs []*core.V
			for _, i := range inc {
				incVs = append(incVs, i.V)
			}
			n := 0
			for _, cv := range callVertices(g, pk+".(*Writer).write") {
				arg := core.ExprStr(cv.Call.Args[0])
				if k, ok := core.IntConst(info, cv.Call.Args[0]); ok && (k == 256 || k == 257) {
					continue // clear / end-of-data are not table entries
				}
				if arg == "clear" || arg == "eof" {
					continue
				}
				n++
				o.At(fn.Site(cv.Call, "emits data code "+arg))
				// on the error-free path the next emission or the function exit must be preceded by incHi
				var others []*core.V
				for _, w2 := range callVertices(g, pk+".(*Writer).write") {
					if w2.V != cv.V {
						others = append(others, w2.V)
					}
				}
				targets := append(others, g.Exit)
				// loop back to the same emission counts as next emission
				reach := g.ReachFrom(cv.V, false, core.AvoidEdges(errE...).With(incVs...))
				bad := false
				for _, t := range targets {
					if reach[t] {
						bad = true
					}
				}
				if reach[cv.V] {
					bad = true
				}
				if bad {
					o.FailAt(fn.Site(cv.Call, ""), "after emitting %s the writer can emit the next code (or finish) without advancing the code table: at a width boundary the following code is written one bit too narrow", arg)
				}
			}
			if name == "(*Writer).Close" {
				o.Shape(n == 1, "Close must emit the pending code, found %d data emissions", n)
			}
		}
	})
}

func ruleLZWConstants(c *core.Ctx, rule string) {
	const pk = "pdf/internal/filter/lzw"
	c.Check(rule, pk+".constants", "LZW parameters of ISO 32000-2 7.4.4 / TIFF 6: 8-bit literals, codes of at most 12 bits, clear-table 256, end-of-data 257, first code width 9; encoder and decoder use the same constants", func(o *core.Ob) {
		want := map[string]int64{"litWidth": 8, "maxWidth": 12, "clear": 256, "eof": 257, "maxCode": 4095}
		for n, v := range want {
			o.Count(1)
			if got := c.Prog.ConstInt(pk, n); got != v {
				o.Fail("%s = %d, the standard says %d", n, got, v)
			}
		}
		// both sides start at 1+litWidth and refer to the same constants (single declaration per name in the package)
		pkg := c.Prog.Pkg(pk)
		for _, fn := range c.Prog.Funcs(pkg) {
			src := c.Prog.Src(fn.Decl.Body)
			if strings.Contains(src, "currentWidth=1+") {
				o.At(fn.Site(fn.Decl, "initial width"))
				o.Shape(strings.Contains(src, "currentWidth=1+litWidth") || strings.Contains(src, "currentWidth=1+uint(litWidth)"), "%s: initial code width is not litWidth+1", fn.Key)
			}
		}
		// the early-change offset: both sides derive it from the same boolean parameter
		nr := c.Prog.Func(pk, "NewReader")
		nw := c.Prog.Func(pk, "NewWriter")
		o.At(nr.Site(nr.Decl, ""))
		o.At(nw.Site(nw.Decl, ""))
		rt := nr.Obj.Type().(*types.Signature).Params()
		wt := nw.Obj.Type().(*types.Signature).Params()
		o.Require(rt.Len() == 2 && wt.Len() == 2 && types.Identical(rt.At(1).Type(), wt.At(1).Type()) && types.Identical(rt.At(1).Type(), types.Typ[types.Bool]), "reader and writer must take the early-change flag as the same boolean parameter")
	})
}

func ruleCodecConstants(c *core.Ctx) {
	const rule = "C07-R3"
	c.Check(rule, "pdf/internal/filter/runlength", "RunLength: length byte 128 is end-of-data, 0..127 copy length+1 literal bytes, 129..255 repeat 257-length times", func(o *core.Ob) {
		pkg := c.Prog.Pkg("pdf/internal/filter/runlength")
		var all strings.Builder
		for _, fn := range c.Prog.Funcs(pkg) {
			all.WriteString(c.Prog.Src(fn.Decl.Body))
			o.At(fn.Site(fn.Decl, ""))
		}
		s := all.String()
		o.Require(strings.Contains(s, "128"), "no end-of-data marker 128")
		o.Require(strings.Contains(s, "257-"), "repeat length is not 257 - length byte")
	})
	c.Check(rule, "pdf/internal/filter/ascii85", "ASCII85: base 85 digits offset by '!', 'z' for an all-zero group, '~>' as end-of-data", func(o *core.Ob) {
		pkg := c.Prog.Pkg("pdf/internal/filter/ascii85")
		var all strings.Builder
		for _, fn := range c.Prog.Funcs(pkg) {
			all.WriteString(c.Prog.Src(fn.Decl.Body))
		}
		s := all.String()
		o.Count(4)
		o.Require(strings.Contains(s, "85"), "base 85")
		o.Require(strings.Contains(s, "'!'"), "digit offset '!'")
		o.Require(strings.Contains(s, "'z'"), "'z' shortcut")
		o.Require(strings.Contains(s, "'~'") || strings.Contains(s, `"~>"`), "'~>' terminator")
	})
	c.Check(rule, "pdf.flate-wrapper", "FlateDecode is zlib-wrapped deflate (RFC 1950), not raw deflate", func(o *core.Ob) {
		pkg := c.Prog.Pkg("pdf")
		zl, fl := false, false
		for _, f := range pkg.Syntax {
			if c.Prog.IsTestFile(f.Pos()) {
				continue
			}
			for _, im := range f.Imports {
				switch strings.Trim(im.Path.Value, `"`) {
				case "compress/zlib":
					zl = true
				case "compress/flate":
					fl = true
				}
			}
		}
		o.Count(2)
		o.Require(zl, "package pdf does not use compress/zlib")
		o.Require(!fl, "package pdf uses raw compress/flate")
	})
	c.Check(rule, "pdf/internal/filter/predict.png-tag", "the PNG filter-type byte written per row is Predictor - 10 (None 0, Sub 1, Up 2, Average 3, Paeth 4)", func(o *core.Ob) {
		want := map[string]int64{"FlatePredictorPNGNone": 10, "FlatePredictorPNGSub": 11, "FlatePredictorPNGUp": 12, "FlatePredictorPNGAverage": 13, "FlatePredictorPNGPaeth": 14, "FlatePredictorPNGOptimum": 15, "FlatePredictorTIFF": 2}
		for n, v := range want {
			o.Count(1)
			if got := c.Prog.ConstInt("pdf", n); got != v {
				o.Fail("pdf.%s = %d, ISO 32000-2 Table 10 says %d", n, got, v)
			}
		}
		pkg := c.Prog.Pkg("pdf/internal/filter/predict")
		n := 0
		for _, fn := range c.Prog.Funcs(pkg) {
			info := fn.Info()
			g := fn.Graph()
			var calls []*core.V
			for _, v := range g.Vs {
				if v.AST != nil && len(core.CallsTo(info, v.AST, false, "pdf/internal/filter/predict.(*writer).applyPNGPredictor")) > 0 {
					calls = append(calls, v)
				}
			}
			if len(calls) == 0 {
				continue
			}
			// the graph is explored for every value of the /Predictor
			// parameter (the field, or a local copy of it); the filter type
			// handed to applyPNGPredictor is evaluated in that state
			isPred := func(e ast.Expr) bool {
				e = ast.Unparen(e)
				if sel, ok := e.(*ast.SelectorExpr); ok {
					return sel.Sel.Name == "Predictor"
				}
				return false
			}
			env := &core.ByteEnv{Info: info, Alias: isPred, Tables: map[types.Object][]int64{}, Prog: c.Prog}
			for p := int64(10); p <= 14; p++ {
				p := p
				o.Count(1)
				good := env.ReachSetState(g, []*core.V{g.Entry}, func(v *core.V, st *core.ByteState) bool {
					if v.AST == nil {
						return false
					}
					for _, call := range core.CallsTo(info, v.AST, false, "pdf/internal/filter/predict.(*writer).applyPNGPredictor") {
						if alg, ok := st.Int(call.Args[1]); ok && alg == int64(st.Byte)-10 {
							return true
						}
					}
					return false
				}, nil)
				bad := env.ReachSetState(g, []*core.V{g.Entry}, func(v *core.V, st *core.ByteState) bool {
					if v.AST == nil {
						return false
					}
					for _, call := range core.CallsTo(info, v.AST, false, "pdf/internal/filter/predict.(*writer).applyPNGPredictor") {
						if alg, ok := st.Int(call.Args[1]); !ok || alg != int64(st.Byte)-10 {
							return true
						}
					}
					return false
				}, nil)
				if good[p] && !bad[p] {
					n++
					o.At(fn.Site(calls[0].AST, "predictor "+itoa(int(p))+" -> PNG filter type "+itoa(int(p-10))))
				} else if bad[p] {
					o.Fail("predictor %d can be written with a PNG filter type other than %d", p, p-10)
				}
			}
		}
		o.Shape(n == 5, "expected the five PNG predictors 10..14 to map to filter types 0..4, found %d", n)
	})
}

func rulePaeth(c *core.Ctx, rule string) {
	c.Check(rule, "pdf/internal/filter/predict.paethPredictor", "Paeth predictor (PNG specification): choose a if pa <= pb and pa <= pc, else b if pb <= pc, else c — ties are broken in the order a, b, c", func(o *core.Ob) {
		fn := c.Prog.Func("pdf/internal/filter/predict", "paethPredictor")
		o.At(fn.Site(fn.Decl, ""))
		info := fn.Info()
		// parameter names in order: a (left), b (above), c (upper left)
		var ps []string
		for _, f := range fn.Decl.Type.Params.List {
			for _, n := range f.Names {
				ps = append(ps, n.Name)
			}
		}
		if len(ps) != 3 {
			core.Undecided("paethPredictor does not have three parameters")
		}
		a, b, cc := ps[0], ps[1], ps[2]
		// by value first: the function is loop-free and pure, so it can be evaluated for a grid of
		// neighbour bytes (all ties and all orders of the three distances occur) and compared with
		// the predictor of the PNG specification, however its conditions are written
		grid := []int64{0, 1, 2, 3, 4, 7, 64, 127, 128, 129, 200, 253, 254, 255}
		nEval, bad := 0, ""
		dec, why := c.Prog.TabulateFunc(fn, map[string][]int64{a: grid, b: grid, cc: grid}, func(env map[string]int64, n int64, _ bool) {
			av, ok1 := core.EnvGet(env, a)
			bv, ok2 := core.EnvGet(env, b)
			cv, ok3 := core.EnvGet(env, cc)
			if !ok1 || !ok2 || !ok3 {
				return
			}
			nEval++
			abs := func(x int64) int64 {
				if x < 0 {
					return -x
				}
				return x
			}
			est := av + bv - cv
			pa, pb, pc := abs(est-av), abs(est-bv), abs(est-cv)
			want := cv
			if pa <= pb && pa <= pc {
				want = av
			} else if pb <= pc {
				want = bv
			}
			if n != want && bad == "" {
				bad = fmt.Sprintf("paethPredictor(%d, %d, %d) is %d, the PNG specification says %d", av, bv, cv, n, want)
			}
		})
		if dec && nEval == len(grid)*len(grid)*len(grid) {
			o.Count(nEval)
			o.Fact("paethPredictor evaluated for %d triples of neighbour bytes and compared with the PNG specification", nEval)
			if bad != "" {
				o.Fail("%s", bad)
			}
			return
		}
		o.Fact("evaluation by value not possible (%s); the written form is compared instead", why)
		// distances: pX := abs(p - int(X))
		dist := map[string]string{}
		ast.Inspect(fn.Decl.Body, func(n ast.Node) bool {
			if as, ok := n.(*ast.AssignStmt); ok && as.Tok == token.DEFINE && len(as.Lhs) == 1 {
				s := strings.ReplaceAll(core.ExprStr(as.Rhs[0]), " ", "")
				for _, x := range ps {
					if s == "abs(p-int("+x+"))" {
						dist[x] = core.ExprStr(as.Lhs[0])
					}
				}
			}
			return true
		})
		if len(dist) != 3 {
			core.Undecided("distance definitions pa/pb/pc not recognised")
		}
		src := c.Prog.Src(fn.Decl.Body)
		o.Require(strings.Contains(src, "p:=int("+a+")+int("+b+")-int("+cc+")"), "the initial estimate is not a + b - c")
		// sequence of (condition, returned value)
		type step struct{ cond, ret string }
		var steps []step
		for _, s := range fn.Decl.Body.List {
			switch x := s.(type) {
			case *ast.IfStmt:
				if len(x.Body.List) == 1 {
					if rs, ok := x.Body.List[0].(*ast.ReturnStmt); ok {
						steps = append(steps, step{strings.ReplaceAll(core.ExprStr(x.Cond), " ", ""), core.ExprStr(rs.Results[0])})
					}
				}
			case *ast.ReturnStmt:
				steps = append(steps, step{"", core.ExprStr(x.Results[0])})
			}
		}
		want := []step{{dist[a] + "<=" + dist[b] + "&&" + dist[a] + "<=" + dist[cc], a}, {dist[b] + "<=" + dist[cc], b}, {"", cc}}
		o.Count(3)
		_ = info
		if len(steps) != 3 {
			o.Unrec("expected the decision chain a / b / c, found %d steps", len(steps))
			return
		}
		for i := range want {
			if steps[i] != want[i] {
				o.Fail("step %d is (%s -> %s), the PNG specification says (%s -> %s)", i+1, steps[i].cond, steps[i].ret, want[i].cond, want[i].ret)
			}
		}
		// the reader and the writer share this single function
		pkg := c.Prog.Pkg("pdf/internal/filter/predict")
		users := map[string]bool{}
		for _, f := range c.Prog.Funcs(pkg) {
			if len(core.CallsTo(f.Info(), f.Decl, true, "pdf/internal/filter/predict.paethPredictor")) > 0 {
				users[c.Prog.Fset.Position(f.Decl.Pos()).Filename] = true
			}
		}
		var fs []string
		for f := range users {
			fs = append(fs, f)
		}
		sort.Strings(fs)
		o.Fact("used from %d files", len(fs))
	})
}

// rulePredictorGeometry: the PNG predictors address the left neighbour at a
// distance of "bytes per complete pixel, rounding up" (PNG specification
// 9.2, referenced by ISO 32000 7.4.4.4) and work on rows of ceil(bits/8)
// bytes.  Writer and reader share the helpers, so their own round trip
// cannot notice a wrong value; any other producer or consumer does.
func rulePredictorGeometry(c *core.Ctx, rule string) {
	const pk = "pdf/internal/filter/predict"
	doms := map[string][]int64{".BitsPerComponent": {1, 2, 4, 8, 16}}
	for i := int64(1); i <= 32; i++ {
		doms[".Colors"] = append(doms[".Colors"], i)
	}
	for i := int64(1); i <= 19; i++ {
		doms[".Columns"] = append(doms[".Columns"], i)
	}
	type spec struct {
		fn   string
		desc string
		want func(colors, bpc, cols int64) int64
	}
	specs := []spec{
		{"(*Params).bytesPerPixel", "bytes per complete pixel, rounding up: ceil(Colors*BitsPerComponent/8)", func(cl, b, _ int64) int64 { return (cl*b + 7) / 8 }},
		{"(*Params).bytesPerRow", "bytes per row: ceil(Colors*BitsPerComponent*Columns/8)", func(cl, b, co int64) int64 { return (cl*b*co + 7) / 8 }},
	}
	for _, sp := range specs {
		sp := sp
		c.Check(rule, pk+"."+sp.fn, sp.desc+" for every Colors in 1..32, BitsPerComponent in {1,2,4,8,16}, Columns in 1..19 (the function's return expression is tabulated symbolically over these parameter values; one-line helpers are inlined)", func(o *core.Ob) {
			fn := c.Prog.Func(pk, sp.fn)
			o.At(fn.Site(fn.Decl, ""))
			if len(fn.Decl.Body.List) != 1 {
				core.Undecided("%s is not a single return statement", fn.Key)
			}
			rs, ok := fn.Decl.Body.List[0].(*ast.ReturnStmt)
			if !ok || len(rs.Results) != 1 {
				core.Undecided("%s is not a single return statement", fn.Key)
			}
			n, bad := 0, 0
			decided, reason := c.Prog.Tabulate(fn, rs.Results[0], nil, doms, func(env map[string]int64, v int64, _ bool) {
				cl, _ := core.EnvLookup(env, ".Colors")
				b, _ := core.EnvLookup(env, ".BitsPerComponent")
				co, okc := core.EnvLookup(env, ".Columns")
				if !okc {
					co = 1
				}
				n++
				if want := sp.want(cl, b, co); v != want {
					bad++
					if bad > 3 {
						return
					}
					o.Fail("%s: for Colors=%d BitsPerComponent=%d Columns=%d the expression %s evaluates to %d, the specification requires %d",
						c.Prog.Pos(rs.Pos()), cl, b, co, c.Prog.Src(rs.Results[0]), v, want)
				}
			})
			if !decided {
				core.Undecided("cannot tabulate %s: %s", c.Prog.Src(rs.Results[0]), reason)
			}
			o.Count(n)
			o.Fact("%d parameter combinations tabulated", n)
		})
	}
	// every PNG neighbour access uses that distance: the functions that index
	// with a left-neighbour offset take it from bytesPerPixel()
	for _, name := range []string{"(*reader).decodePNGRow", "(*writer).filterRow"} {
		name := name
		if c.Prog.FuncOpt(pk, name) == nil {
			continue
		}
		c.Check(rule, pk+"."+name+"/distance", "the PNG row filter takes its neighbour distance from Params.bytesPerPixel", func(o *core.Ob) {
			fn := c.Prog.Func(pk, name)
			calls := core.CallsTo(fn.Info(), fn.Decl.Body, true, pk+".(*Params).bytesPerPixel")
			o.Count(1)
			o.At(fn.Site(fn.Decl, ""))
			o.Require(len(calls) > 0, "%s no longer calls Params.bytesPerPixel", fn.Key)
		})
	}
}

// ruleTIFF16Carry: TIFF predictor 2 with 16-bit components differences whole
// big-endian samples modulo 2^16.  Adding or subtracting the two bytes
// separately loses the carry between them, so in the 16-bit routines no
// sum or difference may be computed in an 8-bit type, and each routine has
// at least one sum (reader) or difference (writer) at 16 bits or wider.
func ruleTIFF16Carry(c *core.Ctx, rule string) {
	const pk = "pdf/internal/filter/predict"
	for _, e := range []struct {
		name string
		op   token.Token
		asg  token.Token
	}{
		{"(*reader).decodeTIFF16Bit", token.ADD, token.ADD_ASSIGN},
		{"(*writer).applyTIFF16Bit", token.SUB, token.SUB_ASSIGN},
	} {
		e := e
		c.Check(rule, pk+"."+e.name, "16-bit samples are combined before the predictor arithmetic: no +/- in an 8-bit type, and one "+e.op.String()+" at >= 16 bits", func(o *core.Ob) {
			fn := c.Prog.Func(pk, e.name)
			info := fn.Info()
			width := func(t types.Type) int {
				b, ok := t.Underlying().(*types.Basic)
				if !ok || b.Info()&types.IsInteger == 0 {
					return 0
				}
				switch b.Kind() {
				case types.Int8, types.Uint8:
					return 8
				case types.Int16, types.Uint16:
					return 16
				case types.Int32, types.Uint32:
					return 32
				}
				return 64
			}
			wide := 0
			ast.Inspect(fn.Decl.Body, func(n ast.Node) bool {
				switch x := n.(type) {
				case *ast.BinaryExpr:
					if x.Op != token.ADD && x.Op != token.SUB {
						return true
					}
					o.Count(1)
					if tv, ok := info.Types[x]; ok && tv.Value != nil {
						return true // constant expression
					}
					w := width(info.TypeOf(x))
					if w == 8 {
						o.FailAt(fn.Site(x, ""), "%s: %s is computed in an 8-bit type: the carry between the two bytes of a sample is lost", c.Prog.Pos(x.Pos()), c.Prog.Src(x))
					}
					if x.Op == e.op && w >= 16 && info.TypeOf(x).Underlying().(*types.Basic).Info()&types.IsUnsigned != 0 {
						wide++
					}
				case *ast.AssignStmt:
					if x.Tok == token.ADD_ASSIGN || x.Tok == token.SUB_ASSIGN {
						o.Count(1)
						if width(info.TypeOf(x.Lhs[0])) == 8 {
							o.FailAt(fn.Site(x, ""), "%s: %s is computed in an 8-bit type: the carry between the two bytes of a sample is lost", c.Prog.Pos(x.Pos()), c.Prog.Src(x))
						}
					}
				case *ast.IncDecStmt:
					if width(info.TypeOf(x.X)) == 8 {
						o.FailAt(fn.Site(x, ""), "%s: 8-bit increment", c.Prog.Pos(x.Pos()))
					}
				}
				return true
			})
			o.At(fn.Site(fn.Decl, ""))
			o.Require(wide > 0, "%s: no %s on an unsigned value of 16 bits or more found", fn.Key, e.op)
		})
	}
}

// ruleRunLengthBounds: a RunLength repeat record is "length byte L in
// 129..255, then one byte, repeated 257-L times", so a run holds 2..128
// bytes; L = 128 is the end-of-data marker.  The encoder keeps the run
// length in a field and emits byte(257 - field): the field must never
// exceed 128.  Decided from all writes to the field in the package: constant
// stores are <= 128 and every increment is dominated by a test that implies
// field <= 127.  Literal records hold 1..128 bytes (length byte count-1 in
// 0..127): every flushLiteral call passes a count that its guards bound by 128.
func ruleRunLengthBounds(c *core.Ctx, rule string) {
	const pk = "pdf/internal/filter/runlength"
	c.Check(rule, pk+".rlWriter.repeatCount", "the repeat count emitted as 257-count never exceeds 128 (129 would be written as the end-of-data marker, larger counts as literal lengths)", func(o *core.Ob) {
		pkg := c.Prog.Pkg(pk)
		// the field used in 257 - field
		var field *types.Var
		for _, fn := range c.Prog.Funcs(pkg) {
			info := fn.Info()
			ast.Inspect(fn.Decl.Body, func(n ast.Node) bool {
				be, ok := n.(*ast.BinaryExpr)
				if !ok || be.Op != token.SUB {
					return true
				}
				if k, ok := core.IntConst(info, be.X); ok && k == 257 {
					if sel, ok := ast.Unparen(be.Y).(*ast.SelectorExpr); ok {
						if v, ok := info.ObjectOf(sel.Sel).(*types.Var); ok && v.IsField() {
							field = v
							o.At(fn.Site(be, "length byte of a repeat record"))
						}
					}
				}
				return true
			})
		}
		if field == nil {
			core.Undecided("no expression 257 - <field> found in the encoder")
		}
		writes := 0
		for _, fn := range c.Prog.Funcs(pkg) {
			info := fn.Info()
			g := fn.Graph()
			for _, v := range g.Vs {
				switch s := v.AST.(type) {
				case *ast.AssignStmt:
					for i, l := range s.Lhs {
						sel, ok := ast.Unparen(l).(*ast.SelectorExpr)
						if !ok || info.ObjectOf(sel.Sel) != field {
							continue
						}
						writes++
						o.Count(1)
						if s.Tok == token.ADD_ASSIGN && len(s.Rhs) == 1 {
							if k, isK := core.IntConst(info, s.Rhs[0]); isK && k >= 0 {
								// field += k: like k increments
								bound := core.Formula{Fn: fn, Atoms: []core.Atom{{Expr: &ast.BinaryExpr{X: l, Op: token.LEQ, Y: &ast.BasicLit{Kind: token.INT, Value: itoa(int(128 - k))}}}}}
								holds, counter, decided := c.Prog.Implies(core.Formula{Fn: fn, Atoms: g.DominatingAtoms(v)}, bound)
								if decided && !holds {
									o.FailAt(fn.Site(s, ""), "%s: the run can grow beyond 128 bytes: the guards allow %s before %d is added", c.Prog.Pos(s.Pos()), counter, k)
								} else if !decided {
									o.Unrec("%s: guard of the update of %s not decided", c.Prog.Pos(s.Pos()), field.Name())
								}
								continue
							}
							// field += <computed>: the bound would need an argument about the
							// loop that computed the amount
							o.Unrec("%s: %s grows by the computed amount %s: whether it stays within 128 is not decided", c.Prog.Pos(s.Pos()), field.Name(), core.ExprStr(s.Rhs[0]))
							continue
						}
						if s.Tok != token.ASSIGN || len(s.Rhs) != len(s.Lhs) {
							o.FailAt(fn.Site(s, ""), "%s: update of %s not understood", c.Prog.Pos(s.Pos()), field.Name())
							continue
						}
						k, ok := core.IntConst(info, s.Rhs[i])
						if !ok {
							// a local that carries the count: a copy of the field, constants within
							// the range, and increments under a guard that keeps it below 128
							verdict := "unknown"
							if lobj, isVar := core.ObjOf(info, s.Rhs[i]).(*types.Var); isVar && !lobj.IsField() {
								verdict = "ok"
								for _, dv := range defVertices(g, lobj) {
									switch d := dv.AST.(type) {
									case *ast.AssignStmt:
										if len(d.Lhs) != len(d.Rhs) || d.Tok != token.ASSIGN && d.Tok != token.DEFINE {
											verdict = "unknown"
											continue
										}
										for j, dl := range d.Lhs {
											if core.ObjOf(info, dl) != lobj {
												continue
											}
											if dsel, isSel := ast.Unparen(d.Rhs[j]).(*ast.SelectorExpr); isSel && info.ObjectOf(dsel.Sel) == field {
												continue
											}
											if dk, isK := core.IntConst(info, d.Rhs[j]); isK && dk >= 0 && dk <= 128 {
												continue
											}
											verdict = "unknown"
										}
									case *ast.IncDecStmt:
										if d.Tok != token.INC {
											continue
										}
										bound := core.Formula{Fn: fn, Atoms: []core.Atom{{Expr: &ast.BinaryExpr{X: d.X, Op: token.LEQ, Y: &ast.BasicLit{Kind: token.INT, Value: "127"}}}}}
										holds, counter, decided := c.Prog.Implies(core.Formula{Fn: fn, Atoms: g.DominatingAtoms(dv)}, bound)
										if decided && !holds {
											o.FailAt(fn.Site(d, ""), "%s: the run can grow beyond 128 bytes: the guards allow %s before the increment of %s, which is stored into %s", c.Prog.Pos(d.Pos()), counter, lobj.Name(), field.Name())
											verdict = "failed"
										} else if !decided && verdict == "ok" {
											verdict = "unknown"
										}
									default:
										verdict = "unknown"
									}
								}
							}
							if verdict == "unknown" {
								o.Unrec("%s: %s is set to the computed value %s: whether it stays within 128 is not decided", c.Prog.Pos(s.Pos()), field.Name(), core.ExprStr(s.Rhs[i]))
							}
						} else if k > 128 || k < 0 {
							o.FailAt(fn.Site(s, ""), "%s: %s is set to %d", c.Prog.Pos(s.Pos()), field.Name(), k)
						}
					}
				case *ast.IncDecStmt:
					sel, ok := ast.Unparen(s.X).(*ast.SelectorExpr)
					if !ok || info.ObjectOf(sel.Sel) != field {
						continue
					}
					writes++
					o.Count(1)
					if s.Tok != token.INC {
						continue
					}
					o.At(fn.Site(s, "run grows"))
					bound := core.Formula{Fn: fn, Atoms: []core.Atom{{Expr: &ast.BinaryExpr{X: s.X, Op: token.LEQ, Y: &ast.BasicLit{Kind: token.INT, Value: "127"}}}}}
					holds, counter, decided := c.Prog.Implies(core.Formula{Fn: fn, Atoms: g.DominatingAtoms(v)}, bound)
					if !decided {
						core.Undecided("guard of the increment not decided: %s", counter)
					}
					if !holds {
						o.FailAt(fn.Site(s, ""), "%s: the run can grow beyond 128 bytes: the guards (%s) allow %s before the increment", c.Prog.Pos(s.Pos()), c.Prog.FormulaString(core.Formula{Atoms: g.DominatingAtoms(v)}), counter)
					}
				}
			}
		}
		o.Shape(writes >= 3, "expected at least three writes to %s, found %d", field.Name(), writes)
	})
}

// ruleCCITTRefLine: two-dimensional CCITT coding describes each row
// relative to the complete previous row.  The decoder keeps that row in
// refLine; it must be refreshed from a freshly decoded, complete row and at
// no other time (Read hands a row out in pieces and shifts the remainder to
// the front of the line buffer).  Decided per copy(x.refLine, x.line):
// in its function every path to the copy passes a call that decodes a row,
// and no statement between that call and the copy changes the line buffer.
func ruleCCITTRefLine(c *core.Ctx, rule string) {
	const pk = "pdf/internal/filter/ccittfax"
	c.Check(rule, pk+".Reader.refLine", "the reference line of the CCITT decoder is refreshed exactly from complete, freshly decoded rows", func(o *core.Ob) {
		pkg := c.Prog.Pkg(pk)
		isField := func(info *types.Info, e ast.Expr, name string) bool {
			sel, ok := ast.Unparen(e).(*ast.SelectorExpr)
			if !ok || sel.Sel.Name != name {
				return false
			}
			v, ok := info.ObjectOf(sel.Sel).(*types.Var)
			return ok && v.IsField() && core.IsNamed(info.TypeOf(sel.X), pk, "Reader")
		}
		// statements that change the line buffer directly
		mutatesLine := func(info *types.Info, n ast.Node) bool {
			found := false
			ast.Inspect(n, func(m ast.Node) bool {
				switch s := m.(type) {
				case *ast.AssignStmt:
					for _, l := range s.Lhs {
						if isField(info, l, "line") {
							found = true
						}
						if ix, ok := ast.Unparen(l).(*ast.IndexExpr); ok && isField(info, ix.X, "line") {
							found = true
						}
					}
				case *ast.CallExpr:
					if id, ok := s.Fun.(*ast.Ident); ok && id.Name == "copy" && len(s.Args) == 2 && isField(info, s.Args[0], "line") {
						found = true
					}
				}
				return true
			})
			return found
		}
		// functions that produce a row: they write the line buffer and are not Read itself
		producers := map[*types.Func]bool{}
		for _, fn := range c.Prog.Funcs(pkg) {
			if fn.Obj.Name() != "Read" && mutatesLine(fn.Info(), fn.Decl.Body) {
				producers[fn.Obj] = true
			}
		}
		for changed := true; changed; {
			changed = false
			for _, fn := range c.Prog.Funcs(pkg) {
				if producers[fn.Obj] || fn.Obj.Name() == "Read" {
					continue
				}
				for _, cs := range core.CallsIn(fn.Info(), fn.Decl, true) {
					if cs.Fn != nil && producers[cs.Fn] {
						producers[fn.Obj] = true
						changed = true
					}
				}
			}
		}
		copies := 0
		for _, fn := range c.Prog.Funcs(pkg) {
			info := fn.Info()
			g := fn.Graph()
			for _, v := range g.Vs {
				if v.AST == nil {
					continue
				}
				var cp *ast.CallExpr
				for _, cs := range core.CallsIn(info, v.AST, false) {
					if id, ok := cs.Call.Fun.(*ast.Ident); ok && id.Name == "copy" && len(cs.Call.Args) == 2 && isField(info, cs.Call.Args[0], "refLine") {
						cp = cs.Call
					}
				}
				if cp == nil {
					continue
				}
				copies++
				o.Count(1)
				o.At(fn.Site(cp, "reference line refreshed"))
				if !isField(info, cp.Args[1], "line") {
					o.FailAt(fn.Site(cp, ""), "%s: the reference line is filled from %s, not from the decoded row", c.Prog.Pos(cp.Pos()), c.Prog.Src(cp.Args[1]))
					continue
				}
				var prod []*core.V
				for _, pv := range g.Vs {
					if pv.AST == nil || pv == v {
						continue
					}
					for _, cs := range core.CallsIn(info, pv.AST, false) {
						if cs.Fn != nil && producers[cs.Fn] {
							prod = append(prod, pv)
						}
					}
				}
				if len(prod) == 0 || g.ReachFrom(g.Entry, true, core.AvoidVs(prod...))[v] {
					o.FailAt(fn.Site(cp, ""), "%s: in %s the reference line is refreshed on a path on which no row was decoded: the line buffer may hold the shifted remainder of a partly delivered row", c.Prog.Pos(cp.Pos()), fn.Key)
					continue
				}
				for _, pv := range prod {
					between := g.ReachFrom(pv, false, core.AvoidVs(v))
					for _, x := range g.Vs {
						if x.AST != nil && between[x] && x != v && g.ReachFrom(x, false, nil)[v] && mutatesLine(info, x.AST) {
							isProd := false
							for _, p2 := range prod {
								if p2 == x {
									isProd = true
								}
							}
							if !isProd {
								o.FailAt(fn.Site(x.AST, ""), "%s: the line buffer is changed between decoding the row and refreshing the reference line", c.Prog.Pos(x.AST.Pos()))
							}
						}
					}
				}
			}
		}
		o.Fact("%d row-producing functions, %d refresh sites", len(producers), copies)
		o.Require(copies >= 1, "the decoder never refreshes its reference line")
	})
}

// ruleLZWEarlyChange (C06-R2, continued): the reader's default for
// /EarlyChange is 1.  A filter that uses EarlyChange 0 (OffByOne == false)
// must therefore always say so in the dictionary it emits, also when the
// dictionary already exists because a predictor is set: the entry is written
// whenever !OffByOne holds, under no further condition.
func ruleLZWEarlyChange(c *core.Ctx) {
	c.Check("C06-R2", "pdf.FilterLZW.Info/EarlyChange", "/EarlyChange 0 is emitted whenever the filter does not use the early code-width change, whatever other parameters are present", func(o *core.Ob) {
		fn := c.Prog.Func("pdf", "FilterLZW.Info")
		g := fn.Graph()
		info := fn.Info()
		recv := info.Defs[fn.Decl.Recv.List[0].Names[0]]
		var stores []*core.V
		for _, v := range g.Vs {
			if v.AST == nil {
				continue
			}
			found := false
			ast.Inspect(v.AST, func(m ast.Node) bool {
				switch x := m.(type) {
				case *ast.KeyValueExpr:
					if s, ok := core.StringConst(info, x.Key); ok && s == "EarlyChange" {
						found = true
					}
				case *ast.AssignStmt:
					for _, l := range x.Lhs {
						if _, key, ok := core.MapIndexKey(info, l); ok && key == "EarlyChange" {
							found = true
						}
					}
				}
				return true
			})
			if found {
				stores = append(stores, v)
			}
		}
		if len(stores) == 0 {
			o.Count(1)
			o.Fail("FilterLZW.Info never writes /EarlyChange")
			return
		}
		// the condition: a selector .OffByOne on the receiver
		var off ast.Expr
		ast.Inspect(fn.Decl.Body, func(m ast.Node) bool {
			if sel, ok := m.(*ast.SelectorExpr); ok && sel.Sel.Name == "OffByOne" && core.ObjOf(info, sel.X) == recv && off == nil {
				off = sel
			}
			return true
		})
		if off == nil {
			core.Undecided("FilterLZW.Info does not look at OffByOne")
		}
		need := core.Formula{Fn: fn, Atoms: []core.Atom{{Expr: off, Neg: true}}}
		// the entry is written on every path on which !OffByOne holds: some store's conditions follow from it,
		// and the stores together cover it (one store suffices here)
		okAny := false
		var why []string
		for _, st := range stores {
			o.Count(1)
			o.At(fn.Site(st.AST, "/EarlyChange written"))
			var atoms []core.Atom
			for _, a := range g.DominatingAtoms(st) {
				if _, isErr := a.AsCmp(); isErr && strings.Contains(c.Prog.Src(a.Expr), "err") {
					continue
				}
				atoms = append(atoms, a)
			}
			holds, counter, decided := c.Prog.Implies(need, core.Formula{Fn: fn, Atoms: atoms})
			if !decided {
				core.Undecided("condition of the store not decided: %s", counter)
			}
			if holds && g.GuardsSufficient(g.Entry, st, g.Exit) {
				okAny = true
			} else {
				why = append(why, c.Prog.Pos(st.AST.Pos())+": written only under "+c.Prog.FormulaString(core.Formula{Atoms: atoms})+" (not for "+counter+")")
			}
		}
		if !okAny && len(stores) > 1 {
			// several stores that cover the case together: every return reached without
			// passing one of them is an error return or lies under OffByOne
			reach := g.ReachFrom(g.Entry, true, core.AvoidVs(stores...))
			covered, positive := true, false
			for _, r := range g.Returns() {
				if !reach[r] {
					continue
				}
				rs := r.AST.(*ast.ReturnStmt)
				if len(rs.Results) > 0 && !core.IsNil(info, rs.Results[len(rs.Results)-1]) {
					continue // an error is returned
				}
				atoms := g.DominatingAtoms(r)
				under, _, dec := c.Prog.Implies(core.Formula{Fn: fn, Atoms: atoms}, core.Formula{Fn: fn, Atoms: []core.Atom{{Expr: off}}})
				if dec && under {
					continue
				}
				covered = false
				if not, _, dec2 := c.Prog.Implies(core.Formula{Fn: fn, Atoms: atoms}, need); dec2 && not {
					positive = true
				}
			}
			if covered {
				okAny = true
			} else if !positive {
				o.Unrec("/EarlyChange is written at %d places, none of which covers OffByOne == false alone, and the returns that pass none of them were not shown to lie under OffByOne: %s", len(stores), strings.Join(why, "; "))
				okAny = true
			}
		}
		if !okAny {
			o.Fail("/EarlyChange 0 is not written for every filter with OffByOne == false: %s; the rebuilt filter then uses the default EarlyChange 1 and cannot decode the data", strings.Join(why, "; "))
		}
	})
}

// ruleCCITTNoEOLInGroup4 (C06-R11): Group 4 (K < 0) data has no end-of-line
// codes; the decoder takes the 12-bit EOL pattern inside a Group 4 row for
// the end of the data.  In the encoder every emission of the EOL code
// (000000000001, 12 bits) is dominated by conditions that imply K >= 0.
func ruleCCITTNoEOLInGroup4(c *core.Ctx) {
	const pk = "pdf/internal/filter/ccittfax"
	c.Check("C06-R11", pk+".(*Writer).writeRow/eol", "end-of-line codes are written only for Group 3 rows (K >= 0)", func(o *core.Ob) {
		fn := c.Prog.Func(pk, "(*Writer).writeRow")
		g := fn.Graph()
		info := fn.Info()
		var kSel ast.Expr
		ast.Inspect(fn.Decl.Body, func(m ast.Node) bool {
			if sel, ok := m.(*ast.SelectorExpr); ok && sel.Sel.Name == "K" && kSel == nil {
				kSel = sel
			}
			return true
		})
		if kSel == nil {
			core.Undecided("writeRow does not look at K")
		}
		n := 0
		for _, cv := range callVerticesSuffix(g, ".writeBits") {
			if len(cv.Call.Args) != 2 {
				continue
			}
			code, ok1 := core.IntConst(info, cv.Call.Args[0])
			bits, ok2 := core.IntConst(info, cv.Call.Args[1])
			if !ok1 || !ok2 || code != 1 || bits != 12 {
				continue
			}
			n++
			o.Count(1)
			o.At(fn.Site(cv.Call, "EOL code"))
			var atoms []core.Atom
			aliases := fn.FieldAliases() // k := w.K
			for _, a := range g.DominatingAtoms(cv.V) {
				if strings.Contains(c.Prog.Src(a.Expr), ".K") || strings.Contains(core.ExprStrAliased(fn, a.Expr), ".K") {
					atoms = append(atoms, a)
				}
			}
			want := core.Formula{Fn: fn, Subst: aliases, Atoms: []core.Atom{{Expr: &ast.BinaryExpr{X: kSel, Op: token.GEQ, Y: intLit(0)}}}}
			holds, counter, decided := c.Prog.Implies(core.Formula{Fn: fn, Subst: aliases, Atoms: atoms}, want)
			if !decided {
				core.Undecided("condition of the EOL code not decided: %s", counter)
			}
			if !holds {
				o.FailAt(fn.Site(cv.Call, ""), "%s: an end-of-line code is written for %s (conditions on K: %s); Group 4 data must not contain EOL codes", c.Prog.Pos(cv.Call.Pos()), counter, c.Prog.FormulaString(core.Formula{Atoms: atoms}))
			}
		}
		o.Require(n >= 1, "no EOL emission found in writeRow")
	})
}

// rulePNGAverage (C07-R8): the PNG Average filter predicts
// floor((left + above) / 2), "the sum shall be formed without overflow"
// (PNG specification 9.4).  In the row filter and its inverse the halved sum
// is formed in a type wider than 8 bits.
func rulePNGAverage(c *core.Ctx, rule string) {
	const pk = "pdf/internal/filter/predict"
	for _, side := range []struct{ name, recv string }{{"(*writer).filterRow", "writer"}, {"(*reader).decodePNGRow", "reader"}} {
		side := side
		c.Check(rule, pk+"."+side.name+"/average", "the Average predictor halves a sum formed without 8-bit overflow", func(o *core.Ob) {
			// the row function and the unexported functions of the package it
			// refers to (the predictors may be helpers or entries of a table)
			var fns []*core.Func
			seen := map[*core.Func]bool{}
			var add func(f *core.Func, depth int)
			add = func(f *core.Func, depth int) {
				if f == nil || seen[f] || f.Decl.Body == nil {
					return
				}
				seen[f] = true
				fns = append(fns, f)
				if depth == 0 {
					return
				}
				refs := func(root ast.Node, info *types.Info) {
					ast.Inspect(root, func(m ast.Node) bool {
						id, ok := m.(*ast.Ident)
						if !ok {
							return true
						}
						if tf, ok := info.Uses[id].(*types.Func); ok && tf.Pkg() != nil && tf.Pkg() == f.Obj.Pkg() {
							add(c.Prog.FuncOf(tf), depth-1)
						}
						// a package-level table of functions
						if tv, ok := info.Uses[id].(*types.Var); ok && tv.Pkg() == f.Obj.Pkg() && tv.Parent() == tv.Pkg().Scope() {
							if _, init, pkg := c.Prog.Var(pk, tv.Name()); init != nil {
								ast.Inspect(init, func(k ast.Node) bool {
									if id2, ok := k.(*ast.Ident); ok {
										if tf, ok := pkg.TypesInfo.Uses[id2].(*types.Func); ok && tf.Pkg() == f.Obj.Pkg() {
											add(c.Prog.FuncOf(tf), depth-1)
										}
									}
									return true
								})
							}
						}
						return true
					})
				}
				refs(f.Decl.Body, f.Info())
			}
			add(c.Prog.RawFunc(pk, side.name), 2)
			n := 0
			for _, fn := range fns {
				info := fn.Info()
				ast.Inspect(fn.Decl.Body, func(m ast.Node) bool {
					be, ok := m.(*ast.BinaryExpr)
					if !ok || (be.Op != token.QUO && be.Op != token.SHR) {
						return true
					}
					sum, ok := ast.Unparen(be.X).(*ast.BinaryExpr)
					if !ok || sum.Op != token.ADD {
						return true
					}
					n++
					o.Count(1)
					o.At(fn.Site(be, "halved sum"))
					if b, ok := info.TypeOf(sum).Underlying().(*types.Basic); ok && (b.Kind() == types.Uint8 || b.Kind() == types.Int8) {
						o.FailAt(fn.Site(be, ""), "%s: %s adds two bytes in an 8-bit type before halving: sums of 256 and more wrap around", c.Prog.Pos(be.Pos()), c.Prog.Src(be))
					}
					return true
				})
			}
			o.Shape(n >= 1, "%s: no halved sum found in the row function or the functions it refers to (Average predictor)", side.name)
		})
	}
}

// ruleBitAccumulatorReset (C07-R9 / C06-R15): the CCITT encoder builds its
// output in a one-byte accumulator (byteVal) with a fill count (validBits);
// writeBits only ORs bits into the accumulator.  Whenever the count is reset
// to zero the accumulator must be cleared as well, otherwise the 1-bits of
// the byte just written leak into the next one (visible with
// EncodedByteAlign, where a row ends in the middle of a byte).
func ruleBitAccumulatorReset(c *core.Ctx, rule string) {
	const pk = "pdf/internal/filter/ccittfax"
	c.Check(rule, pk+".Writer/bit-accumulator", "every reset of the bit count is accompanied by a reset of the bit accumulator on the same path", func(o *core.Ob) {
		pkg := c.Prog.Pkg(pk)
		n := 0
		for _, fn := range c.Prog.Funcs(pkg) {
			info := fn.Info()
			g := fn.Graph()
			isZeroStore := func(v *core.V, field string) bool {
				as, ok := v.AST.(*ast.AssignStmt)
				if !ok || as.Tok != token.ASSIGN {
					return false
				}
				for i, l := range as.Lhs {
					sel, ok := ast.Unparen(l).(*ast.SelectorExpr)
					if !ok || sel.Sel.Name != field || i >= len(as.Rhs) {
						continue
					}
					if f, ok := info.ObjectOf(sel.Sel).(*types.Var); !ok || !f.IsField() {
						continue
					}
					if k, ok := core.IntConst(info, as.Rhs[i]); ok && k == 0 {
						return true
					}
				}
				return false
			}
			var cnt, acc []*core.V
			for _, v := range g.Vs {
				if isZeroStore(v, "validBits") {
					cnt = append(cnt, v)
				}
				if isZeroStore(v, "byteVal") {
					acc = append(acc, v)
				}
			}
			for _, cv := range cnt {
				n++
				o.Count(1)
				o.At(fn.Site(cv.AST, "bit count reset"))
				ok := false
				for _, av := range acc {
					if g.Dominates(av, cv) && !g.ReachFrom(av, false, core.AvoidVs(cv))[av] {
						ok = true
					}
				}
				if !ok && len(acc) > 0 && g.MustPassBefore(cv, []*core.V{g.Exit}, acc) {
					ok = true
				}
				if !ok {
					o.FailAt(fn.Site(cv.AST, ""), "%s: the bit count is reset but the accumulator keeps the bits of the byte just written; writeBits ORs the next code into them", c.Prog.Pos(cv.AST.Pos()))
				}
			}
		}
		o.Shape(n >= 2, "resets of the bit count not found")
	})
}

// rulePredictorInDict (C06-R16): the encoder applies a predictor for every
// /Predictor value other than 1 (and 0 = unset); PNG "None" (10) still adds
// a tag byte per row.  The parameter dictionary must therefore carry
// /Predictor for exactly those values, otherwise the rebuilt filter decodes
// with the default 1 and the tag bytes end up in the data.  The flag that
// decides whether predictor parameters are written is tabulated for all
// predictor values.
func rulePredictorInDict(c *core.Ctx, rule string) {
	c.Check(rule, "pdf.FilterFlate.toDict/predictor", "predictor parameters are written for every predictor value other than 0 and 1 (2 and 10..15)", func(o *core.Ob) {
		fn := c.Prog.Func("pdf", "FilterFlate.toDict")
		g := fn.Graph()
		info := fn.Info()
		// the store of /Predictor and its dominating conditions
		var store *core.V
		for _, v := range g.Vs {
			if as, ok := v.AST.(*ast.AssignStmt); ok {
				for _, l := range as.Lhs {
					if _, key, ok := core.MapIndexKey(info, l); ok && key == "Predictor" {
						store = v
					}
				}
			}
		}
		if store == nil {
			// or as an element of the dictionary literal
			ast.Inspect(fn.Decl.Body, func(m ast.Node) bool {
				cl, ok := m.(*ast.CompositeLit)
				if !ok || !core.IsNamed(info.TypeOf(cl), "pdf", "Dict") {
					return true
				}
				for _, el := range cl.Elts {
					if kv, ok := el.(*ast.KeyValueExpr); ok {
						if k, ok := core.StringConst(info, kv.Key); ok && k == "Predictor" {
							store = g.VertexOf(cl)
						}
					}
				}
				return true
			})
		}
		if store == nil {
			o.Count(1)
			o.Fail("toDict never writes /Predictor")
			return
		}
		o.At(fn.Site(store.AST, "/Predictor written"))
		// substitute single-definition boolean locals by their definitions
		subst := map[types.Object]ast.Expr{}
		ast.Inspect(fn.Decl.Body, func(m ast.Node) bool {
			if as, ok := m.(*ast.AssignStmt); ok && as.Tok == token.DEFINE && len(as.Lhs) == 1 && len(as.Rhs) == 1 {
				if obj := core.ObjOf(info, as.Lhs[0]); obj != nil && isBoolObj(obj) {
					subst[obj] = as.Rhs[0]
				}
			}
			return true
		})
		atoms := g.DominatingAtoms(store)
		vals := []int64{0, 1, 2, 10, 11, 12, 13, 14, 15}
		for _, p := range vals {
			o.Count(1)
			reached := true
			for _, a := range atoms {
				dec, why := c.Prog.Tabulate(fn, a.Expr, subst, map[string][]int64{".Predictor": {p}}, func(_ map[string]int64, _ int64, b bool) {
					if b == a.Neg {
						reached = false
					}
				})
				if !dec {
					core.Undecided("condition %s not tabulated: %s", c.Prog.Src(a.Expr), why)
				}
			}
			want := p != 0 && p != 1
			if reached != want {
				o.Fail("%s: for /Predictor %d the entry is %s, but the encoder %s a predictor for this value", c.Prog.Pos(store.AST.Pos()), p, map[bool]string{true: "written", false: "not written"}[reached], map[bool]string{true: "applies", false: "does not apply"}[want])
			}
		}
	})
}

// ruleASCII85PendingOutput (C06-R18): the ASCII85 decoder produces up to four
// bytes per group; what does not fit into the caller's buffer is kept in
// `leftover` for the next Read.  Read must not report an error (the
// end-of-data marker included) while such bytes are pending: a caller that
// stops at io.EOF loses them, so the decoded data depends on the size of the
// read buffer.  Every return of a possibly non-nil error in Read is either
// guarded by "leftover is empty" or dominated by a deferred function that
// clears the returned error while leftover is non-empty.
func ruleASCII85PendingOutput(c *core.Ctx, rule string) {
	const pk = "pdf/internal/filter/ascii85"
	c.Check(rule, pk+".(*ascii85Reader).Read/pending", "no error is returned while decoded bytes are still pending in the leftover buffer", func(o *core.Ob) {
		fn := c.Prog.Func(pk, "(*ascii85Reader).Read")
		g := fn.Graph()
		info := fn.Info()
		mentionsLeftover := func(n ast.Node) bool {
			found := false
			ast.Inspect(n, func(m ast.Node) bool {
				if sel, ok := m.(*ast.SelectorExpr); ok && sel.Sel.Name == "leftover" {
					found = true
				}
				return true
			})
			return found
		}
		if !mentionsLeftover(fn.Decl.Body) {
			o.Count(1)
			o.Unrec("the reader keeps no slice called leftover (the pending bytes are held in another form): which returns can happen while bytes are pending is not decided")
			return
		}
		// masking defers: defer func() { if len(r.leftover) > 0 { err = nil } }()
		var masks []*core.V
		for _, v := range g.Vs {
			ds, ok := v.AST.(*ast.DeferStmt)
			if !ok {
				continue
			}
			fl, ok := ds.Call.Fun.(*ast.FuncLit)
			if !ok {
				continue
			}
			masksErr := false
			ast.Inspect(fl.Body, func(m ast.Node) bool {
				is, ok := m.(*ast.IfStmt)
				if !ok || !mentionsLeftover(is.Cond) {
					return true
				}
				for _, st := range is.Body.List {
					if as, ok := st.(*ast.AssignStmt); ok && len(as.Rhs) == 1 && core.IsNil(info, as.Rhs[0]) {
						if obj := core.ObjOf(info, as.Lhs[0]); obj != nil && core.IsErrorType(obj.Type()) {
							masksErr = true
						}
					}
				}
				return true
			})
			if masksErr {
				masks = append(masks, v)
				o.At(fn.Site(ds, "pending output masks the error"))
			}
		}
		n := 0
		for _, r := range g.Returns() {
			rs := r.AST.(*ast.ReturnStmt)
			var errExpr ast.Expr
			if len(rs.Results) == 2 {
				errExpr = rs.Results[1]
			}
			if errExpr != nil && core.IsNil(info, errExpr) {
				continue
			}
			n++
			o.Count(1)
			masked := false
			for _, mv := range masks {
				if g.Dominates(mv, r) {
					masked = true
				}
			}
			if masked {
				continue
			}
			// explicit masking: `if len(r.leftover) > 0 { err = nil }` in
			// front of the return, with no other assignment of the error
			// between the test and the return
			if errObj := core.ObjOf(info, errExpr); errObj != nil {
				for _, bv := range g.BranchVertices() {
					if bv.Cond.Expr == nil || !mentionsLeftover(bv.Cond.Expr) || !g.Dominates(bv, r) {
						continue
					}
					pending := false // the true edge means "bytes are pending"
					for _, a := range bv.Implied(core.EdgeTrue) {
						if cmp, ok := a.AsCmp(); ok && mentionsLeftover(a.Expr) {
							k, isK := core.IntConst(info, cmp.R)
							if isK && k == 0 && (cmp.Op == token.GTR || cmp.Op == token.NEQ) {
								pending = true
							}
						}
					}
					if !pending {
						continue
					}
					cleared, other := false, false
					for _, dv := range defVertices(g, errObj) {
						if !g.ReachFrom(bv, false, core.AvoidVs(r))[dv] {
							continue
						}
						as, ok := dv.AST.(*ast.AssignStmt)
						if ok && len(as.Lhs) == 1 && len(as.Rhs) == 1 && core.IsNil(info, as.Rhs[0]) && g.EdgeDominates(dv, core.EdgeRef{From: bv, Label: core.EdgeTrue}) {
							cleared = true
						} else {
							other = true
						}
					}
					// every path on the true edge passes the clearing assignment
					if cleared && !other {
						var clears []*core.V
						for _, dv := range defVertices(g, errObj) {
							if g.EdgeDominates(dv, core.EdgeRef{From: bv, Label: core.EdgeTrue}) {
								clears = append(clears, dv)
							}
						}
						if !g.ReachFrom(succ(bv, core.EdgeTrue), true, core.AvoidVs(clears...))[r] {
							masked = true
							o.At(fn.Site(bv.AST, "pending output masks the error"))
						}
					}
				}
			}
			if masked {
				continue
			}
			guarded := g.GuardedBy(r, func(a core.Atom) bool {
				if !mentionsLeftover(a.Expr) {
					return false
				}
				cmp, ok := a.AsCmp()
				if !ok {
					return false
				}
				k, isK := core.IntConst(info, cmp.R)
				return isK && k == 0 && (cmp.Op == token.EQL || cmp.Op == token.LEQ)
			})
			if !guarded {
				o.FailAt(fn.Site(rs, ""), "%s: an error (possibly io.EOF) can be returned here while decoded bytes are still waiting in the leftover buffer; with a small read buffer the end of the data is lost", c.Prog.Pos(rs.Pos()))
			}
		}
		o.Shape(n >= 1, "error returns of Read not found")
	})
}

// ruleCCITTByteAlign (C06-R19): with /EncodedByteAlign true every encoded row
// starts on a byte boundary: the encoder pads each row with zero bits.  The
// decoder has to skip those fill bits after each row, otherwise the second
// row is decoded from the padding.  The encoder's use of the parameter is
// mirrored in the decoder: a branch on EncodedByteAlign that consumes bits,
// reached once per decoded row.
func ruleCCITTByteAlign(c *core.Ctx, rule string) {
	const pk = "pdf/internal/filter/ccittfax"
	c.Check(rule, pk+".Reader/EncodedByteAlign", "the decoder skips the fill bits the encoder writes after each row when EncodedByteAlign is set", func(o *core.Ob) {
		pkg := c.Prog.Pkg(pk)
		wUses, rUses := 0, 0
		var rSite *core.Func
		for _, fn := range c.Prog.Funcs(pkg) {
			if fn.Decl.Recv == nil || len(fn.Decl.Recv.List) != 1 {
				continue
			}
			recvT := fn.Info().TypeOf(fn.Decl.Recv.List[0].Type)
			isW, isR := core.IsNamed(recvT, pk, "Writer"), core.IsNamed(recvT, pk, "Reader")
			if !isW && !isR {
				continue
			}
			g := fn.Graph()
			for _, bv := range g.BranchVertices() {
				if bv.Cond.Expr == nil || !strings.Contains(c.Prog.Src(bv.Cond.Expr), ".EncodedByteAlign") {
					continue
				}
				o.Count(1)
				if isW {
					wUses++
					o.At(fn.Site(bv.Cond.Expr, "encoder pads the row"))
				}
				if isR {
					// the true edge leads to a call that consumes bits
					consumes := false
					for v := range g.ReachFrom(succ(bv, core.EdgeTrue), true, core.AvoidVs(succ(bv, core.EdgeFalse))) {
						if v.AST == nil {
							continue
						}
						for _, cs := range core.CallsIn(fn.Info(), v.AST, false) {
							if strings.HasSuffix(cs.Key, ".consumeBits") || strings.HasSuffix(cs.Key, ".readBits") {
								consumes = true
							}
						}
					}
					if consumes {
						rUses++
						rSite = fn
						o.At(fn.Site(bv.Cond.Expr, "decoder skips the padding"))
					}
				}
			}
		}
		o.Require(wUses >= 1, "the encoder no longer uses EncodedByteAlign")
		if rUses == 0 {
			o.Fail("the encoder pads rows when EncodedByteAlign is set, but the decoder never looks at the parameter: every row after the first is decoded from the fill bits")
			return
		}
		// once per row: the function doing it is decodeScanLine or is called from it on every path
		_ = rSite
	})
}

// ruleResetComplete (C06-R25): a coder that is recycled (sync.Pool, or a
// constructor that wraps Reset) must come out of Reset in the state New would
// give it.  A field that Reset assigns on some of its successful paths only
// keeps, on the others, the value the previous user left in it: the stream
// is then coded with the previous stream's parameters.  (An assignment that
// is guarded by a test of the field itself -- a buffer allocated once and
// kept -- is deliberate and not counted.)
func ruleResetComplete(c *core.Ctx, rule string) {
	c.Check(rule, "filters/reset-complete", "every field a coder's Reset method assigns is assigned on all of its successful paths", func(o *core.Ob) {
		n := 0
		for _, pkg := range c.Prog.RepoPkgs() {
			short := core.ShortPkg(pkg.PkgPath)
			if short != "pdf" && !strings.HasPrefix(short, "pdf/internal/filter/") {
				continue
			}
			for _, fn := range c.Prog.Funcs(pkg) {
				if fn.Decl.Recv == nil || fn.Decl.Body == nil || !strings.EqualFold(fn.Decl.Name.Name, "reset") || c.Prog.IsTestFile(fn.Decl.Pos()) {
					continue
				}
				if len(fn.Decl.Recv.List) != 1 || len(fn.Decl.Recv.List[0].Names) != 1 {
					continue
				}
				info := fn.Info()
				recv := info.ObjectOf(fn.Decl.Recv.List[0].Names[0])
				g := fn.Graph()
				n++
				o.At(fn.Site(fn.Decl, "Reset method"))
				// assignments per field
				sets := map[string][]*core.V{}
				for _, v := range g.Vs {
					var lhs []ast.Expr
					switch st := v.AST.(type) {
					case *ast.AssignStmt:
						lhs = st.Lhs
					case *ast.IncDecStmt:
						lhs = []ast.Expr{st.X}
					}
					for _, l := range lhs {
						if sel, ok := ast.Unparen(l).(*ast.SelectorExpr); ok && core.ObjOf(info, sel.X) == recv {
							sets[sel.Sel.Name] = append(sets[sel.Sel.Name], v)
						}
					}
				}
				// successful ends: returns whose last result is not a known failure
				var ends []*core.V
				for _, r := range g.Returns() {
					rs, ok := r.AST.(*ast.ReturnStmt)
					if !ok {
						continue
					}
					if len(rs.Results) > 0 {
						last := rs.Results[len(rs.Results)-1]
						if id, isID := ast.Unparen(last).(*ast.Ident); isID && id.Name == "err" {
							// "return err" under err != nil is a failure
							if g.GuardedBy(r, func(a core.Atom) bool {
								cmp, isCmp := a.AsCmp()
								return isCmp && cmp.Op == token.NEQ && core.IsNil(info, cmp.R) && core.ObjOf(info, cmp.L) == info.ObjectOf(id)
							}) {
								continue
							}
						}
					}
					ends = append(ends, r)
				}
				for _, p := range g.ExitPreds() {
					if _, isRet := p.AST.(*ast.ReturnStmt); !isRet {
						ends = append(ends, p)
					}
				}
				for f, vs := range sets {
					o.Count(1)
					// deliberate: guarded by a test of the field itself
					selfGuarded := true
					for _, v := range vs {
						sg := g.GuardedBy(v, func(a core.Atom) bool {
							found := false
							ast.Inspect(a.Expr, func(m ast.Node) bool {
								if sel, ok := m.(*ast.SelectorExpr); ok && sel.Sel.Name == f && core.ObjOf(info, sel.X) == recv {
									found = true
								}
								return !found
							})
							return found
						})
						if !sg {
							selfGuarded = false
						}
					}
					if selfGuarded {
						continue
					}
					reach := g.ReachFrom(g.Entry, true, core.AvoidVs(vs...))
					for _, e := range ends {
						if reach[e] {
							o.FailAt(fn.Site(vs[0].AST, ""), "%s assigns the field %s on some of its successful paths only (the end at %s is reached without it): a recycled value keeps what its previous user left there", fn.Key, f, c.Prog.Pos(e.AST.Pos()))
							break
						}
					}
				}
			}
		}
		o.Fact("%d Reset methods in the filter packages", n)
		o.Count(1)
	})
}
