package props

import (
	"go/ast"
	"go/token"
	"go/types"
	"sort"
	"strings"

	"pdfverif/internal/core"
)

func init() {
	register(&Property{
		ID: "C05",
		Patterns: []string{".", "./internal/pdftree", "./pagetree", "./outline", "./nametree", "./numtree", "./page", "./page/navnode", "./opaque", "./graphics/content",
			"./font/cmap", "./font/glyphdata/type1glyphs", "./internal/limits", "./internal/filter/dct"},
		Run: runC05,
		Explanation: "Structural preconditions of 'opening and walking arbitrary bytes returns or errors': (R1) bounded reference following — every cycle of the (statically resolved + interface-dispatched) call graph that contains an object-fetching call passes through a function with a recognised guard (CycleCheck.step/Seen, a depth parameter compared with a bound, or a visited-set keyed by Reference), and the flag-based guards of the object reader hold on every path (scalar-only mode is set before an object is parsed, /Length is resolved only by scanners backed by a file, the length getter reads in scalar-only mode) — the unbounded recursion through an object-stream member with a self-referential /Length was found here and fixed; " +
			"(R3) every size limit in the frozen table is compared in the function that grows the corresponding data, with an error/stop edge, and the constants are never assigned; sums compared with a cap are accumulated in 64 bits; (R4) every non-constant argument of the panicking helpers (NewReference, Discard, PeekN) is dominated by the check that establishes the precondition; (R5) every explicit panic in package pdf is in the reviewed table; (R6) decoded-stream readers and pipe readers are closed on every path or handed to an owner (the pipe leak in type1glyphs.FromStream was found here and fixed), and producer goroutines close their pipe writer on every path. " +
			"Decides these for all inputs; does NOT decide running time, memory totals, or panics from index/slice/nil in arbitrary code.",
	})
}

func runC05(c *core.Ctx) {
	c.Guard(func() { ruleRecursionGuards(c) })
	c.Guard(func() { ruleFlagGuards(c) })
	c.Guard(func() { ruleLimitTable(c) })
	c.Guard(func() { rulePanicTable(c) })
	c.Guard(func() { ruleStreamsClosed(c) })
	c.Guard(func() { ruleRefLimits(c, "C05-R4") })
	c.Guard(func() { rulePeekDiscardPre(c) })
	c.Guard(func() { ruleDepthDiscipline(c) })
	c.Guard(func() { ruleBudgetCharged(c) })
	c.Guard(func() { ruleUncheckedAssertions(c) })
	c.Guard(func() { ruleVisitedMonotone(c) })
	c.Guard(func() { ruleNoObjStmFromObjStm(c) })
	c.Guard(func() { ruleCyclePathCumulative(c) })
	c.Guard(func() { ruleFileValueAsKeyOrSize(c) })
}

// call graph -----------------------------------------------------------------

type cgNode struct {
	fn      *core.Func
	out     map[*cgNode]bool
	fetch   bool // contains an object-fetching call
	guarded bool
	guard   string
}

func isFetchCall(key string) bool {
	switch key {
	case "pdf.Getter.Get", "pdf.Resolve", "pdf.resolve", "pdf.(*Reader).Get", "pdf.(*Reader).get", "pdf.GetDict", "pdf.GetDictTyped", "pdf.GetArray", "pdf.GetStream",
		"pdf.GetInteger", "pdf.GetName", "pdf.GetString", "pdf.GetNumber", "pdf.getFromObjStm", "pdf.(*FileInfo).doRead":
		return true
	}
	if strings.HasPrefix(key, "pdf.Cursor.") {
		return true
	}
	return false
}

// recogniseGuard looks for one of the three guard idioms in fn.
func recogniseGuard(fn *core.Func) string {
	info := fn.Info()
	found := ""
	ast.Inspect(fn.Decl.Body, func(n ast.Node) bool {
		if found != "" {
			return false
		}
		switch x := n.(type) {
		case *ast.CallExpr:
			k := core.CalleeKey(info, x)
			if k == "pdf.(*CycleCheck).step" || k == "pdf.(*CycleCheck).Seen" || k == "pdf.(*CycleCheck).Step" {
				found = "g1 " + k
			}
		case *ast.AssignStmt:
			// g3 (comma-ok form): v, ok := table[ref]; if ok { return ... }
			if len(x.Lhs) == 2 && len(x.Rhs) == 1 {
				if ix, ok := ast.Unparen(x.Rhs[0]).(*ast.IndexExpr); ok {
					if mt, ok := info.TypeOf(ix.X).Underlying().(*types.Map); ok && strings.Contains(core.TypeString(mt.Key()), "Reference") {
						okObj := core.ObjOf(info, x.Lhs[1])
						ast.Inspect(fn.Decl.Body, func(m ast.Node) bool {
							if is, isIf := m.(*ast.IfStmt); isIf && okObj != nil && core.ObjOf(info, is.Cond) == okObj && exits(is.Body) {
								found = "g3 translation table " + core.ExprStr(ix.X)
							}
							return true
						})
					}
				}
			}
		case *ast.IfStmt:
			// g4: a shared work budget: if *remaining <= 0 { break } together with *remaining--
			if be, ok := ast.Unparen(x.Cond).(*ast.BinaryExpr); ok && (be.Op == token.LEQ || be.Op == token.LSS || be.Op == token.EQL) {
				if st, ok := ast.Unparen(be.X).(*ast.StarExpr); ok && exits(x.Body) {
					budget := core.ObjOf(info, st.X)
					dec := false
					ast.Inspect(fn.Decl.Body, func(m ast.Node) bool {
						if id, isInc := m.(*ast.IncDecStmt); isInc && id.Tok == token.DEC {
							if s2, ok := ast.Unparen(id.X).(*ast.StarExpr); ok && core.ObjOf(info, s2.X) == budget {
								dec = true
							}
						}
						return true
					})
					if dec && budget != nil {
						found = "g4 shared work budget *" + budget.Name()
						return false
					}
				}
			}
			// g3: if seen[ref] { ... return/continue }
			ast.Inspect(x.Cond, func(m ast.Node) bool {
				if ix, ok := m.(*ast.IndexExpr); ok {
					if mt, ok := info.TypeOf(ix.X).Underlying().(*types.Map); ok {
						kt := core.TypeString(mt.Key())
						if kt == "pdf.Reference" || strings.Contains(kt, "Reference") || kt == "int64" {
							if exits(x.Body) {
								found = "g3 visited-set " + core.ExprStr(ix.X)
							}
						}
					}
				}
				return true
			})
			if found != "" {
				return false
			}
			// g2: depth compared with a bound, exit
			if be, ok := ast.Unparen(x.Cond).(*ast.BinaryExpr); ok {
				check := func(e ast.Expr) bool {
					s := strings.ToLower(core.ExprStr(e))
					return strings.Contains(s, "depth") || strings.Contains(s, "level") || strings.Contains(s, "nest")
				}
				switch be.Op {
				case token.GTR, token.GEQ, token.LSS, token.LEQ:
					if (check(be.X) || check(be.Y)) && exits(x.Body) {
						found = "g2 depth bound " + core.ExprStr(x.Cond)
					}
				}
			}
		}
		return true
	})
	return found
}

func exits(b *ast.BlockStmt) bool {
	for _, s := range b.List {
		switch x := s.(type) {
		case *ast.ReturnStmt:
			return true
		case *ast.BranchStmt:
			if x.Tok == token.CONTINUE || x.Tok == token.BREAK {
				return true
			}
		}
	}
	return false
}

func ruleRecursionGuards(c *core.Ctx) {
	const rule = "C05-R1"
	// build the graph over all loaded repository packages
	nodes := map[*types.Func]*cgNode{}
	var all []*cgNode
	for _, pkg := range c.Prog.RepoPkgs() {
		for _, fn := range c.Prog.Funcs(pkg) {
			n := &cgNode{fn: fn, out: map[*cgNode]bool{}}
			nodes[fn.Obj] = n
			all = append(all, n)
		}
	}
	// interface implementations among loaded named types
	var named []types.Type
	for _, pkg := range c.Prog.RepoPkgs() {
		for _, name := range pkg.Types.Scope().Names() {
			if tn, ok := pkg.Types.Scope().Lookup(name).(*types.TypeName); ok && !tn.IsAlias() {
				if _, isIface := tn.Type().Underlying().(*types.Interface); !isIface {
					named = append(named, tn.Type(), types.NewPointer(tn.Type()))
				}
			}
		}
	}
	implCache := map[*types.Func][]*cgNode{}
	impls := func(m *types.Func, recv types.Type) []*cgNode {
		if v, ok := implCache[m]; ok {
			return v
		}
		var out []*cgNode
		iface, _ := recv.Underlying().(*types.Interface)
		if iface != nil {
			for _, t := range named {
				if !types.Implements(t, iface) {
					continue
				}
				obj, _, _ := types.LookupFieldOrMethod(t, true, m.Pkg(), m.Name())
				if f, ok := obj.(*types.Func); ok {
					if n := nodes[f.Origin()]; n != nil {
						out = append(out, n)
					}
				}
			}
		}
		implCache[m] = out
		return out
	}
	for _, n := range all {
		info := n.fn.Info()
		for _, cs := range core.CallsIn(info, n.fn.Decl, true) {
			if isFetchCall(cs.Key) {
				n.fetch = true
			}
			if cs.Fn == nil {
				continue
			}
			if t := nodes[cs.Fn]; t != nil {
				n.out[t] = true
				continue
			}
			// interface method (interfaces declared in the repository only: dispatch through
			// io.Closer, fmt.Stringer etc. would connect everything with everything)
			if sig, ok := cs.Fn.Type().(*types.Signature); ok && sig.Recv() != nil && cs.Fn.Pkg() != nil && strings.HasPrefix(cs.Fn.Pkg().Path(), core.ModulePath) {
				if _, isIface := sig.Recv().Type().Underlying().(*types.Interface); isIface {
					for _, t := range impls(cs.Fn, sig.Recv().Type()) {
						n.out[t] = true
					}
				}
			}
		}
		// function references passed as arguments (Decode(c, obj, ExtractX)): the callee, not the
		// caller, is the one that invokes them, so the edge starts at the callee
		argRefs := map[*ast.Ident]bool{}
		for _, cs := range core.CallsIn(info, n.fn.Decl, true) {
			var calleeNode *cgNode
			if cs.Fn != nil {
				calleeNode = nodes[cs.Fn]
			}
			for _, a := range cs.Call.Args {
				var id *ast.Ident
				switch x := ast.Unparen(a).(type) {
				case *ast.Ident:
					id = x
				case *ast.SelectorExpr:
					id = x.Sel
				}
				if id == nil {
					continue
				}
				if f, ok := info.Uses[id].(*types.Func); ok {
					if t := nodes[f.Origin()]; t != nil && calleeNode != nil {
						calleeNode.out[t] = true
						argRefs[id] = true
					}
				}
			}
		}
		// other function references (stored in variables, returned): conservatively called from here
		ast.Inspect(n.fn.Decl.Body, func(m ast.Node) bool {
			if id, ok := m.(*ast.Ident); ok && !argRefs[id] {
				if f, ok := info.Uses[id].(*types.Func); ok {
					if t := nodes[f.Origin()]; t != nil {
						n.out[t] = true
					}
				}
			}
			return true
		})
		n.guard = recogniseGuard(n.fn)
		n.guarded = n.guard != ""
	}
	// the cycle check may sit in an unexported helper of the same package that
	// reports the cycle as an error (followCached for Decode): the caller that
	// invokes the helper is guarded like the helper
	for _, n := range all {
		if n.guarded {
			continue
		}
		for _, cs := range core.CallsIn(n.fn.Info(), n.fn.Decl, true) {
			if cs.Fn == nil || cs.Fn.Exported() || cs.Fn.Pkg() != n.fn.Obj.Pkg() {
				continue
			}
			t := nodes[cs.Fn.Origin()]
			if t == nil || !strings.HasPrefix(t.guard, "g1 ") {
				continue
			}
			sig := cs.Fn.Type().(*types.Signature)
			if sig.Results().Len() > 0 && core.TypeString(sig.Results().At(sig.Results().Len()-1).Type()) == "error" {
				n.guarded = true
				n.guard = "g1 through helper " + t.fn.Key
			}
		}
	}
	// thin wrappers that only forward to a guarded function are guarded too (DecodeOptional -> Decode)
	for changed := true; changed; {
		changed = false
		for _, n := range all {
			if n.guarded || len(n.fn.Decl.Body.List) != 1 {
				continue
			}
			rs, ok := n.fn.Decl.Body.List[0].(*ast.ReturnStmt)
			if !ok {
				continue
			}
			for _, cs := range core.CallsIn(n.fn.Info(), rs, false) {
				if cs.Fn != nil {
					if t := nodes[cs.Fn]; t != nil && t.guarded {
						n.guarded = true
						n.guard = "forwards to " + t.fn.Key
						changed = true
					}
				}
			}
		}
	}
	// Tarjan on the graph without guarded nodes
	index := 0
	idx := map[*cgNode]int{}
	low := map[*cgNode]int{}
	on := map[*cgNode]bool{}
	var stack []*cgNode
	var sccs [][]*cgNode
	var strong func(v *cgNode)
	strong = func(v *cgNode) {
		index++
		idx[v], low[v] = index, index
		stack = append(stack, v)
		on[v] = true
		for w := range v.out {
			if w.guarded {
				continue
			}
			if idx[w] == 0 {
				strong(w)
				if low[w] < low[v] {
					low[v] = low[w]
				}
			} else if on[w] && idx[w] < low[v] {
				low[v] = idx[w]
			}
		}
		if low[v] == idx[v] {
			var comp []*cgNode
			for {
				w := stack[len(stack)-1]
				stack = stack[:len(stack)-1]
				on[w] = false
				comp = append(comp, w)
				if w == v {
					break
				}
			}
			if len(comp) > 1 || comp[0].out[comp[0]] {
				sccs = append(sccs, comp)
			}
		}
	}
	sort.Slice(all, func(i, j int) bool { return all[i].fn.Key < all[j].fn.Key })
	for _, n := range all {
		if !n.guarded && idx[n] == 0 {
			strong(n)
		}
	}
	nGuarded := 0
	for _, n := range all {
		if n.guarded {
			nGuarded++
		}
	}
	// in-memory recursions that cannot fetch are listed, not alarmed
	c.Check(rule, "call-graph", "the call graph of the loaded packages was built (static calls, interface dispatch over all loaded types, function references)", func(o *core.Ob) {
		o.Count(len(all))
		o.Fact("%d functions, %d with a recognised guard, %d unguarded recursive components", len(all), nGuarded, len(sccs))
		o.Shape(len(all) > 1500, "only %d functions in the call graph", len(all))
		o.Shape(nGuarded >= 20, "only %d guarded functions recognised, expected at least 20", nGuarded)
	})
	for _, comp := range sccs {
		comp := comp
		fetch := false
		var names []string
		for _, n := range comp {
			names = append(names, n.fn.Key)
			if n.fetch {
				fetch = true
			}
		}
		sort.Strings(names)
		key := names[0]
		if len(names) > 1 {
			key += "+" + itoa(len(names)-1)
		}
		c.Check(rule, "scc:"+key, "a recursive component that can fetch indirect objects contains a cycle or depth guard (otherwise a reference cycle in the file recurses without bound)", func(o *core.Ob) {
			for i, n := range comp {
				if i < 6 {
					o.At(n.fn.Site(n.fn.Decl, "in unguarded recursive component"))
				}
			}
			o.Count(len(comp))
			if !fetch {
				o.Fact("in-memory recursion (no object fetch inside): bounded by the depth of values the scanner already limits")
				return
			}
			if why, ok := c05ReviewedSCC[key]; ok {
				o.Fact("reviewed: %s", why)
				return
			}
			o.Fail("recursive component {%s} fetches objects but none of its functions has a recognised guard (CycleCheck, depth bound, visited-set)", strings.Join(names, ", "))
		})
	}
}

// recursive components that fetch and are bounded by something the three
// idioms do not capture; each with the reason found by reading.
var c05ReviewedSCC = map[string]string{}

func ruleFlagGuards(c *core.Ctx) {
	const rule = "C05-R1"
	c.Check(rule, "pdf.(*scanner).ReadStreamData/file-before-length", "an indirect /Length is resolved only by scanners that are backed by a file: object-stream members and in-memory parses can never trigger reading other objects (found: unbounded recursion through a self-referential /Length inside an object stream)", func(o *core.Ob) {
		fn := c.Prog.Func("pdf", "(*scanner).ReadStreamData")
		g := fn.Graph()
		info := fn.Info()
		var gi []*core.V
		for _, v := range g.Vs {
			if v.AST == nil {
				continue
			}
			for _, cs := range core.CallsIn(info, v.AST, false) {
				if se, ok := cs.Call.Fun.(*ast.SelectorExpr); ok && se.Sel.Name == "getInt" {
					gi = append(gi, v)
					o.At(fn.Site(cs.Call, "resolves /Length"))
				}
			}
		}
		o.Shape(len(gi) == 1, "expected one /Length resolution, found %d", len(gi))
		for _, v := range gi {
			ok := g.GuardedBy(v, func(a core.Atom) bool {
				cmp, isCmp := a.AsCmp()
				if !isCmp || cmp.Op != token.NEQ || !core.IsNil(info, cmp.R) {
					return false
				}
				s := core.ExprStr(cmp.L)
				if s == "s.fileReader" {
					return true
				}
				if obj := core.ObjOf(info, cmp.L); obj != nil {
					for _, d := range core.AssignsTo(info, fn.Decl, obj) {
						if as, ok := d.(*ast.AssignStmt); ok && core.ExprStr(as.Rhs[0]) == "s.fileReader" {
							return true
						}
					}
				}
				return false
			})
			if !ok {
				o.Fail("/Length is resolved before the scanner is known to be backed by a file")
			}
		}
	})
	c.Check(rule, "pdf.(*Reader).get/scalar-only", "the scalar-only flag that stops /Length resolution from recursing is installed in the scanner before the object is parsed, and the length getter always asks for scalar-only mode", func(o *core.Ob) {
		fn := c.Prog.Func("pdf", "(*Reader).get")
		g := fn.Graph()
		var set *core.V
		for _, v := range g.Vs {
			if as, ok := v.AST.(*ast.AssignStmt); ok && c.Prog.Src(as) == "s.scalarOnly=scalarOnly" {
				set = v
				o.At(fn.Site(as, "flag installed"))
			}
		}
		if set == nil {
			o.Count(1)
			o.Fail("Reader.get does not install scalarOnly in the scanner")
			return
		}
		for _, cv := range callVerticesSuffix(g, ".ReadIndirectObject") {
			o.At(fn.Site(cv.Call, "parse"))
			o.Require(g.Dominates(set, cv.V), "an object is parsed before scalar-only mode is installed")
		}
		lg := c.Prog.Func("pdf", "lengthGetter.Get")
		o.At(lg.Site(lg.Decl, "length getter"))
		o.Shape(strings.Contains(c.Prog.Src(lg.Decl.Body), "g.Reader.get(ref,canObjStm,true)"), "the length getter does not read in scalar-only mode")
		ro := c.Prog.Func("pdf", "(*scanner).ReadObject")
		rg := ro.Graph()
		// composite kinds are refused in scalar-only mode: a condition on s.scalarOnly with an error exit dominates ReadDict/ReadArray/ReadStreamData
		for _, cv := range callVerticesSuffix(rg, ".ReadDict", ".ReadArray", ".ReadStreamData") {
			o.At(ro.Site(cv.Call, "composite"))
			ok := rg.GuardedBy(cv.V, func(a core.Atom) bool {
				return a.Neg && a.Tag == nil && strings.HasSuffix(core.ExprStr(a.Expr), ".scalarOnly")
			})
			o.Require(ok, "%s is reachable in scalar-only mode", cv.Key)
		}
	})
}

// limits -----------------------------------------------------------------------

type limitUse struct {
	pkg, fn, limit string
}

var c05Limits = []limitUse{
	{"pdf", "(*scanner).ReadString", "maxStringBytes"},
	{"pdf", "(*scanner).ReadHexString", "maxStringBytes"},
	{"pdf", "(*scanner).ReadName", "maxNameBytes"},
	{"pdf", "(*scanner).ReadInteger", "maxNameBytes"},
	{"pdf", "(*scanner).ReadNumber", "maxNameBytes"},
	{"pdf", "(*scanner).ReadArray", "maxArrayLen"},
	{"pdf", "(*scanner).ReadDict", "maxDictLen"},
	{"pdf", "(*scanner).ReadArray", "maxScannerNestDepth"},
	{"pdf", "(*scanner).ReadDict", "maxScannerNestDepth"},
	{"pdf", "readXRefTable", "maxXRefSize"},
	{"pdf", "checkXRefStreamDict", "maxXRefSize"},
	{"pdf", "decodeXRefStream", "maxXRefSize"},
	{"pdf", "(*FileInfo).locateObjects", "maxXRefSize"},
	{"pdf", "GetFilters", "maxFilterChainLength"},
	{"pdf/graphics/content", "(*scanner).Scan", "maxOperatorArgs"},
	{"pdf/graphics/content", "(*scanner).Scan", "maxContentNestDepth"},
	{"pdf/graphics/content", "(*scanner).readValueDepth", "maxValueDepth"},
	{"pdf/graphics/content", "(*scanner).readInlineImage", "maxInlineImageBytes"},
	{"pdf/graphics/content", "(*scanner).readInlineImage", "maxInlineImageDim"},
	{"pdf/graphics/content", "(*scanner).readInlineImage", "maxInlineImagePixels"},
	{"pdf/graphics/content", "(*scanner).ReadString", "maxStringBytes"},
	{"pdf/graphics/content", "(*scanner).ReadHexString", "maxStringBytes"},
	{"pdf/graphics/content", "(*scanner).ReadName", "maxNameBytes"},
}

func ruleLimitTable(c *core.Ctx) {
	const rule = "C05-R3"
	c.Floor(rule, len(c05Limits))
	for _, lu := range c05Limits {
		lu := lu
		c.Check(rule, lu.pkg+"."+lu.fn+"/"+lu.limit, "the size limit is compared in the function that grows the data, and exceeding it leads to an error or stops the growth", func(o *core.Ob) {
			fn := c.Prog.Func(lu.pkg, lu.fn)
			pkg := c.Prog.Pkg(lu.pkg)
			lim := pkg.Types.Scope().Lookup(lu.limit)
			if lim == nil {
				core.Undecided("limit %s.%s not found", lu.pkg, lu.limit)
			}
			if _, isConst := lim.(*types.Const); !isConst {
				// a package-level variable (so that tests can lower it) that no non-test code assigns
				for _, f2 := range c.Prog.Funcs(pkg) {
					for _, d := range core.AssignsTo(f2.Info(), f2.Decl, lim) {
						o.FailAt(f2.Site(d, ""), "the limit %s is changed at run time", lu.limit)
					}
				}
				_, init, _ := c.Prog.Var(lu.pkg, lu.limit)
				if init == nil || core.ConstOf(pkg.TypesInfo, init) == nil {
					o.Fail("%s has no constant initialiser", lu.limit)
				}
			}
			info := fn.Info()
			found := false
			graphs := []*core.Graph{fn.Graph()}
			ast.Inspect(fn.Decl.Body, func(n ast.Node) bool {
				if lit, ok := n.(*ast.FuncLit); ok {
					graphs = append(graphs, fn.LitGraph(lit))
				}
				return true
			})
			// unexported functions and methods of the package that the body
			// refers to (called, or handed on as a method value instead of a closure)
			seenFn := map[*core.Func]bool{fn: true}
			var addRefs func(f *core.Func, depth int)
			addRefs = func(f *core.Func, depth int) {
				ast.Inspect(f.Decl.Body, func(n ast.Node) bool {
					id, ok := n.(*ast.Ident)
					if !ok {
						return true
					}
					tf, ok := f.Info().Uses[id].(*types.Func)
					if !ok || tf.Exported() || tf.Pkg() == nil || tf.Pkg() != fn.Obj.Pkg() {
						return true
					}
					if rf := c.Prog.FuncOf(tf); rf != nil && !seenFn[rf] && rf.Decl.Body != nil {
						seenFn[rf] = true
						graphs = append(graphs, rf.Graph())
						ast.Inspect(rf.Decl.Body, func(m ast.Node) bool {
							if lit, ok := m.(*ast.FuncLit); ok {
								graphs = append(graphs, rf.LitGraph(lit))
							}
							return true
						})
						if depth > 0 {
							addRefs(rf, depth-1)
						}
					}
					return true
				})
			}
			addRefs(fn, 1)
			for _, g := range graphs {
				// locals that hold the limit (limit := maxStringBytes, read once per call)
				holds := map[types.Object]bool{lim: true}
				for _, v := range g.Vs {
					as, ok := v.AST.(*ast.AssignStmt)
					if !ok || len(as.Lhs) != len(as.Rhs) {
						continue
					}
					for i, l := range as.Lhs {
						if obj := core.ObjOf(g.Info, l); obj != nil && core.ObjOf(g.Info, stripConv(g.Info, as.Rhs[i])) == lim && len(defVertices(g, obj)) == 1 {
							holds[obj] = true
						}
					}
				}
				// comparisons with the limit, wherever they are evaluated: in a condition, or in
				// the definition of a boolean local that names the condition (isFull := len(d) >= max)
				var exprs []ast.Expr
				for _, bv := range g.BranchVertices() {
					if bv.Cond.Expr != nil {
						exprs = append(exprs, bv.Cond.Expr)
					}
				}
				for _, v := range g.Vs {
					switch st := v.AST.(type) {
					case *ast.AssignStmt:
						exprs = append(exprs, st.Rhs...)
					case *ast.ValueSpec:
						exprs = append(exprs, st.Values...)
					case *ast.ReturnStmt:
						exprs = append(exprs, st.Results...)
					}
				}
				for _, condExpr := range exprs {
					mentionsAny := false
					for h := range holds {
						if core.Mentions(g.Info, condExpr, h) {
							mentionsAny = true
						}
					}
					if !mentionsAny {
						continue
					}
					// find the comparison with the limit
					ast.Inspect(condExpr, func(n ast.Node) bool {
						be, ok := n.(*ast.BinaryExpr)
						if !ok {
							return true
						}
						switch be.Op {
						case token.GTR, token.GEQ, token.LSS, token.LEQ:
							if holds[core.ObjOf(info, stripConv(info, be.X))] || holds[core.ObjOf(info, stripConv(info, be.Y))] {
								found = true
								o.At(fn.Site(be, "compares with "+lu.limit))
							}
						}
						return true
					})
				}
			}
			o.Require(found, "%s does not compare anything with %s", fn.Key, lu.limit)
		})
	}
	c.Check(rule, "pdf.checkXRefStreamDict/total", "the number of cross-reference entries is summed in 64 bits before it is compared with the cap (a 32-bit sum of attacker-chosen subsection sizes wraps around)", func(o *core.Ob) {
		fn := c.Prog.Func("pdf", "checkXRefStreamDict")
		g := fn.Graph()
		info := fn.Info()
		var total types.Object
		for _, bv := range g.BranchVertices() {
			if bv.Cond.Expr == nil {
				continue
			}
			if be, ok := ast.Unparen(bv.Cond.Expr).(*ast.BinaryExpr); ok && be.Op == token.GTR && core.ExprStr(be.Y) == "maxEntries" {
				total = core.ObjOf(info, be.X)
				o.At(fn.Site(be, "cap comparison"))
			}
		}
		if total == nil {
			o.Count(1)
			o.Fail("no comparison of the entry count with maxEntries")
			return
		}
		b, ok := total.Type().Underlying().(*types.Basic)
		o.Require(ok && (b.Kind() == types.Int64 || b.Kind() == types.Uint64), "the entry count is accumulated in %s; it must be a 64-bit integer", core.TypeString(total.Type()))
		// accumulated with += of a widened value
		okAdd := false
		for _, d := range core.AssignsTo(info, fn.Decl, total) {
			if as, ok := d.(*ast.AssignStmt); ok && as.Tok == token.ADD_ASSIGN {
				if call, ok := as.Rhs[0].(*ast.CallExpr); ok {
					if tv, ok := info.Types[call.Fun]; ok && tv.IsType() {
						if bb, ok := tv.Type.Underlying().(*types.Basic); ok && (bb.Kind() == types.Int64 || bb.Kind() == types.Uint64) {
							okAdd = true
						}
					}
				}
			}
		}
		o.Require(okAdd, "the summands are not widened to 64 bits before they are added")
		src := c.Prog.Src(fn.Decl.Body)
		o.Shape(strings.Contains(src, "maxEntries:=min(int64(maxXRefSize),limits.MaxXRefEntries(rawLen))"), "the cap is not min(maxXRefSize, MaxXRefEntries(rawLen))")
	})
	c.Check(rule, "pdf.getObjStm/N", "the number of objects in an object stream is capped before the index is allocated", func(o *core.Ob) {
		fn := c.Prog.Func("pdf", "getObjStm")
		g := fn.Graph()
		info := fn.Info()
		var mk *core.V
		for _, v := range g.Vs {
			if v.AST == nil {
				continue
			}
			for _, cs := range core.CallsIn(info, v.AST, false) {
				if cs.Key == "builtin.make" && len(cs.Call.Args) == 2 && core.ExprStr(cs.Call.Args[1]) == "n" {
					mk = v
					o.At(fn.Site(cs.Call, "index allocation"))
				}
			}
		}
		if mk == nil {
			o.Count(1)
			o.Unrec("index allocation not found")
			return
		}
		ok := g.GuardedBy(mk, func(a core.Atom) bool {
			// negation of (!ok || N < 0 || N > 10000)
			s := strings.ReplaceAll(core.ExprStr(a.Expr), " ", "")
			return a.Neg && strings.Contains(s, "N>10000") || !a.Neg && strings.Contains(s, "N<=10000")
		})
		o.Require(ok, "the index is allocated without the N <= 10000 cap")
	})
}

// panics -------------------------------------------------------------------------

var c05Panics = map[string]string{
	"pdf.NewReference":                      "documented precondition; read-path callers are checked by C05-R4",
	"pdf.(*scanner).PeekN":                  "precondition n <= scannerBufSize; all callers pass constants (C05-R4)",
	"pdf.(*scanner).Discard":                "precondition n >= 0; callers checked by C05-R4",
	"pdf.(*scanner).SkipAfter":              "constant patterns only",
	"pdf.(*FileInfo).doRead":                "the object header was matched by the marker regexp at this position; a different reference cannot be parsed from the same bytes",
	"pdf.(*FileInfo).locateObjects":         "default of a switch over the alternatives of the marker regexp",
	"pdf.RawStreamReader":                   "after an exhaustive switch over cryptRecipe (C11-R4)",
	"pdf.(*stdSecHandler).KeyForRef":        "R validated to 2..6 by openStdSecHandler before the handler exists",
	"pdf.(*stdSecHandler).computeU":         "R validated to 2..6",
	"pdf.(*stdSecHandler).authenticateUser": "R validated to 2..6",
	"pdf.createStdSecHandler":               "write path; R chosen by the switch above",
	"pdf.(*encryptInfo).EncryptBytes":       "cipher set only to RC4/AES by parseEncryptDict/getCryptFilter/NewWriter",
	"pdf.(*encryptInfo).DecryptBytes":       "cipher set only to RC4/AES",
	"pdf.(*encryptInfo).EncryptStream":      "cipher set only to RC4/AES",
	"pdf.(*encryptInfo).DecryptStream":      "cipher set only to RC4/AES",
	"pdf.doFormat":                          "write path: unknown Native implementation (programmer error)",
	"pdf.(*EmbedHelper).EmbedAt":            "write path: programmer error (embedding at a reference twice)",
	"pdf.IsDirect":                          "write-side helper: unknown Native implementation (programmer error)",
	"pdf.AsString":                          "debug formatting helper over in-memory objects",
	"pdf.(*Writer).Alloc":                   "write path: more than 2^24 objects allocated",
}

func rulePanicTable(c *core.Ctx) {
	const rule = "C05-R5"
	c.Check(rule, "pdf/panics", "every explicit panic in package pdf is in the reviewed table (a new panic on the read path would turn a malformed file into a crash)", func(o *core.Ob) {
		pkg := c.Prog.Pkg("pdf")
		n := 0
		// a reviewed function that no longer exists under its name was renamed, split or removed: the table cannot
		// be matched against the tree then, and a panic outside the table is not known to be new
		gone := ""
		present := map[string]bool{}
		for _, fn := range c.Prog.Funcs(pkg) {
			present[fn.Key] = true
		}
		for key := range c05Panics {
			if !present[key] && (gone == "" || key < gone) {
				gone = key
			}
		}
		for _, fn := range c.Prog.Funcs(pkg) {
			info := fn.Info()
			for _, cs := range core.CallsIn(info, fn.Decl, true) {
				if cs.Key != "builtin.panic" {
					continue
				}
				n++
				o.At(fn.Site(cs.Call, "panic"))
				if _, ok := c05Panics[fn.Key]; !ok {
					if gone != "" {
						o.Unrec("panic in %s is not in the reviewed table, and the reviewed function %s no longer exists under that name", fn.Key, gone)
						continue
					}
					// write-side or programmer-error panics in functions that cannot be reached from parsing are accepted when the function is not reachable from the read API; we require review instead
					o.FailAt(fn.Site(cs.Call, ""), "panic in %s is not in the reviewed table", fn.Key)
				}
			}
		}
		o.Shape(n >= 15, "only %d panics found", n)
	})
	c.Check(rule, "pdf/cipher-domain", "the cipher of a crypt filter can only be RC4 or AES when an encrypt/decrypt function runs (their default panics are unreachable)", func(o *core.Ob) {
		pkg := c.Prog.Pkg("pdf")
		n := 0
		for _, fn := range c.Prog.Funcs(pkg) {
			info := fn.Info()
			ast.Inspect(fn.Decl, func(m ast.Node) bool {
				cl, ok := m.(*ast.CompositeLit)
				if !ok || !core.IsNamed(info.TypeOf(cl), "pdf", "cryptFilter") {
					return true
				}
				n++
				f := compositeFields(info, cl)
				o.At(fn.Site(cl, "cryptFilter literal"))
				ci := core.ExprStr(f["Cipher"])
				if f["Cipher"] == nil {
					// getCryptFilter fills it from CFM below; checked there
					return true
				}
				if ci != "cipherRC4" && ci != "cipherAES" {
					// a value taken from a table of schemes: every row of the table must carry one of the two
					dom, ok := structFieldDomain(c, pkg, info, f["Cipher"])
					good := ok && len(dom) > 0
					for v := range dom {
						if v != "cipherRC4" && v != "cipherAES" {
							good = false
						}
					}
					if ok && good {
						o.Fact("cipher taken from a table with the values %s", joinSet(dom))
						return true
					}
				}
				if ci != "cipherRC4" && ci != "cipherAES" {
					// a local or a field of a local struct that is only ever given one of the two
					target := strings.ReplaceAll(ci, " ", "")
					var vals []string
					unknown := false
					ast.Inspect(fn.Decl, func(k ast.Node) bool {
						as, isAs := k.(*ast.AssignStmt)
						if !isAs || len(as.Lhs) != len(as.Rhs) {
							return true
						}
						for i, l := range as.Lhs {
							if strings.ReplaceAll(core.ExprStr(l), " ", "") != target {
								continue
							}
							if id, isID := ast.Unparen(as.Rhs[i]).(*ast.Ident); isID {
								if _, isConst := info.ObjectOf(id).(*types.Const); isConst {
									vals = append(vals, id.Name)
									continue
								}
							}
							unknown = true
						}
						return true
					})
					good := len(vals) > 0 && !unknown
					for _, v := range vals {
						if v != "cipherRC4" && v != "cipherAES" {
							good = false
							o.FailAt(fn.Site(cl, ""), "crypt filter created with cipher %s, which can be %s", ci, v)
						}
					}
					if good {
						o.Fact("cipher %s is only ever given %v", ci, vals)
						return true
					}
					if len(vals) == 0 || unknown {
						o.Unrec("%s: crypt filter created with cipher %s: the values it can take were not collected", c.Prog.Pos(cl.Pos()), ci)
						return true
					}
					return true
				}
				return true
			})
		}
		o.Shape(n >= 5, "only %d crypt filter literals found", n)
		gc := c.Prog.Func("pdf", "getCryptFilter")
		src := c.Prog.Src(gc.Decl.Body)
		o.At(gc.Site(gc.Decl, "CFM table"))
		o.Shape(strings.Contains(src, "default:") && strings.Contains(src, "return nil,") || strings.Contains(src, "returnnil,"), "getCryptFilter has no rejecting default for unknown CFM")
		os := c.Prog.Func("pdf", "openStdSecHandler")
		o.Shape(strings.Contains(c.Prog.Src(os.Decl.Body), "ifR<2||R>6{returnnil,&MalformedFileError{"), "openStdSecHandler does not reject revisions outside 2..6")
	})
}

// streams closed -----------------------------------------------------------------

func ruleStreamsClosed(c *core.Ctx) {
	const rule = "C05-R6"
	acquire := map[string]bool{"pdf.DecodeStream": true, "pdf.RawStreamReader": true, "pdf.Cursor.StreamReader": true, "pdf.getObjStm": true,
		"pdf.(*Stream).NewReader": false}
	release := map[string]bool{"Close": true, "CloseWithError": true}
	n := 0
	perFn := map[string]int{}
	for _, pkg := range c.Prog.RepoPkgs() {
		for _, fn := range c.Prog.Funcs(pkg) {
			fn := fn
			info := fn.Info()
			graphs := []*core.Graph{fn.Graph()}
			ast.Inspect(fn.Decl.Body, func(m ast.Node) bool {
				if lit, ok := m.(*ast.FuncLit); ok {
					graphs = append(graphs, fn.LitGraph(lit))
				}
				return true
			})
			for _, g := range graphs {
				for _, v := range g.Vs {
					as, ok := v.AST.(*ast.AssignStmt)
					if !ok || len(as.Rhs) != 1 {
						continue
					}
					call, ok := ast.Unparen(as.Rhs[0]).(*ast.CallExpr)
					if !ok {
						continue
					}
					key := core.CalleeKey(info, call)
					isPipe := key == "io.Pipe"
					if !acquire[key] && !isPipe {
						continue
					}
					obj := core.ObjOf(info, as.Lhs[0])
					if obj == nil {
						continue
					}
					v := v
					g := g
					n++
					perFn[fn.Key+"/"+key]++
					c.Check(rule, fn.Key+"/"+key+"#"+itoa(perFn[fn.Key+"/"+key]), "a decoded-stream reader / pipe reader is closed on every path or handed to an owner (an unclosed pipe reader leaves its producer goroutine blocked forever)", func(o *core.Ob) {
						o.At(fn.Site(call, "acquires "+obj.Name()))
						f := core.CheckReleased(g, v, obj, release, func(cl *ast.CallExpr) bool {
							k := core.CalleeKey(info, cl)
							// readers that consume but do not own
							switch k {
							case "io.ReadAll", "io.Copy", "io.CopyN", "io.ReadFull", "io.LimitReader", "bufio.NewReader", "io.TeeReader", "pdf.newScanner",
								"seehuhn.de/go/postscript/type1.Read", "seehuhn.de/go/postscript/cmap.Read", "encoding/binary.Read":
								return true
							}
							return strings.HasSuffix(k, ".Read") || strings.HasPrefix(k, "io.")
						})
						if f != nil {
							o.Fail("%s: %s", c.Prog.Pos(f.Acquire.Pos()), f.Detail)
						}
						if isPipe && len(as.Lhs) == 2 {
							// the producer closes the writer on every path of its goroutine
							w := core.ObjOf(info, as.Lhs[1])
							okW := false
							ast.Inspect(fn.Decl.Body, func(m ast.Node) bool {
								gs, ok := m.(*ast.GoStmt)
								if !ok {
									return true
								}
								lit, ok := gs.Call.Fun.(*ast.FuncLit)
								if !ok || !core.Mentions(info, lit, w) {
									return true
								}
								lg := fn.LitGraph(lit)
								var closes []*core.V
								deferred := false
								for _, x := range lg.Vs {
									if x.AST == nil {
										continue
									}
									ast.Inspect(x.AST, func(mm ast.Node) bool {
										if cl, ok := mm.(*ast.CallExpr); ok {
											if se, ok := cl.Fun.(*ast.SelectorExpr); ok && release[se.Sel.Name] && core.ObjOf(info, se.X) == w {
												closes = append(closes, x)
												if _, isDefer := x.AST.(*ast.DeferStmt); isDefer {
													deferred = true
												}
											}
										}
										return true
									})
								}
								if deferred || (len(closes) > 0 && !lg.ReachFrom(lg.Entry, true, core.AvoidVs(closes...))[lg.Exit]) {
									okW = true
								}
								return true
							})
							o.Require(okW, "the producer goroutine does not close the pipe writer on every path")
						}
					})
				}
			}
		}
	}
	c.Floor(rule, 12)
}

func rulePeekDiscardPre(c *core.Ctx) {
	const rule = "C05-R4"
	c.Check(rule, "pdf.(*scanner).PeekN/callers", "PeekN panics for windows larger than the buffer: every caller passes a constant not larger than scannerBufSize (or a length bounded by it)", func(o *core.Ob) {
		pkg := c.Prog.Pkg("pdf")
		bufSize := c.Prog.ConstInt("pdf", "scannerBufSize")
		n := 0
		for _, fn := range c.Prog.Funcs(pkg) {
			info := fn.Info()
			for _, call := range core.CallsTo(info, fn.Decl, true, "pdf.(*scanner).PeekN") {
				n++
				o.At(fn.Site(call, "PeekN("+core.ExprStr(call.Args[0])+")"))
				if k, ok := core.IntConst(info, call.Args[0]); ok {
					o.Require(k <= bufSize, "PeekN(%d) exceeds the buffer size %d", k, bufSize)
					continue
				}
				// SkipString(pat): n = len(patBytes) of a constant pattern at every caller; SkipAfter checks n itself
				if fn.Key == "pdf.(*scanner).SkipString" || fn.Key == "pdf.(*scanner).SkipAfter" {
					continue
				}
				o.FailAt(fn.Site(call, ""), "PeekN is called with a non-constant window %s", core.ExprStr(call.Args[0]))
			}
		}
		o.Shape(n >= 10, "only %d PeekN calls found", n)
		// SkipString callers pass constants
		for _, fn := range c.Prog.Funcs(pkg) {
			info := fn.Info()
			for _, call := range core.CallsTo(info, fn.Decl, true, "pdf.(*scanner).SkipString") {
				if _, ok := core.StringConst(info, call.Args[0]); !ok {
					// a parameter of an unexported helper that every caller gives a constant
					if paramAlwaysConstString(c, fn, core.ObjOf(info, call.Args[0])) {
						continue
					}
					o.FailAt(fn.Site(call, ""), "SkipString with a non-constant pattern (its length feeds PeekN)")
				}
			}
		}
	})
	c.Check(rule, "pdf.(*scanner).Discard/callers", "Discard panics for negative counts: every caller passes a constant or a value dominated by a non-negativity check", func(o *core.Ob) {
		pkg := c.Prog.Pkg("pdf")
		n := 0
		geZero := func(info *types.Info, root types.Object) func(a core.Atom) bool {
			return func(a core.Atom) bool {
				cmp, isCmp := a.AsCmp()
				if !isCmp || root == nil || !core.Mentions(info, cmp.L, root) {
					return false
				}
				k, isK := core.IntConst(info, cmp.R)
				return isK && k == 0 && (cmp.Op == token.GEQ || cmp.Op == token.GTR)
			}
		}
		// nonNeg: the value of arg at vertex at of fn is known to be non-negative
		var nonNeg func(fn *core.Func, at *core.V, arg ast.Expr, depth int) bool
		nonNeg = func(fn *core.Func, at *core.V, arg ast.Expr, depth int) bool {
			info := fn.Info()
			g := fn.Graph()
			if k, ok := core.IntConst(info, arg); ok {
				return k >= 0
			}
			root := rootObj(info, arg)
			if root == nil {
				return false
			}
			if g.GuardedBy(at, geZero(info, root)) {
				return true
			}
			// l = declared where declared >= 0 was established
			for _, d := range core.AssignsTo(info, fn.Decl, root) {
				as, isAs := d.(*ast.AssignStmt)
				if !isAs {
					continue
				}
				r2 := rootObj(info, as.Rhs[0])
				if r2 == nil {
					continue
				}
				v := g.VertexOf(as)
				if v != nil && g.GuardedBy(v, geZero(info, r2)) {
					return true
				}
				// or: the use is guarded by a flag that is only set by endstreamAt(start+declared),
				// and that probe itself is guarded by declared >= 0
				if g.GuardedBy(at, func(a core.Atom) bool {
					id, isID := ast.Unparen(a.Expr).(*ast.Ident)
					return isID && !a.Neg && a.Tag == nil && isEndstreamFlag(fn, info.ObjectOf(id), r2)
				}) {
					for _, pv := range callVertices(g, "pdf.endstreamAt") {
						if g.GuardedBy(pv.V, geZero(info, r2)) {
							return true
						}
					}
				}
			}
			// a parameter of an unexported helper that is never reassigned: every call site in the package must pass a non-negative value
			if depth > 0 && !fn.Obj.Exported() && len(defVertices(g, root)) == 0 && fn.Decl.Type.Params != nil {
				idx, k := -1, 0
				for _, fl := range fn.Decl.Type.Params.List {
					for _, nm := range fl.Names {
						if info.ObjectOf(nm) == root {
							idx = k
						}
						k++
					}
					if len(fl.Names) == 0 {
						k++
					}
				}
				if idx < 0 {
					return false
				}
				sites := 0
				for _, caller := range c.Prog.Funcs(pkg) {
					if caller.Decl.Body == nil || c.Prog.IsTestFile(caller.Decl.Pos()) {
						continue
					}
					cg := caller.Graph()
					for _, v := range cg.Vs {
						if v.AST == nil {
							continue
						}
						for _, cs := range core.CallsIn(caller.Info(), v.AST, false) {
							if cs.Fn == nil || cs.Fn.Origin() != fn.Obj.Origin() || idx >= len(cs.Call.Args) {
								continue
							}
							sites++
							if !nonNeg(caller, v, cs.Call.Args[idx], depth-1) {
								return false
							}
						}
					}
				}
				return sites > 0
			}
			return false
		}
		for _, fn := range c.Prog.Funcs(pkg) {
			g := fn.Graph()
			for _, cv := range callVertices(g, "pdf.(*scanner).Discard") {
				n++
				arg := cv.Call.Args[0]
				o.At(fn.Site(cv.Call, "Discard("+core.ExprStr(arg)+")"))
				if k, ok := core.IntConst(fn.Info(), arg); ok {
					o.Require(k >= 0, "Discard(%d)", k)
					continue
				}
				if !nonNeg(fn, cv.V, arg, 2) {
					if sel, isSel := ast.Unparen(arg).(*ast.SelectorExpr); isSel {
						if s := fn.Info().Selections[sel]; s != nil && s.Kind() == types.FieldVal {
							// a count kept in a field of a struct: its definitions are not followed
							o.Unrec("%s: Discard(%s): the count is kept in a struct field, whether it is non-negative is not followed", c.Prog.Pos(cv.Call.Pos()), core.ExprStr(arg))
							continue
						}
					}
					o.FailAt(fn.Site(cv.Call, ""), "Discard(%s) is not dominated by a check that the count is non-negative", core.ExprStr(arg))
				}
			}
		}
		o.Shape(n >= 3, "only %d Discard calls found", n)
	})
}

// ruleDepthDiscipline (C05-R7): a depth bound stops a recursion only if the
// depth really grows around every cycle.  For every function that compares
// an integer parameter with a bound and exits (the depth-guard idiom), the
// parameter is followed through the calls that pass it on (unchanged or
// plus a positive constant); among the functions it reaches, no call cycle
// may consist only of calls that pass the depth on unchanged or replace it.
func ruleDepthDiscipline(c *core.Ctx) {
	const rule = "C05-R7"
	type node struct {
		fn  *core.Func
		par int
	}
	type edge struct {
		to     *core.Func
		weight int // 0 unchanged, 1 increased, -1 replaced by something unrelated
		call   *ast.CallExpr
	}
	paramIndex := func(fn *core.Func, obj types.Object) int {
		i := 0
		for _, fl := range fn.Decl.Type.Params.List {
			for _, nm := range fl.Names {
				if fn.Info().Defs[nm] == obj {
					return i
				}
				i++
			}
			if len(fl.Names) == 0 {
				i++
			}
		}
		return -1
	}
	paramAt := func(fn *core.Func, idx int) types.Object {
		i := 0
		for _, fl := range fn.Decl.Type.Params.List {
			for _, nm := range fl.Names {
				if i == idx {
					return fn.Info().Defs[nm]
				}
				i++
			}
			if len(fl.Names) == 0 {
				i++
			}
		}
		return nil
	}
	// classify an argument relative to the depth variable d
	classify := func(info *types.Info, a ast.Expr, d types.Object) int {
		a = ast.Unparen(a)
		if core.ObjOf(info, a) == d {
			return 0
		}
		if be, ok := a.(*ast.BinaryExpr); ok && be.Op == token.ADD {
			if core.ObjOf(info, be.X) == d {
				if k, ok := core.IntConst(info, be.Y); ok && k > 0 {
					return 1
				}
			}
			if core.ObjOf(info, be.Y) == d {
				if k, ok := core.IntConst(info, be.X); ok && k > 0 {
					return 1
				}
			}
		}
		return -1
	}
	// guard roots
	var roots []node
	for _, pkg := range c.Prog.RepoPkgs() {
		for _, fn := range c.Prog.Funcs(pkg) {
			info := fn.Info()
			ast.Inspect(fn.Decl.Body, func(n ast.Node) bool {
				is, ok := n.(*ast.IfStmt)
				if !ok || !exits(is.Body) {
					return true
				}
				found := false
				ast.Inspect(is.Cond, func(m ast.Node) bool {
					be, ok := m.(*ast.BinaryExpr)
					if !ok {
						return true
					}
					var v ast.Expr
					switch be.Op {
					case token.GEQ, token.GTR:
						v = be.X
					case token.LEQ, token.LSS:
						v = be.Y
					default:
						return true
					}
					obj := core.ObjOf(info, v)
					if obj == nil {
						return true
					}
					if b, ok := obj.Type().Underlying().(*types.Basic); !ok || b.Info()&types.IsInteger == 0 {
						return true
					}
					if idx := paramIndex(fn, obj); idx >= 0 && !found {
						// the other side is a constant or a call (a limit), not another parameter
						other := be.Y
						if v == be.Y {
							other = be.X
						}
						if oo := core.ObjOf(info, other); oo != nil && paramIndex(fn, oo) >= 0 {
							return true
						}
						found = true
						roots = append(roots, node{fn, idx})
					}
					return true
				})
				return true
			})
		}
	}
	c.Floor(rule, 6)
	seenRoot := map[string]bool{}
	for _, root := range roots {
		root := root
		key := root.fn.Key + "/" + paramAt(root.fn, root.par).Name()
		if seenRoot[key] {
			continue
		}
		seenRoot[key] = true
		// follow the parameter through the calls that pass it on
		threaded := map[*core.Func]int{root.fn: root.par}
		undecided := ""
		work := []*core.Func{root.fn}
		for len(work) > 0 {
			fn := work[len(work)-1]
			work = work[:len(work)-1]
			d := paramAt(fn, threaded[fn])
			for _, cs := range core.CallsIn(fn.Info(), fn.Decl, true) {
				if cs.Fn == nil {
					continue
				}
				k := c.Prog.FuncOf(cs.Fn)
				if k == nil {
					continue
				}
				for i, a := range cs.Call.Args {
					if classify(fn.Info(), a, d) >= 0 {
						if old, ok := threaded[k]; ok {
							if old != i {
								undecided = k.Key + " receives the depth in two different parameters"
							}
							continue
						}
						if paramAt(k, i) == nil {
							continue // variadic or unnamed
						}
						threaded[k] = i
						work = append(work, k)
					}
				}
			}
		}
		edges := map[*core.Func][]edge{}
		nEdges := 0
		for fn, pi := range threaded {
			d := paramAt(fn, pi)
			for _, cs := range core.CallsIn(fn.Info(), fn.Decl, true) {
				if cs.Fn == nil {
					continue
				}
				k := c.Prog.FuncOf(cs.Fn)
				if k == nil {
					continue
				}
				ki, ok := threaded[k]
				if !ok || ki >= len(cs.Call.Args) {
					continue
				}
				nEdges++
				w := classify(fn.Info(), cs.Call.Args[ki], d)
				if w == 0 {
					// the depth variable itself is handed on: it has grown if every path to the
					// call passes an increment of it (depth++ in front of the loop over the kids)
					w = grownBefore(fn, cs.Call, d)
				}
				edges[fn] = append(edges[fn], edge{k, w, cs.Call})
			}
		}
		// only recursive uses matter: the guarded function can reach itself
		reach := map[*core.Func]bool{}
		var walk func(fn *core.Func)
		walk = func(fn *core.Func) {
			for _, e := range edges[fn] {
				if !reach[e.to] {
					reach[e.to] = true
					walk(e.to)
				}
			}
		}
		walk(root.fn)
		if !reach[root.fn] {
			continue
		}
		c.Check(rule, key, "the depth counter grows around every call cycle it is threaded through", func(o *core.Ob) {
			o.At(root.fn.Site(root.fn.Decl, "depth guard on parameter "+paramAt(root.fn, root.par).Name()))
			if undecided != "" {
				core.Undecided("%s", undecided)
			}
			o.Count(nEdges)
			o.Fact("%d functions carry the depth, %d calls between them", len(threaded), nEdges)
			// cycle without an increasing edge?
			var fns []*core.Func
			for fn := range threaded {
				fns = append(fns, fn)
			}
			sort.Slice(fns, func(i, j int) bool { return fns[i].Key < fns[j].Key })
			state := map[*core.Func]int{}
			var path []edge
			var report func(start *core.Func)
			found := false
			var dfs func(fn *core.Func) bool
			dfs = func(fn *core.Func) bool {
				state[fn] = 1
				for _, e := range edges[fn] {
					if e.weight > 0 {
						continue
					}
					path = append(path, e)
					if state[e.to] == 1 {
						report(e.to)
						return true
					}
					if state[e.to] == 0 && dfs(e.to) {
						return true
					}
					path = path[:len(path)-1]
				}
				state[fn] = 2
				return false
			}
			report = func(start *core.Func) {
				found = true
				var parts []string
				// the cycle is the suffix of path that starts at a call made by `start`
				begin := 0
				for i := len(path) - 1; i >= 0; i-- {
					begin = i
					if i == 0 || path[i-1].to == start {
						break
					}
				}
				for _, e := range path[begin:] {
					how := "unchanged"
					if e.weight < 0 {
						how = "replaced by " + c.Prog.Src(e.call.Args[threaded[e.to]])
					}
					parts = append(parts, c.Prog.Pos(e.call.Pos())+" calls "+e.to.Key+" with the depth "+how)
					o.Sites = append(o.Sites, core.Site{Pos: c.Prog.Pos(e.call.Pos()), Func: e.to.Key, Note: "depth " + how})
				}
				o.Fail("call cycle along which the depth never grows: %s", strings.Join(parts, "; "))
			}
			for _, fn := range fns {
				if state[fn] == 0 && !found {
					path = nil
					dfs(fn)
				}
			}
		})
	}
}

// ruleBudgetCharged (C05-R8): a work budget bounds a loop only if every
// iteration that passes the "budget exhausted?" test pays for itself.  For
// every loop that tests a local counter against zero and exits, and that
// decrements the counter somewhere in the same body, no path may lead from
// the test back to the test without passing a decrement (a "continue"
// before the charge makes skipped items free, and a file can consist of
// skipped items only).
func ruleBudgetCharged(c *core.Ctx) {
	const rule = "C05-R8"
	n := 0
	ord := map[string]int{}
	for _, pkg := range c.Prog.RepoPkgs() {
		for _, fn := range c.Prog.Funcs(pkg) {
			fn := fn
			var graphs []*core.Graph
			graphs = append(graphs, fn.Graph())
			ast.Inspect(fn.Decl.Body, func(m ast.Node) bool {
				if fl, ok := m.(*ast.FuncLit); ok {
					graphs = append(graphs, fn.LitGraph(fl))
				}
				return true
			})
			info := fn.Info()
			budgetOf := func(e ast.Expr) types.Object {
				e = ast.Unparen(e)
				if st, ok := e.(*ast.StarExpr); ok {
					e = st.X
				}
				id, ok := e.(*ast.Ident)
				if !ok {
					return nil
				}
				obj, _ := info.ObjectOf(id).(*types.Var)
				if obj == nil || obj.IsField() || obj.Parent() == obj.Pkg().Scope() {
					return nil
				}
				t := obj.Type()
				if p, ok := t.Underlying().(*types.Pointer); ok {
					t = p.Elem()
				}
				if b, ok := t.Underlying().(*types.Basic); !ok || b.Info()&types.IsInteger == 0 {
					return nil
				}
				return obj
			}
			for gi, g := range graphs {
				g := g
				for _, bv := range g.BranchVertices() {
					bv := bv
					if bv.Cond.Expr == nil || bv.Cond.Tag != nil {
						continue
					}
					be, ok := ast.Unparen(bv.Cond.Expr).(*ast.BinaryExpr)
					if !ok {
						continue
					}
					k, isK := core.IntConst(info, be.Y)
					if !isK || !((be.Op == token.LEQ && k == 0) || (be.Op == token.LSS && k == 1)) {
						continue
					}
					b := budgetOf(be.X)
					if b == nil || !g.InLoop(bv) {
						continue
					}
					// The innermost loop around the test: a range over a slice, array, map or
					// string is bounded by data already in memory (the counter then limits the
					// output, not the work); generators, integer ranges and plain for loops are not.
					var loop ast.Node
					ast.Inspect(fn.Decl.Body, func(m ast.Node) bool {
						switch m.(type) {
						case *ast.ForStmt, *ast.RangeStmt:
							if m.Pos() <= be.Pos() && be.End() <= m.End() {
								loop = m
							}
						}
						return true
					})
					if rs, ok := loop.(*ast.RangeStmt); ok {
						switch info.TypeOf(rs.X).Underlying().(type) {
						case *types.Slice, *types.Array, *types.Map, *types.Pointer:
							continue
						case *types.Basic:
							if info.TypeOf(rs.X).Underlying().(*types.Basic).Info()&types.IsString != 0 {
								continue
							}
						}
					}
					// the true edge leaves the loop (return or break): bv not reachable again
					if g.ReachFrom(bv, false, core.AvoidEdges(core.EdgeRef{From: bv, Label: core.EdgeFalse}))[bv] {
						continue
					}
					// decrements of the same counter in this graph
					var decs []*core.V
					for _, v := range g.Vs {
						switch s := v.AST.(type) {
						case *ast.IncDecStmt:
							if s.Tok == token.DEC && budgetOf(s.X) == b {
								decs = append(decs, v)
							}
						case *ast.AssignStmt:
							if s.Tok == token.SUB_ASSIGN && len(s.Lhs) == 1 && budgetOf(s.Lhs[0]) == b {
								decs = append(decs, v)
							}
						}
					}
					if len(decs) == 0 {
						continue
					}
					n++
					ord[fn.Key]++
					_ = gi
					key := fn.Key + "/" + b.Name() + "#" + itoa(ord[fn.Key])
					c.Check(rule, key, "every iteration that passes the budget test is charged before the next test", func(o *core.Ob) {
						o.At(fn.Site(bv.Cond.Expr, "budget test"))
						for _, d := range decs {
							o.At(fn.Site(d.AST, "charge"))
						}
						o.Count(1 + len(decs))
						free := g.ReachFrom(bv, false, core.AvoidEdges(core.EdgeRef{From: bv, Label: core.EdgeTrue}).With(decs...))
						if free[bv] {
							// name a vertex on the free path that jumps back
							where := ""
							for _, v := range g.Vs {
								if bs, ok := v.AST.(*ast.BranchStmt); ok && free[v] && bs.Tok == token.CONTINUE {
									where = " (e.g. through the continue at " + c.Prog.Pos(bs.Pos()) + ")"
									break
								}
							}
							o.Fail("%s: the loop can return to the budget test without charging %s%s", c.Prog.Pos(bv.Cond.Expr.Pos()), b.Name(), where)
						}
					})
				}
			}
		}
	}
	c.Floor(rule, 2)
	_ = n
}

// Non-comma-ok type assertions of package pdf: a failed assertion panics.
// Each is reviewed; key "function|asserted type".
var c05Assertions = map[string]string{
	"pdf.(*scanner).ReadArray|Integer":        "read path; licensed by the trailing-integer counter whose discipline is checked by the int-counter obligation below",
	"pdf.DecodeExclusive|T":                   "the cache and the in-flight table are keyed by (reference, reflect type of T); an entry under that key was stored as T (C18-R4 checks who stores)",
	"pdf.StoreOrLoadPair|A":                   "pair cache keyed by (reference, type A): only values of type A are stored under that key",
	"pdf.StoreOrLoadPair|B":                   "as above for B",
	"pdf.(*Reader).Close|io.Closer":           "ownsReader is set only by Open, which opened an *os.File",
	"pdf.(*Writer).Close|io.Closer":           "closeOrigW is set only by Create, which created an *os.File",
	"pdf.(*Writer).scannerFrom|io.ReadSeeker": "called only from Writer.get after the same assertion succeeded in comma-ok form",
	"pdf.(*Placeholder).Set|io.WriteSeeker":   "write side; placeholders that need patching are created only for seekable sinks",
	"pdf.StringOrStream.Embed|String":         "write side; TextString.AsPDF returns a String by construction",
	"pdf.encodeFlateLZW|*zlib.Writer":         "the pool only ever holds *zlib.Writer (its New function and every Put)",
	"pdf.zlibNewReader|zlib.Resetter":         "the pool only holds readers created by zlib.NewReader, which implement Resetter and ReadCloser",
	"pdf.zlibNewReader|io.ReadCloser":         "as above",
}

// ruleUncheckedAssertions (C05-R5, continued): every non-comma-ok type
// assertion of package pdf is reviewed; and the one on the read path that
// depends on an invariant (ReadArray folding "a b R") has its invariant
// checked: the counter that licenses the assertions is only ever reset to 0
// or incremented where the element about to be appended was tested to be an
// Integer, so it never exceeds the number of trailing integers in the array.
func ruleUncheckedAssertions(c *core.Ctx) {
	const rule = "C05-R5"
	c.Check(rule, "pdf/unchecked-assertions", "every non-comma-ok type assertion in package pdf is in the reviewed table (a failed assertion panics; on the read path the file controls the dynamic type)", func(o *core.Ob) {
		pkg := c.Prog.Pkg("pdf")
		n := 0
		for _, fn := range c.Prog.Funcs(pkg) {
			okForm := map[*ast.TypeAssertExpr]bool{}
			ast.Inspect(fn.Decl, func(m ast.Node) bool {
				switch x := m.(type) {
				case *ast.AssignStmt:
					if len(x.Lhs) == 2 && len(x.Rhs) == 1 {
						if ta, ok := ast.Unparen(x.Rhs[0]).(*ast.TypeAssertExpr); ok {
							okForm[ta] = true
						}
					}
				case *ast.ValueSpec:
					if len(x.Names) == 2 && len(x.Values) == 1 {
						if ta, ok := ast.Unparen(x.Values[0]).(*ast.TypeAssertExpr); ok {
							okForm[ta] = true
						}
					}
				case *ast.TypeSwitchStmt:
					ast.Inspect(x.Assign, func(k ast.Node) bool {
						if ta, ok := k.(*ast.TypeAssertExpr); ok {
							okForm[ta] = true
						}
						return true
					})
				}
				return true
			})
			ast.Inspect(fn.Decl, func(m ast.Node) bool {
				ta, ok := m.(*ast.TypeAssertExpr)
				if !ok || okForm[ta] || ta.Type == nil {
					return true
				}
				n++
				o.Count(1)
				if poolAssertionSafe(c, fn, ta) {
					// pool.Get().(*T) on a pool that only ever holds *T
					return true
				}
				key := fn.Key + "|" + c.Prog.Src(ta.Type)
				typ := c.Prog.Src(ta.Type)
				reviewed := allowedOrOnlyCalledBy(c, fn, func(k string) bool { _, ok := c05Assertions[k+"|"+typ]; return ok }, 0)
				if !reviewed {
					xt := fn.Info().TypeOf(ta.X)
					if xt != nil && (core.IsNamed(xt, "pdf", "Object") || core.IsNamed(xt, "pdf", "Native")) {
						// the operand is an object as it came out of a file: its dynamic type is the file's choice
						o.FailAt(fn.Site(ta, ""), "unchecked type assertion %s in %s on a value of type %s (an object read from the file decides the dynamic type, a failed assertion panics); it is not in the reviewed table (key %q)", c.Prog.Src(ta), fn.Key, core.TypeString(xt), key)
					} else {
						// an interface value of another kind (a pooled coder, a writer): whether the
						// dynamic type is always the asserted one is not decided here
						o.Unrec("%s: unchecked type assertion %s in %s is not in the reviewed table (key %q); its operand is not a file object, whether it can fail is not decided", c.Prog.Pos(ta.Pos()), c.Prog.Src(ta), fn.Key, key)
					}
				}
				return true
			})
		}
		o.Shape(n >= 10, "only %d unchecked assertions found", n)
	})
	c.Check(rule, "pdf.(*scanner).ReadArray/int-counter", "the counter of trailing integers that licenses array[k-2].(Integer) is only reset to zero, or incremented for an element tested to be an Integer", func(o *core.Ob) {
		fn := c.Prog.Func("pdf", "(*scanner).ReadArray")
		g := fn.Graph()
		info := fn.Info()
		// the counter: the variable compared with a constant in a condition that dominates the unchecked assertions
		var counter types.Object
		var asserts []*core.V
		for _, v := range g.Vs {
			if v.AST == nil {
				continue
			}
			found := false
			ast.Inspect(v.AST, func(m ast.Node) bool {
				if ta, ok := m.(*ast.TypeAssertExpr); ok && ta.Type != nil && c.Prog.Src(ta.Type) == "Integer" {
					if as, ok := v.AST.(*ast.AssignStmt); ok && len(as.Lhs) == 1 {
						found = true
					}
				}
				return true
			})
			if found {
				asserts = append(asserts, v)
			}
		}
		if len(asserts) == 0 {
			o.Count(1)
			o.Fact("no unchecked Integer assertion in ReadArray")
			return
		}
		for _, av := range asserts {
			o.At(fn.Site(av.AST, "unchecked assertion"))
			for _, a := range g.DominatingAtoms(av) {
				cmp, ok := a.AsCmp()
				if !ok {
					continue
				}
				if k, isK := core.IntConst(info, cmp.R); isK && ((cmp.Op == token.GEQ && k >= 2) || (cmp.Op == token.GTR && k >= 1)) {
					if obj := core.ObjOf(info, cmp.L); obj != nil {
						counter = obj
					}
				}
			}
		}
		if counter == nil {
			o.Fail("the unchecked Integer assertions in ReadArray are not guarded by a counter >= 2")
			return
		}
		for _, dv := range defVertices(g, counter) {
			o.Count(1)
			switch s := dv.AST.(type) {
			case *ast.AssignStmt:
				if len(s.Rhs) == 1 {
					if k, ok := core.IntConst(info, s.Rhs[0]); ok && k == 0 && (s.Tok == token.ASSIGN || s.Tok == token.DEFINE) {
						continue
					}
				}
				o.FailAt(fn.Site(s, ""), "%s: the trailing-integer counter is changed by %s: it may then exceed the number of Integer elements at the end of the array and the unchecked assertion panics", c.Prog.Pos(s.Pos()), c.Prog.Src(s))
			case *ast.IncDecStmt:
				if s.Tok != token.INC {
					o.FailAt(fn.Site(s, ""), "%s: counter decremented", c.Prog.Pos(s.Pos()))
					continue
				}
				// guarded by the ok result of a comma-ok .(Integer)
				ok := g.GuardedBy(dv, func(a core.Atom) bool {
					id, isID := ast.Unparen(a.Expr).(*ast.Ident)
					if !isID || a.Neg {
						return false
					}
					obj := info.ObjectOf(id)
					for _, d := range core.AssignsTo(info, fn.Decl, obj) {
						if as, isAs := d.(*ast.AssignStmt); isAs && len(as.Lhs) == 2 && len(as.Rhs) == 1 {
							if ta, isTA := ast.Unparen(as.Rhs[0]).(*ast.TypeAssertExpr); isTA && ta.Type != nil && c.Prog.Src(ta.Type) == "Integer" {
								return true
							}
						}
					}
					return false
				})
				o.Require(ok, "%s: the counter is incremented for an element that was not tested to be an Integer", c.Prog.Pos(s.Pos()))
			case *ast.ValueSpec:
			}
		}
	})
}

// ruleVisitedMonotone (C05-R9): a visited-set bounds a walk over a graph
// read from a file only if it is monotone: a node, once entered, is never
// entered again.  If entries are removed when the walk returns from a node
// (an "on-path" set), cycles are still cut but a node reachable along
// several paths is expanded once per path: k levels of nodes that each list
// their successor twice cost 2^k visits from a file of size O(k).  For every
// function that guards on membership of a map keyed by references, the same
// function never deletes from that map, clears it or stores false into it.
func ruleVisitedMonotone(c *core.Ctx) {
	const rule = "C05-R9"
	n := 0
	for _, pkg := range c.Prog.RepoPkgs() {
		for _, fn := range c.Prog.Funcs(pkg) {
			fn := fn
			info := fn.Info()
			sets := map[types.Object]ast.Node{}
			ast.Inspect(fn.Decl.Body, func(m ast.Node) bool {
				is, ok := m.(*ast.IfStmt)
				if !ok || !exits(is.Body) {
					return true
				}
				ast.Inspect(is.Cond, func(k ast.Node) bool {
					ix, ok := k.(*ast.IndexExpr)
					if !ok {
						return true
					}
					mt, ok := info.TypeOf(ix.X).Underlying().(*types.Map)
					if !ok || !strings.Contains(core.TypeString(mt.Key()), "Reference") {
						return true
					}
					if b, ok := mt.Elem().Underlying().(*types.Basic); !ok || b.Info()&types.IsBoolean == 0 {
						if _, isStruct := mt.Elem().Underlying().(*types.Struct); !isStruct {
							return true
						}
					}
					if obj := core.ObjOf(info, ix.X); obj != nil {
						sets[obj] = is
					}
					return true
				})
				return true
			})
			for obj, site := range sets {
				obj, site := obj, site
				n++
				c.Check(rule, fn.Key+"/"+obj.Name(), "the visited-set is monotone: nothing is removed from it while the walk is running", func(o *core.Ob) {
					o.At(fn.Site(site, "membership guard"))
					o.Count(1)
					ast.Inspect(fn.Decl.Body, func(m ast.Node) bool {
						switch x := m.(type) {
						case *ast.CallExpr:
							if id, ok := x.Fun.(*ast.Ident); ok && (id.Name == "delete" || id.Name == "clear") && len(x.Args) >= 1 && core.ObjOf(info, x.Args[0]) == obj {
								o.FailAt(fn.Site(x, ""), "%s: %s removes entries from the visited-set %s: a node reachable along several paths is then walked once per path (exponential in the depth)", c.Prog.Pos(x.Pos()), c.Prog.Src(x), obj.Name())
							}
						case *ast.AssignStmt:
							for i, l := range x.Lhs {
								if ix, ok := ast.Unparen(l).(*ast.IndexExpr); ok && core.ObjOf(info, ix.X) == obj && len(x.Rhs) == len(x.Lhs) {
									if cv := core.ConstOf(info, x.Rhs[i]); cv != nil && cv.String() == "false" {
										o.FailAt(fn.Site(x, ""), "%s: an entry of the visited-set %s is reset to false", c.Prog.Pos(x.Pos()), obj.Name())
									}
								}
							}
						}
						return true
					})
				})
			}
		}
	}
	c.Floor(rule, 6)
	_ = n
}

// ruleNoObjStmFromObjStm (C05-R10): reading an object stream must never open
// another object stream: getFromObjStm -> getObjStm -> DecodeStream ->
// GetFilters -> resolve -> Get -> getFromObjStm is a cycle that only the
// canObjStm flag breaks (every resolve starts a fresh cycle-check path).  In
// every function of package pdf that getObjStm can reach through static
// calls, an argument for a parameter named canObjStm is the constant false or
// the function's own canObjStm parameter.
func ruleNoObjStmFromObjStm(c *core.Ctx) {
	const rule = "C05-R10"
	c.Check(rule, "pdf.getObjStm/reach", "no call reachable from getObjStm allows object streams (canObjStm is false, or is handed down unchanged)", func(o *core.Ob) {
		pkg := c.Prog.Pkg("pdf")
		byObj := map[*types.Func]*core.Func{}
		for _, fn := range c.Prog.Funcs(pkg) {
			byObj[fn.Obj] = fn
		}
		start := c.Prog.Func("pdf", "getObjStm")
		reach := map[*core.Func]bool{start: true}
		work := []*core.Func{start}
		for len(work) > 0 {
			fn := work[len(work)-1]
			work = work[:len(work)-1]
			for _, cs := range core.CallsIn(fn.Info(), fn.Decl, true) {
				if cs.Fn == nil {
					continue
				}
				if t := byObj[cs.Fn.Origin()]; t != nil && !reach[t] {
					// do not walk through the Getter implementations themselves: the flag they receive is what is checked
					if t.Key == "pdf.(*Reader).Get" || t.Key == "pdf.(*Reader).get" || t.Key == "pdf.(*Writer).Get" || t.Key == "pdf.(*Writer).get" || t.Key == "pdf.getFromObjStm" {
						continue
					}
					reach[t] = true
					work = append(work, t)
				}
			}
		}
		o.Fact("%d functions reachable from getObjStm", len(reach))
		n := 0
		for fn := range reach {
			info := fn.Info()
			var own types.Object
			for _, fl := range fn.Decl.Type.Params.List {
				for _, nm := range fl.Names {
					if nm.Name == "canObjStm" {
						own = info.Defs[nm]
					}
				}
			}
			for _, cs := range core.CallsIn(info, fn.Decl, true) {
				if cs.Fn == nil {
					continue
				}
				sig, ok := cs.Fn.Type().(*types.Signature)
				if !ok {
					continue
				}
				for i := 0; i < sig.Params().Len() && i < len(cs.Call.Args); i++ {
					if core.VarName(sig.Params().At(i)) != "canObjStm" {
						continue
					}
					n++
					o.Count(1)
					a := cs.Call.Args[i]
					if cv := core.ConstOf(info, a); cv != nil && cv.String() == "false" {
						continue
					}
					if own != nil && core.ObjOf(info, a) == own {
						continue
					}
					o.FailAt(fn.Site(cs.Call, ""), "%s: %s is reachable from getObjStm and calls %s with canObjStm = %s: an object stream whose /Filter, /DecodeParms or /Length lives in an object stream recurses without bound", c.Prog.Pos(cs.Call.Pos()), fn.Key, cs.Key, c.Prog.Src(a))
				}
			}
		}
		o.Shape(n >= 5, "only %d canObjStm arguments found on the path", n)
	})
}

// ruleCyclePathCumulative (C05-R11): a CycleCheck path detects a loop only
// if each step extends the path built so far.  Where a path element is
// created inside a loop that follows references (a linked list of nodes),
// its Parent must be the path carried by the loop (a variable assigned in
// the loop), not a path fixed before the loop: with a fixed parent only
// loops back to the head are seen and a loop among later nodes runs forever.
func ruleCyclePathCumulative(c *core.Ctx) {
	const rule = "C05-R11"
	n := 0
	for _, pkg := range c.Prog.RepoPkgs() {
		for _, fn := range c.Prog.Funcs(pkg) {
			fn := fn
			info := fn.Info()
			ast.Inspect(fn.Decl.Body, func(m ast.Node) bool {
				var body *ast.BlockStmt
				switch l := m.(type) {
				case *ast.ForStmt:
					body = l.Body
				case *ast.RangeStmt:
					body = l.Body
				default:
					return true
				}
				ast.Inspect(body, func(k ast.Node) bool {
					cl, ok := k.(*ast.CompositeLit)
					if !ok || !core.IsNamed(info.TypeOf(cl), "pdf", "CycleCheck") {
						return true
					}
					var parent ast.Expr
					for _, el := range cl.Elts {
						if kv, ok := el.(*ast.KeyValueExpr); ok && core.ExprStr(kv.Key) == "Parent" {
							parent = kv.Value
						}
					}
					n++
					key := fn.Key + "/path#" + itoa(n)
					c.Check(rule, key, "a cycle-check path element created inside a loop extends the path carried by the loop", func(o *core.Ob) {
						o.Count(1)
						o.At(fn.Site(cl, "path element"))
						if parent == nil {
							o.Fail("%s: path element without parent inside a loop: every iteration starts a new path", c.Prog.Pos(cl.Pos()))
							return
						}
						carried := false
						ast.Inspect(parent, func(x ast.Node) bool {
							id, ok := x.(*ast.Ident)
							if !ok {
								return true
							}
							obj := info.ObjectOf(id)
							if obj == nil {
								return true
							}
							for _, d := range core.AssignsTo(info, body, obj) {
								if as, ok := d.(*ast.AssignStmt); ok && as.Tok == token.ASSIGN {
									carried = true
								}
							}
							return true
						})
						if !carried {
							o.Fail("%s: the parent of the new path element (%s) is fixed before the loop: a reference loop that does not pass through the start is never detected", c.Prog.Pos(cl.Pos()), c.Prog.Src(parent))
						}
					})
					return true
				})
				return false
			})
		}
	}
	c.Floor(rule, 1)
}

// ruleFileValueAsKeyOrSize (C05-R12, C05-R13): two ways in which a value taken
// from the file turns into a run-time panic or an unbounded allocation
// without any explicit panic, index or recursion in the source.
//
// R12: a map whose key type is an interface panics ("hash of unhashable
// type") when it is indexed with a value whose dynamic type is a slice or a
// map.  pdf.Object and pdf.Native are implemented by Array, Dict and String:
// an index expression whose key has one of these interfaces as its static
// type is a panic waiting for a malformed file.  Keys of a concrete
// comparable type (Reference, Name, Integer) are fine.
//
// R13: make() with a length or capacity computed from a pdf.Integer (a number
// read from the file) allocates what the file says, or panics when the value
// is out of range, unless an upper bound on that value is established first.
func ruleFileValueAsKeyOrSize(c *core.Ctx) {
	isFileIface := func(t types.Type) bool {
		if t == nil {
			return false
		}
		if _, ok := t.Underlying().(*types.Interface); !ok {
			return false
		}
		return core.IsNamed(t, "pdf", "Object") || core.IsNamed(t, "pdf", "Native")
	}
	c.Check("C05-R12", "file-object-as-map-key", "no map is indexed with a key whose static type is pdf.Object or pdf.Native (the dynamic type may be an array, a dictionary or a string, which cannot be hashed)", func(o *core.Ob) {
		n := 0
		for _, pkg := range c.Prog.RepoPkgs() {
			for _, fn := range c.Prog.Funcs(pkg) {
				if fn.Decl.Body == nil || c.Prog.IsTestFile(fn.Decl.Pos()) {
					continue
				}
				info := fn.Info()
				check := func(m, k ast.Expr, at ast.Node) {
					mt, ok := info.TypeOf(m).Underlying().(*types.Map)
					if !ok {
						return
					}
					if _, isIface := mt.Key().Underlying().(*types.Interface); !isIface {
						return
					}
					n++
					o.At(fn.Site(at, "map keyed by an interface"))
					kt := info.TypeOf(k)
					if isFileIface(kt) {
						o.FailAt(fn.Site(at, ""), "the map %s is indexed with %s of static type %s; a malformed file can put an array, a dictionary or a string there, and the index expression panics (hash of unhashable type)", core.ExprStr(m), core.ExprStr(k), core.TypeString(kt))
					}
				}
				ast.Inspect(fn.Decl.Body, func(m ast.Node) bool {
					switch x := m.(type) {
					case *ast.IndexExpr:
						if tv, ok := info.Types[x.X]; ok && !tv.IsType() {
							check(x.X, x.Index, x)
						}
					case *ast.CallExpr:
						if core.CalleeKey(info, x) == "builtin.delete" && len(x.Args) == 2 {
							check(x.Args[0], x.Args[1], x)
						}
					}
					return true
				})
			}
		}
		o.Count(n + 1)
	})
	c.Check("C05-R13", "allocation-sized-by-file-value", "no make() takes its length or capacity from a pdf.Integer without an upper bound established on every path to it", func(o *core.Ob) {
		n := 0
		for _, pkg := range c.Prog.RepoPkgs() {
			for _, fn := range c.Prog.Funcs(pkg) {
				if fn.Decl.Body == nil || c.Prog.IsTestFile(fn.Decl.Pos()) {
					continue
				}
				info := fn.Info()
				hasMake := false
				ast.Inspect(fn.Decl.Body, func(m ast.Node) bool {
					if call, ok := m.(*ast.CallExpr); ok && core.CalleeKey(info, call) == "builtin.make" && len(call.Args) >= 2 {
						hasMake = true
					}
					return !hasMake
				})
				if !hasMake {
					continue
				}
				g := fn.Graph()
				for _, v := range g.Vs {
					if v.AST == nil {
						continue
					}
					for _, cs := range core.CallsIn(info, v.AST, false) {
						if cs.Key != "builtin.make" || len(cs.Call.Args) < 2 {
							continue
						}
						for _, sz := range cs.Call.Args[1:] {
							src := fileIntegerSource(g, v, sz, 3)
							if src == nil {
								continue
							}
							n++
							o.At(fn.Site(cs.Call, "sized by "+core.ExprStr(sz)))
							objs := map[types.Object]bool{}
							ast.Inspect(sz, func(k ast.Node) bool {
								if id, ok := k.(*ast.Ident); ok {
									if ob, isVar := info.ObjectOf(id).(*types.Var); isVar {
										objs[ob] = true
									}
								}
								return true
							})
							for _, ob := range src {
								objs[ob] = true
							}
							bounded := g.GuardedBy(v, func(a core.Atom) bool {
								cmp, ok := a.AsCmp()
								if !ok {
									return false
								}
								l, r, op := cmp.L, cmp.R, cmp.Op
								if op == token.GTR || op == token.GEQ {
									l, r = r, l
									op = map[token.Token]token.Token{token.GTR: token.LSS, token.GEQ: token.LEQ}[op]
								}
								if op != token.LSS && op != token.LEQ {
									return false
								}
								// l < r: l mentions the value, r does not
								lm, rm := false, false
								for ob := range objs {
									if core.Mentions(info, l, ob) {
										lm = true
									}
									if core.Mentions(info, r, ob) {
										rm = true
									}
								}
								return lm && !rm
							})
							if !bounded {
								o.FailAt(fn.Site(cs.Call, ""), "make(%s) takes a size from %s, a number read from the file, and no upper bound on it is established on the way: a file that says 2^60 makes this call panic (or allocate what it says)", core.ExprStr(cs.Call.Args[0]), core.ExprStr(sz))
							}
						}
					}
				}
			}
		}
		o.Count(n + 1)
	})
}

// fileIntegerSource reports whether the size expression e (as evaluated at
// vertex at) is computed from a value of type pdf.Integer, following
// conversions, arithmetic and single definitions of locals; it returns the
// variables involved (non-nil, possibly empty) or nil.
func fileIntegerSource(g *core.Graph, at *core.V, e ast.Expr, depth int) []types.Object {
	info := g.Info
	var out []types.Object
	found := false
	var walk func(e ast.Expr, at *core.V, depth int)
	walk = func(e ast.Expr, at *core.V, depth int) {
		e = ast.Unparen(e)
		if _, isConst := core.IntConst(info, e); isConst {
			return
		}
		if t := info.TypeOf(e); t != nil && core.IsNamed(t, "pdf", "Integer") {
			found = true
		}
		switch x := e.(type) {
		case *ast.CallExpr:
			if tv, ok := info.Types[x.Fun]; ok && tv.IsType() && len(x.Args) == 1 {
				walk(x.Args[0], at, depth)
				return
			}
			if core.CalleeKey(info, x) == "builtin.len" || core.CalleeKey(info, x) == "builtin.cap" || core.CalleeKey(info, x) == "builtin.min" {
				if core.CalleeKey(info, x) == "builtin.min" {
					// min(n, K) with a constant: bounded
					for _, a := range x.Args {
						if _, isK := core.IntConst(info, a); isK {
							found = false
							return
						}
					}
					for _, a := range x.Args {
						walk(a, at, depth)
					}
				}
				return
			}
		case *ast.BinaryExpr:
			walk(x.X, at, depth)
			walk(x.Y, at, depth)
		case *ast.Ident:
			ob, isVar := info.ObjectOf(x).(*types.Var)
			if !isVar {
				return
			}
			out = append(out, ob)
			if depth <= 0 {
				return
			}
			for _, cs := range valueCases(g, at, x, 1) {
				if cs.V != nil && cs.V != at && cs.Expr != ast.Expr(x) {
					walk(cs.Expr, cs.V, depth-1)
				}
			}
		}
	}
	walk(e, at, depth)
	if !found {
		return nil
	}
	if out == nil {
		out = []types.Object{}
	}
	return out
}

// poolAssertionSafe recognises P.Get().(*T) for a package-level sync.Pool P
// of the same package whose New function returns a *T (new(T), &T{...}, or a
// local of that type) and into which only values of static type *T are Put:
// the asserted value cannot have another dynamic type, and a nil (a pool
// without New) is excluded by requiring New.
func poolAssertionSafe(c *core.Ctx, fn *core.Func, ta *ast.TypeAssertExpr) bool {
	info := fn.Info()
	call, ok := ast.Unparen(ta.X).(*ast.CallExpr)
	if !ok || len(call.Args) != 0 || !strings.HasSuffix(core.CalleeKey(info, call), "sync.Pool).Get") {
		return false
	}
	sel, ok := ast.Unparen(call.Fun).(*ast.SelectorExpr)
	if !ok {
		return false
	}
	pool, isVar := core.ObjOf(info, sel.X).(*types.Var)
	if !isVar || pool.Pkg() == nil || pool.Parent() != pool.Pkg().Scope() {
		return false
	}
	want := info.TypeOf(ta.Type)
	if want == nil {
		return false
	}
	if _, isPtr := want.Underlying().(*types.Pointer); !isPtr {
		return false
	}
	// the pool's initialiser: sync.Pool{New: func() any { return <*T> }} (or a pointer to it)
	_, init, ipkg := c.Prog.Var(core.ShortPkg(pool.Pkg().Path()), pool.Name())
	if init == nil {
		return false
	}
	e := ast.Unparen(init)
	if u, isU := e.(*ast.UnaryExpr); isU && u.Op == token.AND {
		e = ast.Unparen(u.X)
	}
	cl, isCL := e.(*ast.CompositeLit)
	if !isCL {
		return false
	}
	newFn := literalField(ipkg.TypesInfo, cl, "New")
	lit, isLit := ast.Unparen(newFn).(*ast.FuncLit)
	if newFn == nil || !isLit {
		return false
	}
	okNew, nret := true, 0
	ast.Inspect(lit.Body, func(m ast.Node) bool {
		if inner, isInner := m.(*ast.FuncLit); isInner && inner != lit {
			return false
		}
		if rs, isRet := m.(*ast.ReturnStmt); isRet {
			nret++
			if len(rs.Results) != 1 || !types.Identical(ipkg.TypesInfo.TypeOf(rs.Results[0]), want) {
				okNew = false
			}
		}
		return true
	})
	if !okNew || nret == 0 {
		return false
	}
	// every Put on this pool in the package hands over a *T
	for _, f := range c.Prog.Funcs(fn.Pkg) {
		if f.Decl.Body == nil {
			continue
		}
		fi := f.Info()
		for _, cs := range core.CallsIn(fi, f.Decl.Body, true) {
			if !strings.HasSuffix(cs.Key, "sync.Pool).Put") || len(cs.Call.Args) != 1 {
				continue
			}
			ps, isSel := ast.Unparen(cs.Call.Fun).(*ast.SelectorExpr)
			if !isSel || core.ObjOf(fi, ps.X) != types.Object(pool) {
				continue
			}
			if !types.Identical(fi.TypeOf(cs.Call.Args[0]), want) {
				return false
			}
		}
	}
	return true
}

// grownBefore reports 1 when every path from the function's entry to the
// call passes an increment of the variable d (d++, d += k, d = d + k with a
// positive constant) and d is not assigned in any other way; 0 otherwise.
func grownBefore(fn *core.Func, call *ast.CallExpr, d types.Object) int {
	if d == nil || fn.Decl.Body == nil {
		return 0
	}
	g := fn.Graph()
	info := fn.Info()
	at := g.VertexOf(call)
	if at == nil {
		return 0
	}
	var incs []*core.V
	for _, v := range defVertices(g, d) {
		isInc := false
		switch st := v.AST.(type) {
		case *ast.IncDecStmt:
			isInc = st.Tok == token.INC
		case *ast.AssignStmt:
			if len(st.Lhs) == 1 && len(st.Rhs) == 1 {
				if st.Tok == token.ADD_ASSIGN {
					k, isK := core.IntConst(info, st.Rhs[0])
					isInc = isK && k > 0
				} else if st.Tok == token.ASSIGN {
					if be, isBin := ast.Unparen(st.Rhs[0]).(*ast.BinaryExpr); isBin && be.Op == token.ADD && core.ObjOf(info, be.X) == d {
						k, isK := core.IntConst(info, be.Y)
						isInc = isK && k > 0
					}
				}
			}
		}
		if !isInc {
			return 0
		}
		incs = append(incs, v)
	}
	if len(incs) == 0 {
		return 0
	}
	if g.ReachFrom(g.Entry, true, core.AvoidVs(incs...))[at] {
		return 0
	}
	return 1
}
