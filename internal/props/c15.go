package props

import (
	"go/ast"
	"go/token"
	"go/types"
	"os"
	"sort"
	"strings"

	"pdfverif/internal/core"
)

func init() {
	register(&Property{
		ID:       "C15",
		Patterns: []string{".", "./graphics/content", "./graphics/content/builder"},
		Run:      runC15,
		Explanation: "Static comparison of the content-stream writer with the content-stream scanner: (R1) the scanner's byte-class table equals pdf.class and ISO 32000-2 7.2.3 (the two tables are separate literals); (R2) the content scanner's ReadName/ReadString/ReadHexString/tryHex are the inverses of pdf.formatName/formatString (same byte-set obligations as C01, with the content scanner as reader); " +
			"(R3) a pdf.Name never reaches the output as raw bytes — only through pdf.Format (the unescaped inline-image key defect was found here and fixed); (R4) Operator.Format writes every operand with pdf.Format(OptContentStream) followed by a white-space separator, the operator name followed by an EOL, and frames inline images as 'BI' EOL … 'ID' + one white-space byte, data, one EOL byte, 'EI' EOL; the scanner accepts 'EI' as terminator only after CR or LF, drops exactly that one byte, skips exactly one white-space byte after ID and requires a non-regular byte after EI; " +
			"(R5) scanner limits are enforced (shared with C05); (R6) operatorTable is an identity map; (R8) integer operands are parsed with the full 64-bit range in both scanners. Decides these for all operand values; does NOT decide image data containing an EOL+'EI' pattern (value-level, documented), number formatting or Builder call sequences.",
	})
}

func runC15(c *core.Ctx) {
	const cp = "pdf/graphics/content"
	defer func() {
		if os.Getenv("PDFVERIF_EXPLORE") != "" {
			var all []string
			for _, p := range c.Prog.RepoPkgs() {
				all = append(all, core.ShortPkg(p.PkgPath))
			}
			rulePublishedNotRecycled(c, "C15-R9", all...)
			return
		}
		rulePublishedNotRecycled(c, "C15-R9", cp, cp+"/builder")
	}()
	defer ruleRealParse(c, "C15-R8", [2]string{cp, "parseNumber"})
	defer ruleNoDeadFieldStores(c)
	c.Guard(func() { ruleClassTable(c, "C15-R1", "pdf") })
	c.Guard(func() { ruleClassTable(c, "C15-R1", cp) })
	c.Check("C15-R1", "class-tables-equal", "the object scanner and the content scanner classify every byte identically", func(o *core.Ob) {
		a := classTable(c.Prog, "pdf")
		b := classTable(c.Prog, cp)
		for i := 0; i < 256; i++ {
			o.Count(1)
			if a[i] != b[i] {
				o.Fail("byte %#02x: pdf.class=%d content.class=%d", i, a[i], b[i])
			}
		}
	})
	c.Guard(func() { ruleNameEscape(c, "C15-R2", cp) })
	c.Guard(func() { ruleStringEscapes(c, "C15-R2", cp) })
	c.Guard(func() { ruleHexString(c, "C15-R2", cp) })

	c.Check("C15-R3", cp+".Operator.Format/names", "names are written through the escaping formatter only: no value of type pdf.Name is converted to bytes and written raw", func(o *core.Ob) {
		pkg := c.Prog.Pkg(cp)
		n := 0
		for _, fn := range c.Prog.Funcs(pkg) {
			info := fn.Info()
			for _, cs := range core.CallsIn(info, fn.Decl, true) {
				if !(strings.HasSuffix(cs.Key, ".Write") || strings.HasSuffix(cs.Key, ".WriteString") || cs.Key == "io.WriteString") || len(cs.Call.Args) == 0 {
					continue
				}
				arg := cs.Call.Args[len(cs.Call.Args)-1]
				// []byte(x) / string(x): look at x
				inner := arg
				if call, ok := ast.Unparen(arg).(*ast.CallExpr); ok && len(call.Args) == 1 {
					if tv, ok := info.Types[call.Fun]; ok && tv.IsType() {
						inner = call.Args[0]
					}
				}
				t := info.TypeOf(inner)
				if t == nil {
					continue
				}
				n++
				if core.IsNamed(t, "pdf", "Name") {
					o.FailAt(fn.Site(cs.Call, ""), "a pdf.Name (%s) is written as raw bytes; a key containing white space, a delimiter or '#' is read back differently", core.ExprStr(inner))
				} else {
					o.At(fn.Site(cs.Call, "raw write of "+core.TypeString(t)))
				}
			}
		}
		o.Shape(n >= 8, "only %d raw writes examined", n)
	})
	c.Check("C15-R4", cp+".Operator.Format/framing", "operands go through pdf.Format(OptContentStream) and are separated by white space; the operator name is followed by an EOL; inline images are framed as BI EOL / ID + one white-space byte / data / one EOL byte + EI + EOL", func(o *core.Ob) {
		fn := c.Prog.Func(cp, "Operator.Format")
		info := fn.Info()
		g := fn.Graph()
		lits := literalsWritten(fn)
		var seq []string
		for _, l := range lits {
			seq = append(seq, quote(l.S))
			o.At(fn.Site(l.Call, "writes "+quote(l.S)))
		}
		// per clause of the switch over the operator: the clauses exclude each other, so the order
		// in which they are written does not matter; within a clause the order is the output order
		clauseOf := func(n ast.Node) *ast.CaseClause {
			var best *ast.CaseClause
			ast.Inspect(fn.Decl.Body, func(m ast.Node) bool {
				if cc, ok := m.(*ast.CaseClause); ok && cc.Pos() <= n.Pos() && n.End() <= cc.End() && best == nil {
					best = cc // the outermost clause that holds the write
				}
				return true
			})
			return best
		}
		groups := map[*ast.CaseClause][]string{}
		var order []*ast.CaseClause
		for _, l := range lits {
			cc := clauseOf(l.Call)
			if _, seen := groups[cc]; !seen {
				order = append(order, cc)
			}
			groups[cc] = append(groups[cc], quote(l.S))
		}
		var got []string
		for _, cc := range order {
			got = append(got, strings.Join(groups[cc], ","))
		}
		sort.Strings(got)
		want := []string{`"\n"`, `"BI\n"," ","\n","ID\n","\nEI\n"`, `" ","\n"`}
		sort.Strings(want)
		flat := []string{`"\n"`, `"BI\n"`, `" "`, `"\n"`, `"ID\n"`, `"\nEI\n"`, `" "`, `"\n"`}
		if strings.Join(got, " | ") != strings.Join(want, " | ") && strings.Join(seq, ",") != strings.Join(flat, ",") {
			o.Fail("framing literals are %v (per clause: %s), want per clause %s", seq, strings.Join(got, " | "), strings.Join(want, " | "))
		}
		// every pdf.Format call uses OptContentStream
		fc := callVertices(g, "pdf.Format")
		o.Shape(len(fc) >= 3, "expected Format calls for inline-image keys, values and operands")
		for _, cv := range fc {
			o.Require(core.ExprStr(cv.Call.Args[1]) == "pdf.OptContentStream", "pdf.Format is called with %s", core.ExprStr(cv.Call.Args[1]))
		}
		// the operand loop: Format(arg) then " " on every path
		for _, h := range loopHeads(g) {
			if h.Cond.Range == nil || core.ExprStr(h.Cond.Range.X) != "op.Args" {
				continue
			}
			body := succ(h, core.EdgeTrue)
			var fmtV, sepV []*core.V
			for v := range g.ReachFrom(body, true, core.AvoidVs(h)) {
				if v.AST == nil {
					continue
				}
				for _, cs := range core.CallsIn(info, v.AST, false) {
					if cs.Key == "pdf.Format" {
						fmtV = append(fmtV, v)
					}
					if strings.HasSuffix(cs.Key, ".Write") {
						if s, ok := constBytes(info, cs.Call.Args[0]); ok && s == " " {
							sepV = append(sepV, v)
						}
					}
				}
			}
			errE := errNotNilEdges(g)
			o.Require(len(fmtV) == 1 && len(sepV) == 1, "the operand loop must format the operand and write one separator")
			if len(fmtV) == 1 && len(sepV) == 1 {
				r := g.ReachFrom(fmtV[0], false, core.AvoidEdges(errE...).With(sepV[0]))
				o.Require(!r[h], "an operand can be written without a following separator")
			}
		}
		// the inline image data is written between "ID\n" and "\nEI\n"
		src := c.Prog.Src(fn.Decl.Body)
		i1, i2, i3 := strings.Index(src, `[]byte("ID\n")`), strings.Index(src, "out.Write([]byte(data))"), strings.Index(src, `[]byte("\nEI\n")`)
		o.Require(i1 >= 0 && i2 > i1 && i3 > i2, "inline image data is not written between the ID and EI framing")
	})
	c.Check("C15-R4", cp+".(*scanner).readInlineImage/EI", "without a length key the image data ends at 'EI' only when the preceding byte is CR or LF, exactly that one EOL byte is removed from the data, one white-space byte is skipped after ID, and EI must be followed by a non-regular byte", func(o *core.Ob) {
		fn := c.Prog.Func(cp, "(*scanner).readInlineImage")
		g := fn.Graph()
		info := fn.Info()
		// the previous-byte state, by its role: the variable compared with CR or LF
		// in the condition under which checkEI is consulted
		var prev types.Object
		var prevID *ast.Ident
		for _, cv := range callVertices(g, cp+".(*scanner).checkEI") {
			look := func(e ast.Expr) {
				ast.Inspect(e, func(n ast.Node) bool {
					be, ok := n.(*ast.BinaryExpr)
					if !ok || (be.Op != token.EQL && be.Op != token.NEQ) {
						return true
					}
					for _, pr := range [][2]ast.Expr{{be.X, be.Y}, {be.Y, be.X}} {
						id, isID := ast.Unparen(pr[0]).(*ast.Ident)
						k, isK := core.IntConst(info, pr[1])
						if isID && isK && (k == '\r' || k == '\n') {
							if v, isVar := info.ObjectOf(id).(*types.Var); isVar && !v.IsField() {
								prev, prevID = v, id
							}
						}
					}
					return true
				})
			}
			for _, a := range g.DominatingAtoms(cv.V) {
				look(a.Expr)
			}
			if cv.V.Cond != nil && cv.V.Cond.Expr != nil {
				look(cv.V.Cond.Expr)
			}
		}
		if prev == nil {
			// any other test of one byte-typed local in front of checkEI (class[prev] == space, ...)
			cands := map[types.Object]*ast.Ident{}
			for _, cv := range callVertices(g, cp+".(*scanner).checkEI") {
				look := func(e ast.Expr) {
					ast.Inspect(e, func(n ast.Node) bool {
						id, ok := n.(*ast.Ident)
						if !ok {
							return true
						}
						if v, isVar := info.ObjectOf(id).(*types.Var); isVar && !v.IsField() && v.Pkg() != nil && v.Parent() != v.Pkg().Scope() {
							if b, isB := v.Type().Underlying().(*types.Basic); isB && b.Kind() == types.Uint8 {
								cands[v] = id
							}
						}
						return true
					})
				}
				for _, a := range g.DominatingAtoms(cv.V) {
					look(a.Expr)
				}
				if cv.V.Cond != nil && cv.V.Cond.Expr != nil {
					look(cv.V.Cond.Expr)
				}
			}
			if len(cands) == 1 {
				for v, id := range cands {
					prev, prevID = v, id
				}
			}
		}
		if !o.Shape(prev != nil, "the variable holding the byte before a possible EI was not found (no test of a single byte variable in front of checkEI)") {
			return
		}
		env := byteEnvFor(c.Prog, fn, prev)
		// the trim statement: v = v[:len(v)-1]
		var trim *core.V
		for _, v := range g.Vs {
			as, ok := v.AST.(*ast.AssignStmt)
			if !ok || len(as.Lhs) != 1 || len(as.Rhs) != 1 {
				continue
			}
			lhs := strings.ReplaceAll(core.ExprStr(as.Lhs[0]), " ", "")
			isTrim := strings.ReplaceAll(core.ExprStr(as.Rhs[0]), " ", "") == lhs+"[:len("+lhs+")-1]"
			if se, isSl := ast.Unparen(as.Rhs[0]).(*ast.SliceExpr); isSl && !isTrim && se.Low == nil && se.High != nil && strings.ReplaceAll(core.ExprStr(se.X), " ", "") == lhs {
				// v = v[:n-1] where n is len(v)
				if be, isBin := ast.Unparen(se.High).(*ast.BinaryExpr); isBin && be.Op == token.SUB {
					if k, isK := core.IntConst(info, be.Y); isK && k == 1 {
						isTrim = true
						for _, vc := range valueCases(g, v, be.X, 2) {
							if strings.ReplaceAll(core.ExprStr(vc.Expr), " ", "") != "len("+lhs+")" {
								isTrim = false
							}
						}
					}
				}
			}
			if isTrim {
				trim = v
				o.At(fn.Site(as, "drops the EOL before EI"))
			}
		}
		if trim == nil {
			o.Count(1)
			o.Fail("the EOL before EI is not removed from the image data (or more than one byte is removed)")
			return
		}
		// loop head of the scanning loop
		var head *core.V
		for _, h := range loopHeads(g) {
			if g.ReachFrom(succ(h, core.EdgeTrue), true, core.AvoidVs(h))[trim] {
				head = h
			}
		}
		if head == nil {
			core.Undecided("scan loop not found")
		}
		set := env.ReachSet(g, []*core.V{succ(head, core.EdgeTrue)}, func(v *core.V) bool { return v == trim }, func(v *core.V) bool { return v == head })
		o.Count(256)
		o.Fact("EI accepted after bytes %s", set.String())
		if !set.Equal(core.BytesOf("\r\n")) {
			o.Fail("'EI' ends the image after the bytes %s; the writer emits exactly one LF before EI and data may contain 'EI' after any other byte, so the accepted set must be {CR, LF}", set.String())
		}
		// before the first data byte is read the state is not an EOL: the data
		// may begin with "EI", and the white space after ID is not part of it
		inLoop := naturalLoop(g, head)
		for _, vc := range valueCases(g, head, prevID, 3) {
			if vc.V != nil && inLoop[vc.V] && vc.V != head {
				continue
			}
			k, isK := core.IntConst(info, vc.Expr)
			if !isK {
				o.Fail("the search for EI starts with %s as the byte before the data: when that is CR or LF, image data that begins with 'EI' is taken for the end of the image", core.ExprStr(vc.Expr))
			} else if k == '\r' || k == '\n' {
				o.Fail("the search for EI starts with an end-of-line as the byte before the data")
			}
		}
		// checkEI is called on that edge
		ce := callVertices(g, cp+".(*scanner).checkEI")
		o.Shape(len(ce) == 1, "expected one checkEI call")
		// one white-space byte after ID
		src := c.Prog.Src(fn.Decl.Body)
		o.Shape(strings.Contains(src, "b,_:=s.Peek()ifclass[b]==space{s.ReadByte()}"), "exactly one white-space byte must be skipped after ID")
		o.Shape(strings.Contains(src, `s.SkipString("EI")`) && strings.Contains(src, "iferr!=io.EOF&&class[nextByte]==regular{returnOperator{},parseError{}}"), "EI must be followed by a non-regular byte or the end of input")
		_ = info
		ck := c.Prog.Func(cp, "(*scanner).checkEI")
		cs := c.Prog.Src(ck.Decl.Body)
		o.At(ck.Site(ck.Decl, "checkEI"))
		o.Shape(strings.Contains(cs, "ifbuf[0]!='E'||buf[1]!='I'{returnfalse}") && strings.Contains(cs, "returnclass[buf[2]]!=regular"), "checkEI must require 'E','I' and a following non-regular byte")
	})
	// limits (subset of the C05 table that belongs to the content scanner)
	for _, lu := range c05Limits {
		if lu.pkg != cp {
			continue
		}
		lu := lu
		c.Check("C15-R5", lu.pkg+"."+lu.fn+"/"+lu.limit, "the content scanner enforces its limit where the data grows", func(o *core.Ob) {
			fn := c.Prog.Func(lu.pkg, lu.fn)
			lim := c.Prog.Pkg(lu.pkg).Types.Scope().Lookup(lu.limit)
			if lim == nil {
				core.Undecided("limit %s not found", lu.limit)
			}
			o.At(fn.Site(fn.Decl, ""))
			o.Require(core.Mentions(fn.Info(), fn.Decl.Body, lim), "%s does not use %s", fn.Key, lu.limit)
		})
	}
	c.Check("C15-R6", cp+".operatorTable", "the table consulted for every scanned operator token maps each name to itself", func(o *core.Ob) {
		_, init, pkg := c.Prog.Var(cp, "operatorTable")
		cl, ok := ast.Unparen(init).(*ast.CompositeLit)
		if !ok {
			core.Undecided("operatorTable is not a composite literal")
		}
		for _, el := range cl.Elts {
			kv, ok := el.(*ast.KeyValueExpr)
			if !ok {
				continue
			}
			o.Count(1)
			k, ok1 := core.StringConst(pkg.TypesInfo, kv.Key)
			v, ok2 := core.StringConst(pkg.TypesInfo, kv.Value)
			if !ok1 || !ok2 {
				o.Fail("non-constant entry %s", core.ExprStr(kv.Key))
				continue
			}
			if k != v {
				o.Fail("operator %q is renamed to %q when scanned", k, v)
			}
		}
		o.Shape(len(cl.Elts) >= 70, "operatorTable has only %d entries", len(cl.Elts))
	})
	c.Check("C15-R8", "integer-range", "integer tokens are parsed with 64-bit range by the object scanner and by the content scanner (pdf.Integer is 64 bit; a narrower parse turns large integers into reals)", func(o *core.Ob) {
		n := 0
		for _, sp := range []string{"pdf", cp} {
			pkg := c.Prog.Pkg(sp)
			for _, fn := range c.Prog.Funcs(pkg) {
				if !strings.Contains(fn.Key, "scanner") && !strings.Contains(fn.Key, "parseNumber") {
					continue
				}
				info := fn.Info()
				for _, call := range core.CallsTo(info, fn.Decl, true, "strconv.ParseInt") {
					n++
					o.At(fn.Site(call, "ParseInt"))
					base, _ := core.IntConst(info, call.Args[1])
					bits, ok := core.IntConst(info, call.Args[2])
					o.Require(base == 10, "integers are parsed with base %d", base)
					o.Require(ok && bits == 64, "integers are parsed with %d bits", bits)
					// the result converts to the Integer type without truncation
				}
			}
		}
		o.Shape(n >= 3, "expected the integer parses of both scanners, found %d", n)
		_ = types.Typ
	})
}

// recycleExempt lists slice fields that are handed out AND recycled by
// design, with the contract that makes it sound.
var recycleExempt = map[string]string{
	"pdf/graphics/content.scanner.args": "Operator.Args is documented as valid only until the next call of Scan (the iterator contract); the buffer is recycled between operators, never within one",
}

// rulePublishedNotRecycled (C15-R9): storage that has been handed out must
// not be reused.  For every slice-typed struct field of the content scanner
// and the content builder: if the field's backing array is published
// somewhere (returned, put into a composite literal, appended as an element
// of another container, converted and kept — directly or through local
// aliases) then no code may recycle it by re-slicing to length zero
// (f = f[:0], append(f[:0], ...)); the publisher owns it from then on.  The
// combination silently overwrites operands (two arrays of one operator share
// storage) or previously harvested operator lists.
func rulePublishedNotRecycled(c *core.Ctx, rule string, pkgs ...string) {
	type site struct {
		fn   *core.Func
		node ast.Node
		how  string
	}
	publish := map[*types.Var][]site{}
	recycle := map[*types.Var][]site{}
	nFields := 0
	for _, sp := range pkgs {
		pkg := c.Prog.Pkg(sp)
		for _, fn := range c.Prog.Funcs(pkg) {
			fn := fn
			info := fn.Info()
			// which field does an expression share its backing array with?
			alias := map[types.Object]*types.Var{}
			var fieldOf func(e ast.Expr) *types.Var
			fieldOf = func(e ast.Expr) *types.Var {
				e = ast.Unparen(e)
				switch x := e.(type) {
				case *ast.SelectorExpr:
					if v, ok := info.ObjectOf(x.Sel).(*types.Var); ok && v.IsField() {
						if _, isSlice := v.Type().Underlying().(*types.Slice); isSlice && v.Pkg() != nil && core.ShortPkg(v.Pkg().Path()) == sp {
							return v
						}
					}
				case *ast.Ident:
					if obj := info.ObjectOf(x); obj != nil {
						return alias[obj]
					}
				case *ast.SliceExpr:
					return fieldOf(x.X)
				case *ast.CallExpr:
					if tv, ok := info.Types[x.Fun]; ok && tv.IsType() && len(x.Args) == 1 {
						if _, isSlice := tv.Type.Underlying().(*types.Slice); isSlice {
							return fieldOf(x.Args[0])
						}
					}
				}
				return nil
			}
			isZeroReslice := func(e ast.Expr) bool {
				sl, ok := ast.Unparen(e).(*ast.SliceExpr)
				if !ok {
					return false
				}
				if sl.High == nil {
					// x[len(x):]: empty as well, and what is appended next lands in
					// the spare capacity that the holder of x appends into too
					if call, isCall := ast.Unparen(sl.Low).(*ast.CallExpr); sl.Low != nil && isCall && core.CalleeKey(info, call) == "builtin.len" && len(call.Args) == 1 {
						return strings.ReplaceAll(core.ExprStr(call.Args[0]), " ", "") == strings.ReplaceAll(core.ExprStr(sl.X), " ", "")
					}
					return false
				}
				k, isK := core.IntConst(info, sl.High)
				return isK && k == 0
			}
			// aliases: fixpoint over local definitions
			for changed := true; changed; {
				changed = false
				ast.Inspect(fn.Decl.Body, func(m ast.Node) bool {
					as, ok := m.(*ast.AssignStmt)
					if !ok || len(as.Lhs) != len(as.Rhs) {
						return true
					}
					for i, l := range as.Lhs {
						id, ok := ast.Unparen(l).(*ast.Ident)
						if !ok {
							continue
						}
						obj := info.ObjectOf(id)
						if obj == nil || alias[obj] != nil {
							continue
						}
						if f := fieldOf(as.Rhs[i]); f != nil {
							alias[obj] = f
							changed = true
							if isZeroReslice(as.Rhs[i]) {
								// a local view of the field's storage, emptied for reuse
								recycle[f] = append(recycle[f], site{fn, as, c.Prog.Src(as)})
							}
						}
					}
					return true
				})
			}
			ast.Inspect(fn.Decl.Body, func(m ast.Node) bool {
				switch x := m.(type) {
				case *ast.AssignStmt:
					for i, l := range x.Lhs {
						if len(x.Lhs) != len(x.Rhs) {
							break
						}
						r := x.Rhs[i]
						// recycle: field = <same backing>[:0]  or  field = append(<same backing>[:0], ...)
						if lf := fieldOf(l); lf != nil {
							if _, isSel := ast.Unparen(l).(*ast.SelectorExpr); isSel {
								if isZeroReslice(r) && fieldOf(r) == lf {
									recycle[lf] = append(recycle[lf], site{fn, x, c.Prog.Src(x)})
								}
								if call, ok := ast.Unparen(r).(*ast.CallExpr); ok {
									if id, ok := call.Fun.(*ast.Ident); ok && id.Name == "append" && len(call.Args) >= 1 && isZeroReslice(call.Args[0]) && fieldOf(call.Args[0]) == lf {
										recycle[lf] = append(recycle[lf], site{fn, x, c.Prog.Src(x)})
									}
								}
							}
						}
						// publish: stored into a field/element of something else
						if f := fieldOf(r); f != nil && !isZeroReslice(r) {
							switch lt := ast.Unparen(l).(type) {
							case *ast.SelectorExpr:
								if fieldOf(l) != f {
									publish[f] = append(publish[f], site{fn, x, "stored in " + c.Prog.Src(lt)})
								}
							case *ast.IndexExpr:
								publish[f] = append(publish[f], site{fn, x, "stored in " + c.Prog.Src(lt)})
							}
						}
					}
				case *ast.ReturnStmt:
					for _, r := range x.Results {
						if f := fieldOf(r); f != nil && !isZeroReslice(r) {
							publish[f] = append(publish[f], site{fn, x, "returned"})
						}
					}
				case *ast.CallExpr:
					// append(other, <field backing>) as an element; function arguments are not
					// counted (callees that keep them are rare and reviewed separately)
					if id, ok := x.Fun.(*ast.Ident); ok && id.Name == "append" && len(x.Args) >= 2 && !x.Ellipsis.IsValid() {
						for _, a := range x.Args[1:] {
							if f := fieldOf(a); f != nil && !isZeroReslice(a) {
								publish[f] = append(publish[f], site{fn, x, "appended as an element"})
							}
						}
					}
				case *ast.CompositeLit:
					for _, el := range x.Elts {
						v := el
						if kv, ok := el.(*ast.KeyValueExpr); ok {
							v = kv.Value
						}
						if f := fieldOf(v); f != nil && !isZeroReslice(v) {
							publish[f] = append(publish[f], site{fn, x, "placed in a composite literal"})
						}
					}
				}
				return true
			})
			// values that flow into an interface-typed local which is then published (obj = arr; append(data, obj))
		}
		for _, name := range pkg.Types.Scope().Names() {
			if tn, ok := pkg.Types.Scope().Lookup(name).(*types.TypeName); ok {
				if st, ok := tn.Type().Underlying().(*types.Struct); ok {
					for i := 0; i < st.NumFields(); i++ {
						if _, isSlice := st.Field(i).Type().Underlying().(*types.Slice); isSlice {
							nFields++
						}
					}
				}
			}
		}
	}
	// local slices that are handed to a retaining callee and then recycled
	type localFinding struct {
		fn       *core.Func
		pub, rec ast.Node
		name     string
		callee   string
	}
	var localBad []localFinding
	nLocalPub := 0
	retainCache := map[string]bool{}
	var retains func(cf *core.Func, idx int) bool
	retains = func(cf *core.Func, idx int) bool {
		key := cf.Key + "#" + itoa(idx)
		if v, ok := retainCache[key]; ok {
			return v
		}
		retainCache[key] = false
		// parameter object
		var p types.Object
		i := 0
		for _, fl := range cf.Decl.Type.Params.List {
			for _, nm := range fl.Names {
				if i == idx || (i < idx && fl == cf.Decl.Type.Params.List[len(cf.Decl.Type.Params.List)-1] && isEllipsis(fl.Type)) {
					p = cf.Info().Defs[nm]
				}
				i++
			}
		}
		if p == nil {
			return false
		}
		info := cf.Info()
		res := false
		ast.Inspect(cf.Decl.Body, func(m ast.Node) bool {
			switch x := m.(type) {
			case *ast.CompositeLit:
				for _, el := range x.Elts {
					v := el
					if kv, ok := el.(*ast.KeyValueExpr); ok {
						v = kv.Value
					}
					if core.ObjOf(info, v) == p {
						res = true
					}
				}
			case *ast.AssignStmt:
				for i, l := range x.Lhs {
					if i < len(x.Rhs) && core.ObjOf(info, x.Rhs[i]) == p {
						if _, isSel := ast.Unparen(l).(*ast.SelectorExpr); isSel {
							res = true
						}
					}
				}
			case *ast.CallExpr:
				if id, ok := x.Fun.(*ast.Ident); ok && id.Name == "append" && len(x.Args) >= 2 {
					for _, a := range x.Args[1:] {
						if core.ObjOf(info, a) == p {
							res = true
						}
					}
				}
			}
			return true
		})
		retainCache[key] = res
		return res
	}
	for _, sp := range pkgs {
		pkg := c.Prog.Pkg(sp)
		for _, fn := range c.Prog.Funcs(pkg) {
			fn := fn
			info := fn.Info()
			type ev struct {
				node   ast.Node
				callee string
			}
			pubs := map[types.Object][]ev{}
			recs := map[types.Object][]ast.Node{}
			ast.Inspect(fn.Decl.Body, func(m ast.Node) bool {
				switch x := m.(type) {
				case *ast.AssignStmt:
					for i, l := range x.Lhs {
						if i >= len(x.Rhs) {
							break
						}
						id, ok := ast.Unparen(l).(*ast.Ident)
						if !ok {
							continue
						}
						v, ok := info.ObjectOf(id).(*types.Var)
						if !ok || v.IsField() {
							continue
						}
						if _, isSlice := v.Type().Underlying().(*types.Slice); !isSlice {
							continue
						}
						if sl, ok := ast.Unparen(x.Rhs[i]).(*ast.SliceExpr); ok && sl.High != nil && core.ObjOf(info, sl.X) == v {
							if k, isK := core.IntConst(info, sl.High); isK && k == 0 {
								recs[v] = append(recs[v], x)
							}
						}
					}
				case *ast.CallExpr:
					callee := core.Callee(info, x)
					if callee == nil {
						return true
					}
					cf := c.Prog.FuncOf(callee)
					if cf == nil {
						return true
					}
					for i, a := range x.Args {
						v, ok := core.ObjOf(info, a).(*types.Var)
						if !ok || v.IsField() {
							continue
						}
						if _, isSlice := v.Type().Underlying().(*types.Slice); !isSlice {
							continue
						}
						if x.Ellipsis.IsValid() && i == len(x.Args)-1 {
							continue
						}
						if retains(cf, i) {
							pubs[v] = append(pubs[v], ev{x, cf.Key})
							nLocalPub++
						}
					}
				}
				return true
			})
			for v, ps := range pubs {
				for _, r := range recs[v] {
					for _, pu := range ps {
						// within one function body the recycling must come after the hand-over
						lp, lr := core.EnclosingFuncLit(fn.Decl, pu.node), core.EnclosingFuncLit(fn.Decl, r)
						if lp == lr {
							var g *core.Graph
							if lp == nil {
								g = fn.Graph()
							} else {
								g = fn.LitGraph(lp)
							}
							pv, rv := g.VertexOf(pu.node), g.VertexOf(r)
							if pv != nil && rv != nil && !g.ReachFrom(pv, false, nil)[rv] {
								continue
							}
						}
						localBad = append(localBad, localFinding{fn, pu.node, r, v.Name(), pu.callee})
						break
					}
				}
			}
		}
	}
	fieldKey := func(f *types.Var) string {
		// owner type name: search the package scope
		for _, name := range f.Pkg().Scope().Names() {
			if tn, ok := f.Pkg().Scope().Lookup(name).(*types.TypeName); ok {
				if st, ok := tn.Type().Underlying().(*types.Struct); ok {
					for i := 0; i < st.NumFields(); i++ {
						if st.Field(i) == f {
							return core.ShortPkg(f.Pkg().Path()) + "." + name + "." + f.Name()
						}
					}
				}
			}
		}
		return core.ShortPkg(f.Pkg().Path()) + ".?." + f.Name()
	}
	c.Check(rule, "published-not-recycled", "no slice field or local slice of the listed packages is both handed out (returned, stored elsewhere, given to a retaining callee) and recycled by re-slicing to length zero (except documented transient buffers)", func(o *core.Ob) {
		o.Count(nFields)
		o.Fact("%d slice fields, %d published, %d recycled", nFields, len(publish), len(recycle))
		for f, rs := range recycle {
			ps := publish[f]
			if len(ps) == 0 {
				continue
			}
			key := fieldKey(f)
			if why, ok := recycleExempt[key]; ok {
				o.Fact("%s: handed out and recycled by contract: %s", key, why)
				continue
			}
			for _, r := range rs {
				o.FailAt(r.fn.Site(r.node, "recycled"), "%s: %s recycles the storage of %s (%s), which is handed out at %s (%s): later writes overwrite what the holder sees", c.Prog.Pos(r.node.Pos()), r.fn.Key, key, r.how, c.Prog.Pos(ps[0].node.Pos()), ps[0].how)
			}
		}
		o.Shape(nFields >= 1, "only %d slice fields found", nFields)
		o.Fact("%d local slices handed to retaining callees", nLocalPub)
		for _, lb := range localBad {
			o.FailAt(lb.fn.Site(lb.rec, "recycled"), "%s: the local slice %s is handed to %s, which keeps it (%s), and is then recycled with %s: what is appended afterwards overwrites the operands already emitted", c.Prog.Pos(lb.rec.Pos()), lb.name, lb.callee, c.Prog.Pos(lb.pub.Pos()), c.Prog.Src(lb.rec))
		}
	})
}

func isEllipsis(e ast.Expr) bool {
	_, ok := e.(*ast.Ellipsis)
	return ok
}

// ruleNoDeadFieldStores (C15-R10): a store into a field of b.State (or of
// any other struct-valued field) is lost if the whole field is replaced
// afterwards.  Builder.Reset and New install the PDF version that gates
// version-dependent operator rules into the fresh State: in the builder
// package no statement "x.f.g = v" may be followed, without an intervening
// read, by "x.f = ...".
func ruleNoDeadFieldStores(c *core.Ctx) {
	const pk = "pdf/graphics/content/builder"
	c.Check("C15-R10", pk+"/dead-field-stores", "no store into a field of a struct-valued field is overwritten by a later replacement of the whole field", func(o *core.Ob) {
		pkg := c.Prog.Pkg(pk)
		n := 0
		for _, fn := range c.Prog.Funcs(pkg) {
			g := fn.Graph()
			for _, v := range g.Vs {
				as, ok := v.AST.(*ast.AssignStmt)
				if !ok {
					continue
				}
				for _, l := range as.Lhs {
					outer, ok := ast.Unparen(l).(*ast.SelectorExpr)
					if !ok {
						continue
					}
					inner, ok := ast.Unparen(outer.X).(*ast.SelectorExpr)
					if !ok {
						continue
					}
					n++
					o.Count(1)
					target := c.Prog.Src(inner)
					after := g.ReachFrom(v, false, nil)
					for _, w := range g.Vs {
						if !after[w] || w == v {
							continue
						}
						as2, ok := w.AST.(*ast.AssignStmt)
						if !ok {
							continue
						}
						for _, l2 := range as2.Lhs {
							if c.Prog.Src(l2) == target {
								o.FailAt(fn.Site(as, ""), "%s: %s is stored and then %s is replaced as a whole at %s: the stored value is lost", c.Prog.Pos(as.Pos()), c.Prog.Src(l), target, c.Prog.Pos(as2.Pos()))
							}
						}
					}
				}
			}
		}
		o.Shape(n >= 3, "only %d nested field stores found", n)
	})
	c.Check("C15-R10", pk+".(*Builder).Reset/version", "Reset installs the builder's PDF version in the state it creates", func(o *core.Ob) {
		fn := c.Prog.Func(pk, "(*Builder).Reset")
		g := fn.Graph()
		var newState, setVersion *core.V
		for _, v := range g.Vs {
			if as, ok := v.AST.(*ast.AssignStmt); ok && len(as.Lhs) == 1 {
				switch strings.TrimPrefix(c.Prog.Src(as.Lhs[0]), "b.") {
				case "State":
					newState = v
				case "State.Version":
					setVersion = v
				}
			}
		}
		o.Count(1)
		// the state may be completed in a local and installed afterwards: state := NewState(..); state.Version = v; b.State = state
		if newState != nil && setVersion == nil {
			info := fn.Info()
			as := newState.AST.(*ast.AssignStmt)
			if loc, isVar := core.ObjOf(info, as.Rhs[0]).(*types.Var); isVar && !loc.IsField() {
				_, isPtr := loc.Type().Underlying().(*types.Pointer)
				for _, v := range g.Vs {
					a2, ok := v.AST.(*ast.AssignStmt)
					if !ok || len(a2.Lhs) != 1 {
						continue
					}
					sel, isSel := ast.Unparen(a2.Lhs[0]).(*ast.SelectorExpr)
					if !isSel || sel.Sel.Name != "Version" || core.ObjOf(info, sel.X) != loc {
						continue
					}
					if g.Dominates(v, newState) || isPtr && g.Dominates(newState, v) {
						return // set on the value that is installed
					}
					o.Fail("the version is stored into a copy of the state after the state was installed")
					return
				}
			}
		}
		o.Require(newState != nil && setVersion != nil, "Reset does not create a state and set its version")
		if newState != nil && setVersion != nil {
			o.Require(g.Dominates(newState, setVersion), "the version is not stored into the newly created state")
		}
	})
}
