package props

import (
	"go/ast"
	"go/types"
	"strings"

	"pdfverif/internal/core"
)

func init() {
	register(&Property{
		ID:       "C15",
		Patterns: []string{".", "./graphics/content"},
		Run:      runC15,
		Explanation: "Static comparison of the content-stream writer with the content-stream scanner: (R1) the scanner's byte-class table equals pdf.class and ISO 32000-2 7.2.3 (the two tables are separate literals); (R2) the content scanner's ReadName/ReadString/ReadHexString/tryHex are the inverses of pdf.formatName/formatString (same byte-set obligations as C01, with the content scanner as reader); " +
			"(R3) a pdf.Name never reaches the output as raw bytes — only through pdf.Format (the unescaped inline-image key defect was found here and fixed); (R4) Operator.Format writes every operand with pdf.Format(OptContentStream) followed by a white-space separator, the operator name followed by an EOL, and frames inline images as 'BI' EOL … 'ID' + one white-space byte, data, one EOL byte, 'EI' EOL; the scanner accepts 'EI' as terminator only after CR or LF, drops exactly that one byte, skips exactly one white-space byte after ID and requires a non-regular byte after EI; " +
			"(R5) scanner limits are enforced (shared with C05); (R6) operatorTable is an identity map; (R8) integer operands are parsed with the full 64-bit range in both scanners. Decides these for all operand values; does NOT decide image data containing an EOL+'EI' pattern (value-level, documented), number formatting or Builder call sequences.",
	})
}

func runC15(c *core.Ctx) {
	const cp = "pdf/graphics/content"
	ruleClassTable(c, "C15-R1", "pdf")
	ruleClassTable(c, "C15-R1", cp)
	c.Check("C15-R1", "class-tables-equal", "the object scanner and the content scanner classify every byte identically", func(o *core.Ob) {
		a := classTable(c.Prog, "pdf")
		b := classTable(c.Prog, cp)
		for i := 0; i < 256; i++ {
			o.Count(1)
			if a[i] != b[i] {
				o.Fail("byte %#02x: pdf.class=%d content.class=%d", i, a[i], b[i])
			}
		}
	})
	ruleNameEscape(c, "C15-R2", cp)
	ruleStringEscapes(c, "C15-R2", cp)
	ruleHexString(c, "C15-R2", cp)

	c.Check("C15-R3", cp+".Operator.Format/names", "names are written through the escaping formatter only: no value of type pdf.Name is converted to bytes and written raw", func(o *core.Ob) {
		pkg := c.Prog.Pkg(cp)
		n := 0
		for _, fn := range c.Prog.Funcs(pkg) {
			info := fn.Info()
			for _, cs := range core.CallsIn(info, fn.Decl, true) {
				if !(strings.HasSuffix(cs.Key, ".Write") || strings.HasSuffix(cs.Key, ".WriteString") || cs.Key == "io.WriteString") || len(cs.Call.Args) == 0 {
					continue
				}
				arg := cs.Call.Args[len(cs.Call.Args)-1]
				// []byte(x) / string(x): look at x
				inner := arg
				if call, ok := ast.Unparen(arg).(*ast.CallExpr); ok && len(call.Args) == 1 {
					if tv, ok := info.Types[call.Fun]; ok && tv.IsType() {
						inner = call.Args[0]
					}
				}
				t := info.TypeOf(inner)
				if t == nil {
					continue
				}
				n++
				if core.IsNamed(t, "pdf", "Name") {
					o.FailAt(fn.Site(cs.Call, ""), "a pdf.Name (%s) is written as raw bytes; a key containing white space, a delimiter or '#' is read back differently", core.ExprStr(inner))
				} else {
					o.At(fn.Site(cs.Call, "raw write of "+core.TypeString(t)))
				}
			}
		}
		o.Require(n >= 8, "only %d raw writes examined", n)
	})
	c.Check("C15-R4", cp+".Operator.Format/framing", "operands go through pdf.Format(OptContentStream) and are separated by white space; the operator name is followed by an EOL; inline images are framed as BI EOL / ID + one white-space byte / data / one EOL byte + EI + EOL", func(o *core.Ob) {
		fn := c.Prog.Func(cp, "Operator.Format")
		info := fn.Info()
		g := fn.Graph()
		lits := literalsWritten(fn)
		var seq []string
		for _, l := range lits {
			seq = append(seq, quote(l.S))
			o.At(fn.Site(l.Call, "writes "+quote(l.S)))
		}
		want := []string{`"\n"`, `"BI\n"`, `" "`, `"\n"`, `"ID\n"`, `"\nEI\n"`, `" "`, `"\n"`}
		if strings.Join(seq, ",") != strings.Join(want, ",") {
			o.Fail("framing literals are %v, want %v", seq, want)
		}
		// every pdf.Format call uses OptContentStream
		fc := callVertices(g, "pdf.Format")
		o.Require(len(fc) >= 3, "expected Format calls for inline-image keys, values and operands")
		for _, cv := range fc {
			o.Require(core.ExprStr(cv.Call.Args[1]) == "pdf.OptContentStream", "pdf.Format is called with %s", core.ExprStr(cv.Call.Args[1]))
		}
		// the operand loop: Format(arg) then " " on every path
		for _, h := range loopHeads(g) {
			if h.Cond.Range == nil || core.ExprStr(h.Cond.Range.X) != "op.Args" {
				continue
			}
			body := succ(h, core.EdgeTrue)
			var fmtV, sepV []*core.V
			for v := range g.ReachFrom(body, true, core.AvoidVs(h)) {
				if v.AST == nil {
					continue
				}
				for _, cs := range core.CallsIn(info, v.AST, false) {
					if cs.Key == "pdf.Format" {
						fmtV = append(fmtV, v)
					}
					if strings.HasSuffix(cs.Key, ".Write") {
						if s, ok := constBytes(info, cs.Call.Args[0]); ok && s == " " {
							sepV = append(sepV, v)
						}
					}
				}
			}
			errE := errNotNilEdges(g)
			o.Require(len(fmtV) == 1 && len(sepV) == 1, "the operand loop must format the operand and write one separator")
			if len(fmtV) == 1 && len(sepV) == 1 {
				r := g.ReachFrom(fmtV[0], false, core.AvoidEdges(errE...).With(sepV[0]))
				o.Require(!r[h], "an operand can be written without a following separator")
			}
		}
		// the inline image data is written between "ID\n" and "\nEI\n"
		src := c.Prog.Src(fn.Decl.Body)
		i1, i2, i3 := strings.Index(src, `[]byte("ID\n")`), strings.Index(src, "out.Write([]byte(data))"), strings.Index(src, `[]byte("\nEI\n")`)
		o.Require(i1 >= 0 && i2 > i1 && i3 > i2, "inline image data is not written between the ID and EI framing")
	})
	c.Check("C15-R4", cp+".(*scanner).readInlineImage/EI", "without a length key the image data ends at 'EI' only when the preceding byte is CR or LF, exactly that one EOL byte is removed from the data, one white-space byte is skipped after ID, and EI must be followed by a non-regular byte", func(o *core.Ob) {
		fn := c.Prog.Func(cp, "(*scanner).readInlineImage")
		g := fn.Graph()
		info := fn.Info()
		prev := localVar(fn, "prevByte", 0)
		env := byteEnvFor(c.Prog, fn, prev)
		// the trim statement
		var trim *core.V
		for _, v := range g.Vs {
			if as, ok := v.AST.(*ast.AssignStmt); ok && c.Prog.Src(as) == "imageData=imageData[:len(imageData)-1]" {
				trim = v
				o.At(fn.Site(as, "drops the EOL before EI"))
			}
		}
		if trim == nil {
			o.Count(1)
			o.Fail("the EOL before EI is not removed from the image data (or more than one byte is removed)")
			return
		}
		// loop head of the scanning loop
		var head *core.V
		for _, h := range loopHeads(g) {
			if g.ReachFrom(succ(h, core.EdgeTrue), true, core.AvoidVs(h))[trim] {
				head = h
			}
		}
		if head == nil {
			core.Undecided("scan loop not found")
		}
		set := env.ReachSet(g, []*core.V{succ(head, core.EdgeTrue)}, func(v *core.V) bool { return v == trim }, func(v *core.V) bool { return v == head })
		o.Count(256)
		o.Fact("EI accepted after bytes %s", set.String())
		if !set.Equal(core.BytesOf("\r\n")) {
			o.Fail("'EI' ends the image after the bytes %s; the writer emits exactly one LF before EI and data may contain 'EI' after any other byte, so the accepted set must be {CR, LF}", set.String())
		}
		// checkEI is called on that edge
		ce := callVertices(g, cp+".(*scanner).checkEI")
		o.Require(len(ce) == 1, "expected one checkEI call")
		// one white-space byte after ID
		src := c.Prog.Src(fn.Decl.Body)
		o.Require(strings.Contains(src, "b,_:=s.Peek()ifclass[b]==space{s.ReadByte()}"), "exactly one white-space byte must be skipped after ID")
		o.Require(strings.Contains(src, `s.SkipString("EI")`) && strings.Contains(src, "iferr!=io.EOF&&class[nextByte]==regular{returnOperator{},parseError{}}"), "EI must be followed by a non-regular byte or the end of input")
		_ = info
		ck := c.Prog.Func(cp, "(*scanner).checkEI")
		cs := c.Prog.Src(ck.Decl.Body)
		o.At(ck.Site(ck.Decl, "checkEI"))
		o.Require(strings.Contains(cs, "ifbuf[0]!='E'||buf[1]!='I'{returnfalse}") && strings.Contains(cs, "returnclass[buf[2]]!=regular"), "checkEI must require 'E','I' and a following non-regular byte")
	})
	// limits (subset of the C05 table that belongs to the content scanner)
	for _, lu := range c05Limits {
		if lu.pkg != cp {
			continue
		}
		lu := lu
		c.Check("C15-R5", lu.pkg+"."+lu.fn+"/"+lu.limit, "the content scanner enforces its limit where the data grows", func(o *core.Ob) {
			fn := c.Prog.Func(lu.pkg, lu.fn)
			lim := c.Prog.Pkg(lu.pkg).Types.Scope().Lookup(lu.limit)
			if lim == nil {
				core.Undecided("limit %s not found", lu.limit)
			}
			o.At(fn.Site(fn.Decl, ""))
			o.Require(core.Mentions(fn.Info(), fn.Decl.Body, lim), "%s does not use %s", fn.Key, lu.limit)
		})
	}
	c.Check("C15-R6", cp+".operatorTable", "the table consulted for every scanned operator token maps each name to itself", func(o *core.Ob) {
		_, init, pkg := c.Prog.Var(cp, "operatorTable")
		cl, ok := ast.Unparen(init).(*ast.CompositeLit)
		if !ok {
			core.Undecided("operatorTable is not a composite literal")
		}
		for _, el := range cl.Elts {
			kv, ok := el.(*ast.KeyValueExpr)
			if !ok {
				continue
			}
			o.Count(1)
			k, ok1 := core.StringConst(pkg.TypesInfo, kv.Key)
			v, ok2 := core.StringConst(pkg.TypesInfo, kv.Value)
			if !ok1 || !ok2 {
				o.Fail("non-constant entry %s", core.ExprStr(kv.Key))
				continue
			}
			if k != v {
				o.Fail("operator %q is renamed to %q when scanned", k, v)
			}
		}
		o.Require(len(cl.Elts) >= 70, "operatorTable has only %d entries", len(cl.Elts))
	})
	c.Check("C15-R8", "integer-range", "integer tokens are parsed with 64-bit range by the object scanner and by the content scanner (pdf.Integer is 64 bit; a narrower parse turns large integers into reals)", func(o *core.Ob) {
		n := 0
		for _, sp := range []string{"pdf", cp} {
			pkg := c.Prog.Pkg(sp)
			for _, fn := range c.Prog.Funcs(pkg) {
				if !strings.Contains(fn.Key, "scanner") && !strings.Contains(fn.Key, "parseNumber") {
					continue
				}
				info := fn.Info()
				for _, call := range core.CallsTo(info, fn.Decl, true, "strconv.ParseInt") {
					n++
					o.At(fn.Site(call, "ParseInt"))
					base, _ := core.IntConst(info, call.Args[1])
					bits, ok := core.IntConst(info, call.Args[2])
					o.Require(base == 10, "integers are parsed with base %d", base)
					o.Require(ok && bits == 64, "integers are parsed with %d bits", bits)
					// the result converts to the Integer type without truncation
				}
			}
		}
		o.Require(n >= 3, "expected the integer parses of both scanners, found %d", n)
		_ = types.Typ
	})
}
