package props

import (
	"os"
	"strings"

	"pdfverif/internal/core"
)

// X00 is an exploration aid, not a claimed property: it loads the whole
// module and runs the rules that are generic over the code base, to look for
// further instances of defects the property-specific checks found elsewhere.
// It is not listed in MANIFEST.json and writes its evidence like any other
// check (evidence/X00.json is not committed).
func init() {
	register(&Property{
		ID:          "X00",
		Patterns:    []string{"./..."},
		Explanation: "exploration: generic aliasing, purity and error-latch rules over every package of the module",
		Run: func(c *core.Ctx) {
			exploreAll = true
			var pkgs []string
			for _, p := range c.Prog.RepoPkgs() {
				sp := core.ShortPkg(p.PkgPath)
				if strings.Contains(sp, "/examples/") || strings.Contains(sp, "viewer-tests") || strings.HasSuffix(sp, "/generate") {
					continue
				}
				pkgs = append(pkgs, sp)
			}
			rulePublishedNotRecycled(c, "X00-R1", pkgs...)
			ruleNoForeignAppend(c, "X00-R2", 0, pkgs...)
			for _, p := range pkgs {
				ruleNoStaleElementPointers(c, "X00-R3", p)
			}
			ruleDeferredErrorReachesCaller(c)
			ruleVisitedMonotone(c)
			ruleDepthDiscipline(c)
			ruleBudgetCharged(c)
			ruleIndexClamps(c)
			ruleCloseOnce(c)
			ruleCyclePathCumulative(c)
			if os.Getenv("PDFVERIF_EXPLORE_ERRFLOW") != "" {
				runC19(c)
			}
		},
	})
}
