package props

import (
	"fmt"
	"go/ast"
	"go/token"
	"go/types"
	"os"
	"regexp/syntax"
	"strings"

	"golang.org/x/tools/go/ssa"

	"pdfverif/internal/core"
)

func init() {
	register(&Property{
		ID:       "C20",
		Patterns: []string{"."},
		Run:      runC20,
		Explanation: "Static rules on the sequential scan: (R1) in checkObjects an object whose parse ends in a malformed-file error OR in a bare end-of-input (io.EOF / io.ErrUnexpectedEOF, i.e. truncation) is marked Broken and the scan continues, every other error aborts; each object is checked with its own fresh, bounded /Length resolver (the cycle budget is per object, not per file); " +
			"(R2) a short read at the end of the file (io.EOF from ReadAt) is data, not failure, in the stream-extent probes, so a correct /Length next to the truncation point stays trusted; locateObjects treats end of input from Find as end of scan and fails outright only when nothing was found; (R3) the rebuilt xref skips Broken objects, keeps the highest generation and the last definition, the object index is built before objects are checked, and an object's start is the marker position plus its leading white space; " +
			"(R4) the marker pattern (parsed with regexp/syntax) requires a line start before and a word boundary after the marker and captures object and generation number separated by PDF white space; (R5) the indirect-/Length resolver is bounded (seen-set and a cap) and resolves in scalar-only mode. " +
			"Decides the error-handling shape for every truncation offset at once; does NOT decide that every complete object is located (regular-expression matching over all byte strings) or offsets as values.",
	})
}

func runC20(c *core.Ctx) {
	defer ruleEOFIdentity(c)
	c.Check("C20-R1", "pdf.(*FileInfo).checkObjects/broken", "an incomplete or malformed object is reported as broken instead of aborting the scan: the continue edge is taken for malformed errors and for bare end-of-input, every other error is returned", func(o *core.Ob) {
		fn := c.Prog.Func("pdf", "(*FileInfo).checkObjects")
		g := fn.Graph()
		info := fn.Info()
		dr := callVertices(g, "pdf.(*FileInfo).doRead")
		if len(dr) != 1 {
			o.Count(1)
			o.Unrec("expected one doRead call, found %d", len(dr))
			return
		}
		o.At(fn.Site(dr[0].Call, "parse candidate"))
		as := dr[0].V.AST.(*ast.AssignStmt)
		errObj := core.ObjOf(info, as.Lhs[len(as.Lhs)-1])
		// the store Broken = true
		var broken *core.V
		for _, v := range g.Vs {
			if a, ok := v.AST.(*ast.AssignStmt); ok && strings.HasSuffix(core.ExprStr(a.Lhs[0]), ".Broken") {
				broken = v
				o.At(fn.Site(a, "marks broken"))
			}
		}
		if broken == nil {
			o.Fail("checkObjects never marks an object as broken")
			return
		}
		// the three classifications of the parse error, as they occur in the function
		var isMal, isEOF, isUEOF ast.Expr
		ast.Inspect(fn.Decl.Body, func(n ast.Node) bool {
			e, ok := n.(ast.Expr)
			if !ok {
				return true
			}
			if call, ok := core.IsCallTo(info, e, "pdf.IsMalformed"); ok && len(call.Args) == 1 && core.ObjOf(info, call.Args[0]) == errObj {
				isMal = e
			}
			sentinel := func(x ast.Expr) string {
				s := strings.ReplaceAll(core.ExprStr(x), " ", "")
				if s == "io.EOF" || s == "io.ErrUnexpectedEOF" {
					return s
				}
				return ""
			}
			if be, ok := ast.Unparen(e).(*ast.BinaryExpr); ok && (be.Op == token.EQL || be.Op == token.NEQ) {
				// err == X, or its negation !(err != X)
				var test ast.Expr = e
				if be.Op == token.NEQ {
					test = &ast.UnaryExpr{Op: token.NOT, X: &ast.ParenExpr{X: e}}
				}
				for _, pair := range [][2]ast.Expr{{be.X, be.Y}, {be.Y, be.X}} {
					if core.ObjOf(info, pair[0]) == errObj {
						switch sentinel(pair[1]) {
						case "io.EOF":
							isEOF = test
						case "io.ErrUnexpectedEOF":
							isUEOF = test
						}
					}
				}
			}
			if call, ok := core.IsCallTo(info, e, "errors.Is"); ok && len(call.Args) == 2 && core.ObjOf(info, call.Args[0]) == errObj {
				switch sentinel(call.Args[1]) {
				case "io.EOF":
					isEOF = e
				case "io.ErrUnexpectedEOF":
					isUEOF = e
				}
			}
			return true
		})
		o.Require(isMal != nil, "malformed objects are not marked broken")
		o.Require(isEOF != nil, "an object cut off by the end of the file (bare io.EOF) aborts the scan instead of being marked broken")
		o.Require(isUEOF != nil, "an object cut off by the end of the file (io.ErrUnexpectedEOF) aborts the scan instead of being marked broken")
		if isMal == nil || isEOF == nil || isUEOF == nil {
			return
		}
		// boolean locals with a single definition stand for that definition
		subst := map[types.Object]ast.Expr{}
		ast.Inspect(fn.Decl.Body, func(m ast.Node) bool {
			if as, ok := m.(*ast.AssignStmt); ok && as.Tok == token.DEFINE && len(as.Lhs) == 1 && len(as.Rhs) == 1 {
				if obj := core.ObjOf(info, as.Lhs[0]); obj != nil && isBoolObj(obj) && len(core.AssignsTo(info, fn.Decl, obj)) == 1 {
					subst[obj] = as.Rhs[0]
				}
			}
			return true
		})
		any3 := &ast.BinaryExpr{X: &ast.BinaryExpr{X: isMal, Op: token.LOR, Y: isEOF}, Op: token.LOR, Y: isUEOF}
		// (1) broken is marked only for those three reasons
		holds, counter, decided := c.Prog.Implies(core.Formula{Fn: fn, Atoms: g.DominatingAtoms(broken), Subst: subst}, core.Formula{Fn: fn, Atoms: []core.Atom{{Expr: any3}}, Subst: subst})
		if !decided {
			core.Undecided("condition of the broken mark not decided: %s", counter)
		}
		o.Require(holds, "an object is marked broken for a reason other than malformed / end of input (%s)", counter)
		// after marking: continue (the loop goes on), not return
		for v := range g.ReachFrom(broken, false, core.AvoidVs(loopHeads(g)...)) {
			if _, ok := v.AST.(*ast.ReturnStmt); ok {
				o.FailAt(fn.Site(v.AST, ""), "marking an object broken is followed by a return")
			}
		}
		// (2) the error is returned only when it is none of the three: together
		// with (1) and the fact that a failed parse either marks or returns,
		// each of the three reasons leads to the mark
		retOK := false
		for _, r := range g.Returns() {
			rs := r.AST.(*ast.ReturnStmt)
			if len(rs.Results) == 0 || !g.PathExists(dr[0].V, r, nil) {
				continue
			}
			// the parse error itself, or a copy of it made earlier (a helper folded in)
			var at *core.V
			if core.ObjOf(info, rs.Results[len(rs.Results)-1]) == errObj {
				at = r
			} else {
				var walk func(v *core.V, e ast.Expr, depth int)
				walk = func(v *core.V, e ast.Expr, depth int) {
					if depth == 0 || at != nil {
						return
					}
					for _, vc := range valueCases(g, v, e, 1) {
						if vc.V == v {
							continue
						}
						if core.ObjOf(info, vc.Expr) == errObj {
							at = vc.V
							return
						}
						if _, isID := ast.Unparen(vc.Expr).(*ast.Ident); isID {
							walk(vc.V, vc.Expr, depth-1)
						}
					}
				}
				walk(r, rs.Results[len(rs.Results)-1], 3)
			}
			if at == nil {
				continue
			}
			retOK = true
			atoms := g.DominatingAtoms(at)
			h2, c2, d2 := c.Prog.Implies(core.Formula{Fn: fn, Atoms: atoms, Subst: subst}, core.Formula{Fn: fn, Atoms: []core.Atom{{Expr: any3, Neg: true}}, Subst: subst})
			if !d2 {
				core.Undecided("condition of the error return not decided: %s", c2)
			}
			if !h2 {
				o.FailAt(fn.Site(rs, ""), "the scan is aborted for an error that should only mark the object broken (%s)", c2)
			}
		}
		o.Require(retOK, "an error that is neither malformed nor end-of-input is not returned")
		// a failed parse either marks or returns: from the err != nil edge nothing else is reachable
		for _, bv := range g.BranchVertices() {
			for _, l := range []core.EdgeLabel{core.EdgeTrue, core.EdgeFalse} {
				for _, a := range bv.Implied(l) {
					cmp, isCmp := a.AsCmp()
					if !isCmp || cmp.Op != token.NEQ || core.ObjOf(info, cmp.L) != errObj || !core.IsNil(info, cmp.R) || !g.PathExists(dr[0].V, bv, nil) {
						continue
					}
					var rets []*core.V
					for _, r := range g.Returns() {
						rets = append(rets, r)
					}
					reach := g.ReachFrom(succ(bv, l), true, core.AvoidVs(append(rets, broken)...).With(loopHeads(g)...))
					for v := range reach {
						if a2, ok := v.AST.(*ast.AssignStmt); ok && strings.HasSuffix(core.ExprStr(a2.Lhs[0]), ".ObjEnd") {
							o.FailAt(fn.Site(a2, ""), "a failed parse can go on as if it had succeeded")
						}
					}
				}
			}
		}
		// ObjEnd recorded only for good objects
		for _, v := range g.Vs {
			if a, ok := v.AST.(*ast.AssignStmt); ok && strings.HasSuffix(core.ExprStr(a.Lhs[0]), ".ObjEnd") {
				okNil := g.GuardedBy(v, func(at core.Atom) bool {
					cmp, isCmp := at.AsCmp()
					return isCmp && cmp.Op == token.EQL && core.ObjOf(info, cmp.L) == errObj && core.IsNil(info, cmp.R)
				})
				o.Require(okNil, "ObjEnd is recorded for an object that failed to parse")
			}
		}
	})
	c.Check("C20-R1", "pdf.(*FileInfo).checkObjects/fresh-resolver", "every candidate object is parsed with its own /Length resolver, so the resolver's cycle/size budget is per object and cannot be used up by earlier objects", func(o *core.Ob) {
		for _, name := range []string{"(*FileInfo).checkObjects", "(*FileInfo).Read"} {
			fn := c.Prog.Func("pdf", name)
			g := fn.Graph()
			info := fn.Info()
			for _, dr := range callVertices(g, "pdf.(*FileInfo).doRead") {
				o.At(fn.Site(dr.Call, "doRead"))
				arg := ast.Unparen(dr.Call.Args[1])
				call, isCall := arg.(*ast.CallExpr)
				if isCall && core.CalleeKey(info, call) == "pdf.(*FileInfo).makeSafeGetInt" {
					continue // created at the call: fresh per object
				}
				// a variable: its definition must be inside the same loop iteration
				obj := core.ObjOf(info, arg)
				okFresh := false
				if obj != nil {
					for _, dv := range defVertices(g, obj) {
						for _, h := range loopHeads(g) {
							body := g.ReachFrom(succ(h, core.EdgeTrue), true, core.AvoidVs(h))
							if body[dr.V] && body[dv] {
								okFresh = true
							}
						}
					}
					// not in any loop at all: fine as well
					inLoop := false
					for _, h := range loopHeads(g) {
						if g.ReachFrom(succ(h, core.EdgeTrue), true, core.AvoidVs(h))[dr.V] {
							inLoop = true
						}
					}
					if !inLoop {
						okFresh = true
					}
				}
				if !okFresh {
					// shared, but put back into its initial state in the loop (clear(resolver.seen))?
					resets := false
					for _, h := range loopHeads(g) {
						body := g.ReachFrom(succ(h, core.EdgeTrue), true, core.AvoidVs(h))
						if !body[dr.V] {
							continue
						}
						for bv := range body {
							if bv.AST == nil {
								continue
							}
							for _, cs := range core.CallsIn(info, bv.AST, false) {
								if cs.Key == "builtin.clear" || strings.HasSuffix(strings.ToLower(cs.Key), "reset") {
									resets = true
								}
							}
						}
					}
					if resets {
						o.Unrec("%s: the /Length resolver %s is shared between objects and something is cleared in the loop: whether that restores the resolver's budget is not followed", c.Prog.Pos(dr.Call.Pos()), core.ExprStr(arg))
						continue
					}
				}
				if !okFresh {
					o.FailAt(fn.Site(dr.Call, ""), "the /Length resolver %s is shared between objects: its never-cleared seen-set and its cap make later objects fail to resolve their /Length", core.ExprStr(arg))
				}
			}
		}
	})
	c.Check("C20-R2", "pdf.stream-extent-probes/eof", "in endstreamAt and trimTrailingEOL a short read at the end of the file (io.EOF) is not a failure: only errors other than io.EOF leave the probe early", func(o *core.Ob) {
		for _, name := range []string{"endstreamAt", "trimTrailingEOL"} {
			fn := c.Prog.FuncOpt("pdf", name)
			folded := false
			if fn == nil && name == "trimTrailingEOL" {
				// the helper was folded into its caller
				fn = c.Prog.Func("pdf", "(*scanner).ReadStreamData")
				folded = true
			} else if fn == nil {
				fn = c.Prog.Func("pdf", name)
			}
			g := fn.Graph()
			info := fn.Info()
			ra := callVerticesSuffix(g, ".ReadAt")
			if folded {
				var small []callV
				for _, cs := range ra {
					if len(cs.Call.Args) != 2 {
						continue
					}
					e := cs.Call.Args[0]
					if sl, ok := ast.Unparen(e).(*ast.SliceExpr); ok {
						e = sl.X
					}
					if obj := core.ObjOf(info, e); obj != nil {
						if arr, ok := obj.Type().Underlying().(*types.Array); ok && arr.Len() <= 4 {
							small = append(small, cs)
						}
					}
				}
				ra = small
			}
			o.Require(len(ra) >= 1, "%s has no ReadAt probe", name)
			for _, cv := range ra {
				o.At(fn.Site(cv.Call, "probe"))
				as, ok := cv.V.AST.(*ast.AssignStmt)
				if !ok {
					continue
				}
				errObj := core.ObjOf(info, as.Lhs[len(as.Lhs)-1])
				if errObj == nil {
					continue // blank: nothing can leave early
				}
				// every branch on err that leads to an immediate return must exclude io.EOF
				for _, bv := range g.BranchVertices() {
					if bv.Cond.Expr == nil || !core.Mentions(info, bv.Cond.Expr, errObj) || !g.PathExists(cv.V, bv, nil) {
						continue
					}
					// is there a return directly on the true edge?
					tv := succ(bv, core.EdgeTrue)
					early := false
					for v := range g.ReachFrom(tv, true, core.AvoidVs(succ(bv, core.EdgeFalse))) {
						if _, ok := v.AST.(*ast.ReturnStmt); ok && g.EdgeDominates(v, core.EdgeRef{From: bv, Label: core.EdgeTrue}) {
							early = true
						}
					}
					if !early {
						continue
					}
					cond := strings.ReplaceAll(core.ExprStr(bv.Cond.Expr), " ", "")
					if !strings.Contains(cond, "!=io.EOF") && !strings.Contains(cond, "!errors.Is("+errObj.Name()+",io.EOF)") {
						o.FailAt(fn.Site(bv.AST, ""), "%s leaves on any error (%s): at the end of a truncated file ReadAt returns io.EOF together with the bytes, so a correct /Length would be distrusted", name, cond)
					}
				}
			}
		}
	})
	c.Check("C20-R2", "pdf.endstreamAt/short-read", "in endstreamAt a short read gives up only when every byte that was read is white space: bytes that arrived are examined before the end of the file is taken to be the end of the probe (a file truncated shortly behind a stream still has its endstream keyword)", func(o *core.Ob) {
		fn := c.Prog.Func("pdf", "endstreamAt")
		g := fn.Graph()
		info := fn.Info()
		n := 0
		for _, cv := range callVerticesSuffix(g, ".ReadAt") {
			as, ok := cv.V.AST.(*ast.AssignStmt)
			if !ok || len(as.Lhs) != 2 || !g.InLoop(cv.V) {
				continue
			}
			cnt := core.ObjOf(info, as.Lhs[0])
			if cnt == nil {
				continue
			}
			// the scan index: a local compared with the count
			var idx *ast.Ident
			for _, bv := range g.BranchVertices() {
				if bv.Cond.Expr == nil {
					continue
				}
				ast.Inspect(bv.Cond.Expr, func(m ast.Node) bool {
					if be, ok := m.(*ast.BinaryExpr); ok && be.Op == token.LSS && core.ObjOf(info, be.Y) == cnt {
						if id, ok := ast.Unparen(be.X).(*ast.Ident); ok && info.ObjectOf(id) != cnt {
							idx = id
						}
					}
					return true
				})
			}
			if idx == nil {
				continue
			}
			// returns reached under "count < len(buffer)" (a short read)
			for _, rv := range g.Returns() {
				rs, ok := rv.AST.(*ast.ReturnStmt)
				if !ok || len(rs.Results) != 2 || !core.IsNil(info, rs.Results[1]) {
					continue
				}
				short := g.GuardedBy(rv, func(a core.Atom) bool {
					cmp, ok := a.AsCmp()
					if !ok || cmp.Op != token.LSS || core.ObjOf(info, cmp.L) != cnt {
						return false
					}
					call, ok := ast.Unparen(cmp.R).(*ast.CallExpr)
					return ok && core.CalleeKey(info, call) == "builtin.len"
				})
				if !short {
					continue
				}
				n++
				o.At(fn.Site(rs, "gives up on a short read"))
				want := core.Atom{Expr: &ast.BinaryExpr{X: idx, Op: token.GEQ, Y: as.Lhs[0]}}
				holds, counter, decided := c.Prog.Implies(core.Formula{Fn: fn, Atoms: g.DominatingAtoms(rv)}, core.Formula{Fn: fn, Atoms: []core.Atom{want}})
				if !decided {
					o.Unrec("the condition of the short-read return was not decided")
				} else if !holds {
					o.FailAt(fn.Site(rs, ""), "the probe gives up on a short read although bytes that are not white space may have been read (%s): the keyword behind a stream close to the end of a truncated file is not looked at", counter)
				}
			}
		}
		o.Shape(n > 0, "no return under a short-read test was found in the white-space loop of endstreamAt")
	})
	c.Check("C20-R2", "pdf.(*FileInfo).locateObjects/eof", "the end of the input ends the marker scan normally; the scan fails outright only when no PDF content was found at all", func(o *core.Ob) {
		fn := c.Prog.Func("pdf", "(*FileInfo).locateObjects")
		g := fn.Graph()
		info := fn.Info()
		finds := callVerticesSuffix(g, ".Find")
		if len(finds) != 2 {
			o.Count(1)
			o.Unrec("expected the header search and the marker search, found %d Find calls", len(finds))
			return
		}
		marker := finds[1]
		o.At(fn.Site(marker.Call, "marker search"))
		o.Require(core.ExprStr(marker.Call.Args[0]) == "markerRegexp", "the scan searches for %s", core.ExprStr(marker.Call.Args[0]))
		// an edge err == io.EOF that leaves the loop without returning an error
		okBreak := false
		for _, bv := range g.BranchVertices() {
			if bv.Cond.Expr == nil || !g.Dominates(marker.V, bv) {
				continue
			}
			// the edge on which the error is io.EOF (err == io.EOF taken, or err != io.EOF not taken)
			eofLabel, isEOFTest := core.EdgeTrue, false
			for _, l := range []core.EdgeLabel{core.EdgeTrue, core.EdgeFalse} {
				for _, a := range bv.Implied(l) {
					if cmp, isCmp := a.AsCmp(); isCmp && cmp.Op == token.EQL && ioPkgObj(info, cmp.R) == "EOF" && core.IsErrorType(info.TypeOf(cmp.L)) {
						eofLabel, isEOFTest = l, true
					}
				}
			}
			if isEOFTest || strings.ReplaceAll(core.ExprStr(bv.Cond.Expr), " ", "") == "err==io.EOF" {
				tv := succ(bv, eofLabel)
				// the edge must leave the scan loop without passing a return
				var loopHead *core.V
				for _, h := range loopHeads(g) {
					if g.ReachFrom(succ(h, core.EdgeTrue), true, core.AvoidVs(h))[marker.V] {
						loopHead = h
					}
				}
				rets := g.Returns()
				reach := g.ReachFrom(tv, true, core.AvoidVs(rets...))
				// some vertex after the loop: the fi.PDFEnd assignment
				for v := range reach {
					if as, ok := v.AST.(*ast.AssignStmt); ok && strings.HasSuffix(core.ExprStr(as.Lhs[0]), ".PDFEnd") {
						okBreak = true
					}
				}
				_ = loopHead
			}
		}
		o.Require(okBreak, "end of input from the marker search is treated as a failure")
		// failure only when no section was found
		failGuard := false
		for _, r := range g.Returns() {
			rs := r.AST.(*ast.ReturnStmt)
			if strings.Contains(c.Prog.Src(rs), "noPDFcontentfoundinfile") {
				failGuard = g.GuardedBy(r, func(a core.Atom) bool {
					cmp, ok := a.AsCmp()
					return ok && cmp.Op == token.EQL && strings.Contains(core.ExprStr(cmp.L), "len(fi.Sections)") && isZero(info, cmp.R)
				})
			}
		}
		o.Require(failGuard, "the 'no PDF content' failure is not restricted to scans that found nothing")
		// ObjStart provenance
		okPos := false
		ast.Inspect(fn.Decl.Body, func(n ast.Node) bool {
			if as, ok := n.(*ast.AssignStmt); ok && as.Tok == token.ADD_ASSIGN && core.ExprStr(as.Lhs[0]) == "pos" {
				if strings.ReplaceAll(core.ExprStr(as.Rhs[0]), " ", "") == "countLeadingSpaces(m[0])" {
					okPos = true
				}
			}
			return true
		})
		o.Require(okPos, "an object's start is not the match position plus the leading white space of the match")
	})
	c.Check("C20-R3", "pdf.(*FileInfo).makeXRef", "the rebuilt cross-reference table skips broken objects and keeps, per object number, the highest generation and among equals the last definition", func(o *core.Ob) {
		fn := c.Prog.Func("pdf", "(*FileInfo).makeXRef")
		g := fn.Graph()
		info := fn.Info()
		xref := localVar(fn, "xref", 0)
		st := mapStores(g, xref)
		if len(st) != 1 {
			o.Count(1)
			o.Unrec("expected one store into the rebuilt table")
			return
		}
		o.At(fn.Site(st[0].Stmt, "entry stored"))
		okBroken := g.GuardedBy(st[0].V, func(a core.Atom) bool {
			return a.Neg && a.Tag == nil && strings.HasSuffix(core.ExprStr(a.Expr), ".Broken")
		})
		o.Require(okBroken, "a broken object can enter the rebuilt table")
		// skip only when the existing generation is strictly greater: a comparison
		// between the generation of the object at hand (a call of Generation(),
		// possibly kept in a local) and the Generation field of the existing entry
		skipOK := false
		isObjGen := func(at *core.V, e ast.Expr) bool {
			all := true
			for _, vc := range valueCases(g, at, e, 2) {
				x := ast.Unparen(vc.Expr)
				if cv, isConv := x.(*ast.CallExpr); isConv && len(cv.Args) == 1 {
					if tv, ok := info.Types[cv.Fun]; ok && tv.IsType() {
						x = ast.Unparen(cv.Args[0])
					}
				}
				call, ok := x.(*ast.CallExpr)
				if !ok || !strings.HasSuffix(core.CalleeKey(info, call), ".Generation") {
					all = false
				}
			}
			return all
		}
		isEntryGen := func(e ast.Expr) bool {
			_, name, ok := selName(e)
			if !ok || name != "Generation" {
				return false
			}
			sel := ast.Unparen(e).(*ast.SelectorExpr)
			s := info.Selections[sel]
			return s != nil && s.Kind() == types.FieldVal
		}
		for _, bv := range g.BranchVertices() {
			if bv.Cond.Expr == nil {
				continue
			}
			facts := append([]core.Atom{}, bv.Implied(core.EdgeTrue)...)
			for _, a := range bv.Implied(core.EdgeTrue) {
				facts = append(facts, g.ExpandNamed(a)...) // superseded := known && generation < previous.Generation
			}
			for _, a := range facts {
				cmp, ok := a.AsCmp()
				if !ok {
					continue
				}
				op := cmp.Op
				l, r := cmp.L, cmp.R
				if isEntryGen(l) && isObjGen(bv, r) {
					// entry OP obj  ==  obj OP' entry
					l, r = r, l
					op = map[token.Token]token.Token{token.GTR: token.LSS, token.GEQ: token.LEQ, token.LSS: token.GTR, token.LEQ: token.GEQ}[op]
				} else if !(isObjGen(bv, l) && isEntryGen(r)) {
					continue
				}
				switch op {
				case token.LSS:
					skipOK = true
					o.At(fn.Site(bv.Cond.Expr, "keeps the entry with the higher generation"))
				case token.LEQ:
					o.Fail("an equal generation keeps the FIRST definition; the last definition must win")
				}
			}
		}
		o.Require(skipOK, "no 'existing entry has a higher generation' test")
		// what is recorded: the object's start and generation, in the literal that is
		// stored or in the fields of an entry that is updated in place
		recPos, recGen := false, false
		checkField := func(at *core.V, name string, val ast.Expr) {
			switch name {
			case "Pos":
				if strings.ReplaceAll(core.ExprStr(val), " ", "") == "obj.ObjStart" {
					recPos = true
				} else {
					o.Fail("entries must point at the object's start, got %s", core.ExprStr(val))
				}
			case "Generation":
				if isObjGen(at, val) {
					recGen = true
				} else {
					o.Fail("entries must record the generation, got %s", core.ExprStr(val))
				}
			}
		}
		for name, val := range compositeFields(info, st[0].Value) {
			checkField(st[0].V, name, val)
		}
		o.Require(recPos, "entries must point at the object's start")
		o.Require(recGen, "entries must record the generation")
	})
	c.Check("C20-R3", "pdf.FileInfo/index-complete", "the index of located objects is complete before any candidate object is parsed: no function of the scan adds to the index after (or while) it parses objects, so an indirect /Length defined behind its stream can be resolved", func(o *core.Ob) {
		pkg := c.Prog.Pkg("pdf")
		var fns []*core.Func
		for _, fn := range c.Prog.Funcs(pkg) {
			if fn.Decl.Body == nil || c.Prog.IsTestFile(fn.Decl.Pos()) {
				continue
			}
			if strings.HasPrefix(fn.Key, "pdf.(*FileInfo).") || fn.Key == "pdf.SequentialScan" {
				fns = append(fns, fn)
			}
		}
		// per function: does it parse objects / add to the index itself?
		parses := map[*types.Func]bool{}
		indexes := map[*types.Func]bool{}
		isIndexStore := func(fn *core.Func, v *core.V) bool {
			info := fn.Info()
			as, ok := v.AST.(*ast.AssignStmt)
			if !ok {
				return false
			}
			for _, l := range as.Lhs {
				base := ast.Unparen(l)
				if ix, ok := base.(*ast.IndexExpr); ok {
					base = ast.Unparen(ix.X)
				}
				if _, ok := core.FieldSel(info, base, "pdf", "FileInfo", "objIndex"); ok {
					return true
				}
				// a local map that is installed as the index
				if id, ok := base.(*ast.Ident); ok && base != ast.Unparen(l) {
					obj := info.ObjectOf(id)
					installed := false
					ast.Inspect(fn.Decl.Body, func(m ast.Node) bool {
						if a2, ok := m.(*ast.AssignStmt); ok && len(a2.Lhs) == len(a2.Rhs) {
							for i, l2 := range a2.Lhs {
								if _, ok := core.FieldSel(info, l2, "pdf", "FileInfo", "objIndex"); ok && core.ObjOf(info, a2.Rhs[i]) == obj {
									installed = true
								}
							}
						}
						return true
					})
					if installed {
						return true
					}
				}
			}
			return false
		}
		for _, fn := range fns {
			for _, cs := range core.CallsIn(fn.Info(), fn.Decl.Body, true) {
				if strings.HasSuffix(cs.Key, "(*FileInfo).doRead") || strings.HasSuffix(cs.Key, ".ReadIndirectObject") {
					parses[fn.Obj] = true
				}
			}
			for _, v := range fn.Graph().Vs {
				if isIndexStore(fn, v) {
					indexes[fn.Obj] = true
				}
			}
		}
		n := 0
		for _, fn := range fns {
			g := fn.Graph()
			info := fn.Info()
			var ps, is []*core.V
			for _, v := range g.Vs {
				if v.AST == nil {
					continue
				}
				if isIndexStore(fn, v) {
					is = append(is, v)
				}
				for _, cs := range core.CallsIn(info, v.AST, false) {
					if strings.HasSuffix(cs.Key, "(*FileInfo).doRead") || strings.HasSuffix(cs.Key, ".ReadIndirectObject") || (cs.Fn != nil && parses[cs.Fn] && cs.Fn != fn.Obj) {
						ps = append(ps, v)
					}
					if cs.Fn != nil && indexes[cs.Fn] && cs.Fn != fn.Obj {
						is = append(is, v)
					}
				}
			}
			if len(is) == 0 {
				continue
			}
			n++
			for _, iv := range is {
				o.At(fn.Site(iv.AST, "adds to the index"))
				for _, pv := range ps {
					if pv == iv || g.PathExists(pv, iv, nil) {
						o.FailAt(fn.Site(iv.AST, ""), "%s adds to the index of objects after an object was parsed at %s: while the earlier objects are checked, later definitions (an indirect /Length behind its stream) cannot be found", fn.Key, c.Prog.Pos(pv.AST.Pos()))
						break
					}
				}
			}
		}
		o.Shape(n > 0, "no function that builds the index of located objects was found")
	})
	c.Check("C20-R3", "pdf.SequentialScan/order", "objects are located, then indexed (last definition wins), then checked, so an indirect /Length can be resolved while checking", func(o *core.Ob) {
		fn := c.Prog.Func("pdf", "SequentialScan")
		g := fn.Graph()
		lo := callVertices(g, "pdf.(*FileInfo).locateObjects")
		ix := callVertices(g, "pdf.(*FileInfo).indexObjects")
		ck := callVertices(g, "pdf.(*FileInfo).checkObjects")
		o.Count(3)
		if len(lo) != 1 || len(ix) != 1 || len(ck) != 1 {
			o.Unrec("expected locateObjects, indexObjects and checkObjects once each")
			return
		}
		o.Require(g.Dominates(lo[0].V, ix[0].V) && g.Dominates(ix[0].V, ck[0].V), "the phases are out of order")
		idx := c.Prog.Func("pdf", "(*FileInfo).indexObjects")
		o.At(idx.Site(idx.Decl, "index"))
		src := c.Prog.Src(idx.Decl.Body)
		o.Shape(strings.Contains(src, "index[obj.Reference]=obj") && !strings.Contains(src, "if"), "the index must be overwritten unconditionally in scan order (last definition wins)")
	})
	c.Check("C20-R4", "pdf.markerRegexp", "a marker is recognised only at the start of a line and must end at a word boundary; the object alternative captures object and generation number separated by PDF white space", func(o *core.Ob) {
		pkg := c.Prog.Pkg("pdf")
		_, init, _ := c.Prog.Var("pdf", "markerRegexp")
		call, ok := ast.Unparen(init).(*ast.CallExpr)
		if !ok {
			core.Undecided("markerRegexp initialiser")
		}
		pat, ok := core.StringConst(pkg.TypesInfo, call.Args[0])
		if !ok {
			// a variable built from constants: fold by evaluating the string concatenation of package-level vars
			pat = foldStringVar(c, "pdf", call.Args[0])
		}
		o.Fact("marker pattern %q", pat)
		re, err := syntax.Parse(pat, syntax.Perl)
		if err != nil {
			o.Count(1)
			o.Fail("marker pattern does not parse: %v", err)
			return
		}
		o.Count(1)
		if re.Op != syntax.OpConcat || len(re.Sub) != 3 {
			o.Fail("marker pattern is not <line start><marker><word boundary>: %s", re.String())
			return
		}
		eol, body, wb := re.Sub[0], re.Sub[1], re.Sub[2]
		o.Require(wb.Op == syntax.OpWordBoundary, "the marker is not required to end at a word boundary")
		// line start: alternation of CRLF, CR, LF, begin-of-text
		s := eol.String()
		o.Require(strings.Contains(s, `\r\n`) && strings.Contains(s, `\n`) && (strings.Contains(s, `^`) || strings.Contains(s, `\A`)), "the marker is not anchored to a line start: %s", s)
		o.Require(body.Op == syntax.OpCapture, "marker body is not captured")
		bs := body.String()
		for _, kw := range []string{"xref", "trailer", "startxref", "%%EOF", "obj"} {
			o.Require(strings.Contains(bs, kw), "marker alternative %q missing", kw)
		}
		o.Require(countCaps(re) == 3, "expected capture groups for marker, object number and generation")
		o.Require(strings.Contains(bs, "([0-9]+)"), "object/generation numbers are not captured as digit runs")
	})
	c.Check("C20-R4", "pdf.(*scanner).Find/overlap", "the bytes kept across a refill of the search buffer cover the longest marker that must be found: an object header with the largest legal object number and generation (a header that straddles a refill boundary is otherwise matched at the wrong place or not at all, and a complete object is lost)", func(o *core.Ob) {
		fn := c.Prog.Func("pdf", "(*scanner).Find")
		info := fn.Info()
		var keep []int64
		ast.Inspect(fn.Decl.Body, func(n ast.Node) bool {
			be, ok := n.(*ast.BinaryExpr)
			if !ok || be.Op != token.SUB {
				return true
			}
			if _, name, ok := selName(be.X); !ok || name != "used" {
				return true
			}
			if k, ok := core.IntConst(info, be.Y); ok {
				keep = append(keep, k)
				o.At(fn.Site(be, "bytes kept across the refill"))
			}
			return true
		})
		if !o.Shape(len(keep) > 0, "the position from which the search resumes after a refill (fill level minus a constant) was not found") {
			return
		}
		digits := func(n int64) int64 {
			d := int64(1)
			for n >= 10 {
				n /= 10
				d++
			}
			return d
		}
		maxNum := c.Prog.ConstInt("pdf", "maxXRefSize") - 1
		// CR LF, object number, one white-space byte, generation (at most 65535), one white-space byte, "obj"
		need := 2 + digits(maxNum) + 1 + digits(65535) + 1 + 3
		o.Fact("longest object header that must be found: %d bytes (object numbers up to %d); kept across a refill: %v", need, maxNum, keep)
		for _, k := range keep {
			o.Require(k >= need-1, "only %d bytes are kept across a refill; a header of %d bytes (\\r\\n%d 65535 obj) that straddles the boundary needs %d", k, need, maxNum, need-1)
		}
	})
	c.Check("C20-R4", "pdf.(*scanner)/search-keeps-overlap", "every search routine of the scanner that is used by library code and reads on when its pattern is not in the buffer keeps an overlap: it does not move the position to the fill level before the refill (a pattern that straddles the refill boundary would be missed: an endstream, and with it a complete stream)", func(o *core.Ob) {
		pkg := c.Prog.Pkg("pdf")
		// functions of package pdf that are called from non-test code of the package
		used := map[*types.Func]bool{}
		for _, fn := range c.Prog.Funcs(pkg) {
			if fn.Decl.Body == nil || c.Prog.IsTestFile(fn.Decl.Pos()) {
				continue
			}
			for _, cs := range core.CallsIn(fn.Info(), fn.Decl.Body, true) {
				if cs.Fn != nil {
					used[cs.Fn.Origin()] = true
				}
			}
		}
		n := 0
		for _, fn := range c.Prog.Funcs(pkg) {
			if fn.Decl.Body == nil || fn.Decl.Recv == nil || c.Prog.IsTestFile(fn.Decl.Pos()) || !strings.HasPrefix(fn.Key, "pdf.(*scanner).") {
				continue
			}
			info := fn.Info()
			g := fn.Graph()
			refills := callVertices(g, "pdf.(*scanner).refill")
			var searches []*core.V
			for _, v := range g.Vs {
				if v.AST == nil {
					continue
				}
				for _, cs := range core.CallsIn(info, v.AST, false) {
					switch {
					case strings.HasPrefix(cs.Key, "bytes.Index"), strings.HasPrefix(cs.Key, "bytes.Contains"),
						strings.Contains(cs.Key, "Regexp).Find"), strings.Contains(cs.Key, "Regexp).Match"):
						searches = append(searches, v)
					}
				}
			}
			if os.Getenv("PDFVERIF_DEBUG_C20") != "" {
				fmt.Fprintf(os.Stderr, "%s refills=%d searches=%d\n", fn.Key, len(refills), len(searches))
			}
			if len(refills) == 0 || len(searches) == 0 {
				continue
			}
			// only searches that are repeated after a refill
			looping := false
			for _, sv := range searches {
				for _, rv := range refills {
					if g.PathExists(sv, rv.V, nil) && g.PathExists(rv.V, sv, nil) {
						looping = true
					}
				}
			}
			if !looping {
				continue
			}
			if !used[fn.Obj.Origin()] {
				o.Fact("%s is not called from library code: not checked", fn.Key)
				continue
			}
			n++
			o.At(fn.Site(fn.Decl, "search routine"))
			for _, v := range g.Vs {
				as, ok := v.AST.(*ast.AssignStmt)
				if !ok || len(as.Lhs) != 1 || len(as.Rhs) != 1 || as.Tok != token.ASSIGN {
					continue
				}
				if _, name, ok := selName(as.Lhs[0]); !ok || name != "pos" {
					continue
				}
				if _, name, ok := selName(ast.Unparen(as.Rhs[0])); !ok || name != "used" {
					continue
				}
				// between a failed search and the refill?
				for _, sv := range searches {
					for _, rv := range refills {
						if g.PathExists(sv, v, core.AvoidVs(rv.V)) && g.PathExists(v, rv.V, nil) {
							o.FailAt(fn.Site(as, ""), "%s moves the position to the fill level before it refills: nothing of what was searched is kept, and a pattern that straddles the refill boundary is not found (the caller then misses the marker: a complete stream whose endstream lies across a buffer boundary is given up)", fn.Key)
						}
					}
				}
			}
		}
		o.Shape(n >= 1, "no search routine of the scanner (a search in the buffer repeated after a refill) is used by library code")
		o.Count(n)
	})
	c.Check("C20-R2", "pdf.(*scanner).Find/eof", "the marker search reports end of input only when a refill brought no new bytes (the fill level sampled before and after the refill is equal): every byte that arrives is searched before EOF is reported, also a short tail behind the overlap region", func(o *core.Ob) {
		fn := c.Prog.Func("pdf", "(*scanner).Find")
		g := fn.Graph()
		info := fn.Info()
		refills := callVerticesSuffix(g, ".refill")
		if len(refills) != 1 {
			core.Undecided("expected one refill call in Find, found %d", len(refills))
		}
		rf := refills[0].V
		var isUsedSample func(obj types.Object) (*core.V, bool)
		isUsedSample = func(obj types.Object) (*core.V, bool) {
			defs := defVertices(g, obj)
			if len(defs) != 1 {
				return nil, false
			}
			r, ok := rhsFor(info, defs[0], obj)
			if !ok || r == nil {
				return nil, false
			}
			if id, isID := ast.Unparen(r).(*ast.Ident); isID {
				// a copy of a sample (endBefore := used with used := s.used): the moment of the read counts
				if inner := info.ObjectOf(id); inner != nil && inner != obj {
					return isUsedSample(inner)
				}
			}
			sel, ok := ast.Unparen(r).(*ast.SelectorExpr)
			return defs[0], ok && sel.Sel.Name == "used"
		}
		n := 0
		for _, r := range g.Returns() {
			rs := r.AST.(*ast.ReturnStmt)
			if len(rs.Results) != 3 {
				continue
			}
			if sel, ok := ast.Unparen(rs.Results[2]).(*ast.SelectorExpr); !ok || sel.Sel.Name != "EOF" {
				continue
			}
			n++
			o.Count(1)
			o.At(fn.Site(rs, "reports end of input"))
			// edges on which "the amount of buffered data after the refill
			// equals the amount before it" holds: two samples of the fill
			// level, or a sample taken before and the field read after
			before := func(d *core.V) bool { return g.Dominates(d, rf) && d != rf }
			after := func(d *core.V) bool { return g.Dominates(rf, d) && d != rf }
			isUsedField := func(e ast.Expr) bool {
				sel, ok := ast.Unparen(e).(*ast.SelectorExpr)
				return ok && sel.Sel.Name == "used"
			}
			var good []core.EdgeRef
			for _, bv := range g.BranchVertices() {
				branch := bv
				for _, l := range []core.EdgeLabel{core.EdgeTrue, core.EdgeFalse} {
					type located struct {
						a  core.Atom
						at *core.V // where the comparison is evaluated
					}
					var atoms []located
					for _, a := range bv.Implied(l) {
						atoms = append(atoms, located{a, bv})
						// a comparison kept in a boolean local (noNewData := s.used == endBefore): evaluated at its definition
						if id, isID := ast.Unparen(a.Expr).(*ast.Ident); isID && a.Tag == nil {
							if obj := info.ObjectOf(id); obj != nil {
								if ds := defVertices(g, obj); len(ds) == 1 {
									for _, a2 := range g.ExpandNamed(a) {
										atoms = append(atoms, located{a2, ds[0]})
									}
								}
							}
						}
					}
					for _, la := range atoms {
						a, bv := la.a, la.at
						cmp, isCmp := a.AsCmp()
						if !isCmp || cmp.Op != token.EQL {
							continue
						}
						for _, pair := range [][2]ast.Expr{{cmp.L, cmp.R}, {cmp.R, cmp.L}} {
							lo := core.ObjOf(info, pair[0])
							if lo == nil || isUsedField(pair[0]) {
								continue
							}
							ld, ok1 := isUsedSample(lo)
							if !ok1 || !before(ld) {
								continue
							}
							if isUsedField(pair[1]) && after(bv) {
								good = append(good, core.EdgeRef{From: branch, Label: l})
							} else if ro := core.ObjOf(info, pair[1]); ro != nil && !isUsedField(pair[1]) {
								if rd, ok2 := isUsedSample(ro); ok2 && after(rd) {
									good = append(good, core.EdgeRef{From: branch, Label: l})
								}
							}
						}
					}
				}
			}
			ok := len(good) > 0 && g.EdgeDominates(r, good...)
			if !ok {
				// the test may be reported by a folded-in helper through a boolean that has several
				// definitions (more, err = false, err / true, nil / endBefore != s.used, nil): if one of
				// them compares a sample of the fill level and the others are constants, the return is
				// guarded by that boolean but the rule does not follow which definition arrives
				viaFlag := g.GuardedBy(r, func(a core.Atom) bool {
					id, isID := ast.Unparen(a.Expr).(*ast.Ident)
					if !isID || a.Tag != nil {
						return false
					}
					obj := info.ObjectOf(id)
					if obj == nil || !isBoolObj(obj) {
						return false
					}
					cmpDef, other := false, false
					for _, dv := range defVertices(g, obj) {
						as, isAs := dv.AST.(*ast.AssignStmt)
						if !isAs || len(as.Lhs) != len(as.Rhs) {
							if vs, isVS := dv.AST.(*ast.ValueSpec); isVS && len(vs.Values) == 0 {
								continue
							}
							if _, isDS := dv.AST.(*ast.DeclStmt); isDS {
								continue
							}
							other = true
							continue
						}
						for i, l := range as.Lhs {
							if core.ObjOf(info, l) != obj {
								continue
							}
							if cv := core.ConstOf(info, as.Rhs[i]); cv != nil {
								continue
							}
							if be, isBin := ast.Unparen(as.Rhs[i]).(*ast.BinaryExpr); isBin && (be.Op == token.EQL || be.Op == token.NEQ) && (isUsedField(be.X) || isUsedField(be.Y)) {
								cmpDef = true
								continue
							}
							other = true
						}
					}
					return cmpDef && !other
				})
				if viaFlag {
					o.Unrec("%s: end of input is reported under a boolean that a folded-in helper sets from the comparison of the fill level before and after the refill, among other values: which value arrives is not followed", c.Prog.Pos(rs.Pos()))
					continue
				}
			}
			if !ok {
				o.FailAt(fn.Site(rs, ""), "%s: end of input is reported without the test that the refill added nothing: bytes that arrived with the last refill may never be searched", c.Prog.Pos(rs.Pos()))
			}
		}
		o.Require(n >= 1, "Find never reports end of input")
	})
	c.Check("C20-R5", "pdf.(*FileInfo).makeSafeGetInt", "resolving an indirect /Length during the scan is bounded (visited-set plus a cap) and reads the length object in scalar-only mode", func(o *core.Ob) {
		fn := c.Prog.Func("pdf", "(*FileInfo).makeSafeGetInt")
		src := c.Prog.Src(fn.Decl.Body)
		o.At(fn.Site(fn.Decl, ""))
		o.Shape(strings.Contains(src, "ifseen[ref]||len(seen)>8{return0,&MalformedFileError{"), "no visited-set/cap guard before following a reference: %s", "")
		o.Shape(strings.Contains(src, "seen[ref]=true"), "the visited-set is not updated")
		o.Shape(strings.Contains(src, "fi.doRead(fi.findObject(ref),getInt,true)"), "the length object is not read in scalar-only mode with the same bounded resolver")
		o.Shape(strings.Contains(src, "seen:=make(map[Reference]bool)"), "the visited-set is not created per resolver")
	})
	c.Check("C20-R5", "pdf.(*FileInfo).makeSafeGetInt/fresh", "every call builds a new resolver: the function stores nothing in the FileInfo and returns a closure created in this call (a cached resolver keeps its visited-set, so the second read of a stream with an indirect /Length fails as 'circular' and is recovered with a trimmed extent)", func(o *core.Ob) {
		fn := c.Prog.Func("pdf", "(*FileInfo).makeSafeGetInt")
		info := fn.Info()
		ma := core.NewMutAnalysis(c.Prog)
		sf := ma.S.FuncValue(fn.Obj)
		if sf == nil || len(sf.Params) == 0 {
			core.Undecided("no SSA function for %s", fn.Key)
		}
		o.At(fn.Site(fn.Decl, "resolver factory"))
		o.Count(1)
		for _, w := range ma.Mutations(sf, []ssa.Value{sf.Params[0]}, nil) {
			if w.Fn != sf.String() {
				continue // stores made by the resolver when it runs are not the factory's
			}
			o.Fail("%s: %s in the resolver factory: resolver state is kept in the FileInfo and shared between object reads", c.Prog.Pos(w.Pos), w.What)
		}
		recv := info.Defs[fn.Decl.Recv.List[0].Names[0]]
		g := fn.Graph()
		for _, r := range g.Returns() {
			rs := r.AST.(*ast.ReturnStmt)
			if len(rs.Results) != 1 {
				continue
			}
			o.Count(1)
			e := ast.Unparen(rs.Results[0])
			if _, isLit := e.(*ast.FuncLit); isLit {
				continue
			}
			obj := core.ObjOf(info, e)
			okLocal := obj != nil && obj != recv
			// a part of what a constructor of the package returns (fi.newGetter().fn): fresh if the
			// constructor hands out storage it allocated itself
			if sel, isSel := e.(*ast.SelectorExpr); isSel {
				if call, isCall := ast.Unparen(sel.X).(*ast.CallExpr); isCall {
					if callee := core.Callee(info, call); callee != nil {
						if cf := ma.S.FuncValue(callee); cf != nil && ma.ReturnsFresh(cf) {
							continue
						}
					}
					o.Unrec("%s: the resolver returned (%s) is taken from the result of a call that was not shown to allocate it", c.Prog.Pos(rs.Pos()), c.Prog.Src(e))
					continue
				}
			}
			if sel, isSel := e.(*ast.SelectorExpr); isSel {
				// a method value of an object allocated by this call is as
				// fresh as a closure over locals
				okLocal = false
				if base := core.ObjOf(info, sel.X); base != nil && base != recv && info.Selections[sel] != nil && info.Selections[sel].Kind() == types.MethodVal {
					fresh, n := true, 0
					for _, d := range core.AssignsTo(info, fn.Decl, base) {
						as, ok := d.(*ast.AssignStmt)
						if !ok {
							fresh = false
							continue
						}
						for i, l := range as.Lhs {
							if core.ObjOf(info, l) != base || i >= len(as.Rhs) {
								continue
							}
							n++
							r := ast.Unparen(as.Rhs[i])
							if u, ok := r.(*ast.UnaryExpr); ok && u.Op == token.AND {
								r = ast.Unparen(u.X)
							}
							switch x := r.(type) {
							case *ast.CompositeLit:
							case *ast.CallExpr:
								if core.CalleeKey(info, x) != "builtin.new" {
									fresh = false
								}
							default:
								fresh = false
							}
						}
					}
					if fresh && n > 0 {
						continue
					}
				}
			}
			if okLocal {
				for _, d := range core.AssignsTo(info, fn.Decl, obj) {
					switch s := d.(type) {
					case *ast.AssignStmt:
						for i, l := range s.Lhs {
							if core.ObjOf(info, l) == obj && i < len(s.Rhs) {
								if _, isLit := ast.Unparen(s.Rhs[i]).(*ast.FuncLit); !isLit {
									okLocal = false
								}
							}
						}
					case *ast.ValueSpec:
					}
				}
			}
			if !okLocal {
				o.FailAt(fn.Site(rs, ""), "%s: the resolver returned (%s) is not a closure created by this call", c.Prog.Pos(rs.Pos()), c.Prog.Src(e))
			}
		}
	})
}

func countCaps(re *syntax.Regexp) int {
	n := 0
	if re.Op == syntax.OpCapture {
		n++
	}
	for _, s := range re.Sub {
		n += countCaps(s)
	}
	return n
}

// foldStringVar folds an expression built from string literals and
// package-level string variables initialised by such expressions.
func foldStringVar(c *core.Ctx, short string, e ast.Expr) string {
	pkg := c.Prog.Pkg(short)
	info := pkg.TypesInfo
	var fold func(e ast.Expr, depth int) string
	fold = func(e ast.Expr, depth int) string {
		e = ast.Unparen(e)
		if s, ok := core.StringConst(info, e); ok {
			return s
		}
		if depth == 0 {
			core.Undecided("string expression too deep")
		}
		switch x := e.(type) {
		case *ast.BinaryExpr:
			if x.Op == token.ADD {
				return fold(x.X, depth) + fold(x.Y, depth)
			}
		case *ast.Ident:
			obj := info.ObjectOf(x)
			if obj != nil && obj.Pkg() != nil && obj.Parent() == obj.Pkg().Scope() {
				_, init, _ := c.Prog.Var(short, x.Name)
				if init != nil {
					return fold(init, depth-1)
				}
			}
		}
		core.Undecided("cannot fold %s to a constant string", core.ExprStr(e))
		return ""
	}
	return fold(e, 6)
}

// ruleEOFIdentity (C20-R6): checkObjects recognises a truncated object by
// comparing the parse error with io.EOF / io.ErrUnexpectedEOF by identity
// (or by IsMalformed).  Every function that hands the error up to it
// unchanged must therefore keep a bare end-of-input recognisable: a wrapper
// (pdf.Wrap, fmt.Errorf) applied to it must first turn end-of-input into a
// malformed-file error, or skip it.  The chain is followed from the doRead
// call through "return ..., err" of callee errors (depth 3); deferred
// closures are evaluated for the abstract values EOF, UnexpectedEOF.
func ruleEOFIdentity(c *core.Ctx) {
	const rule = "C20-R6"
	start := c.Prog.Func("pdf", "(*FileInfo).doRead")
	isWrapCall := func(info *types.Info, e ast.Expr) bool {
		call, ok := ast.Unparen(e).(*ast.CallExpr)
		if !ok {
			return false
		}
		k := core.CalleeKey(info, call)
		return k == "pdf.Wrap" || k == "fmt.Errorf" || k == "errors.Join"
	}
	// chain
	chain := []*core.Func{start}
	seen := map[*core.Func]bool{start: true}
	for depth, frontier := 0, []*core.Func{start}; depth < 3 && len(frontier) > 0; depth++ {
		var next []*core.Func
		for _, fn := range frontier {
			info := fn.Info()
			// callees whose error result is assigned to a variable that is returned as the error
			errVars := map[types.Object]bool{}
			ast.Inspect(fn.Decl.Body, func(n ast.Node) bool {
				if rs, ok := n.(*ast.ReturnStmt); ok && len(rs.Results) > 0 {
					if obj := core.ObjOf(info, rs.Results[len(rs.Results)-1]); obj != nil {
						errVars[obj] = true
					}
				}
				return true
			})
			if fn.Decl.Type.Results != nil {
				for _, f := range fn.Decl.Type.Results.List {
					for _, nm := range f.Names {
						if core.IsErrorType(info.TypeOf(f.Type)) {
							errVars[info.Defs[nm]] = true
						}
					}
				}
			}
			ast.Inspect(fn.Decl.Body, func(n ast.Node) bool {
				// return f(...) hands f's error up directly
				if rs, ok := n.(*ast.ReturnStmt); ok && len(rs.Results) == 1 {
					if call, ok := ast.Unparen(rs.Results[0]).(*ast.CallExpr); ok {
						if callee := core.Callee(info, call); callee != nil {
							if cf := c.Prog.FuncOf(callee); cf != nil && !seen[cf] && cf.Key != "pdf.Wrap" {
								seen[cf] = true
								chain = append(chain, cf)
								next = append(next, cf)
							}
						}
					}
					return true
				}
				as, ok := n.(*ast.AssignStmt)
				if !ok || len(as.Rhs) != 1 {
					return true
				}
				call, ok := ast.Unparen(as.Rhs[0]).(*ast.CallExpr)
				if !ok {
					return true
				}
				last := as.Lhs[len(as.Lhs)-1]
				if obj := core.ObjOf(info, last); obj == nil || !errVars[obj] {
					return true
				}
				if callee := core.Callee(info, call); callee != nil {
					if cf := c.Prog.FuncOf(callee); cf != nil && !seen[cf] && cf.Key != "pdf.Wrap" {
						seen[cf] = true
						chain = append(chain, cf)
						next = append(next, cf)
					}
				}
				return true
			})
		}
		frontier = next
	}
	c.Floor(rule, 5)
	for _, fn := range chain {
		fn := fn
		c.Check(rule, fn.Key, "a bare end-of-input error leaves the function as io.EOF, io.ErrUnexpectedEOF or a malformed-file error, never inside a generic wrapper", func(o *core.Ob) {
			info := fn.Info()
			o.At(fn.Site(fn.Decl, "hands parse errors up to checkObjects"))
			o.Count(1)
			// (1) explicit wrapping returns
			g := fn.Graph()
			for _, r := range g.Returns() {
				rs := r.AST.(*ast.ReturnStmt)
				if len(rs.Results) == 0 {
					continue
				}
				e := rs.Results[len(rs.Results)-1]
				if !isWrapCall(info, e) {
					continue
				}
				o.Count(1)
				// the wrapped value: an error variable; is end-of-input excluded on every path here?
				call := ast.Unparen(e).(*ast.CallExpr)
				var ev types.Object
				for _, a := range call.Args {
					if obj := core.ObjOf(info, a); obj != nil && core.IsErrorType(obj.Type()) {
						ev = obj
					}
				}
				if ev == nil {
					continue // a new error, not a wrapped one
				}
				excluded := g.GuardedBy(r, func(a core.Atom) bool {
					cmp, ok := a.AsCmp()
					return ok && cmp.Op == token.NEQ && core.ObjOf(info, cmp.L) == ev && ioPkgObj(info, cmp.R) == "EOF"
				})
				if !excluded {
					// a value made here (errors.New, &T{...}) is not io.EOF
					defs := reachingDefs(g, r, ev)
					fresh := len(defs) > 0
					for _, d := range defs {
						as, isAs := d.AST.(*ast.AssignStmt)
						if !isAs || len(as.Lhs) != len(as.Rhs) {
							fresh = false
							break
						}
						for i, l := range as.Lhs {
							if core.ObjOf(info, l) != ev {
								continue
							}
							switch x := ast.Unparen(as.Rhs[i]).(type) {
							case *ast.CallExpr:
								if core.CalleeKey(info, x) != "errors.New" {
									fresh = false
								}
							case *ast.UnaryExpr:
								if _, isLit := ast.Unparen(x.X).(*ast.CompositeLit); x.Op != token.AND || !isLit {
									fresh = false
								}
							default:
								fresh = false
							}
						}
					}
					excluded = fresh
				}
				if !excluded {
					o.FailAt(fn.Site(rs, ""), "%s: the error is returned inside a wrapper without excluding io.EOF: checkObjects no longer recognises the truncated object", c.Prog.Pos(rs.Pos()))
				}
			}
			// (2) deferred closures rewriting the named error result
			var named types.Object
			if fn.Decl.Type.Results != nil {
				for _, f := range fn.Decl.Type.Results.List {
					for _, nm := range f.Names {
						if core.IsErrorType(info.TypeOf(f.Type)) {
							named = info.Defs[nm]
						}
					}
				}
			}
			if named == nil {
				return
			}
			for _, ds := range g.Defers {
				dl, ok := ds.Call.Fun.(*ast.FuncLit)
				if !ok {
					continue
				}
				lg := fn.LitGraph(dl)
				for _, initial := range []string{"EOF", "ErrUnexpectedEOF"} {
					o.Count(1)
					// abstract walk: value of the named result; "wrapped" is the bad outcome
					type st struct {
						v   *core.V
						val string
					}
					seenSt := map[st]bool{}
					work := []st{{lg.Entry, initial}}
					for len(work) > 0 {
						cur := work[len(work)-1]
						work = work[:len(work)-1]
						if seenSt[cur] || cur.v == nil {
							continue
						}
						seenSt[cur] = true
						val := cur.val
						if as, ok := cur.v.AST.(*ast.AssignStmt); ok {
							for i, l := range as.Lhs {
								if core.ObjOf(info, l) != named || len(as.Rhs) != len(as.Lhs) {
									continue
								}
								r := as.Rhs[i]
								switch {
								case ioPkgObj(info, r) != "":
									val = ioPkgObj(info, r)
								case isWrapCall(info, r):
									val = "wrapped"
									o.FailAt(fn.Site(as, ""), "%s: when the function fails with a bare io.%s the deferred function turns it into a generic wrapper (%s): checkObjects compares by identity and aborts the scan instead of marking the object broken", c.Prog.Pos(as.Pos()), initial, c.Prog.Src(r))
								default:
									if ue, ok := ast.Unparen(r).(*ast.UnaryExpr); ok && ue.Op == token.AND {
										if cl, ok := ue.X.(*ast.CompositeLit); ok && core.IsNamed(info.TypeOf(cl), "pdf", "MalformedFileError") {
											val = "malformed"
											break
										}
									}
									if core.IsNil(info, r) {
										val = "nil"
										break
									}
									val = "other"
								}
							}
						}
						if val == "wrapped" {
							continue
						}
						take := core.EdgeNone
						if cur.v.Cond != nil && cur.v.Cond.Expr != nil && cur.v.Cond.Tag == nil {
							var ev func(e ast.Expr) (bool, bool)
							ev = func(e ast.Expr) (bool, bool) {
								e = ast.Unparen(e)
								switch x := e.(type) {
								case *ast.UnaryExpr:
									if x.Op == token.NOT {
										v, k := ev(x.X)
										return !v, k
									}
								case *ast.BinaryExpr:
									switch x.Op {
									case token.LAND:
										a, ka := ev(x.X)
										b, kb := ev(x.Y)
										if (ka && !a) || (kb && !b) {
											return false, true
										}
										return a && b, ka && kb
									case token.LOR:
										a, ka := ev(x.X)
										b, kb := ev(x.Y)
										if (ka && a) || (kb && b) {
											return true, true
										}
										return a || b, ka && kb
									case token.EQL, token.NEQ:
										l, r := x.X, x.Y
										if core.ObjOf(info, r) == named {
											l, r = r, l
										}
										if core.ObjOf(info, l) != named {
											return false, false
										}
										var eq, known bool
										if n := ioPkgObj(info, r); n != "" {
											known = val == "EOF" || val == "ErrUnexpectedEOF" || val == "malformed" || val == "nil"
											eq = val == n
										} else if core.IsNil(info, r) {
											known = val != "other"
											eq = val == "nil"
										}
										if !known {
											return false, false
										}
										return eq == (x.Op == token.EQL), true
									}
								case *ast.CallExpr:
									// errors.Is(err, io.EOF)
									if k := core.CalleeKey(info, x); k == "errors.Is" && len(x.Args) == 2 && core.ObjOf(info, x.Args[0]) == named {
										if n := ioPkgObj(info, x.Args[1]); n != "" && (val == "EOF" || val == "ErrUnexpectedEOF" || val == "nil") {
											return val == n, true
										}
									}
								}
								return false, false
							}
							if v, known := ev(cur.v.Cond.Expr); known {
								if v {
									take = core.EdgeTrue
								} else {
									take = core.EdgeFalse
								}
							}
						}
						for _, e := range cur.v.Succs {
							if take != core.EdgeNone && e.Label != core.EdgeNone && e.Label != take {
								continue
							}
							work = append(work, st{e.To, val})
						}
					}
				}
			}
		})
	}
}

// ioPkgObj returns the name of the object of package io that e denotes (io.EOF), or "".
func ioPkgObj(info *types.Info, e ast.Expr) string {
	sel, ok := ast.Unparen(e).(*ast.SelectorExpr)
	if !ok {
		return ""
	}
	if obj := info.ObjectOf(sel.Sel); obj != nil && obj.Pkg() != nil && obj.Pkg().Path() == "io" {
		return obj.Name()
	}
	return ""
}
