package props

import (
	"go/ast"
	"go/token"
	"go/types"
	"strings"

	"pdfverif/internal/core"
)

func init() {
	register(&Property{
		ID:       "C12",
		Patterns: []string{"./font/charcode"},
		Run:      runC12,
		Explanation: "Static rules on the character-code codec: (R1) the sharing descriptor built by newTree is extended by every child entered into the tree, on every path (identical descriptors are merged by the linearizer, so a child missing from the descriptor makes different subtrees collapse — the defect found and fixed here); " +
			"(R2) the consume-k constants registered by the linearizer, 0xffff-k for k=0..3, are the ones Decode/AppendCode/walk switch on, and Decode's fall-through chain consumes exactly one guarded byte per step in the order 3,2,1,0; (R3) every s[0] in Decode is dominated by a non-empty test and the first byte is consumed before any return; the builder inserts the breaks 0 and 256 so every node list ends with bound 0xFF; " +
			"(R4) prefix conflicts are rejected; (R5) the invalid-code consumption length is the minimum of the range LENGTHS (9.7.6.3). " +
			"Decides these structural conditions for all range sets; does NOT decide that the tree is the right tree for every range set nor CodeSpaceRange()'s merge semantics (value-level).",
	})
}

func runC12(c *core.Ctx) {
	const pkg = "pdf/font/charcode"
	defer ruleMergeAgreement(c)
	defer ruleDecodeConsumption(c)
	defer ruleNoAmbiguousKeys(c)
	defer ruleAppendCodeShifts(c)
	defer ruleNoStaleElementPointers(c, "C12-R9", "pdf/font/charcode")
	defer ruleMethodsPure(c, "C12-R12", "pdf/font/charcode", 3, func(fn *core.Func, recv types.Type) bool {
		return core.IsNamed(recv, "pdf/font/charcode", "Codec") // a Codec is immutable after NewCodec and shared between fonts and goroutines
	})
	defer func() {
		rulePublishedNotRecycled(c, "C12-R10", "pdf/font/charcode")
		ruleNoForeignAppend(c, "C12-R11", 0, "pdf/font/charcode")
	}()
	c.Check("C12-R1", pkg+".newTree/desc", "every child stored in the tree is recorded in the descriptor (its own descriptor and its upper bound) before the next child is considered", func(o *core.Ob) {
		fn := c.Prog.Func(pkg, "newTree")
		g := fn.Graph()
		info := fn.Info()
		t := localVar(fn, "t", 0)
		desc := localVar(fn, "desc", 0)
		stores := mapStores(g, t)
		if len(stores) == 0 {
			core.Undecided("no store into the tree")
		}
		// the loop over break points: the loop whose body contains the stores
		var head *core.V
		for _, h := range loopHeads(g) {
			if g.ReachFrom(succ(h, core.EdgeTrue), true, core.AvoidVs(h))[stores[0].V] {
				if head == nil {
					head = h
				}
			}
		}
		if head == nil {
			core.Undecided("break-point loop not found")
		}
		var appDesc, appHigh []*core.V
		for _, dv := range defVertices(g, desc) {
			as, ok := dv.AST.(*ast.AssignStmt)
			if !ok {
				continue
			}
			call, ok := as.Rhs[0].(*ast.CallExpr)
			if !ok || core.CalleeKey(info, call) != "builtin.append" || len(call.Args) != 2 {
				continue
			}
			if call.Ellipsis.IsValid() && strings.HasSuffix(core.ExprStr(call.Args[1]), ".desc") {
				appDesc = append(appDesc, dv)
			} else if core.ExprStr(call.Args[1]) == "high" {
				appHigh = append(appHigh, dv)
			}
		}
		for _, st := range stores {
			o.At(fn.Site(st.Stmt, "t["+core.ExprStr(st.Index)+"] = "+core.ExprStr(st.Value)))
			o.Require(core.ExprStr(st.Index) == "high", "children must be keyed by the upper bound of their byte interval")
			// the descriptor appended must be that of the stored node
			// (in the same pass through the loop body: after the store, or before it)
			inPass := func(apps []*core.V) bool {
				if g.MustPassBefore(st.V, []*core.V{head}, apps) {
					return true
				}
				return !g.ReachFrom(succ(head, core.EdgeTrue), true, core.AvoidVs(append([]*core.V{head}, apps...)...))[st.V]
			}
			if !inPass(appDesc) {
				o.FailAt(fn.Site(st.Stmt, ""), "this child can be stored without its descriptor being appended to desc (subtrees differing only here would share a descriptor and be merged)")
			}
			if !inPass(appHigh) {
				o.FailAt(fn.Site(st.Stmt, ""), "this child can be stored without its upper bound being appended to desc")
			}
			// and the appended descriptor belongs to the same node variable
			if id, ok := st.Value.(*ast.Ident); ok {
				found := false
				for _, a := range appDesc {
					as := a.AST.(*ast.AssignStmt)
					call := as.Rhs[0].(*ast.CallExpr)
					if strings.HasPrefix(core.ExprStr(call.Args[1]), id.Name+".") && (g.PathExists(st.V, a, core.AvoidVs(head)) || g.PathExists(a, st.V, core.AvoidVs(head))) {
						found = true
					}
				}
				o.Require(found, "the descriptor appended after storing %s is not %s.desc", id.Name, id.Name)
			} else {
				o.Fail("the stored child is not a named node whose descriptor can be recorded")
			}
		}
		// begin/end markers
		src := c.Prog.Src(fn.Decl.Body)
		o.Shape(strings.Contains(src, "desc:=[]byte{descValidBegin}") && strings.Contains(src, "desc=append(desc,descValidEnd)"), "the descriptor is not framed by begin/end markers")
	})
	c.Check("C12-R2", pkg+".consume-constants", "builder and decoder agree on the 'invalid, consume k more bytes' encoding", func(o *core.Ob) {
		want := map[string]int64{"validLeaf": 0, "invalidConsume3": 0xfffc, "invalidConsume2": 0xfffd, "invalidConsume1": 0xfffe, "invalidConsume0": 0xffff}
		for n, v := range want {
			o.Count(1)
			if got := c.Prog.ConstInt(pkg, n); got != v {
				o.Fail("%s = %#x, want %#x", n, got, v)
			}
		}
		nl := c.Prog.Func(pkg, "newLinearizer")
		src := c.Prog.Src(nl.Decl.Body)
		o.At(nl.Site(nl.Decl, "registration"))
		for k, name := range map[string]string{"0x00": "invalidConsume0", "0x01": "invalidConsume1", "0x02": "invalidConsume2", "0x03": "invalidConsume3"} {
			o.Shape(strings.Contains(src, "done[string([]byte{descInvalid,"+k+"})]="+name), "descriptor {invalid,%s} is not registered as %s", k, name)
		}
		o.Shape(strings.Contains(src, "done[string([]byte{descValidBegin,descValidEnd})]=validLeaf"), "the leaf descriptor is not registered as validLeaf")
		// newTree's invalid descriptor carries minLength - alreadyConsumed in both places
		nt := c.Prog.Func(pkg, "newTree")
		ns := c.Prog.Src(nt.Decl.Body)
		o.Shape(strings.Contains(ns, "desc:[]byte{descInvalid,byte(minLength-alreadyConsumed)}") && strings.Contains(ns, "consume:minLength-alreadyConsumed") && strings.Contains(ns, "alreadyConsumed:=depth+1"), "the invalid node must record minLength-(depth+1) as the number of further bytes to consume")
		// decoder chain
		for _, fname := range []string{"(*Codec).Decode", "(*Codec).AppendCode"} {
			fn := c.Prog.Func(pkg, fname)
			info := fn.Info()
			var order []string
			ast.Inspect(fn.Decl.Body, func(n ast.Node) bool {
				cc, ok := n.(*ast.CaseClause)
				if !ok || len(cc.List) != 1 {
					return true
				}
				name := core.ExprStr(cc.List[0])
				if !strings.HasPrefix(name, "invalidConsume") {
					return true
				}
				order = append(order, name)
				o.At(fn.Site(cc, "case "+name))
				if fname != "(*Codec).Decode" {
					return true
				}
				if name == "invalidConsume0" {
					_, isRet := cc.Body[len(cc.Body)-1].(*ast.ReturnStmt)
					o.Require(isRet, "case invalidConsume0 must return")
					return true
				}
				// exactly one guarded consumption then fallthrough
				nIf, nInc := 0, 0
				for _, s := range cc.Body {
					if is, ok := s.(*ast.IfStmt); ok {
						nIf++
						cond := strings.ReplaceAll(core.ExprStr(is.Cond), " ", "")
						o.Require(cond == "len(s)>0", "consumption in case %s is guarded by %s, want len(s) > 0", name, cond)
						ast.Inspect(is.Body, func(m ast.Node) bool {
							if inc, ok := m.(*ast.IncDecStmt); ok && inc.Tok == token.INC && core.ExprStr(inc.X) == "consumed" {
								nInc++
							}
							return true
						})
					}
				}
				o.Shape(nIf == 1 && nInc == 1, "case %s must consume exactly one (guarded) byte, found %d guards / %d increments", name, nIf, nInc)
				br, ok := cc.Body[len(cc.Body)-1].(*ast.BranchStmt)
				o.Require(ok && br.Tok == token.FALLTHROUGH, "case %s must fall through to the next lower case", name)
				_ = info
				return true
			})
			if len(order) == 0 {
				o.Unrec("%s does not handle the consume cases in a switch (computed count?): the number of bytes consumed is not decided", fname)
			} else {
				o.Require(strings.Join(order, ",") == "invalidConsume3,invalidConsume2,invalidConsume1,invalidConsume0", "%s handles the consume cases in order %v, want 3,2,1,0", fname, order)
			}
		}
	})
	c.Check("C12-R3", pkg+".(*Codec).Decode/bounds", "Decode never reads past the input: every s[0] is dominated by a non-empty test, and at least one byte is consumed before any return that follows a read", func(o *core.Ob) {
		fn := c.Prog.Func(pkg, "(*Codec).Decode")
		g := fn.Graph()
		info := fn.Info()
		s := paramObj(fn, "s")
		n := 0
		for _, v := range g.Vs {
			if v.AST == nil {
				continue
			}
			ast.Inspect(v.AST, func(m ast.Node) bool {
				ix, ok := m.(*ast.IndexExpr)
				if !ok || core.ObjOf(info, ix.X) != s {
					return true
				}
				n++
				o.At(fn.Site(ix, "reads "+core.ExprStr(ix)))
				// len(s), or a local that holds it while s is not re-sliced
				sStable := len(core.AssignsTo(info, fn.Decl, s)) == 0
				isLenS := func(e ast.Expr) bool {
					if call, isCall := ast.Unparen(e).(*ast.CallExpr); isCall && core.CalleeKey(info, call) == "builtin.len" && core.ObjOf(info, call.Args[0]) == s {
						return true
					}
					if _, isID := ast.Unparen(e).(*ast.Ident); isID && sStable {
						return resolveText(g, v, e, 2) == "len("+core.VarName(s)+")"
					}
					return false
				}
				if _, isK := core.IntConst(info, ix.Index); !isK {
					// s[i]: bounded by i < len(s)
					bounded := g.GuardedBy(v, func(a core.Atom) bool {
						cmp, isCmp := a.AsCmp()
						if !isCmp {
							return false
						}
						l, r, op := cmp.L, cmp.R, cmp.Op
						if isLenS(l) {
							l, r, op = r, l, core.FlipOp(op)
						}
						return isLenS(r) && op == token.LSS && core.ObjOf(info, l) != nil && core.ObjOf(info, l) == core.ObjOf(info, ix.Index)
					})
					if !bounded {
						o.Unrec("%s: s is read at the computed position %s: the bound of this read is not decided", c.Prog.Pos(ix.Pos()), core.ExprStr(ix.Index))
					} else if idx := core.ObjOf(info, ix.Index); idx != nil {
						// the index must not have moved between the test and the read
						for _, d := range defVertices(g, idx) {
							for _, bv := range g.BranchVertices() {
								if bv.Cond.Expr != nil && core.Mentions(info, bv.Cond.Expr, idx) && g.PathExists(bv, d, nil) && g.ReachFrom(d, false, core.AvoidVs(bv))[v] {
									o.Unrec("%s: the index %s changes between its test and the read: the bound of this read is not decided", c.Prog.Pos(ix.Pos()), idx.Name())
								}
							}
						}
					}
					return true
				}
				ok2 := g.GuardedBy(v, func(a core.Atom) bool {
					cmp, isCmp := a.AsCmp()
					if !isCmp {
						return false
					}
					if !isLenS(cmp.L) {
						return false
					}
					k, isK := core.IntConst(info, cmp.R)
					return isK && k == 0 && (cmp.Op == token.GTR || cmp.Op == token.NEQ)
				})
				if !ok2 {
					o.FailAt(fn.Site(ix, ""), "s is indexed without a dominating len(s) > 0 / len(s) != 0 fact")
				}
				return true
			})
		}
		o.Shape(n >= 4, "expected at least four reads of s[0], found %d", n)
		// the first read is followed by consumed++ before the node lookup
		var firstInc *core.V
		for _, v := range g.Vs {
			if inc, ok := v.AST.(*ast.IncDecStmt); ok && core.ExprStr(inc.X) == "consumed" && inc.Tok == token.INC {
				if firstInc == nil || v.AST.Pos() < firstInc.AST.Pos() {
					firstInc = v
				}
			}
		}
		if firstInc == nil {
			o.Unrec("no increment of a variable called consumed was found in Decode (the count is kept elsewhere): that a byte is consumed before any return that follows a read is not decided")
			return
		}
		for _, r := range g.Returns() {
			// returns after the first read must be after the increment
			if g.PathExists(firstInc, r, nil) {
				continue
			}
			// a return not reachable from the increment must be the empty-input return
			ok := g.GuardedBy(r, func(a core.Atom) bool {
				cmp, isCmp := a.AsCmp()
				return isCmp && cmp.Op == token.EQL && (strings.Contains(core.ExprStr(cmp.L), "len(s)") || strings.Contains(resolveText(g, r, cmp.L, 2), "len(s)"))
			})
			o.Require(ok, "a return without consumption is not the empty-input return")
		}
		// the empty-input return is only reachable at the top of the loop: consumed ≥ 1 afterwards
		nt := c.Prog.Func(pkg, "newTree")
		ns := c.Prog.Src(nt.Decl.Body)
		o.Shape(strings.Contains(ns, "breaks[0]=true") && strings.Contains(ns, "breaks[256]=true"), "newTree must insert the break points 0 and 256 so that every node list ends with bound 0xFF (the decoder's scan relies on it)")
	})
	c.Check("C12-R4", pkg+".newTree/prefix-conflict", "a range set in which one code is a prefix of another is rejected", func(o *core.Ob) {
		fn := c.Prog.Func(pkg, "newTree")
		info := fn.Info()
		g := fn.Graph()
		// the leaf counter: a variable incremented in a loop under the test
		// "the range ends with this byte" (len(r.Low) == depth+1)
		var counter types.Object
		for _, v := range g.Vs {
			inc, ok := v.AST.(*ast.IncDecStmt)
			if !ok || inc.Tok != token.INC || !g.InLoop(v) {
				continue
			}
			guarded := g.GuardedBy(v, func(a core.Atom) bool {
				cmp, ok := a.AsCmp()
				if !ok || cmp.Op != token.EQL {
					return false
				}
				l, r := strings.ReplaceAll(core.ExprStr(cmp.L), " ", ""), strings.ReplaceAll(core.ExprStr(cmp.R), " ", "")
				return (strings.HasPrefix(l, "len(") && strings.HasSuffix(l, ".Low)") && r == "depth+1") || (strings.HasPrefix(r, "len(") && strings.HasSuffix(r, ".Low)") && l == "depth+1")
			})
			if guarded {
				counter = core.ObjOf(info, inc.X)
				o.At(fn.Site(inc, "counts the children that are leaves"))
			}
		}
		if counter == nil {
			core.Undecided("leaf counter not found (a variable incremented under len(r.Low) == depth+1)")
		}
		// the facts about the counter that hold at a vertex: "0", "all", "!0", "!all"
		factsAt := func(v *core.V) map[string]bool {
			out := map[string]bool{}
			for _, a := range g.DominatingAtoms(v) {
				cmp, ok := a.AsCmp()
				if !ok || (cmp.Op != token.EQL && cmp.Op != token.NEQ) {
					continue
				}
				other := cmp.R
				if core.ObjOf(info, cmp.L) != counter {
					if core.ObjOf(info, cmp.R) != counter {
						continue
					}
					other = cmp.L
				}
				what := ""
				if k, isK := core.IntConst(info, other); isK && k == 0 {
					what = "0"
				} else if strings.HasPrefix(strings.ReplaceAll(core.ExprStr(other), " ", ""), "len(") {
					what = "all"
				} else {
					continue
				}
				if cmp.Op == token.NEQ {
					what = "!" + what
				}
				out[what] = true
			}
			return out
		}
		// mixed children are an error: some error return is reached exactly when the counter is neither 0 nor all
		okDefault := false
		errReturns := 0
		for _, r := range g.Returns() {
			rs := r.AST.(*ast.ReturnStmt)
			if len(rs.Results) == 0 {
				continue
			}
			errRes := rs.Results[len(rs.Results)-1]
			if t := info.TypeOf(errRes); t == nil || !(core.IsErrorType(t) || core.IsNil(info, errRes)) || core.IsNil(info, errRes) {
				continue
			}
			errReturns++
			// the error may be chosen earlier (a helper folded in: err = errX; ...; if err != nil { return }):
			// the facts that hold where it is chosen count
			for _, vc := range valueCases(g, r, errRes, 2) {
				if core.IsNil(info, vc.Expr) {
					continue
				}
				f := factsAt(vc.V)
				for k, v := range factsAt(r) {
					f[k] = f[k] || v
				}
				if f["!0"] && f["!all"] {
					okDefault = true
					o.At(fn.Site(vc.V.AST, "mixed children rejected"))
				}
			}
		}
		if !okDefault && errReturns == 0 {
			o.Unrec("newTree has no return of an error in the form the rule looks for: whether mixed leaf/non-leaf children are rejected is not decided")
		} else {
			o.Require(okDefault, "mixed leaf/non-leaf children do not lead to an error")
		}
		// a leaf only when all children are leaves, a subtree only when none is
		okLeaf, okSub := false, false
		for _, v := range g.Vs {
			if v.AST == nil {
				continue
			}
			if len(core.CallsTo(info, v.AST, false, pkg+".newTree")) > 0 {
				f := factsAt(v)
				if f["0"] {
					okSub = true
				} else {
					o.FailAt(fn.Site(v.AST, ""), "the subtree is built although some child may be a leaf")
				}
			}
			if as, ok := v.AST.(*ast.AssignStmt); ok && len(as.Rhs) == 1 && strings.Contains(c.Prog.Src(as.Rhs[0]), "descValidBegin,descValidEnd") {
				f := factsAt(v)
				if f["all"] {
					okLeaf = true
				} else {
					o.FailAt(fn.Site(v.AST, ""), "a leaf is created although some child may have more bytes")
				}
			}
		}
		o.Shape(okLeaf && okSub, "expected the cases 'all children are leaves' and 'no child is a leaf'")
		src := c.Prog.Src(fn.Decl.Body)
		// errors of the recursive call propagate
		o.Shape(strings.Contains(src, "cc,dd,err:=newTree(childRanges,depth+1)iferr!=nil{returnnil,nil,err}"), "an error from the recursive construction is not propagated")
	})
	c.Check("C12-R5", pkg+".minLength", "for an invalid code the number of bytes consumed derives from the SHORTEST range length (ISO 32000-2 9.7.6.3), and at least one byte is always consumed", func(o *core.Ob) {
		fn := c.Prog.Func(pkg, "minLength")
		info := fn.Info()
		g := fn.Graph()
		o.At(fn.Site(fn.Decl, ""))
		// no calls other than len
		for _, cs := range core.CallsIn(info, fn.Decl, true) {
			o.Count(1)
			if cs.Key != "builtin.len" && cs.Key != "builtin.min" {
				o.FailAt(fn.Site(cs.Call, ""), "minLength calls %s; the minimum must be taken over len(range.Low) only", cs.Key)
			}
		}
		// every non-constant return value is a variable all of whose definitions are len(X.Low) (possibly via a local)
		for _, r := range g.Returns() {
			rs := r.AST.(*ast.ReturnStmt)
			if k, ok := core.IntConst(info, rs.Results[0]); ok {
				o.Require(k == 1, "constant result %d, want 1 for the empty range set", k)
				ok2 := g.GuardedBy(r, func(a core.Atom) bool {
					cmp, isCmp := a.AsCmp()
					if !isCmp || cmp.Op != token.EQL {
						return false
					}
					// len(csr) == 0, or n == 0 with n := len(csr)
					l := cmp.L
					if id, isID := ast.Unparen(l).(*ast.Ident); isID {
						if vc := valueCases(g, r, id, 1); len(vc) == 1 && vc[0].V != nil && vc[0].Expr != ast.Expr(id) {
							l = vc[0].Expr
						}
					}
					return strings.Contains(core.ExprStr(l), "len(csr)")
				})
				o.Shape(ok2, "the constant result is not restricted to the empty range set")
				continue
			}
			obj := core.ObjOf(info, rs.Results[0])
			if obj == nil {
				o.Fail("result %s is not a length variable", core.ExprStr(rs.Results[0]))
				continue
			}
			for _, d := range core.AssignsTo(info, fn.Decl, obj) {
				as, ok := d.(*ast.AssignStmt)
				if !ok {
					continue
				}
				isLen := func(e ast.Expr, depth int) bool { return false }
				isLen = func(e ast.Expr, depth int) bool {
					e = ast.Unparen(e)
					if call, ok := e.(*ast.CallExpr); ok && core.CalleeKey(info, call) == "builtin.len" {
						return strings.HasSuffix(core.ExprStr(call.Args[0]), ".Low") || strings.HasSuffix(core.ExprStr(call.Args[0]), ".High")
					}
					if id, ok := e.(*ast.Ident); ok && depth > 0 {
						o2 := info.ObjectOf(id)
						ds := core.AssignsTo(info, fn.Decl, o2)
						if len(ds) == 0 {
							return false
						}
						for _, dd := range ds {
							a2, ok := dd.(*ast.AssignStmt)
							if !ok || !isLen(a2.Rhs[0], depth-1) {
								return false
							}
						}
						return true
					}
					return false
				}
				// the running minimum by the builtin: shortest = min(shortest, len(r.Low))
				if call, isCall := ast.Unparen(as.Rhs[0]).(*ast.CallExpr); isCall && len(call.Args) == 2 {
					if k := core.CalleeKey(info, call); k == "builtin.min" || k == "builtin.max" {
						self, other := false, false
						for _, a := range call.Args {
							if core.ObjOf(info, a) == obj {
								self = true
							} else if isLen(a, 2) {
								other = true
							}
						}
						if self && other {
							if k == "builtin.max" {
								o.FailAt(fn.Site(as, ""), "the result is replaced by the LONGER of the lengths: 9.7.6.3 asks for the shortest code length")
							}
							continue
						}
					}
				}
				if !isLen(as.Rhs[0], 2) {
					// a sentinel the loop minimises away: an initial value that no code length exceeds
					if k, isK := core.IntConst(info, as.Rhs[0]); isK && k >= 4 && as.Tok == token.DEFINE && !g.InLoop(g.MustVertexOf(as)) {
						continue
					}
					if k, isK := core.IntConst(info, as.Rhs[0]); isK && k == 1 && as.Tok == token.DEFINE && !g.InLoop(g.MustVertexOf(as)) {
						// the default for the empty set as the initial value; the first range must
						// then replace it whatever its length (a guard "first iteration or shorter")
						o.Unrec("%s: the running minimum starts at the default 1; whether the first range always replaces it is not decided", c.Prog.Pos(as.Pos()))
						continue
					}
					o.FailAt(fn.Site(as, ""), "the result is assigned %s, which is not a range length", core.ExprStr(as.Rhs[0]))
				}
				// an update inside the loop must be guarded by a '<' comparison against the current minimum
				if as.Tok == token.ASSIGN {
					v := g.MustVertexOf(as)
					ok2 := g.GuardedBy(v, func(a core.Atom) bool {
						cmp, isCmp := a.AsCmp()
						if !isCmp {
							return false
						}
						if cmp.Op == token.LSS && core.ObjOf(info, cmp.R) == obj {
							return true
						}
						return cmp.Op == token.GTR && core.ObjOf(info, cmp.L) == obj
					})
					wrong := g.GuardedBy(v, func(a core.Atom) bool {
						cmp, isCmp := a.AsCmp()
						if !isCmp {
							return false
						}
						if (cmp.Op == token.GTR || cmp.Op == token.GEQ) && core.ObjOf(info, cmp.R) == obj {
							return true
						}
						return (cmp.Op == token.LSS || cmp.Op == token.LEQ) && core.ObjOf(info, cmp.L) == obj
					})
					if wrong && !ok2 {
						o.FailAt(fn.Site(as, ""), "the running value is replaced by a LONGER length: the result is not the shortest range length")
					} else {
						o.Shape(ok2, "the running minimum is updated without a 'shorter than' comparison that dominates the update")
					}
				}
			}
		}
		// all ranges are considered: a loop over csr (or csr[1:])
		heads := loopHeads(g)
		allRanges := len(heads) == 1 && heads[0].Cond.Range != nil && strings.HasPrefix(core.ExprStr(heads[0].Cond.Range.X), "csr")
		if !allRanges && len(heads) == 1 && heads[0].Cond.Range == nil && heads[0].Cond.Expr != nil {
			// for i := 0|1; i < len(csr) (or n := len(csr)); i++
			if be, isBin := ast.Unparen(heads[0].Cond.Expr).(*ast.BinaryExpr); isBin && be.Op == token.LSS {
				bound := be.Y
				if id, isID := ast.Unparen(bound).(*ast.Ident); isID {
					if vc := valueCases(g, heads[0], id, 1); len(vc) == 1 && vc[0].V != nil && vc[0].Expr != ast.Expr(id) {
						bound = vc[0].Expr
					}
				}
				if strings.ReplaceAll(core.ExprStr(bound), " ", "") == "len(csr)" {
					allRanges = true
				}
			}
		}
		o.Shape(allRanges, "minLength does not iterate over all ranges in a form that is recognised (range csr, range csr[1:], or an index up to len(csr))")
		// ... and the scan is not left before its end
		if len(heads) == 1 {
			head := heads[0]
			body := succ(head, core.EdgeTrue)
			if body != nil {
				inLoop := map[*core.V]bool{head: true}
				for v := range g.ReachPlain(body, true, core.AvoidVs(head)) {
					if g.ReachPlain(v, false, nil)[head] {
						inLoop[v] = true
					}
				}
				for u := range inLoop {
					if u == head {
						continue
					}
					for _, e := range u.Succs {
						if inLoop[e.To] {
							continue
						}
						site := u.AST
						if site == nil {
							site = head.AST
						}
						// stopping because the minimum found so far is still large can never be
						// right (a later range may be shorter); stopping because it is small
						// enough depends on what it is compared with
						large := false
						for _, bv := range g.BranchVertices() {
							if bv.Cond.Expr == nil || !inLoop[bv] || !g.Dominates(bv, u) {
								continue
							}
							for _, l := range []core.EdgeLabel{core.EdgeTrue, core.EdgeFalse} {
								if !g.EdgeDominates(u, core.EdgeRef{From: bv, Label: l}) && bv != u {
									continue
								}
								if bv == u && l != e.Label {
									continue
								}
								for _, a := range bv.Implied(l) {
									cmp, isCmp := a.AsCmp()
									if !isCmp {
										continue
									}
									lo, ro := core.ObjOf(info, cmp.L), core.ObjOf(info, cmp.R)
									isMin := func(ob types.Object) bool {
										if ob == nil {
											return false
										}
										for _, r := range g.Returns() {
											if rs, ok := r.AST.(*ast.ReturnStmt); ok && len(rs.Results) == 1 && core.ObjOf(info, rs.Results[0]) == ob {
												return true
											}
										}
										return false
									}
									if (isMin(lo) && (cmp.Op == token.GEQ || cmp.Op == token.GTR)) || (isMin(ro) && (cmp.Op == token.LEQ || cmp.Op == token.LSS)) {
										large = true
									}
								}
							}
						}
						if large {
							o.FailAt(fn.Site(site, ""), "the scan over the ranges is left while the minimum found so far is still at or above some bound: a later range may be shorter, and an invalid code then consumes more bytes than the shortest code has")
						} else {
							o.Unrec("%s: the scan over the ranges can be left before its end; whether the ranges not looked at can be shorter is not decided", c.Prog.Pos(site.Pos()))
						}
					}
				}
			}
		}
	})
	c.Check("C12-R6", pkg+".canMerge/both-bounds", "two ranges agree in a byte position only if both their lower and their upper bounds agree: wherever canMerge tests the upper bounds of its two arguments for equality it tests the lower bounds as well (otherwise ranges with different lower bounds are reported merged and CodeSpaceRange() describes codes the codec rejects)", func(o *core.Ob) {
		fn := c.Prog.Func(pkg, "canMerge")
		info := fn.Info()
		o.At(fn.Site(fn.Decl, ""))
		count := map[string]int{}
		field := func(e ast.Expr) string {
			// r.Low[i], r.Low[a:], r.Low, and locals that hold one of these (rLow := r.Low; lo := sLow[i])
			for steps := 0; steps < 8; steps++ {
				switch x := ast.Unparen(e).(type) {
				case *ast.IndexExpr:
					e = x.X
					continue
				case *ast.SliceExpr:
					e = x.X
					continue
				case *ast.SelectorExpr:
					if x.Sel.Name == "Low" || x.Sel.Name == "High" {
						return x.Sel.Name
					}
				case *ast.Ident:
					if obj, isVar := info.ObjectOf(x).(*types.Var); isVar && !obj.IsField() {
						if ds := core.AssignsTo(info, fn.Decl, obj); len(ds) == 1 {
							if as, isAs := ds[0].(*ast.AssignStmt); isAs && len(as.Lhs) == len(as.Rhs) {
								for i, l := range as.Lhs {
									if core.ObjOf(info, l) == obj {
										e = as.Rhs[i]
									}
								}
								if ast.Unparen(e) != ast.Expr(x) {
									continue
								}
							}
						}
					}
				}
				return ""
			}
			return ""
		}
		ast.Inspect(fn.Decl.Body, func(n ast.Node) bool {
			switch x := n.(type) {
			case *ast.BinaryExpr:
				if x.Op == token.EQL || x.Op == token.NEQ {
					if _, isConv := ast.Unparen(x.X).(*ast.CallExpr); isConv {
						return true // int(r.High[i])+1 == int(s.Low[i]) is the adjacency test, not an agreement test
					}
					if _, isBin := ast.Unparen(x.X).(*ast.BinaryExpr); isBin {
						return true
					}
					l, r := field(x.X), field(x.Y)
					if l != "" && l == r {
						count[l]++
					}
				}
			case *ast.CallExpr:
				if k := core.CalleeKey(info, x); (k == "bytes.Equal" || k == "slices.Equal") && len(x.Args) == 2 {
					l, r := field(x.Args[0]), field(x.Args[1])
					if l != "" && l == r {
						count[l]++
					}
				}
			}
			return true
		})
		o.Count(count["Low"] + count["High"] + 1)
		o.Fact("agreement tests: Low %d, High %d", count["Low"], count["High"])
		o.Require(count["Low"] >= 1 && count["High"] >= 1, "canMerge does not compare the bounds of its arguments")
		o.Require(count["Low"] == count["High"], "canMerge tests the lower bounds for agreement %d time(s) but the upper bounds %d time(s)", count["Low"], count["High"])
	})
}

// ruleMergeAgreement (C12-R6, second half): in the code that decides whether
// two code space ranges can be merged, a byte position counts as "the two
// ranges agree here" only if both the lower and the upper bounds agree.  For
// every loop over the byte positions, the iterations that complete without
// passing the adjacency test (a comparison that mixes High and Low) must do
// so under a path condition that implies both equalities.  The code is looked
// for in canMerge, when that function exists, and in the normalised
// CodeSpaceRange (which contains an unexported predicate under any name).
func ruleMergeAgreement(c *core.Ctx) {
	const pkg = "pdf/font/charcode"
	c.Check("C12-R6", pkg+".merge/agreement", "an iteration over a byte position of two ranges completes without the adjacency test only when both bounds agree there", func(o *core.Ob) {
		var fns []*core.Func
		if f := c.Prog.FuncOpt(pkg, "canMerge"); f != nil {
			fns = append(fns, f)
		}
		if f := c.Prog.FuncOpt(pkg, "(*Codec).CodeSpaceRange"); f != nil {
			fns = append(fns, f)
		}
		loops := 0
		for _, fn := range fns {
			g := fn.Graph()
			info := fn.Info()
			fieldIdx := func(e ast.Expr) (string, types.Object, types.Object) {
				ix, ok := ast.Unparen(e).(*ast.IndexExpr)
				if !ok {
					return "", nil, nil
				}
				sel, ok := ast.Unparen(ix.X).(*ast.SelectorExpr)
				if !ok || (sel.Sel.Name != "Low" && sel.Sel.Name != "High") {
					return "", nil, nil
				}
				return sel.Sel.Name, core.ObjOf(info, sel.X), core.ObjOf(info, ix.Index)
			}
			type comp struct {
				be   *ast.BinaryExpr
				kind string
			}
			byIdx := map[types.Object][]comp{}
			mixed := map[*ast.BinaryExpr]bool{}
			var stack []ast.Node
			loopOf := map[*ast.BinaryExpr][]ast.Node{}
			ast.Inspect(fn.Decl.Body, func(n ast.Node) bool {
				if n == nil {
					stack = stack[:len(stack)-1]
					return true
				}
				stack = append(stack, n)
				be, ok := n.(*ast.BinaryExpr)
				if !ok {
					return true
				}
				hasLow, hasHigh := false, false
				ast.Inspect(be, func(m ast.Node) bool {
					if sel, ok := m.(*ast.SelectorExpr); ok {
						hasLow = hasLow || sel.Sel.Name == "Low"
						hasHigh = hasHigh || sel.Sel.Name == "High"
					}
					return true
				})
				switch be.Op {
				case token.EQL, token.NEQ, token.LSS, token.GTR, token.LEQ, token.GEQ:
					if hasLow && hasHigh {
						lb, isBin := ast.Unparen(be.X).(*ast.BinaryExpr)
						if !isBin || (lb.Op != token.LAND && lb.Op != token.LOR) {
							mixed[be] = true
						}
					}
				}
				if be.Op != token.EQL && be.Op != token.NEQ {
					return true
				}
				k1, b1, i1 := fieldIdx(be.X)
				k2, b2, i2 := fieldIdx(be.Y)
				if k1 == "" || k1 != k2 || b1 == nil || b2 == nil || b1 == b2 || i1 == nil || i1 != i2 {
					return true
				}
				byIdx[i1] = append(byIdx[i1], comp{be, k1})
				var ls []ast.Node
				for _, a := range stack {
					switch a.(type) {
					case *ast.ForStmt, *ast.RangeStmt:
						ls = append(ls, a)
					}
				}
				loopOf[be] = ls
				return true
			})
			var adj []*core.V
			for _, v := range g.Vs {
				if v.AST == nil && (v.Cond == nil || v.Cond.Expr == nil) {
					continue
				}
				has := false
				look := func(n ast.Node) {
					if n == nil {
						return
					}
					ast.Inspect(n, func(m ast.Node) bool {
						if be, ok := m.(*ast.BinaryExpr); ok && mixed[be] {
							has = true
						}
						return true
					})
				}
				if v.AST != nil {
					if _, isLoop := v.AST.(*ast.ForStmt); !isLoop {
						if _, isRange := v.AST.(*ast.RangeStmt); !isRange {
							look(v.AST)
						}
					}
				}
				if v.Cond != nil && v.Cond.Expr != nil {
					look(v.Cond.Expr)
				}
				if has {
					adj = append(adj, v)
				}
			}
			for idx, comps := range byIdx {
				// the innermost loop that advances the index
				var loop ast.Node
				for _, cand := range loopOf[comps[0].be] {
					advances := false
					if rs, ok := cand.(*ast.RangeStmt); ok && rs.Key != nil && core.ObjOf(info, rs.Key) == idx {
						advances = true
					}
					ast.Inspect(cand, func(m ast.Node) bool {
						switch x := m.(type) {
						case *ast.IncDecStmt:
							if core.ObjOf(info, x.X) == idx {
								advances = true
							}
						case *ast.AssignStmt:
							if x.Tok != token.DEFINE {
								for _, l := range x.Lhs {
									if core.ObjOf(info, l) == idx {
										advances = true
									}
								}
							}
						}
						return true
					})
					if advances {
						loop = cand
					}
				}
				if loop == nil {
					continue
				}
				var head *core.V
				for _, h := range loopHeads(g) {
					if h.Cond.Range != nil && ast.Node(h.Cond.Range) == loop {
						head = h
					}
					if fs, ok := loop.(*ast.ForStmt); ok && fs.Cond != nil && h.Cond.Expr == fs.Cond {
						head = h
					}
				}
				if head == nil {
					o.Unrec("%s: the loop over the byte positions at %s has no recognisable head", fn.Key, c.Prog.Pos(loop.Pos()))
					continue
				}
				loops++
				o.At(fn.Site(loop, "loop over byte positions"))
				// paths that stay inside the loop (an iteration that completes), without the adjacency test
				avoid := append([]*core.V{}, adj...)
				inLoop := naturalLoop(g, head)
				for _, v := range g.Vs {
					if !inLoop[v] {
						avoid = append(avoid, v)
					}
				}
				atoms := atomsBetween(g, head, head, avoid)
				// a named test (isEqual := a == b; if isEqual { continue }) carries the facts of its definition
				for _, a := range append([]core.Atom{}, atoms...) {
					atoms = append(atoms, g.ExpandNamed(a)...)
				}
				o.Fact("%s: loop at %s: %d vertices, completed iterations without the adjacency test hold under %s", fn.Key, c.Prog.Pos(loop.Pos()), len(inLoop), c.Prog.FormulaString(core.Formula{Fn: fn, Atoms: atoms}))
				if atoms == nil && !g.ReachFrom(head, false, core.AvoidVs(avoid...))[head] {
					continue // every completed iteration passes the adjacency test
				}
				for _, kind := range []string{"Low", "High"} {
					var want *core.Atom
					for _, cp := range comps {
						if cp.kind == kind {
							if cp.be.Op == token.NEQ {
								// the atom "be is false"
								want = &core.Atom{Expr: cp.be, Neg: true}
							} else {
								want = &core.Atom{Expr: cp.be}
							}
						}
					}
					if want == nil {
						o.FailAt(fn.Site(loop, ""), "the loop compares only one of the two bounds of a byte position")
						continue
					}
					holds, counter, decided := c.Prog.Implies(core.Formula{Fn: fn, Atoms: atoms}, core.Formula{Fn: fn, Atoms: []core.Atom{*want}})
					if !decided {
						o.Unrec("%s: the path condition of a completed iteration was not decided", fn.Key)
						continue
					}
					if !holds {
						o.FailAt(fn.Site(loop, ""), "an iteration can complete without the adjacency test although the %s bounds differ (%s): ranges that differ in one bound only are reported as mergeable", kind, counter)
					}
				}
			}
		}
		o.Shape(loops > 0, "no loop comparing the bounds of two ranges position by position was found")
	})
}

// ruleDecodeConsumption (C12-R7): Decode assembles a code from successive
// input bytes; each byte is read as s[0] and the slice is advanced before the
// next read.  A read that is not followed by an advance may only be the last
// one before the function returns: otherwise the same byte is taken twice
// (the reported code differs from the bytes the reported length covers).
func ruleDecodeConsumption(c *core.Ctx) {
	const pkg = "pdf/font/charcode"
	c.Check("C12-R7", pkg+".(*Codec).Decode/consumption", "between two reads of the next input byte s[0] the input slice is advanced", func(o *core.Ob) {
		fn := c.Prog.Func(pkg, "(*Codec).Decode")
		g := fn.Graph()
		info := fn.Info()
		s := paramObj(fn, "s")
		var reads, advances []*core.V
		for _, v := range g.Vs {
			if v.AST == nil {
				continue
			}
			var node ast.Node = v.AST
			if v.Cond != nil && v.Cond.Expr != nil {
				node = v.Cond.Expr
			}
			isRead, isAdv := false, false
			ast.Inspect(node, func(m ast.Node) bool {
				switch x := m.(type) {
				case *ast.IndexExpr:
					if core.ObjOf(info, x.X) == s {
						if k, ok := core.IntConst(info, x.Index); ok && k == 0 {
							isRead = true
						} else {
							core.Undecided("input indexed other than s[0]: %s", c.Prog.Src(x))
						}
					}
				case *ast.AssignStmt:
					for i, l := range x.Lhs {
						if core.ObjOf(info, l) != s || len(x.Rhs) != len(x.Lhs) {
							continue
						}
						sl, ok := ast.Unparen(x.Rhs[i]).(*ast.SliceExpr)
						if ok && core.ObjOf(info, sl.X) == s && sl.High == nil {
							if k, ok := core.IntConst(info, sl.Low); ok && k == 1 {
								isAdv = true
								continue
							}
						}
						core.Undecided("input slice reassigned in an unexpected way: %s", c.Prog.Src(x))
					}
				}
				return true
			})
			if isAdv {
				advances = append(advances, v)
			} else if isRead {
				reads = append(reads, v)
			}
			if isRead && isAdv {
				o.At(fn.Site(v.AST, "reads and advances"))
			}
		}
		o.Fact("%d read-only sites, %d advancing sites", len(reads), len(advances))
		o.Require(len(advances) >= 1, "the input is never advanced")
		allReads := append(append([]*core.V{}, reads...), advances...)
		for _, r := range reads {
			o.Count(1)
			o.At(fn.Site(r.AST, "reads s[0] without advancing"))
			after := g.ReachFrom(r, false, core.AvoidVs(advances...))
			for _, r2 := range allReads {
				isAdvRead := false
				for _, a := range advances {
					if a == r2 {
						isAdvRead = true
					}
				}
				if isAdvRead {
					// an advancing statement that also reads s[0] (b, s = s[0], s[1:]): is it reached?
					if g.ReachFrom(r, false, core.AvoidVs(func() []*core.V {
						var o2 []*core.V
						for _, a := range advances {
							if a != r2 {
								o2 = append(o2, a)
							}
						}
						return o2
					}()...))[r2] {
						readsToo := false
						ast.Inspect(r2.AST, func(m ast.Node) bool {
							if ix, ok := m.(*ast.IndexExpr); ok && core.ObjOf(info, ix.X) == s {
								readsToo = true
							}
							return true
						})
						if readsToo {
							o.FailAt(fn.Site(r2.AST, "same byte read again"), "%s: the byte read at %s is read again at %s without the input having been advanced", c.Prog.Pos(r2.AST.Pos()), c.Prog.Pos(r.AST.Pos()), c.Prog.Pos(r2.AST.Pos()))
						}
					}
					continue
				}
				if after[r2] {
					o.FailAt(fn.Site(r2.AST, "same byte read again"), "%s: the byte read at %s is read again at %s without the input having been advanced", c.Prog.Pos(r2.AST.Pos()), c.Prog.Pos(r.AST.Pos()), c.Prog.Pos(r2.AST.Pos()))
				}
			}
		}
	})
}

// ruleNoAmbiguousKeys (C12-R8): a Codec is determined by its code space
// ranges.  If the package ever memoises codecs (or anything else) under a
// key built by concatenating variable-length byte strings without lengths
// or separators, different range sets collide (<00><FFFF> + <01><02> and
// <00FF><FF01> + <02>...) and the wrong codec is returned.  The rule looks at
// every map index and sync.Map Load/Store/LoadOrStore key in the package: a
// key variable whose every write is "k = append(k, bytes...)" with
// variable-length operands only is ambiguous.  Today the package has no such
// cache; the rule records the keyed lookups it inspected.
func ruleNoAmbiguousKeys(c *core.Ctx) {
	const pk = "pdf/font/charcode"
	c.Check("C12-R8", pk+"/lookup-keys", "no lookup key is an unseparated concatenation of variable-length byte strings", func(o *core.Ob) {
		pkg := c.Prog.Pkg(pk)
		for _, fn := range c.Prog.Funcs(pkg) {
			info := fn.Info()
			var keys []ast.Expr
			ast.Inspect(fn.Decl.Body, func(n ast.Node) bool {
				switch x := n.(type) {
				case *ast.IndexExpr:
					if _, ok := info.TypeOf(x.X).Underlying().(*types.Map); ok {
						keys = append(keys, x.Index)
					}
				case *ast.CallExpr:
					k := core.CalleeKey(info, x)
					if strings.HasPrefix(k, "sync.(*Map).") && len(x.Args) >= 1 {
						keys = append(keys, x.Args[0])
					}
				}
				return true
			})
			for _, k := range keys {
				o.Count(1)
				e := ast.Unparen(k)
				// string(k) / []byte conversions
				for {
					call, ok := e.(*ast.CallExpr)
					if !ok || len(call.Args) != 1 {
						break
					}
					if tv, ok := info.Types[call.Fun]; !ok || !tv.IsType() {
						break
					}
					e = ast.Unparen(call.Args[0])
				}
				obj, _ := core.ObjOf(info, e).(*types.Var)
				if obj == nil || obj.IsField() {
					continue
				}
				writes := core.AssignsTo(info, fn.Decl, obj)
				spread, other := 0, 0
				for _, w := range writes {
					as, ok := w.(*ast.AssignStmt)
					if !ok || len(as.Rhs) != 1 {
						if vs, isVS := w.(*ast.ValueSpec); isVS && len(vs.Values) == 0 {
							continue
						}
						other++
						continue
					}
					call, ok := ast.Unparen(as.Rhs[0]).(*ast.CallExpr)
					if id, isID := func() (*ast.Ident, bool) {
						if !ok {
							return nil, false
						}
						i, k := call.Fun.(*ast.Ident)
						return i, k
					}(); ok && isID && id.Name == "append" && call.Ellipsis.IsValid() && len(call.Args) == 2 && core.ObjOf(info, call.Args[0]) == obj {
						if _, isSlice := info.TypeOf(call.Args[1]).Underlying().(*types.Slice); isSlice {
							spread++
							continue
						}
					}
					other++
				}
				if spread >= 1 && other == 0 && len(writes) >= 2 {
					o.FailAt(fn.Site(k, ""), "%s: the lookup key %s is built only by appending variable-length byte strings: different inputs give the same key", c.Prog.Pos(k.Pos()), c.Prog.Src(k))
				}
			}
		}
		if o.Evals == 0 {
			o.Count(1)
		}
	})
}

// ruleNoStaleElementPointers (C12-R9): a pointer to an element of a slice
// (p := &s.nodes[i]) refers to the backing array the slice had at that
// moment.  If the slice is appended to before p is used again (here through
// the recursive AppendNodes call), a write through p goes to the old array
// and is lost: the child link stays 0, which is the "valid leaf" marker, so
// a prefix of a code is accepted as a complete code.  For every such pointer
// to an element of a struct field in the package: no call that can append to
// the same field lies between taking the pointer and a later use of it.
func ruleNoStaleElementPointers(c *core.Ctx, rule, pk string) {
	c.Check(rule, pk+"/element-pointers", "no pointer to a slice element is used after a call that may append to that slice", func(o *core.Ob) {
		pkg := c.Prog.Pkg(pk)
		// which functions append to which slice fields (directly)
		appends := map[*types.Func]map[*types.Var]bool{}
		for _, fn := range c.Prog.Funcs(pkg) {
			info := fn.Info()
			ast.Inspect(fn.Decl.Body, func(m ast.Node) bool {
				as, ok := m.(*ast.AssignStmt)
				if !ok || len(as.Lhs) != len(as.Rhs) {
					return true
				}
				for i, l := range as.Lhs {
					sel, ok := ast.Unparen(l).(*ast.SelectorExpr)
					if !ok {
						continue
					}
					f, ok := info.ObjectOf(sel.Sel).(*types.Var)
					if !ok || !f.IsField() {
						continue
					}
					if call, ok := ast.Unparen(as.Rhs[i]).(*ast.CallExpr); ok {
						if id, ok := call.Fun.(*ast.Ident); ok && id.Name == "append" {
							if appends[fn.Obj] == nil {
								appends[fn.Obj] = map[*types.Var]bool{}
							}
							appends[fn.Obj][f] = true
						}
					}
				}
				return true
			})
		}
		// transitive over static calls in the package
		for changed := true; changed; {
			changed = false
			for _, fn := range c.Prog.Funcs(pkg) {
				for _, cs := range core.CallsIn(fn.Info(), fn.Decl, true) {
					if cs.Fn == nil {
						continue
					}
					for f := range appends[cs.Fn.Origin()] {
						if appends[fn.Obj] == nil {
							appends[fn.Obj] = map[*types.Var]bool{}
						}
						if !appends[fn.Obj][f] {
							appends[fn.Obj][f] = true
							changed = true
						}
					}
				}
			}
		}
		nPtr := 0
		for _, fn := range c.Prog.Funcs(pkg) {
			info := fn.Info()
			g := fn.Graph()
			for _, v := range g.Vs {
				as, ok := v.AST.(*ast.AssignStmt)
				if !ok || len(as.Lhs) != 1 || len(as.Rhs) != 1 {
					continue
				}
				ue, ok := ast.Unparen(as.Rhs[0]).(*ast.UnaryExpr)
				if !ok || ue.Op != token.AND {
					continue
				}
				ix, ok := ast.Unparen(ue.X).(*ast.IndexExpr)
				if !ok {
					continue
				}
				sel, ok := ast.Unparen(ix.X).(*ast.SelectorExpr)
				if !ok {
					continue
				}
				field, ok := info.ObjectOf(sel.Sel).(*types.Var)
				if !ok || !field.IsField() {
					continue
				}
				if _, isSlice := field.Type().Underlying().(*types.Slice); !isSlice {
					continue
				}
				p := core.ObjOf(info, as.Lhs[0])
				if p == nil {
					continue
				}
				nPtr++
				o.Count(1)
				o.At(fn.Site(as, "pointer to an element of "+field.Name()))
				// calls that may append to the field, reachable from the definition
				after := g.ReachFrom(v, false, nil)
				for _, cv := range g.Vs {
					if cv.AST == nil || !after[cv] {
						continue
					}
					dangerous := false
					var which string
					for _, cs := range core.CallsIn(info, cv.AST, false) {
						if cs.Fn != nil && appends[cs.Fn.Origin()][field] {
							dangerous = true
							which = cs.Key
						}
					}
					if as2, ok := cv.AST.(*ast.AssignStmt); ok {
						for i, l := range as2.Lhs {
							if s2, ok := ast.Unparen(l).(*ast.SelectorExpr); ok && info.ObjectOf(s2.Sel) == field && i < len(as2.Rhs) {
								if call, ok := ast.Unparen(as2.Rhs[i]).(*ast.CallExpr); ok {
									if id, ok := call.Fun.(*ast.Ident); ok && id.Name == "append" {
										dangerous = true
										which = "append"
									}
								}
							}
						}
					}
					if !dangerous {
						continue
					}
					// a use of p after that call, before p is redefined
					later := g.ReachFrom(cv, false, core.AvoidVs(v))
					for _, uv := range g.Vs {
						if uv.AST == nil || !later[uv] || uv == v {
							continue
						}
						if core.Mentions(info, uv.AST, p) {
							o.FailAt(fn.Site(uv.AST, "stale pointer used"), "%s: %s points into %s as it was at %s; %s (at %s) may append to %s and move it to a new array, so this access goes to the old one", c.Prog.Pos(uv.AST.Pos()), p.Name(), field.Name(), c.Prog.Pos(as.Pos()), which, c.Prog.Pos(cv.AST.Pos()), field.Name())
							break
						}
					}
				}
			}
		}
		o.Fact("%d element pointers inspected", nPtr)
		if nPtr == 0 {
			o.Count(1)
		}
	})
}

// ruleAppendCodeShifts (C12-R13): AppendCode emits the bytes of a code from
// the least significant end: each byte(code) that is appended must be
// followed by code >>= 8 before the next one is appended (the sibling of the
// consumption rule for Decode).  A missing shift emits one byte twice, so
// decode(encode(c)) != c for invalid multi-byte codes.
func ruleAppendCodeShifts(c *core.Ctx) {
	const pkg = "pdf/font/charcode"
	c.Check("C12-R13", pkg+".(*Codec).AppendCode/shift", "between two appends of byte(code) the code is shifted by one byte", func(o *core.Ob) {
		fn := c.Prog.Func(pkg, "(*Codec).AppendCode")
		g := fn.Graph()
		info := fn.Info()
		code := paramObj(fn, "code")
		var uses, shifts []*core.V
		for _, v := range g.Vs {
			if v.AST == nil {
				continue
			}
			isShift, isUse := false, false
			if as, ok := v.AST.(*ast.AssignStmt); ok {
				if as.Tok == token.SHR_ASSIGN && len(as.Lhs) == 1 && core.ObjOf(info, as.Lhs[0]) == code {
					if k, ok := core.IntConst(info, as.Rhs[0]); ok && k == 8 {
						isShift = true
					}
				}
			}
			var node ast.Node = v.AST
			if v.Cond != nil && v.Cond.Expr != nil {
				node = v.Cond.Expr
			}
			ast.Inspect(node, func(m ast.Node) bool {
				call, ok := m.(*ast.CallExpr)
				if !ok || len(call.Args) != 1 {
					return true
				}
				if tv, ok := info.Types[call.Fun]; ok && tv.IsType() {
					if b, ok := tv.Type.Underlying().(*types.Basic); ok && b.Kind() == types.Uint8 && core.ObjOf(info, call.Args[0]) == code {
						isUse = true
					}
				}
				return true
			})
			if isShift {
				shifts = append(shifts, v)
			} else if isUse {
				uses = append(uses, v)
			}
		}
		o.Fact("%d byte(code) sites, %d shifts", len(uses), len(shifts))
		o.Shape(len(uses) >= 3 && len(shifts) >= 2, "byte(code)/shift sites not found")
		for _, u := range uses {
			o.Count(1)
			after := g.ReachFrom(u, false, core.AvoidVs(shifts...))
			for _, u2 := range uses {
				if after[u2] {
					o.FailAt(fn.Site(u2.AST, "same byte emitted again"), "%s: the byte emitted at %s is emitted again at %s without code >>= 8 in between", c.Prog.Pos(u2.AST.Pos()), c.Prog.Pos(u.AST.Pos()), c.Prog.Pos(u2.AST.Pos()))
					break
				}
			}
		}
	})
	// matchLen looks at every range: the set it describes does not depend on the order of the ranges
	c.Check("C12-R13", pkg+".CodeSpaceRange.matchLen/order-free", "the reference matcher examines every range: the loop over the ranges is left early only by returning a match", func(o *core.Ob) {
		fn := c.Prog.Func(pkg, "CodeSpaceRange.matchLen")
		info := fn.Info()
		var outer *ast.RangeStmt
		ast.Inspect(fn.Decl.Body, func(m ast.Node) bool {
			if rs, ok := m.(*ast.RangeStmt); ok && outer == nil {
				outer = rs
			}
			return outer == nil
		})
		if outer == nil {
			core.Undecided("loop over the ranges not found")
		}
		o.At(fn.Site(outer, "loop over the ranges"))
		// breaks that belong to the outer loop; returns of a non-positive value inside the loop
		var walk func(n ast.Node, inner int)
		walk = func(n ast.Node, inner int) {
			ast.Inspect(n, func(m ast.Node) bool {
				switch x := m.(type) {
				case *ast.ForStmt:
					if m != n {
						walk(x.Body, inner+1)
						return false
					}
				case *ast.RangeStmt:
					if m != n {
						walk(x.Body, inner+1)
						return false
					}
				case *ast.SwitchStmt, *ast.TypeSwitchStmt, *ast.SelectStmt:
					if m != n {
						walk(m, inner+1)
						return false
					}
				case *ast.BranchStmt:
					o.Count(1)
					if x.Tok == token.BREAK && inner == 0 && x.Label == nil {
						o.FailAt(fn.Site(x, ""), "%s: the loop over the ranges is abandoned before all ranges were examined: the result depends on the order in which the caller lists the ranges", c.Prog.Pos(x.Pos()))
					}
					if x.Tok == token.GOTO && x.Label != nil && labelIn(outer.Body, x.Label.Name) {
						// a jump inside the body (the end of a folded-in helper)
					} else if x.Label != nil && x.Tok == token.BREAK && labelIn(outer.Body, x.Label.Name) {
						// leaves an inner labelled statement only
					} else if x.Tok == token.GOTO || (x.Label != nil && x.Tok == token.BREAK) {
						o.FailAt(fn.Site(x, ""), "%s: labelled exit from the loop over the ranges", c.Prog.Pos(x.Pos()))
					}
				case *ast.ReturnStmt:
					o.Count(1)
					if len(x.Results) == 1 {
						if k, ok := core.IntConst(info, x.Results[0]); ok && k == 0 {
							o.FailAt(fn.Site(x, ""), "%s: 'no match' is returned from inside the loop, before all ranges were examined", c.Prog.Pos(x.Pos()))
						}
					}
				}
				return true
			})
		}
		walk(outer.Body, 0)
	})
}

// labelIn reports whether the label name is declared inside n.
func labelIn(n ast.Node, name string) bool {
	found := false
	ast.Inspect(n, func(m ast.Node) bool {
		if ls, ok := m.(*ast.LabeledStmt); ok && ls.Label.Name == name {
			found = true
		}
		return !found
	})
	return found
}
