package props

import (
	"go/ast"
	"go/constant"
	"go/token"
	"go/types"
	"golang.org/x/tools/go/packages"
	"os"
	"sort"
	"strconv"
	"strings"

	"pdfverif/internal/core"
)

// specClass is the ISO 32000-2 7.2.3 character classification:
// 0 regular, 1 white space, 2 delimiter.  Transcribed from Table 1 and
// Table 2 of the standard (NUL, HT, LF, FF, CR, SP; ( ) < > [ ] { } / %).
func specClass() [256]int64 {
	var t [256]int64
	for _, b := range []byte{0x00, 0x09, 0x0A, 0x0C, 0x0D, 0x20} {
		t[b] = 1
	}
	for _, b := range []byte("()<>[]{}/%") {
		t[b] = 2
	}
	return t
}

func specRegular() core.ByteSet {
	var s core.ByteSet
	t := specClass()
	for i := range t {
		s[i] = t[i] == 0
	}
	return s
}

// classTable extracts a package's `class` table and the values of the
// regular/space/delimiter constants, normalised to 0/1/2 as in specClass.
func classTable(p *core.Program, shortPkg string) [256]int64 {
	tbl := p.ArrayTable(shortPkg, "class")
	if len(tbl) != 256 {
		core.Undecided("%s.class has %d entries, expected 256", shortPkg, len(tbl))
	}
	reg := p.ConstInt(shortPkg, "regular")
	sp := p.ConstInt(shortPkg, "space")
	del := p.ConstInt(shortPkg, "delimiter")
	var out [256]int64
	for i, v := range tbl {
		switch v {
		case reg:
			out[i] = 0
		case sp:
			out[i] = 1
		case del:
			out[i] = 2
		default:
			out[i] = 99
		}
	}
	return out
}

// byteEnvFor builds a byte environment for variable obj in fn with the
// package's class table (if the package has one).
func byteEnvFor(p *core.Program, fn *core.Func, obj types.Object) *core.ByteEnv {
	env := &core.ByteEnv{Info: fn.Info(), Var: obj, Tables: map[types.Object][]int64{}, Prog: p}
	short := core.ShortPkg(fn.Pkg.PkgPath)
	if v, ok := fn.Pkg.Types.Scope().Lookup("class").(*types.Var); ok {
		env.Tables[v] = p.ArrayTable(short, "class")
	}
	return env
}

// localVar finds a local variable (or parameter) by name in fn; when
// several exist the nth (in source order) is returned.
func localVar(fn *core.Func, name string, nth int) types.Object {
	var objs []types.Object
	seen := map[types.Object]bool{}
	ast.Inspect(fn.Decl, func(n ast.Node) bool {
		if id, ok := n.(*ast.Ident); ok && id.Name == name {
			if o := fn.Info().Defs[id]; o != nil && !seen[o] {
				seen[o] = true
				objs = append(objs, o)
			}
		}
		return true
	})
	if nth >= len(objs) {
		core.Undecided("%s: local variable %q #%d not found", fn.Key, name, nth)
	}
	return objs[nth]
}

// defVertices returns the vertices of g that assign to obj (definitions and
// re-assignments), in source order.
func defVertices(g *core.Graph, obj types.Object) []*core.V {
	var out []*core.V
	for _, v := range g.Vs {
		if v.AST == nil {
			continue
		}
		switch s := v.AST.(type) {
		case *ast.AssignStmt:
			for _, l := range s.Lhs {
				if id, ok := ast.Unparen(l).(*ast.Ident); ok && g.Info.ObjectOf(id) == obj {
					out = append(out, v)
				}
			}
		case *ast.ValueSpec:
			for _, nm := range s.Names {
				if g.Info.ObjectOf(nm) == obj {
					out = append(out, v)
				}
			}
		case *ast.DeclStmt:
			if gd, ok := s.Decl.(*ast.GenDecl); ok && gd.Tok == token.VAR {
				for _, sp := range gd.Specs {
					if vs, ok := sp.(*ast.ValueSpec); ok {
						for _, nm := range vs.Names {
							if g.Info.ObjectOf(nm) == obj {
								out = append(out, v)
							}
						}
					}
				}
			}
		case *ast.IncDecStmt:
			if id, ok := ast.Unparen(s.X).(*ast.Ident); ok && g.Info.ObjectOf(id) == obj {
				out = append(out, v)
			}
		}
	}
	sort.Slice(out, func(i, j int) bool { return out[i].AST.Pos() < out[j].AST.Pos() })
	return out
}

// rangeLoopOver finds range statements in fn whose value variable has the
// given name; returns the loop-head vertex, the value object.
func rangeLoops(g *core.Graph, valueName string) []*core.V {
	var out []*core.V
	for _, v := range g.Vs {
		if v.Cond != nil && v.Cond.Range != nil {
			if id, ok := v.Cond.Range.Value.(*ast.Ident); ok && id.Name == valueName {
				out = append(out, v)
			}
		}
	}
	sort.Slice(out, func(i, j int) bool { return out[i].Cond.Range.Pos() < out[j].Cond.Range.Pos() })
	return out
}

func succ(v *core.V, l core.EdgeLabel) *core.V {
	for _, e := range v.Succs {
		if e.Label == l {
			return e.To
		}
	}
	return nil
}

// verbatimUse reports whether the vertex uses variable obj verbatim as
// data: as a direct argument of append, as the right-hand side of an
// assignment (x = obj, buf[i] = obj), or as the operand of WriteByte.
func verbatimUse(info *types.Info, v *core.V, obj types.Object) bool {
	isObj := func(e ast.Expr) bool {
		id, ok := ast.Unparen(e).(*ast.Ident)
		return ok && info.ObjectOf(id) == obj
	}
	switch s := v.AST.(type) {
	case *ast.AssignStmt:
		for i, r := range s.Rhs {
			if isObj(r) {
				// x = obj ; skip self-assign
				if i < len(s.Lhs) && isObj(s.Lhs[i]) {
					continue
				}
				return true
			}
			if call, ok := ast.Unparen(r).(*ast.CallExpr); ok {
				if core.CalleeKey(info, call) == "builtin.append" {
					for _, a := range call.Args[1:] {
						if isObj(a) {
							return true
						}
					}
				}
			}
		}
	case *ast.ExprStmt:
		if call, ok := s.X.(*ast.CallExpr); ok {
			if se, ok := call.Fun.(*ast.SelectorExpr); ok && se.Sel.Name == "WriteByte" && len(call.Args) == 1 && isObj(call.Args[0]) {
				return true
			}
		}
	}
	return false
}

// sinkExprs returns the byte expressions a vertex hands to an output:
// buf[i] = X, s = append(s, X, ...), w.WriteByte(X).
func sinkExprs(info *types.Info, v *core.V) []ast.Expr {
	var out []ast.Expr
	switch s := v.AST.(type) {
	case *ast.AssignStmt:
		for i, r := range s.Rhs {
			if call, ok := ast.Unparen(r).(*ast.CallExpr); ok && core.CalleeKey(info, call) == "builtin.append" && !call.Ellipsis.IsValid() {
				out = append(out, call.Args[1:]...)
				continue
			}
			if i < len(s.Lhs) && len(s.Lhs) == len(s.Rhs) {
				if _, isIdx := ast.Unparen(s.Lhs[i]).(*ast.IndexExpr); isIdx {
					out = append(out, r)
				}
			}
		}
	case *ast.ExprStmt:
		if call, ok := s.X.(*ast.CallExpr); ok {
			if se, ok := call.Fun.(*ast.SelectorExpr); ok && se.Sel.Name == "WriteByte" && len(call.Args) == 1 {
				out = append(out, call.Args[0])
			}
		}
	}
	return out
}

// verbatimAt is the state-aware form of verbatimUse: the vertex hands the
// input byte itself (the variable or a tracked copy of it) to an output.
// Copies into variables the exploration does not track count as before.
func verbatimAt(info *types.Info, v *core.V, obj types.Object, st *core.ByteState) bool {
	for _, x := range sinkExprs(info, v) {
		if st.IsByte(x) {
			return true
		}
		// an identity entry of a lookup table indexed by the byte is the byte
		if isTableLookup(x) {
			if k, ok := st.Int(x); ok && int(k) == st.Byte {
				return true
			}
		}
	}
	if s, ok := v.AST.(*ast.AssignStmt); ok && len(s.Lhs) == len(s.Rhs) {
		for i, r := range s.Rhs {
			if !st.IsByte(r) {
				continue
			}
			if id, ok := ast.Unparen(s.Lhs[i]).(*ast.Ident); ok {
				lo := info.ObjectOf(id)
				if lo != nil && lo != obj && !st.Tracked(lo) {
					return true
				}
			}
		}
	}
	return false
}

// constAt is the state-aware form of constStore: the vertex hands a byte
// with a known value, which is not a copy of the input byte, to an output.
func constAt(info *types.Info, v *core.V, st *core.ByteState) (int64, bool) {
	for _, x := range sinkExprs(info, v) {
		if st.IsByte(x) {
			continue
		}
		if k, ok := st.Int(x); ok {
			return k, true
		}
	}
	if s, ok := v.AST.(*ast.AssignStmt); ok && len(s.Lhs) == len(s.Rhs) {
		for i, r := range s.Rhs {
			id, ok := ast.Unparen(s.Lhs[i]).(*ast.Ident)
			if !ok {
				continue
			}
			lo := info.ObjectOf(id)
			if lo == nil || st.Tracked(lo) {
				continue
			}
			if b, ok := lo.Type().Underlying().(*types.Basic); !ok || b.Kind() != types.Uint8 {
				continue
			}
			if k, ok := core.IntConst(info, r); ok {
				return k, true
			}
		}
	}
	return 0, false
}

// byteConstsIn collects the integer constants that occur as right-hand sides
// or append arguments in the given vertices (candidates for emitted bytes).
func byteConstsIn(info *types.Info, vs map[*core.V]bool) map[int64]bool {
	out := map[int64]bool{}
	for v := range vs {
		s, ok := v.AST.(*ast.AssignStmt)
		if !ok {
			continue
		}
		for _, r := range s.Rhs {
			if k, ok := core.IntConst(info, r); ok && k >= 0 && k < 256 {
				out[k] = true
			}
			if call, ok := ast.Unparen(r).(*ast.CallExpr); ok && core.CalleeKey(info, call) == "builtin.append" {
				for _, a := range call.Args[1:] {
					if k, ok := core.IntConst(info, a); ok && k >= 0 && k < 256 {
						out[k] = true
					}
				}
			}
		}
	}
	return out
}

// constStore: the vertex stores/appends a constant byte; returns it.
func constStore(info *types.Info, v *core.V) (int64, bool) {
	s, ok := v.AST.(*ast.AssignStmt)
	if !ok || len(s.Rhs) != 1 {
		return 0, false
	}
	r := ast.Unparen(s.Rhs[0])
	if call, ok := r.(*ast.CallExpr); ok && core.CalleeKey(info, call) == "builtin.append" && len(call.Args) == 2 {
		if k, ok := core.IntConst(info, call.Args[1]); ok {
			return k, true
		}
		return 0, false
	}
	// element store buf[i] = K, or byte variable c = K
	if k, ok := core.IntConst(info, r); ok {
		if _, isIdx := ast.Unparen(s.Lhs[0]).(*ast.IndexExpr); isIdx {
			return k, true
		}
		if t := info.TypeOf(s.Lhs[0]); t != nil {
			if b, ok := t.Underlying().(*types.Basic); ok && b.Kind() == types.Uint8 {
				return k, true
			}
		}
	}
	return 0, false
}

func joinSet(m map[string]bool) string {
	var ks []string
	for k := range m {
		ks = append(ks, k)
	}
	sort.Strings(ks)
	return strings.Join(ks, ",")
}

func setOf(xs ...string) map[string]bool {
	m := map[string]bool{}
	for _, x := range xs {
		m[x] = true
	}
	return m
}

func diff(a, b map[string]bool) []string {
	var out []string
	for k := range a {
		if !b[k] {
			out = append(out, k)
		}
	}
	sort.Strings(out)
	return out
}

// errNotNilEdges returns the edges on which "err != nil" holds for any
// variable of type error.
func errNotNilEdges(g *core.Graph) []core.EdgeRef {
	return g.GuardEdges(func(a core.Atom) bool {
		c, ok := a.AsCmp()
		if !ok || c.Op != token.NEQ {
			return false
		}
		t := g.Info.TypeOf(c.L)
		return t != nil && types.Identical(t, types.Universe.Lookup("error").Type()) && core.IsNil(g.Info, c.R)
	})
}

// condMentions reports whether the vertex's condition mentions obj.
func condMentions(g *core.Graph, v *core.V, obj types.Object) bool {
	if v.Cond == nil {
		return false
	}
	if v.Cond.Expr != nil && core.Mentions(g.Info, v.Cond.Expr, obj) {
		return true
	}
	if v.Cond.Tag != nil && core.Mentions(g.Info, v.Cond.Tag, obj) {
		return true
	}
	return false
}

// callVertices lists the vertices of g containing a call to one of keys
// (calls inside function literals are ignored), with the call.
type callV struct {
	V    *core.V
	Call *ast.CallExpr
	Key  string
}

func callVertices(g *core.Graph, keys ...string) []callV {
	var out []callV
	want := map[string]bool{}
	for _, k := range keys {
		want[k] = true
	}
	for _, v := range g.Vs {
		if v.AST == nil {
			continue
		}
		for _, cs := range core.CallsIn(g.Info, v.AST, false) {
			if want[cs.Key] {
				out = append(out, callV{v, cs.Call, cs.Key})
			}
		}
	}
	sort.Slice(out, func(i, j int) bool { return out[i].Call.Pos() < out[j].Call.Pos() })
	return out
}

// callVerticesSuffix matches callee keys by suffix (e.g. ".scannerFrom").
func callVerticesSuffix(g *core.Graph, suffixes ...string) []callV {
	var out []callV
	for _, v := range g.Vs {
		if v.AST == nil {
			continue
		}
		for _, cs := range core.CallsIn(g.Info, v.AST, false) {
			for _, s := range suffixes {
				if strings.HasSuffix(cs.Key, s) {
					out = append(out, callV{v, cs.Call, cs.Key})
				}
			}
		}
	}
	sort.Slice(out, func(i, j int) bool { return out[i].Call.Pos() < out[j].Call.Pos() })
	return out
}

// mapStores lists vertices that store into an element of the map object.
type storeV struct {
	V     *core.V
	Stmt  *ast.AssignStmt
	Index ast.Expr
	Value ast.Expr
}

func mapStores(g *core.Graph, m types.Object) []storeV {
	var out []storeV
	for _, v := range g.Vs {
		as, ok := v.AST.(*ast.AssignStmt)
		if !ok {
			continue
		}
		for i, l := range as.Lhs {
			ix, ok := ast.Unparen(l).(*ast.IndexExpr)
			if !ok || core.ObjOf(g.Info, ix.X) != m {
				continue
			}
			var val ast.Expr
			if i < len(as.Rhs) {
				val = as.Rhs[i]
			}
			out = append(out, storeV{v, as, ix.Index, val})
		}
	}
	return out
}

// paramObj returns the object of the named parameter (or receiver) of fn.
func paramObj(fn *core.Func, name string) types.Object {
	lists := []*ast.FieldList{fn.Decl.Recv, fn.Decl.Type.Params, fn.Decl.Type.Results}
	for _, fl := range lists {
		if fl == nil {
			continue
		}
		for _, f := range fl.List {
			for _, n := range f.Names {
				if n.Name == name {
					return fn.Info().ObjectOf(n)
				}
			}
		}
	}
	core.Undecided("%s: parameter %q not found", fn.Key, name)
	return nil
}

// isNilCheckOfIndex: atom states m[idx] == nil (or != nil when wantNil is false).
func atomIsMapEntryNil(info *types.Info, a core.Atom, m types.Object, wantNil bool) (ast.Expr, bool) {
	c, ok := a.AsCmp()
	if !ok {
		return nil, false
	}
	l, r := c.L, c.R
	if core.IsNil(info, l) {
		l, r = r, l
	}
	if !core.IsNil(info, r) {
		return nil, false
	}
	ix, ok := ast.Unparen(l).(*ast.IndexExpr)
	if !ok || core.ObjOf(info, ix.X) != m {
		return nil, false
	}
	if wantNil && c.Op == token.EQL || !wantNil && c.Op == token.NEQ {
		return ix.Index, true
	}
	return nil, false
}

// atomIsMapEntryNilVia is atomIsMapEntryNil that also accepts a local
// variable which is assigned (only) from m[idx]: `if old := m[i]; old != nil`.
func atomIsMapEntryNilVia(fn *core.Func, a core.Atom, m types.Object, wantNil bool) (ast.Expr, bool) {
	info := fn.Info()
	if idx, ok := atomIsMapEntryNil(info, a, m, wantNil); ok {
		return idx, true
	}
	c, ok := a.AsCmp()
	if !ok {
		return nil, false
	}
	l, r := c.L, c.R
	if core.IsNil(info, l) {
		l, r = r, l
	}
	if !core.IsNil(info, r) || !(wantNil && c.Op == token.EQL || !wantNil && c.Op == token.NEQ) {
		return nil, false
	}
	obj := core.ObjOf(info, l)
	if _, isVar := obj.(*types.Var); !isVar {
		return nil, false
	}
	defs := core.AssignsTo(info, fn.Decl, obj)
	if len(defs) != 1 {
		return nil, false
	}
	as, ok := defs[0].(*ast.AssignStmt)
	if !ok || len(as.Rhs) != 1 {
		return nil, false
	}
	ix, ok := ast.Unparen(as.Rhs[0]).(*ast.IndexExpr)
	if !ok || core.ObjOf(info, ix.X) != m {
		return nil, false
	}
	return ix.Index, true
}

// loopHeads returns the loop-head vertices (for/range) of g in source order.
func loopHeads(g *core.Graph) []*core.V {
	var out []*core.V
	for _, v := range g.Vs {
		if v.Cond == nil {
			continue
		}
		if v.Cond.Range != nil {
			out = append(out, v)
			continue
		}
		if v.Block != nil && v.Block.Kind.String() == "ForLoop" {
			out = append(out, v)
		}
	}
	sort.Slice(out, func(i, j int) bool { return condPos(out[i]) < condPos(out[j]) })
	return out
}

func condPos(v *core.V) token.Pos {
	if v.Cond != nil && v.Cond.Range != nil {
		return v.Cond.Range.Pos()
	}
	if v.AST != nil {
		return v.AST.Pos()
	}
	return 0
}

// fieldOf reports whether e selects field `name` (any owner) and returns the base.
func selName(e ast.Expr) (ast.Expr, string, bool) {
	se, ok := ast.Unparen(e).(*ast.SelectorExpr)
	if !ok {
		return nil, "", false
	}
	return se.X, se.Sel.Name, true
}

// backingFromReceiver reports whether the slice, map or pointer denoted by e
// may share its backing storage with state reachable from the method's
// receiver (storage that outlives the call and can be reused by the next
// one).  It follows local definitions, append (first argument only: the
// appended elements are copied), slicing, conversions and composite
// literals; calls return fresh storage unless they are append.
func backingFromReceiver(fn *core.Func, e ast.Expr) (string, bool) {
	if fn.Decl.Recv == nil || len(fn.Decl.Recv.List) != 1 || len(fn.Decl.Recv.List[0].Names) != 1 {
		return "", false
	}
	info := fn.Info()
	recv := info.Defs[fn.Decl.Recv.List[0].Names[0]]
	seen := map[types.Object]bool{}
	var walk func(e ast.Expr, depth int) (string, bool)
	walk = func(e ast.Expr, depth int) (string, bool) {
		if depth > 8 || e == nil {
			return "", false
		}
		e = ast.Unparen(e)
		if t := info.TypeOf(e); t != nil {
			switch t.Underlying().(type) {
			case *types.Slice, *types.Map, *types.Pointer, *types.Interface:
			default:
				if _, isStruct := t.Underlying().(*types.Struct); !isStruct {
					return "", false
				}
			}
		}
		switch x := e.(type) {
		case *ast.Ident:
			obj := info.ObjectOf(x)
			if obj == nil {
				return "", false
			}
			if obj == recv {
				return x.Name, true
			}
			if seen[obj] {
				return "", false
			}
			seen[obj] = true
			for _, d := range core.AssignsTo(info, fn.Decl, obj) {
				switch s := d.(type) {
				case *ast.AssignStmt:
					if len(s.Lhs) == len(s.Rhs) {
						for i, l := range s.Lhs {
							if core.ObjOf(info, l) == obj {
								if p, ok := walk(s.Rhs[i], depth+1); ok {
									return x.Name + " <- " + p, true
								}
							}
						}
					}
				case *ast.ValueSpec:
					for i, nm := range s.Names {
						if info.ObjectOf(nm) == obj && i < len(s.Values) {
							if p, ok := walk(s.Values[i], depth+1); ok {
								return x.Name + " <- " + p, true
							}
						}
					}
				}
			}
			return "", false
		case *ast.SelectorExpr:
			if p, ok := walk(x.X, depth+1); ok {
				return p + "." + x.Sel.Name, true
			}
			// selector on the receiver itself (x.X is the receiver identifier of pointer type)
			if id, ok := ast.Unparen(x.X).(*ast.Ident); ok && info.ObjectOf(id) == recv {
				return id.Name + "." + x.Sel.Name, true
			}
			return "", false
		case *ast.SliceExpr:
			return walk(x.X, depth+1)
		case *ast.StarExpr:
			return walk(x.X, depth+1)
		case *ast.UnaryExpr:
			if x.Op == token.AND {
				return walk(x.X, depth+1)
			}
		case *ast.CompositeLit:
			for _, el := range x.Elts {
				v := el
				if kv, ok := el.(*ast.KeyValueExpr); ok {
					v = kv.Value
				}
				if p, ok := walk(v, depth+1); ok {
					return p, true
				}
			}
		case *ast.CallExpr:
			if tv, ok := info.Types[x.Fun]; ok && tv.IsType() && len(x.Args) == 1 {
				return walk(x.Args[0], depth+1)
			}
			if id, ok := x.Fun.(*ast.Ident); ok && id.Name == "append" && len(x.Args) >= 1 {
				if _, isB := info.ObjectOf(id).(*types.Builtin); isB {
					return walk(x.Args[0], depth+1)
				}
			}
		}
		return "", false
	}
	return walk(e, 0)
}

// ruleAliasHygiene runs the three aliasing rules that are independent of any
// particular function (published storage is not recycled; appends to a
// field go back to the field; no element pointer is used across an append)
// over the given packages.  ids are the three rule ids to report under.
func ruleAliasHygiene(c *core.Ctx, ids [3]string, pkgs ...string) {
	var present []string
	for _, p := range pkgs {
		if c.Prog.HasPkg(p) {
			present = append(present, p)
		}
	}
	if len(present) != len(pkgs) {
		c.Check(ids[0], "alias-hygiene/packages", "packages loaded", func(o *core.Ob) {
			core.Undecided("some of %v are not loaded", pkgs)
		})
		return
	}
	rulePublishedNotRecycled(c, ids[0], pkgs...)
	ruleNoForeignAppend(c, ids[1], 0, pkgs...)
	for _, p := range pkgs {
		ruleNoStaleElementPointers(c, ids[2], p)
	}
}

// setInlineKeep switches on the normalisation of anchor functions: helpers
// the rules do not name are transparent (PDFVERIF_NOINLINE=1 switches it off
// for comparison).
func setInlineKeep(prog *core.Program) {
	// before anything looks at the syntax: renamed locals get their reviewed names back
	vd := os.Getenv("PDFVERIF_DIR")
	if vd == "" {
		vd, _ = os.Getwd()
	}
	core.RestoreLocalNames(prog, vd)
	if os.Getenv("PDFVERIF_NOINLINE") != "" {
		return
	}
	prog.InlineKeep = append([]string{}, anchorNames...)
}

// vcase is one possible value of an expression at a vertex: the defining
// expression and the vertex of the definition (whose dominating facts
// describe when the value applies).
type vcase struct {
	Expr ast.Expr
	V    *core.V
}

// valueCases resolves a local variable used at vertex `at` to the right-hand
// sides of the assignments that can reach it (tuple assignments position by
// position), following plain copies up to depth.  Anything else is its own
// single case.  This makes rules that read "the argument of the call"
// independent of whether the value is written at the call or chosen earlier
// in a branch (tp, f2, f3 = 1, uint64(entry.Pos), ...).
func valueCases(g *core.Graph, at *core.V, e ast.Expr, depth int) []vcase {
	info := g.Info
	// a field of a local struct whose reaching definitions are composite
	// literals (row := entry.streamRow() after inlining; row.tp): the field's
	// expression in each literal
	if sel, isSel := ast.Unparen(e).(*ast.SelectorExpr); isSel && depth > 0 {
		if base, isID := ast.Unparen(sel.X).(*ast.Ident); isID {
			if bv, isVar := info.ObjectOf(base).(*types.Var); isVar && !bv.IsField() && bv.Pkg() != nil && bv.Parent() != bv.Pkg().Scope() {
				if st, isStruct := bv.Type().Underlying().(*types.Struct); isStruct {
					var out []vcase
					okAll := true
					for _, vc := range valueCases(g, at, base, depth) {
						cl, isCL := ast.Unparen(vc.Expr).(*ast.CompositeLit)
						if !isCL {
							okAll = false
							break
						}
						var fe ast.Expr
						for i, el := range cl.Elts {
							if kv, isKV := el.(*ast.KeyValueExpr); isKV {
								if k, isK := kv.Key.(*ast.Ident); isK && k.Name == sel.Sel.Name {
									fe = kv.Value
								}
							} else if i < st.NumFields() && st.Field(i).Name() == sel.Sel.Name {
								fe = el
							}
						}
						if fe == nil {
							// field not mentioned: zero value
							for i := 0; i < st.NumFields(); i++ {
								if st.Field(i).Name() == sel.Sel.Name {
									fe = zeroValueExpr(info, st.Field(i))
								}
							}
						}
						if fe == nil {
							okAll = false
							break
						}
						out = append(out, valueCases(g, vc.V, fe, depth-1)...)
					}
					if okAll && len(out) > 0 {
						return out
					}
				}
			}
		}
		return []vcase{{e, at}}
	}
	id, ok := ast.Unparen(e).(*ast.Ident)
	if !ok || depth <= 0 {
		return []vcase{{e, at}}
	}
	obj, isVar := info.ObjectOf(id).(*types.Var)
	if !isVar || obj.IsField() || obj.Pkg() == nil || obj.Parent() == obj.Pkg().Scope() {
		return []vcase{{e, at}}
	}
	defs := defVertices(g, obj)
	var out []vcase
	for _, d := range defs {
		var others []*core.V
		for _, x := range defs {
			if x != d {
				others = append(others, x)
			}
		}
		if d != at && !g.ReachFrom(d, false, core.AvoidVs(others...))[at] {
			continue
		}
		var rhs ast.Expr
		switch s := d.AST.(type) {
		case *ast.AssignStmt:
			if len(s.Lhs) == len(s.Rhs) && (s.Tok == token.ASSIGN || s.Tok == token.DEFINE) {
				for i, l := range s.Lhs {
					if lid, ok := ast.Unparen(l).(*ast.Ident); ok && info.ObjectOf(lid) == obj {
						rhs = s.Rhs[i]
					}
				}
			} else if len(s.Rhs) == 1 && (s.Tok == token.ASSIGN || s.Tok == token.DEFINE) {
				// one result of a call: the call stands for the value
				if call, ok := ast.Unparen(s.Rhs[0]).(*ast.CallExpr); ok {
					rhs = call
				}
			}
		case *ast.ValueSpec:
			if len(s.Values) == len(s.Names) {
				for i, n := range s.Names {
					if info.ObjectOf(n) == obj {
						rhs = s.Values[i]
					}
				}
			} else if len(s.Values) == 0 {
				rhs = zeroValueExpr(info, obj)
			}
		case *ast.DeclStmt:
			if gd, ok := s.Decl.(*ast.GenDecl); ok {
				for _, sp := range gd.Specs {
					vs, ok := sp.(*ast.ValueSpec)
					if !ok {
						continue
					}
					for i, n := range vs.Names {
						if info.ObjectOf(n) != obj {
							continue
						}
						if len(vs.Values) == len(vs.Names) {
							rhs = vs.Values[i]
						} else if len(vs.Values) == 0 {
							rhs = zeroValueExpr(info, obj)
						}
					}
				}
			}
		}
		if rhs == nil {
			return []vcase{{e, at}} // a definition the resolution does not understand
		}
		for _, c := range valueCases(g, d, rhs, depth-1) {
			out = append(out, c)
		}
	}
	if len(out) == 0 {
		return []vcase{{e, at}}
	}
	return out
}

// xrefStreamLoops finds the two loops of writeXRefStream by their role: the
// writing loop is the one whose body emits fields (encodeInt64), the sizing
// loop the other loop over the object numbers that comes before it.
func xrefStreamLoops(g *core.Graph) (sizing, writing *core.V) {
	for _, h := range loopHeads(g) {
		body := g.ReachFrom(succ(h, core.EdgeTrue), true, core.AvoidVs(h))
		for v := range body {
			if v.AST != nil && len(core.CallsTo(g.Info, v.AST, false, "pdf.encodeInt64")) > 0 {
				writing = h
			}
		}
		if writing != nil {
			break
		}
	}
	if writing == nil {
		core.Undecided("writeXRefStream: no loop emits fields with encodeInt64")
	}
	for _, h := range loopHeads(g) {
		if h == writing || h.Cond == nil || loopBound(g, h) == nil {
			continue
		}
		if (strings.Contains(core.ExprStr(loopBound(g, h)), "nextRef") || strings.Contains(resolveText(g, h, loopBound(g, h), 3), "nextRef")) && g.Dominates(h, writing) {
			sizing = h
		}
	}
	if sizing == nil {
		core.Undecided("writeXRefStream: no sizing loop over the object numbers in front of the writing loop")
	}
	return sizing, writing
}

// enclosingFor returns the innermost for statement of root whose subtree
// contains the node (by identity, so that nodes of inlined bodies, whose
// positions lie elsewhere, are found).
func enclosingFor(root ast.Node, node ast.Node) *ast.ForStmt {
	if node == nil {
		return nil
	}
	var stack []ast.Node
	var found *ast.ForStmt
	ast.Inspect(root, func(n ast.Node) bool {
		if n == nil {
			stack = stack[:len(stack)-1]
			return true
		}
		stack = append(stack, n)
		if n == node {
			for i := len(stack) - 1; i >= 0; i-- {
				if fs, ok := stack[i].(*ast.ForStmt); ok {
					found = fs
					break
				}
			}
		}
		return true
	})
	return found
}

// copyCases is valueCases restricted to variables that only ever hold plain
// copies and constants (pos = -1; pos = a): a variable that is computed is
// its own value.
func copyCases(g *core.Graph, at *core.V, e ast.Expr) []vcase {
	cs := valueCases(g, at, e, 1)
	for _, c := range cs {
		if c.V == at {
			continue
		}
		x := ast.Unparen(c.Expr)
		if u, ok := x.(*ast.UnaryExpr); ok {
			x = ast.Unparen(u.X)
		}
		switch x.(type) {
		case *ast.Ident, *ast.BasicLit:
		default:
			if _, isConst := core.IntConst(g.Info, c.Expr); !isConst {
				return []vcase{{e, at}}
			}
		}
	}
	return cs
}

// allowedOrOnlyCalledBy: fn is in the table, or fn is an unexported helper
// all of whose callers (in its package, at least one) are: a table of
// functions allowed to do something keeps its meaning when the body of a
// listed function is split into helpers.
func allowedOrOnlyCalledBy(c *core.Ctx, fn *core.Func, listed func(key string) bool, depth int) bool {
	if listed(fn.Key) {
		return true
	}
	if depth >= 2 || fn.Obj.Exported() {
		return false
	}
	n := 0
	for _, other := range c.Prog.Funcs(fn.Pkg) {
		if other == fn {
			continue
		}
		calls := false
		for _, cs := range core.CallsIn(other.Info(), other.Decl.Body, true) {
			if cs.Fn == fn.Obj {
				calls = true
			}
		}
		if !calls {
			continue
		}
		if !allowedOrOnlyCalledBy(c, other, listed, depth+1) {
			return false
		}
		n++
	}
	return n > 0
}

// atomsBetween returns the facts that hold on every path from `from`
// (exclusive) to `to` that avoids the given vertices: the atoms of the branch
// edges each such path must take.
func atomsBetween(g *core.Graph, from, to *core.V, avoid []*core.V) []core.Atom {
	base := core.AvoidVs(avoid...)
	if !g.ReachFrom(from, false, base)[to] {
		return nil
	}
	var out []core.Atom
	for _, bv := range g.BranchVertices() {
		if bv.Cond.Expr == nil {
			continue
		}
		for _, l := range []core.EdgeLabel{core.EdgeTrue, core.EdgeFalse} {
			opp := core.EdgeTrue
			if l == core.EdgeTrue {
				opp = core.EdgeFalse
			}
			// the edge is on every path iff cutting it disconnects to, and the
			// branch itself lies between (cutting the opposite edge keeps to reachable)
			if !g.ReachFrom(from, false, base.WithEdges(core.EdgeRef{From: bv, Label: l}))[to] &&
				g.ReachFrom(from, false, base.WithEdges(core.EdgeRef{From: bv, Label: opp}))[to] {
				out = append(out, bv.Implied(l)...)
			}
		}
	}
	return out
}

// zeroValueExpr returns a literal for the zero value of a variable declared
// without initialiser (numbers 0, booleans false); nil for other types.
func zeroValueExpr(info *types.Info, obj types.Object) ast.Expr {
	switch obj.Type().Underlying().(type) {
	case *types.Pointer, *types.Interface, *types.Slice, *types.Map:
		id := &ast.Ident{Name: "nil"}
		info.Uses[id] = types.Universe.Lookup("nil")
		info.Types[id] = types.TypeAndValue{Type: obj.Type()}
		return id
	}
	b, ok := obj.Type().Underlying().(*types.Basic)
	if !ok {
		return nil
	}
	switch {
	case b.Info()&types.IsInteger != 0:
		lit := &ast.BasicLit{Kind: token.INT, Value: "0"}
		info.Types[lit] = types.TypeAndValue{Type: obj.Type(), Value: constant.MakeInt64(0)}
		return lit
	case b.Info()&types.IsBoolean != 0:
		id := &ast.Ident{Name: "false"}
		info.Types[id] = types.TypeAndValue{Type: obj.Type(), Value: constant.MakeBool(false)}
		return id
	}
	return nil
}

// sameBranch reports whether two vertices are guarded by the same branch
// edges (they lie in the same arm of every decision).
func sameBranch(g *core.Graph, a, b *core.V) bool {
	ea, eb := g.DominatingEdges(a), g.DominatingEdges(b)
	if len(ea) != len(eb) {
		return false
	}
	set := map[core.EdgeRef]bool{}
	for _, e := range ea {
		set[e] = true
	}
	for _, e := range eb {
		if !set[e] {
			return false
		}
	}
	return true
}

// expandStores replaces a store of a variable that holds an entry literal
// chosen earlier (entry = &T{...} in one branch, entry = &T{...} in another;
// xref[i] = entry) by one store per literal, located at the assignment of
// the literal.  Stores of nil are dropped.
func expandStores(g *core.Graph, stores []storeV) []storeV {
	var out []storeV
	for _, st := range stores {
		if _, isID := ast.Unparen(st.Value).(*ast.Ident); !isID || st.Value == nil {
			out = append(out, st)
			continue
		}
		cs := valueCases(g, st.V, st.Value, 1)
		if len(cs) == 1 && cs[0].V == st.V {
			out = append(out, st)
			continue
		}
		for _, vc := range cs {
			if core.IsNil(g.Info, vc.Expr) {
				continue
			}
			out = append(out, storeV{vc.V, st.Stmt, st.Index, vc.Expr})
		}
	}
	return out
}

// liveDefs computes, for every value of the byte (or small integer) the
// environment explores, which of the given definitions of a variable is the
// one whose value is seen at vertex `at`: the graph is explored from starts
// with branches decided by that value, and the last definition passed before
// `at` is recorded.
func liveDefs(env *core.ByteEnv, g *core.Graph, starts []*core.V, at *core.V, defs []*core.V) [256]map[*core.V]bool {
	idx := map[*core.V]int{}
	for i, d := range defs {
		idx[d] = i
	}
	traces := env.Traces(g, starts, func(v *core.V, _ *core.ByteState) string {
		if i, ok := idx[v]; ok {
			return "D" + strconv.Itoa(i)
		}
		return ""
	}, func(v *core.V) bool { return v == at }, 12)
	var out [256]map[*core.V]bool
	for b := 0; b < 256; b++ {
		out[b] = map[*core.V]bool{}
		for t := range traces[b] {
			items := strings.Split(t, ",")
			last := items[len(items)-1]
			if strings.HasPrefix(last, "D") {
				if i, err := strconv.Atoi(last[1:]); err == nil {
					out[b][defs[i]] = true
				}
			}
		}
	}
	return out
}

// structFieldDomain returns the set of values (as source text of constants)
// a struct field can have, for an expression X.f where every value of X's
// struct type in the package is written as a composite literal and the field
// is never assigned: the field values of all those literals.
func structFieldDomain(c *core.Ctx, pkg *packages.Package, info *types.Info, e ast.Expr) (map[string]bool, bool) {
	sel, ok := ast.Unparen(e).(*ast.SelectorExpr)
	if !ok {
		return nil, false
	}
	s := info.Selections[sel]
	if s == nil || s.Kind() != types.FieldVal {
		return nil, false
	}
	field := s.Obj().(*types.Var)
	st, ok := s.Recv().Underlying().(*types.Struct)
	if !ok {
		if p, isPtr := s.Recv().Underlying().(*types.Pointer); isPtr {
			st, ok = p.Elem().Underlying().(*types.Struct)
		}
		if !ok {
			return nil, false
		}
	}
	idx := -1
	for i := 0; i < st.NumFields(); i++ {
		if st.Field(i) == field {
			idx = i
		}
	}
	if idx < 0 {
		return nil, false
	}
	dom := map[string]bool{}
	okAll := true
	for _, f := range pkg.Syntax {
		if c.Prog.IsTestFile(f.Pos()) {
			continue
		}
		ast.Inspect(f, func(n ast.Node) bool {
			switch x := n.(type) {
			case *ast.AssignStmt:
				for _, l := range x.Lhs {
					if ls, ok := ast.Unparen(l).(*ast.SelectorExpr); ok {
						if sl := pkg.TypesInfo.Selections[ls]; sl != nil && sl.Obj() == field {
							okAll = false // the field is assigned somewhere
						}
					}
				}
			case *ast.CompositeLit:
				t := pkg.TypesInfo.TypeOf(x)
				if t == nil {
					return true
				}
				us, isStruct := t.Underlying().(*types.Struct)
				if !isStruct || us != st {
					return true
				}
				var val ast.Expr
				for i, el := range x.Elts {
					if kv, isKV := el.(*ast.KeyValueExpr); isKV {
						if id, isID := kv.Key.(*ast.Ident); isID && id.Name == field.Name() {
							val = kv.Value
						}
					} else if i == idx {
						val = el
					}
				}
				if val == nil {
					dom["<zero>"] = true
					return true
				}
				if tv, has := pkg.TypesInfo.Types[val]; !has || tv.Value == nil {
					okAll = false
					return true
				}
				dom[core.ExprStr(val)] = true
			}
			return true
		})
	}
	return dom, okAll
}

// paramAlwaysConstString: obj is a parameter of the unexported function fn,
// fn never assigns it, and every call of fn in its package passes a string
// constant in that position.
func paramAlwaysConstString(c *core.Ctx, fn *core.Func, obj types.Object) bool {
	if obj == nil || fn.Obj.Exported() || fn.Decl.Type.Params == nil {
		return false
	}
	idx, i := -1, 0
	for _, f := range fn.Decl.Type.Params.List {
		for _, n := range f.Names {
			if fn.Info().ObjectOf(n) == obj {
				idx = i
			}
			i++
		}
	}
	if idx < 0 || len(core.AssignsTo(fn.Info(), fn.Decl, obj)) > 0 {
		return false
	}
	n := 0
	for _, other := range c.Prog.Funcs(fn.Pkg) {
		for _, cs := range core.CallsIn(other.Info(), other.Decl.Body, true) {
			if cs.Fn != fn.Obj {
				continue
			}
			if idx >= len(cs.Call.Args) {
				return false
			}
			if _, ok := core.StringConst(other.Info(), cs.Call.Args[idx]); !ok {
				return false
			}
			n++
		}
	}
	return n > 0
}

// reachUnder returns the vertices reachable from the entry of g on paths
// that never take a branch edge whose facts contradict the given
// assumption (decided by the implication engine; an edge the engine cannot
// decide stays).
func reachUnder(c *core.Ctx, fn *core.Func, g *core.Graph, assume ...core.Atom) map[*core.V]bool {
	var avoid []core.EdgeRef
	for _, bv := range g.BranchVertices() {
		if bv.Cond.Expr == nil {
			continue
		}
		for _, l := range []core.EdgeLabel{core.EdgeTrue, core.EdgeFalse} {
			atoms := append(append([]core.Atom{}, assume...), bv.Implied(l)...)
			if sat, decided := c.Prog.Satisfiable(core.Formula{Fn: fn, Atoms: atoms}); decided && !sat {
				avoid = append(avoid, core.EdgeRef{From: bv, Label: l})
			}
		}
	}
	return g.ReachFrom(g.Entry, true, core.AvoidEdges(avoid...))
}

// naturalLoop returns the vertices of the loop whose head is given: the head
// and every vertex that reaches a back edge of the head without passing the
// head (the sources of back edges are the predecessors the head dominates).
func naturalLoop(g *core.Graph, head *core.V) map[*core.V]bool {
	in := map[*core.V]bool{head: true}
	var work []*core.V
	// go/cfg may put an empty block in front of the loop condition into which
	// both the entry and the back edges flow: look through such vertices
	var sources func(v *core.V, depth int)
	sources = func(v *core.V, depth int) {
		for _, p := range v.Preds {
			if p == head {
				continue
			}
			if g.Dominates(head, p) {
				work = append(work, p)
			} else if p.AST == nil && p.Cond == nil && len(p.Succs) == 1 && depth < 4 {
				in[p] = true
				sources(p, depth+1)
			}
		}
	}
	sources(head, 0)
	for len(work) > 0 {
		v := work[len(work)-1]
		work = work[:len(work)-1]
		if in[v] {
			continue
		}
		in[v] = true
		for _, p := range v.Preds {
			if !in[p] {
				work = append(work, p)
			}
		}
	}
	return in
}

// isTableLookup: table[i] or table[i].field.
func isTableLookup(e ast.Expr) bool {
	e = ast.Unparen(e)
	if sel, ok := e.(*ast.SelectorExpr); ok {
		e = ast.Unparen(sel.X)
	}
	ix, ok := e.(*ast.IndexExpr)
	if !ok {
		return false
	}
	_, isID := ast.Unparen(ix.X).(*ast.Ident)
	return isID
}

// mapLiteralKeysUsed returns the string keys of the package-level map
// literals that fn refers to (a lookup table that replaces a switch over
// names).
func mapLiteralKeysUsed(c *core.Ctx, fn *core.Func) map[string]bool {
	out := map[string]bool{}
	info := fn.Info()
	ast.Inspect(fn.Decl.Body, func(n ast.Node) bool {
		id, ok := n.(*ast.Ident)
		if !ok {
			return true
		}
		tv, ok := info.Uses[id].(*types.Var)
		if !ok || tv.Pkg() == nil || tv.Parent() != tv.Pkg().Scope() {
			return true
		}
		if _, isMap := tv.Type().Underlying().(*types.Map); !isMap {
			return true
		}
		_, init, ipkg := c.Prog.Var(core.ShortPkg(tv.Pkg().Path()), tv.Name())
		if cl, isCL := ast.Unparen(init).(*ast.CompositeLit); init != nil && isCL {
			for _, el := range cl.Elts {
				if kv, isKV := el.(*ast.KeyValueExpr); isKV {
					if s, isS := core.StringConst(ipkg.TypesInfo, kv.Key); isS {
						out[s] = true
					}
				}
			}
		}
		return true
	})
	return out
}

// resolveText renders an expression with every local variable that has a
// single reaching definition replaced by (the rendering of) that definition,
// and every field of a local struct resolved to the expression that gave it
// its value (a field assignment, a field of the literal the struct was built
// from, or the same field of the value it was copied from).  Two expressions
// that denote the same value through different locals render alike
// (first.minKey and children[0].minKey with first := children[0]).
func resolveText(g *core.Graph, at *core.V, e ast.Expr, depth int) string {
	info := g.Info
	if e == nil {
		return ""
	}
	if depth <= 0 {
		return strings.ReplaceAll(core.ExprStr(e), " ", "")
	}
	switch x := ast.Unparen(e).(type) {
	case *ast.Ident:
		if v, ok := info.ObjectOf(x).(*types.Var); ok && !v.IsField() && v.Pkg() != nil && v.Parent() != v.Pkg().Scope() {
			cs := valueCases(g, at, x, 1)
			if len(cs) == 1 && cs[0].V != nil && cs[0].V != at && cs[0].Expr != ast.Expr(x) {
				if _, isCall := ast.Unparen(cs[0].Expr).(*ast.CallExpr); !isCall {
					return resolveText(g, cs[0].V, cs[0].Expr, depth-1)
				}
				if core.CalleeKey(info, ast.Unparen(cs[0].Expr).(*ast.CallExpr)) == "builtin.len" {
					return resolveText(g, cs[0].V, cs[0].Expr, depth-1)
				}
			}
		}
		return x.Name
	case *ast.SelectorExpr:
		if s := info.Selections[x]; s != nil && s.Kind() == types.FieldVal {
			return fieldText(g, at, x.X, x.Sel.Name, depth)
		}
		return strings.ReplaceAll(core.ExprStr(x), " ", "")
	case *ast.IndexExpr:
		return resolveText(g, at, x.X, depth) + "[" + resolveText(g, at, x.Index, depth) + "]"
	case *ast.SliceExpr:
		s := resolveText(g, at, x.X, depth) + "["
		if x.Low != nil {
			s += resolveText(g, at, x.Low, depth)
		}
		s += ":"
		if x.High != nil {
			s += resolveText(g, at, x.High, depth)
		}
		return s + "]"
	case *ast.CallExpr:
		var args []string
		for _, a := range x.Args {
			args = append(args, resolveText(g, at, a, depth))
		}
		return strings.ReplaceAll(core.ExprStr(x.Fun), " ", "") + "(" + strings.Join(args, ",") + ")"
	case *ast.BinaryExpr:
		return resolveText(g, at, x.X, depth) + x.Op.String() + resolveText(g, at, x.Y, depth)
	case *ast.StarExpr:
		return "*" + resolveText(g, at, x.X, depth)
	case *ast.UnaryExpr:
		return x.Op.String() + resolveText(g, at, x.X, depth)
	}
	return strings.ReplaceAll(core.ExprStr(e), " ", "")
}

// fieldText renders base.field (see resolveText).
func fieldText(g *core.Graph, at *core.V, base ast.Expr, field string, depth int) string {
	info := g.Info
	b := ast.Unparen(base)
	if u, ok := b.(*ast.UnaryExpr); ok && u.Op == token.AND {
		b = ast.Unparen(u.X)
	}
	if cl, ok := b.(*ast.CompositeLit); ok {
		if v := literalField(info, cl, field); v != nil {
			return resolveText(g, at, v, depth-1)
		}
		return "<zero>"
	}
	id, ok := b.(*ast.Ident)
	if !ok {
		return resolveText(g, at, b, depth) + "." + field
	}
	obj, isVar := info.ObjectOf(id).(*types.Var)
	if !isVar || obj.IsField() || obj.Pkg() == nil || obj.Parent() == obj.Pkg().Scope() {
		return id.Name + "." + field
	}
	// assignments to the field that every path to `at` passes; the last of them
	var best *core.V
	var bestExpr ast.Expr
	incdec := ""
	for _, v := range g.Vs {
		switch s := v.AST.(type) {
		case *ast.AssignStmt:
			if len(s.Lhs) != len(s.Rhs) {
				continue
			}
			for i, l := range s.Lhs {
				sel, ok := ast.Unparen(l).(*ast.SelectorExpr)
				if !ok || sel.Sel.Name != field || core.ObjOf(info, sel.X) != obj || s.Tok != token.ASSIGN {
					continue
				}
				if v != at && g.Dominates(v, at) && (best == nil || g.Dominates(best, v)) {
					best, bestExpr = v, s.Rhs[i]
				}
			}
		case *ast.IncDecStmt:
			if sel, ok := ast.Unparen(s.X).(*ast.SelectorExpr); ok && sel.Sel.Name == field && core.ObjOf(info, sel.X) == obj && g.Dominates(v, at) {
				if s.Tok == token.INC {
					incdec += "+1"
				} else {
					incdec += "-1"
				}
			}
		}
	}
	if best != nil {
		return resolveText(g, best, bestExpr, depth-1) + incdec
	}
	// the value the whole variable was given
	cs := valueCases(g, at, id, 1)
	if len(cs) == 1 && cs[0].V != nil && cs[0].V != at && cs[0].Expr != ast.Expr(id) {
		x := ast.Unparen(cs[0].Expr)
		switch y := x.(type) {
		case *ast.StarExpr:
			return fieldText(g, cs[0].V, y.X, field, depth-1) + incdec
		case *ast.CallExpr:
			return id.Name + "." + field + incdec
		default:
			return fieldText(g, cs[0].V, x, field, depth-1) + incdec
		}
	}
	return id.Name + "." + field + incdec
}

// literalField returns the value of a field in a struct literal (keyed or
// positional), or nil.
func literalField(info *types.Info, cl *ast.CompositeLit, field string) ast.Expr {
	t := info.TypeOf(cl)
	if t == nil {
		return nil
	}
	st, ok := t.Underlying().(*types.Struct)
	if !ok {
		return nil
	}
	for i, el := range cl.Elts {
		if kv, isKV := el.(*ast.KeyValueExpr); isKV {
			if k, isK := kv.Key.(*ast.Ident); isK && k.Name == field {
				return kv.Value
			}
		} else if i < st.NumFields() && st.Field(i).Name() == field {
			return el
		}
	}
	return nil
}

// nonNilErrDefs finds the assignments that give a local error variable a value
// that is certainly not nil (errors.New, fmt.Errorf, a pointer to a literal)
// and, for each, the edges of the first test of that variable against nil
// that such a value cannot take (the "is nil" side).  After a helper was
// folded into its caller a failure has this form: err = errors.New(..); the
// caller's "if err != nil { return err }" follows.
func nonNilErrDefs(g *core.Graph) map[*core.V][]core.EdgeRef {
	info := g.Info
	out := map[*core.V][]core.EdgeRef{}
	for _, v := range g.Vs {
		as, ok := v.AST.(*ast.AssignStmt)
		if !ok || len(as.Lhs) != len(as.Rhs) {
			continue
		}
		for i, l := range as.Lhs {
			obj := core.ObjOf(info, l)
			if obj == nil {
				continue
			}
			nonNil := false
			switch x := ast.Unparen(as.Rhs[i]).(type) {
			case *ast.CallExpr:
				k := core.CalleeKey(info, x)
				nonNil = k == "errors.New" || k == "fmt.Errorf"
			case *ast.UnaryExpr:
				if x.Op == token.AND {
					_, nonNil = ast.Unparen(x.X).(*ast.CompositeLit)
				}
			}
			if !nonNil {
				continue
			}
			// follow the straight line to the first test of the variable; copies made on
			// the way (the result variable of a folded-in helper handed to the caller's) count
			names := map[types.Object]bool{obj: true}
			cur := v
			for steps := 0; steps < 12; steps++ {
				if len(cur.Succs) != 1 {
					break
				}
				cur = cur.Succs[0].To
				if cur == nil {
					break
				}
				if cur.Cond != nil {
					break
				}
				if as2, isAs := cur.AST.(*ast.AssignStmt); isAs && len(as2.Lhs) == len(as2.Rhs) {
					for j, l2 := range as2.Lhs {
						o2 := core.ObjOf(info, l2)
						if o2 == nil {
							continue
						}
						if names[core.ObjOf(info, as2.Rhs[j])] {
							names[o2] = true
						} else if names[o2] {
							delete(names, o2)
						}
					}
				}
			}
			if cur == nil || cur.Cond == nil || cur.Cond.Expr == nil {
				continue
			}
			for _, lab := range []core.EdgeLabel{core.EdgeTrue, core.EdgeFalse} {
				for _, a := range cur.Implied(lab) {
					cmp, isCmp := a.AsCmp()
					if !isCmp || cmp.Op != token.EQL {
						continue
					}
					if (names[core.ObjOf(info, cmp.L)] && core.IsNil(info, cmp.R)) || (names[core.ObjOf(info, cmp.R)] && core.IsNil(info, cmp.L)) {
						out[v] = append(out[v], core.EdgeRef{From: cur, Label: lab})
					}
				}
			}
		}
	}
	return out
}

// reachSkippingFailures is ReachFrom(start, true, avoid) in which a path that
// passes an assignment of a certainly non-nil error cannot afterwards take the
// "error is nil" side of the first test of that error.
func reachSkippingFailures(g *core.Graph, start *core.V, avoid *core.Avoid) map[*core.V]bool {
	defs := nonNilErrDefs(g)
	var dvs []*core.V
	for d := range defs {
		dvs = append(dvs, d)
	}
	res := g.ReachFrom(start, true, avoid.With(dvs...))
	probe := g.ReachFrom(start, true, avoid)
	for d, cuts := range defs {
		if !probe[d] && d != start {
			continue
		}
		if avoid != nil && avoid.Vs[d] {
			continue
		}
		for v := range g.ReachFrom(d, false, avoid.With(dvs...).WithEdges(cuts...)) {
			res[v] = true
		}
		res[d] = true
	}
	return res
}

// loopBound returns the expression that bounds a counting loop: the header
// condition of a for loop, or the operand of a range-over-integer loop
// (for i := range w.nextRef).
func loopBound(g *core.Graph, h *core.V) ast.Expr {
	if h == nil || h.Cond == nil {
		return nil
	}
	if h.Cond.Expr != nil {
		return h.Cond.Expr
	}
	if rs := h.Cond.Range; rs != nil {
		if b, ok := g.Info.TypeOf(rs.X).Underlying().(*types.Basic); ok && b.Info()&types.IsInteger != 0 {
			return rs.X
		}
	}
	return nil
}

// encArgs picks the value and the width argument of an encodeInt64 call by
// the types of the parameters (a 64-bit value, an int width), whatever their
// order in the signature.
func encArgs(info *types.Info, call *ast.CallExpr) (val, width ast.Expr) {
	if len(call.Args) != 3 {
		return nil, nil
	}
	val, width = call.Args[1], call.Args[2]
	sig, _ := info.TypeOf(call.Fun).(*types.Signature)
	if sig == nil || sig.Params().Len() != 3 {
		return val, width
	}
	vi, wi := -1, -1
	for i := 0; i < 3; i++ {
		b, ok := sig.Params().At(i).Type().Underlying().(*types.Basic)
		if !ok {
			continue
		}
		switch b.Kind() {
		case types.Uint64, types.Int64:
			if vi >= 0 {
				return val, width
			}
			vi = i
		case types.Int:
			if wi >= 0 {
				return val, width
			}
			wi = i
		}
	}
	if vi >= 0 && wi >= 0 {
		return call.Args[vi], call.Args[wi]
	}
	return val, width
}
