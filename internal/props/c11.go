package props

import (
	"go/ast"
	"go/token"
	"go/types"
	"sort"
	"strings"

	"golang.org/x/tools/go/ssa"

	"pdfverif/internal/core"
)

func init() {
	register(&Property{
		ID:       "C11",
		Patterns: []string{"."},
		Run:      runC11,
		Explanation: "Static rules on the Copier: (R1) CopyArray/CopyDict return a non-nil container for non-nil input on every success path and the value appended/stored for an element is (re)defined in every iteration, so null elements stay null (both defects found here were fixed); (R2) CopyReference allocates only on the miss edge of the translation table, enters the new reference before it resolves or recurses, and returns the stored reference on the hit edge; " +
			"(R3) dictionaries are visited in SortedKeys order and no map range reaches Alloc/Put; (R4) the crypt-recipe switches in Copy and RawStreamReader cover every recipe constant with the same grouping, the copied Stream never inherits the source's crypt, and the cheap /Crypt probe resolves the /Filter entry and its first element before looking at them; (R5) only non-read errors of the source lookup are turned into null; (R6) the copier never writes through source objects (SSA may-write analysis); (R7) no method is called on a possibly-nil dictionary/array element. " +
			"Decides these structural conditions for all source graphs; does NOT decide graph isomorphism or stream byte equality as values.",
	})
}

func runC11(c *core.Ctx) {
	c.Guard(func() { ruleCopierNonNil(c) })
	c.Guard(func() { ruleCopyReferenceProtocol(c) })
	c.Guard(func() { ruleCopierDeterminism(c) })
	c.Guard(func() { ruleCryptRecipe(c) })
	c.Guard(func() { ruleCopierErrors(c) })
	c.Guard(func() { ruleCopierNoMutation(c) })
	c.Guard(func() { ruleNilEntryDiscipline(c) })
	c.Guard(func() { rulePublishedNotRecycled(c, "C11-R9", "pdf") })
	c.Guard(func() { ruleCopierStructure(c) })
	c.Guard(func() { ruleCopyOneStep(c) })
	c.Guard(func() { ruleCopiedElementsTranslated(c) })
	c.Guard(func() { ruleInStreamGuards(c, "C11-R8") }) // copied streams: dictionary strings are encrypted under the target object's key
}

func ruleCopierNonNil(c *core.Ctx) {
	const rule = "C11-R1"
	for _, name := range []string{"CopyArray", "CopyDict"} {
		name := name
		fn := c.Prog.Func("pdf", "(*Copier)."+name)
		g := fn.Graph()
		info := fn.Info()
		c.Check(rule, "pdf.(*Copier)."+name+"/non-nil", "a non-nil source container is copied to a non-nil container (empty arrays and dictionaries stay empty, they do not become null)", func(o *core.Ob) {
			obj := paramObj(fn, "obj")
			for _, r := range g.Returns() {
				rs := r.AST.(*ast.ReturnStmt)
				if len(rs.Results) != 2 || !core.IsNil(info, rs.Results[1]) {
					continue
				}
				o.At(fn.Site(rs, "success return "+core.ExprStr(rs.Results[0])))
				if core.IsNil(info, rs.Results[0]) {
					ok := g.GuardedBy(r, func(a core.Atom) bool {
						cmp, isCmp := a.AsCmp()
						return isCmp && cmp.Op == token.EQL && core.ObjOf(info, cmp.L) == obj && core.IsNil(info, cmp.R)
					})
					o.Require(ok, "nil is returned for a source that is not known to be nil")
					continue
				}
				res := core.ObjOf(info, rs.Results[0])
				if res == nil {
					core.Undecided("result expression %s", core.ExprStr(rs.Results[0]))
				}
				for _, d := range core.AssignsTo(info, fn.Decl, res) {
					switch s := d.(type) {
					case *ast.ValueSpec:
						if len(s.Values) == 0 {
							o.FailAt(fn.Site(s, ""), "the result starts out as the nil %s and is only allocated when an element is appended", name[4:])
						}
					case *ast.AssignStmt:
						rhs := ast.Unparen(s.Rhs[0])
						okDef := false
						switch x := rhs.(type) {
						case *ast.CompositeLit:
							okDef = true
						case *ast.CallExpr:
							k := core.CalleeKey(info, x)
							okDef = k == "builtin.make" || k == "builtin.append"
						}
						if !okDef {
							o.FailAt(fn.Site(s, ""), "result assigned from %s, which may be nil", core.ExprStr(rhs))
						}
					}
				}
			}
		})
		c.Check(rule, "pdf.(*Copier)."+name+"/fresh-element", "the copy stored for an element is defined afresh in every iteration: a null element can never inherit the previous element's copy", func(o *core.Ob) {
			heads := loopHeads(g)
			if len(heads) != 1 {
				core.Undecided("expected one element loop, found %d", len(heads))
			}
			head := heads[0]
			body := succ(head, core.EdgeTrue)
			inBody := g.ReachFrom(body, true, core.AvoidVs(head))
			// the vertices that store an element into the result
			type sink struct {
				v   *core.V
				val ast.Expr
			}
			var sinks []sink
			for v := range inBody {
				as, ok := v.AST.(*ast.AssignStmt)
				if !ok || len(as.Rhs) != 1 {
					continue
				}
				if call, ok := as.Rhs[0].(*ast.CallExpr); ok && core.CalleeKey(info, call) == "builtin.append" && len(call.Args) == 2 {
					sinks = append(sinks, sink{v, call.Args[1]})
				} else if ix, ok := as.Lhs[0].(*ast.IndexExpr); ok && strings.HasPrefix(core.ExprStr(ix.X), "res") {
					sinks = append(sinks, sink{v, as.Rhs[0]})
				}
			}
			if len(sinks) == 0 {
				core.Undecided("element store not recognised")
			}
			for _, sk := range sinks {
				o.At(fn.Site(sk.v.AST, "stores an element"))
				o.Count(1)
				if core.IsNil(info, sk.val) {
					continue // a null element is stored as null
				}
				stored := core.ObjOf(info, sk.val)
				if stored == nil {
					continue // computed in place
				}
				var defs []*core.V
				for _, dv := range defVertices(g, stored) {
					if inBody[dv] {
						defs = append(defs, dv)
						o.At(fn.Site(dv.AST, "defines "+stored.Name()))
					}
				}
				if len(defs) == 0 {
					o.Fail("%s is never defined inside the loop: a skipped (null) element reuses the previous iteration's value", stored.Name())
					continue
				}
				// every path from the body start to the sink passes a definition
				r := g.ReachFrom(body, true, core.AvoidVs(append(defs, head)...))
				if r[sk.v] {
					o.Fail("some path through the loop stores %s without defining it in this iteration", stored.Name())
				}
			}
		})
	}
	c.Check(rule, "pdf.(*Copier).Copy/type-preserving", "Copy returns, for each native kind, the copy produced for that kind (dictionary for dictionary, array for array, reference for reference, scalars unchanged)", func(o *core.Ob) {
		fn := c.Prog.Func("pdf", "(*Copier).Copy")
		info := fn.Info()
		want := map[string]string{"Dict": "c.CopyDict(x)", "Array": "c.CopyArray(x)", "Reference": "c.CopyReference(x)"}
		ast.Inspect(fn.Decl.Body, func(n ast.Node) bool {
			cc, ok := n.(*ast.CaseClause)
			if !ok {
				return true
			}
			if cc.List == nil {
				// default: return obj, nil
				for _, s := range cc.Body {
					if rs, ok := s.(*ast.ReturnStmt); ok {
						o.At(fn.Site(rs, "default"))
						o.Require(core.ExprStr(rs.Results[0]) == "obj" && core.IsNil(info, rs.Results[1]), "scalars must be returned unchanged")
					}
				}
				return true
			}
			for _, t := range cc.List {
				if w, ok := want[core.ExprStr(t)]; ok {
					for _, s := range cc.Body {
						if rs, ok := s.(*ast.ReturnStmt); ok {
							o.At(fn.Site(rs, "case "+core.ExprStr(t)))
							o.Require(core.ExprStr(rs.Results[0]) == w, "case %s returns %s, want %s", core.ExprStr(t), core.ExprStr(rs.Results[0]), w)
						}
					}
					delete(want, core.ExprStr(t))
				}
			}
			return true
		})
		for k := range want {
			o.Fail("Copy has no case for %s", k)
		}
	})
}

func ruleCopyReferenceProtocol(c *core.Ctx) {
	const rule = "C11-R2"
	c.Check(rule, "pdf.(*Copier).CopyReference", "each source object is copied exactly once and stays shared: the translation table is consulted before allocating, the hit edge returns the stored reference, and the new reference is entered before the source is resolved or copied (cycles terminate)", func(o *core.Ob) {
		fn := c.Prog.Func("pdf", "(*Copier).CopyReference")
		g := fn.Graph()
		info := fn.Info()
		alloc := callVertices(g, "pdf.(*Writer).Alloc")
		if len(alloc) != 1 {
			o.Count(1)
			o.Unrec("expected one Alloc call, found %d", len(alloc))
			return
		}
		o.At(fn.Site(alloc[0].Call, "Alloc"))
		// the source reference is the (only) parameter; the allocated
		// reference is whatever variable receives the result of Alloc
		var srcParam types.Object
		if pl := fn.Decl.Type.Params; pl != nil && len(pl.List) == 1 && len(pl.List[0].Names) == 1 {
			srcParam = info.ObjectOf(pl.List[0].Names[0])
		}
		if srcParam == nil {
			core.Undecided("CopyReference: expected one parameter")
		}
		var allocObj types.Object
		if as, ok := alloc[0].V.AST.(*ast.AssignStmt); ok && len(as.Lhs) == 1 {
			allocObj = core.ObjOf(info, as.Lhs[0])
		}
		if allocObj == nil {
			core.Undecided("CopyReference: the result of Alloc is not assigned to a variable")
		}
		// lookup: newRef, ok := c.trans[obj]
		var okObj, refObj types.Object
		var lookup *core.V
		for _, v := range g.Vs {
			as, isAs := v.AST.(*ast.AssignStmt)
			if !isAs || len(as.Lhs) != 2 || len(as.Rhs) != 1 {
				continue
			}
			if ix, ok := as.Rhs[0].(*ast.IndexExpr); ok && strings.HasSuffix(core.ExprStr(ix.X), ".trans") {
				lookup = v
				refObj = core.ObjOf(info, as.Lhs[0])
				okObj = core.ObjOf(info, as.Lhs[1])
				o.At(fn.Site(as, "table lookup"))
				o.Require(core.ObjOf(info, ix.Index) == srcParam, "the table is consulted for %s instead of the source reference", core.ExprStr(ix.Index))
			}
		}
		if lookup == nil {
			o.Fail("the translation table is never consulted")
			return
		}
		miss := g.GuardedBy(alloc[0].V, func(a core.Atom) bool {
			id, ok := ast.Unparen(a.Expr).(*ast.Ident)
			return ok && a.Neg && a.Tag == nil && info.ObjectOf(id) == okObj
		})
		o.Require(miss, "a reference is allocated although the source object may already have been copied")
		// hit edge returns the stored reference
		hitOK := false
		for _, r := range g.Returns() {
			rs := r.AST.(*ast.ReturnStmt)
			if core.ObjOf(info, rs.Results[0]) == refObj && core.IsNil(info, rs.Results[1]) {
				hit := g.GuardedBy(r, func(a core.Atom) bool {
					id, ok := ast.Unparen(a.Expr).(*ast.Ident)
					return ok && !a.Neg && a.Tag == nil && info.ObjectOf(id) == okObj
				})
				if hit && !g.PathExists(alloc[0].V, r, nil) {
					hitOK = true
				}
			}
		}
		o.Require(hitOK, "copying the same reference again does not return the stored target reference")
		// store c.trans[obj] = newRef before Resolve / Copy / Put
		var store *core.V
		for _, v := range g.Vs {
			if as, ok := v.AST.(*ast.AssignStmt); ok && len(as.Lhs) == 1 {
				if ix, ok := as.Lhs[0].(*ast.IndexExpr); ok && strings.HasSuffix(core.ExprStr(ix.X), ".trans") {
					store = v
					o.At(fn.Site(as, "table update"))
					o.Require(core.ObjOf(info, ix.Index) == srcParam && core.ObjOf(info, as.Rhs[0]) == allocObj, "the table update is %s = %s, want trans[obj] = the allocated reference", core.ExprStr(as.Lhs[0]), core.ExprStr(as.Rhs[0]))
				}
			}
		}
		if store == nil {
			o.Fail("the allocated reference is never entered into the translation table")
			return
		}
		for _, cv := range callVertices(g, "pdf.Resolve", "pdf.(*Copier).Copy", "pdf.(*Writer).Put") {
			o.At(fn.Site(cv.Call, cv.Key))
			o.Require(g.Dominates(store, cv.V), "%s can run before the new reference is entered into the table (a cycle would recurse forever / copy twice)", cv.Key)
		}
		// the copy is written under the allocated reference
		for _, cv := range callVertices(g, "pdf.(*Writer).Put") {
			o.Require(core.ObjOf(info, cv.Call.Args[0]) == allocObj, "the copy is written under %s", core.ExprStr(cv.Call.Args[0]))
		}
	})
	c.Check(rule, "pdf.(*Copier).Redirect", "Redirect only enters a mapping into the translation table", func(o *core.Ob) {
		fn := c.Prog.Func("pdf", "(*Copier).Redirect")
		o.At(fn.Site(fn.Decl, ""))
		n := 0
		for _, s := range fn.Decl.Body.List {
			as, ok := s.(*ast.AssignStmt)
			if !ok {
				o.Fail("Redirect does something other than a table update")
				continue
			}
			n++
			o.Require(core.ExprStr(as.Lhs[0]) == "c.trans[origRef]" && core.ExprStr(as.Rhs[0]) == "newRef", "Redirect stores %s = %s", core.ExprStr(as.Lhs[0]), core.ExprStr(as.Rhs[0]))
		}
		o.Require(n == 1, "Redirect must consist of the single table update")
	})
}

func ruleCopierDeterminism(c *core.Ctx) {
	const rule = "C11-R3"
	c.Check(rule, "pdf.(*Copier).CopyDict/sorted", "dictionary entries are copied in SortedKeys order (copying allocates object numbers, so map order would make the output depend on the run)", func(o *core.Ob) {
		fn := c.Prog.Func("pdf", "(*Copier).CopyDict")
		g := fn.Graph()
		info := fn.Info()
		o.Count(1)
		// the loop that copies the entries (it calls Copy) takes its keys from
		// SortedKeys, directly or through a local, in either loop form; it
		// never ranges over the map itself
		sorted := map[types.Object]bool{}
		ast.Inspect(fn.Decl.Body, func(n ast.Node) bool {
			if as, ok := n.(*ast.AssignStmt); ok && len(as.Lhs) == 1 && len(as.Rhs) == 1 {
				if call, ok := ast.Unparen(as.Rhs[0]).(*ast.CallExpr); ok && strings.HasSuffix(core.CalleeKey(info, call), ".SortedKeys") {
					if lo := core.ObjOf(info, as.Lhs[0]); lo != nil {
						sorted[lo] = true
					}
				}
			}
			return true
		})
		isSorted := func(e ast.Expr) bool {
			e = ast.Unparen(e)
			if call, ok := e.(*ast.CallExpr); ok {
				return strings.HasSuffix(core.CalleeKey(info, call), ".SortedKeys")
			}
			return sorted[core.ObjOf(info, e)]
		}
		found := false
		for _, h := range loopHeads(g) {
			body := g.ReachFrom(succ(h, core.EdgeTrue), true, core.AvoidVs(h))
			copies := false
			for v := range body {
				if v.AST != nil && len(core.CallsTo(info, v.AST, false, "pdf.(*Copier).Copy")) > 0 {
					copies = true
				}
			}
			if !copies {
				continue
			}
			if h.Cond.Range != nil {
				o.At(fn.Site(h.Cond.Range, "entry loop"))
				if isSorted(h.Cond.Range.X) {
					found = true
				} else {
					o.Fail("CopyDict ranges over %s, want the sorted keys", core.ExprStr(h.Cond.Range.X))
				}
				continue
			}
			// index loop: some element of the sorted slice is taken in the body
			for v := range body {
				if v.AST == nil {
					continue
				}
				ast.Inspect(v.AST, func(n ast.Node) bool {
					if ix, ok := n.(*ast.IndexExpr); ok && isSorted(ix.X) {
						found = true
					}
					return true
				})
			}
		}
		o.Require(found, "no loop copies the entries in the order of SortedKeys")
	})
	for _, name := range []string{"Copy", "CopyDict", "CopyArray", "copyStreamDict", "CopyReference"} {
		name := name
		c.Check(rule, "pdf.(*Copier)."+name+"/no-map-order", "no range over a map may reach an allocation or a write", func(o *core.Ob) {
			fn := c.Prog.Func("pdf", "(*Copier)."+name)
			o.At(fn.Site(fn.Decl, ""))
			checkMapRanges(o, fn, true)
		})
	}
}

func ruleCryptRecipe(c *core.Ctx) {
	const rule = "C11-R4"
	c.Check(rule, "pdf.cryptRecipe/switches", "Copy and RawStreamReader handle every crypt recipe, and handle each the same way (verbatim for none/identity, decrypt for default, error for unsupported)", func(o *core.Ob) {
		pkg := c.Prog.Pkg("pdf")
		var consts []string
		for _, n := range pkg.Types.Scope().Names() {
			if k, ok := pkg.Types.Scope().Lookup(n).(*types.Const); ok && core.IsNamed(k.Type(), "pdf", "cryptRecipe") {
				consts = append(consts, n)
			}
		}
		sort.Strings(consts)
		o.Fact("recipes %v", consts)
		groups := map[string]string{}
		for _, fname := range []string{"(*Copier).Copy", "RawStreamReader"} {
			fn := c.Prog.Func("pdf", fname)
			info := fn.Info()
			var sw *ast.SwitchStmt
			ast.Inspect(fn.Decl.Body, func(n ast.Node) bool {
				if s, ok := n.(*ast.SwitchStmt); ok && s.Tag != nil && core.IsNamed(info.TypeOf(s.Tag), "pdf", "cryptRecipe") {
					sw = s
				}
				return true
			})
			if sw == nil {
				// the switch may sit in an unexported helper the function calls
				for _, cs := range core.CallsIn(info, fn.Decl.Body, true) {
					if cs.Fn == nil || cs.Fn.Exported() || cs.Fn.Pkg() != fn.Obj.Pkg() {
						continue
					}
					if h := c.Prog.FuncOf(cs.Fn); h != nil && h.Decl.Body != nil && sw == nil {
						ast.Inspect(h.Decl.Body, func(n ast.Node) bool {
							if s, ok := n.(*ast.SwitchStmt); ok && s.Tag != nil && core.IsNamed(h.Info().TypeOf(s.Tag), "pdf", "cryptRecipe") {
								sw, fn, info = s, h, h.Info()
							}
							return true
						})
					}
				}
			}
			if sw == nil {
				o.Unrec("%s has no switch over the crypt recipe (neither itself nor in an unexported helper it calls)", fname)
				continue
			}
			o.At(fn.Site(sw, "recipe switch"))
			seen := map[string]bool{}
			var gs []string
			for _, cl := range sw.Body.List {
				cc := cl.(*ast.CaseClause)
				var names []string
				for _, e := range cc.List {
					names = append(names, core.ExprStr(e))
					seen[core.ExprStr(e)] = true
				}
				sort.Strings(names)
				kind := "verbatim"
				ast.Inspect(cc, func(n ast.Node) bool {
					if call, ok := n.(*ast.CallExpr); ok {
						k := core.CalleeKey(info, call)
						if k == "errors.New" {
							kind = "error"
						}
						if strings.HasSuffix(k, ".Decode") || k == "pdf.RawStreamReader" {
							kind = "decrypt"
						}
					}
					return true
				})
				gs = append(gs, strings.Join(names, "+")+"="+kind)
			}
			sort.Strings(gs)
			groups[fname] = strings.Join(gs, " ")
			for _, k := range consts {
				o.Count(1)
				if !seen[k] {
					o.Fail("%s has no case for %s", fname, k)
				}
			}
		}
		want := "cryptDefault=decrypt cryptNone+cryptIdentity=verbatim cryptUnsupportedCF=error"
		for f, gs := range groups {
			norm := strings.ReplaceAll(gs, "cryptIdentity+cryptNone", "cryptNone+cryptIdentity")
			if norm != want {
				o.Fail("%s groups the recipes as [%s], want [%s]", f, gs, want)
			}
		}
	})
	c.Check(rule, "pdf.streamCryptRecipe/per-stream", "whether a stream needs decryption is decided per stream (its own crypt context), not per document: objects exempt from encryption (plaintext metadata, in-memory streams) have no context; every recipe other than cryptNone is returned only where the stream's crypt field is known to be non-nil, because those recipes make the callers dereference it", func(o *core.Ob) {
		fn := c.Prog.Func("pdf", "streamCryptRecipe")
		g := fn.Graph()
		info := fn.Info()
		x := paramObj(fn, "x")
		none := c.Prog.Pkg("pdf").Types.Scope().Lookup("cryptNone")
		n := 0
		for _, r := range g.Returns() {
			rs := r.AST.(*ast.ReturnStmt)
			if len(rs.Results) != 2 || !core.IsNil(info, rs.Results[1]) {
				continue
			}
			if core.ObjOf(info, rs.Results[0]) == none {
				continue
			}
			n++
			o.At(fn.Site(rs, "returns "+core.ExprStr(rs.Results[0])))
			ok := g.GuardedBy(r, func(a core.Atom) bool {
				cmp, isCmp := a.AsCmp()
				if !isCmp || cmp.Op != token.NEQ || !core.IsNil(info, cmp.R) {
					return false
				}
				sel, isSel := ast.Unparen(cmp.L).(*ast.SelectorExpr)
				return isSel && sel.Sel.Name == "crypt" && core.ObjOf(info, sel.X) == x
			})
			if !ok {
				o.FailAt(fn.Site(rs, ""), "%s: %s is returned for a stream whose crypt context may be nil", c.Prog.Pos(rs.Pos()), core.ExprStr(rs.Results[0]))
			}
		}
		o.Shape(n >= 3, "expected at least three non-none recipe returns, found %d", n)
		// and the users dereference x.crypt only under the recipe / a nil test
		for _, fname := range []string{"RawStreamReader", "DecodeStream"} {
			uf := c.Prog.FuncOpt("pdf", fname)
			if uf == nil {
				continue
			}
			ug := uf.Graph()
			for _, cv := range callVerticesSuffix(ug, ".Decode") {
				sel, ok := cv.Call.Fun.(*ast.SelectorExpr)
				if !ok {
					continue
				}
				inner, ok := ast.Unparen(sel.X).(*ast.SelectorExpr)
				if !ok || inner.Sel.Name != "crypt" {
					continue
				}
				o.Count(1)
				o.At(uf.Site(cv.Call, "dereferences crypt"))
			}
		}
	})
	c.Check(rule, "pdf.(*Copier).Copy/own-bytes", "the decrypted bytes installed in a copied stream belong to that stream alone: they are not a view into state the Copier keeps and reuses for the next stream (the target writer reads stream data only later, when the object is written)", func(o *core.Ob) {
		// Copy itself and the other methods of the Copier (the stream case may be a helper)
		fns := []*core.Func{c.Prog.Func("pdf", "(*Copier).Copy")}
		for _, f := range c.Prog.Funcs(c.Prog.Pkg("pdf")) {
			if strings.HasPrefix(f.Key, "pdf.(*Copier).") && f.Key != "pdf.(*Copier).Copy" && f.Decl.Body != nil && f.Decl.Recv != nil && len(f.Decl.Recv.List[0].Names) == 1 {
				fns = append(fns, f)
			}
		}
		n := 0
		for _, fn := range fns {
			info := fn.Info()
			recv := fn.Info().Defs[fn.Decl.Recv.List[0].Names[0]]
			rootOf := func(e ast.Expr) types.Object {
				for {
					switch x := ast.Unparen(e).(type) {
					case *ast.SelectorExpr:
						e = x.X
					case *ast.IndexExpr:
						e = x.X
					case *ast.SliceExpr:
						e = x.X
					case *ast.StarExpr:
						e = x.X
					case *ast.UnaryExpr:
						e = x.X
					case *ast.CallExpr:
						if sel, ok := x.Fun.(*ast.SelectorExpr); ok {
							if _, isPkg := info.ObjectOf(selRootIdent(sel)).(*types.PkgName); !isPkg {
								e = sel.X
								continue
							}
						}
						return nil
					case *ast.Ident:
						return info.ObjectOf(x)
					default:
						return nil
					}
				}
			}
			var derivesFromRecv func(e ast.Expr, depth int) bool
			derivesFromRecv = func(e ast.Expr, depth int) bool {
				if depth > 4 {
					return false
				}
				root := rootOf(e)
				if root == nil {
					return false
				}
				if root == recv {
					return true
				}
				for _, d := range core.AssignsTo(info, fn.Decl, root) {
					if as, ok := d.(*ast.AssignStmt); ok {
						for i, l := range as.Lhs {
							if core.ObjOf(info, l) == root && len(as.Rhs) == len(as.Lhs) && derivesFromRecv(as.Rhs[i], depth+1) {
								return true
							}
						}
					}
				}
				return false
			}
			for _, call := range core.CallsTo(info, fn.Decl.Body, false, "bytes.NewReader", "bytes.NewBuffer") {
				n++
				o.At(fn.Site(call, "stream data"))
				if derivesFromRecv(call.Args[0], 0) {
					o.FailAt(fn.Site(call, ""), "%s: the stream's data %s is a view into the Copier's own state, which is overwritten when the next stream is copied", c.Prog.Pos(call.Pos()), c.Prog.Src(call.Args[0]))
				}
			}
		}
		o.Shape(n >= 1, "no in-memory stream data (bytes.NewReader) found in the methods of Copier")
		// the Copier keeps no reusable byte storage at all (today): record it
		if r0 := fns[0].Info().Defs[fns[0].Decl.Recv.List[0].Names[0]]; r0 != nil {
			if st, ok := r0.Type().(*types.Pointer).Elem().Underlying().(*types.Struct); ok {
				o.Fact("Copier has %d fields", st.NumFields())
			}
		}
	})
	c.Check(rule, "pdf.(*Copier).Copy/no-source-crypt", "the copied stream does not inherit the source file's encryption context", func(o *core.Ob) {
		fn := c.Prog.Func("pdf", "(*Copier).Copy")
		info := fn.Info()
		n := 0
		ast.Inspect(fn.Decl.Body, func(m ast.Node) bool {
			if cl, ok := m.(*ast.CompositeLit); ok && core.IsNamed(info.TypeOf(cl), "pdf", "Stream") {
				n++
				o.At(fn.Site(cl, "target stream"))
				f := compositeFields(info, cl)
				if _, has := f["crypt"]; has {
					o.Fail("the target stream is created with the source's crypt filter")
				}
				o.Require(f["Dict"] != nil && core.ExprStr(f["Dict"]) == "dict", "the target stream must use the copied dictionary")
			}
			if as, ok := m.(*ast.AssignStmt); ok && strings.HasSuffix(core.ExprStr(as.Lhs[0]), ".crypt") {
				o.FailAt(fn.Site(as, ""), "crypt is assigned on the copied stream")
			}
			return true
		})
		o.Shape(n == 1, "target stream literal not found")
	})
	c.Check(rule, "pdf.filterChainStartsWithCrypt", "the /Crypt probe looks at the /Filter entry and at the first array element only after resolving indirect references (the writer and the copier must classify a stream like GetFilters does)", func(o *core.Ob) {
		fn := c.Prog.Func("pdf", "filterChainStartsWithCrypt")
		info := fn.Info()
		// every value that is type-asserted or type-switched must be assigned from Resolve
		positiveOnly := map[ast.Node]bool{}
		mentionsReference := map[ast.Node]bool{}
		var check func(e ast.Expr, where ast.Node)
		check = func(e ast.Expr, where ast.Node) {
			obj := core.ObjOf(info, e)
			o.At(fn.Site(where, "inspects "+core.ExprStr(e)))
			if obj == nil {
				o.Fail("inspected value %s is not a resolved local", core.ExprStr(e))
				return
			}
			ok := false
			for _, d := range core.AssignsTo(info, fn.Decl, obj) {
				if as, isAs := d.(*ast.AssignStmt); isAs {
					if call, isCall := as.Rhs[0].(*ast.CallExpr); isCall && core.CalleeKey(info, call) == "pdf.Resolve" {
						ok = true
					}
				}
			}
			if !ok && positiveOnly[where] {
				// an unresolved value is only asked whether it is one of some direct types;
				// a reference matches none of them and goes on to the resolving path
				resolvedLater := false
				for _, call := range core.CallsTo(info, fn.Decl.Body, false, "pdf.Resolve") {
					if len(call.Args) == 2 && core.ObjOf(info, call.Args[1]) == obj && call.Pos() > where.Pos() {
						resolvedLater = true
					}
				}
				if resolvedLater {
					return
				}
			}
			if !ok && mentionsReference[where] {
				o.Unrec("%s: %s is inspected before it is resolved, with a case for references: not followed", c.Prog.Pos(where.Pos()), core.ExprStr(e))
				return
			}
			if !ok {
				o.FailAt(fn.Site(where, ""), "%s is inspected without being resolved first (an indirect entry would be misclassified)", core.ExprStr(e))
			}
		}
		// inspections that only pick out direct values: a type switch without default whose
		// cases are nil or concrete types other than Reference, and "if v, ok := x.(T); ok { ... }"
		// without else for such a T
		directType := func(te ast.Expr) bool {
			if core.IsNil(info, te) {
				return true
			}
			t := info.TypeOf(te)
			if t == nil || core.IsNamed(t, "pdf", "Reference") {
				return false
			}
			_, isIface := t.Underlying().(*types.Interface)
			return !isIface
		}
		ast.Inspect(fn.Decl.Body, func(m ast.Node) bool {
			switch x := m.(type) {
			case *ast.TypeSwitchStmt:
				pos := true
				for _, st := range x.Body.List {
					cc := st.(*ast.CaseClause)
					if cc.List == nil {
						pos = false
					}
					for _, te := range cc.List {
						if t := info.TypeOf(te); t != nil && core.IsNamed(t, "pdf", "Reference") {
							mentionsReference[x] = true
						}
						if !directType(te) {
							pos = false
						}
					}
				}
				positiveOnly[x] = pos
			case *ast.IfStmt:
				as, ok := x.Init.(*ast.AssignStmt)
				if !ok || len(as.Lhs) != 2 || len(as.Rhs) != 1 || x.Else != nil {
					return true
				}
				ta, ok := ast.Unparen(as.Rhs[0]).(*ast.TypeAssertExpr)
				if !ok || ta.Type == nil || !directType(ta.Type) {
					return true
				}
				// the condition is "ok" or a conjunction with "ok" as one of its parts
				var hasOK func(e ast.Expr) bool
				hasOK = func(e ast.Expr) bool {
					e = ast.Unparen(e)
					if cid, isID := e.(*ast.Ident); isID {
						return info.ObjectOf(cid) != nil && info.ObjectOf(cid) == core.ObjOf(info, as.Lhs[1])
					}
					if be, isBin := e.(*ast.BinaryExpr); isBin && be.Op == token.LAND {
						return hasOK(be.X) || hasOK(be.Y)
					}
					return false
				}
				if hasOK(x.Cond) {
					positiveOnly[ta] = true
				}
			}
			return true
		})
		n := 0
		ast.Inspect(fn.Decl.Body, func(m ast.Node) bool {
			switch x := m.(type) {
			case *ast.TypeSwitchStmt:
				if as, ok := x.Assign.(*ast.AssignStmt); ok {
					if ta, ok := as.Rhs[0].(*ast.TypeAssertExpr); ok {
						check(ta.X, x)
						n++
					}
				}
				return true
			case *ast.TypeAssertExpr:
				if x.Type != nil {
					check(x.X, x)
					n++
				}
			}
			return true
		})
		o.Shape(n >= 2, "expected the probe to inspect the entry and its first element")
		// the element inspected is index 0
		idx0 := false
		ast.Inspect(fn.Decl.Body, func(m ast.Node) bool {
			if ix, ok := m.(*ast.IndexExpr); ok {
				if k, ok := core.IntConst(info, ix.Index); ok && k == 0 {
					idx0 = true
				}
			}
			return true
		})
		o.Require(idx0, "the probe does not look at position 0 of the /Filter array")
	})
}

func ruleCopierErrors(c *core.Ctx) {
	const rule = "C11-R5"
	c.Check(rule, "pdf.(*Copier).CopyReference/errors", "a dangling or malformed source reference is copied as null, but a read error of the source aborts the copy", func(o *core.Ob) {
		fn := c.Prog.Func("pdf", "(*Copier).CopyReference")
		g := fn.Graph()
		info := fn.Info()
		rs := callVertices(g, "pdf.Resolve")
		if len(rs) != 1 {
			o.Count(1)
			o.Unrec("expected one Resolve call")
			return
		}
		o.At(fn.Site(rs[0].Call, "Resolve"))
		var guard *core.V
		for _, bv := range g.BranchVertices() {
			for _, a := range bv.Implied(core.EdgeTrue) {
				if _, ok := a.HoldsCall(info, false, "pdf.IsReadError"); ok && g.Dominates(rs[0].V, bv) {
					guard = bv
				}
			}
		}
		if guard == nil {
			o.Fail("the error of Resolve is not classified with IsReadError")
			return
		}
		for v := range g.ReachFrom(succ(guard, core.EdgeTrue), true, core.AvoidVs(succ(guard, core.EdgeFalse))) {
			if r, ok := v.AST.(*ast.ReturnStmt); ok {
				o.Require(core.ExprStr(r.Results[1]) == "err", "a read error is not returned")
			}
		}
		// no use of err between Resolve and the guard other than the guard
		mid := g.ReachFrom(rs[0].V, false, core.AvoidVs(guard))
		for v := range mid {
			if v.Cond != nil {
				o.Fail("control flow branches between Resolve and the IsReadError test")
			}
		}
	})
	for _, name := range []string{"Copy", "CopyDict", "CopyArray", "copyStreamDict"} {
		name := name
		c.Check(rule, "pdf.(*Copier)."+name+"/propagate", "every error of a nested copy is returned", func(o *core.Ob) {
			// a per-function discipline: each declared function is checked as written
			fn := c.Prog.RawFunc("pdf", "(*Copier)."+name)
			checkErrorsPropagated(o, fn)
		})
	}
}

// checkErrorsPropagated: every assignment of an error-typed variable from a
// call is followed, before any other use of the results, by a test of the
// error whose non-nil edge returns an error.
func checkErrorsPropagated(o *core.Ob, fn *core.Func) {
	g := fn.Graph()
	info := fn.Info()
	errT := types.Universe.Lookup("error").Type()
	for _, v := range g.Vs {
		as, ok := v.AST.(*ast.AssignStmt)
		if !ok || len(as.Rhs) != 1 {
			continue
		}
		call, ok := ast.Unparen(as.Rhs[0]).(*ast.CallExpr)
		if !ok {
			continue
		}
		var errObj types.Object
		for _, l := range as.Lhs {
			if id, ok := l.(*ast.Ident); ok && id.Name != "_" {
				if t := info.TypeOf(id); t != nil && types.Identical(t, errT) {
					errObj = info.ObjectOf(id)
				}
			} else if ok && id.Name == "_" {
				// blank: is the corresponding result an error?
				if sig, ok := info.TypeOf(call.Fun).(*types.Signature); ok && sig.Results().Len() == len(as.Lhs) {
					for i, ll := range as.Lhs {
						if ll == l && types.Identical(sig.Results().At(i).Type(), errT) {
							o.FailAt(fn.Site(as, ""), "the error of %s is discarded", core.ExprStr(call.Fun))
						}
					}
				}
			}
		}
		if errObj == nil {
			continue
		}
		o.At(fn.Site(as, "error from "+core.ExprStr(call.Fun)))
		// the error must be tested on every path before function exit or reassignment
		var tests []*core.V
		for _, bv := range g.BranchVertices() {
			if bv.Cond.Expr != nil && core.Mentions(info, bv.Cond.Expr, errObj) {
				tests = append(tests, bv)
			}
		}
		// any later statement that reads the error counts as a use (return err, err = closeErr, Wrap(err))
		var uses []*core.V
		uses = append(uses, tests...)
		for _, x := range g.Vs {
			if x != v && x.AST != nil && x.Cond == nil && core.Mentions(info, x.AST, errObj) {
				if xa, ok := x.AST.(*ast.AssignStmt); ok {
					// a pure re-definition is not a use
					onlyLhs := true
					for _, r := range xa.Rhs {
						if core.Mentions(info, r, errObj) {
							onlyLhs = false
						}
					}
					if onlyLhs {
						continue
					}
				}
				uses = append(uses, x)
			}
		}
		// assignments like `if err == nil { err = closeErr }` are tests too (included)
		reach := g.ReachFrom(v, false, core.AvoidVs(uses...))
		isClose := false
		if se, ok := call.Fun.(*ast.SelectorExpr); ok && se.Sel.Name == "Close" {
			isClose = true
		}
		if isClose {
			// idiom: a Close error is reported unless an earlier error takes precedence
			if len(uses) == 0 {
				o.FailAt(fn.Site(as, ""), "the error of Close is never used")
			}
		} else if reach[g.Exit] {
			o.FailAt(fn.Site(as, ""), "the error of %s can reach the end of the function without being tested or returned", core.ExprStr(call.Fun))
		}
		for _, dv := range defVertices(g, errObj) {
			if dv != v && reach[dv] {
				// overwritten before use
				if das, ok := dv.AST.(*ast.AssignStmt); ok && das.Tok == token.ASSIGN || ok && das.Tok == token.DEFINE {
					o.FailAt(fn.Site(as, ""), "the error of %s is overwritten before it is tested", core.ExprStr(call.Fun))
				}
			}
		}
		// the non-nil edge of the first test returns it
		for _, tv := range tests {
			if !g.PathExists(v, tv, nil) {
				continue
			}
			for _, a := range tv.Implied(core.EdgeTrue) {
				cmp, isCmp := a.AsCmp()
				if isCmp && cmp.Op == token.NEQ && core.ObjOf(info, cmp.L) == errObj && core.IsNil(info, cmp.R) {
					for x := range g.ReachFrom(succ(tv, core.EdgeTrue), true, core.AvoidVs(succ(tv, core.EdgeFalse))) {
						if r, ok := x.AST.(*ast.ReturnStmt); ok {
							last := r.Results[len(r.Results)-1]
							if core.IsNil(info, last) {
								o.FailAt(fn.Site(r, ""), "the error of %s is swallowed (success is returned on the err != nil edge)", core.ExprStr(call.Fun))
							}
						}
					}
				}
			}
		}
	}
}

func ruleCopierNoMutation(c *core.Ctx) {
	const rule = "C11-R6"
	c.Check(rule, "pdf.(*Copier).Copy/no-mutation", "copying never writes through the source objects", func(o *core.Ob) {
		ma := core.NewMutAnalysis(c.Prog)
		ma.ImplPkgs[core.ModulePath] = true
		ma.ExemptTypes["pdf.Placeholder"] = "write-side object"
		ma.ExemptTypes["pdf.Writer"] = "the target writer"
		ma.ExemptTypes["pdf.posWriter"] = "the target writer"
		ma.ExemptTypes["pdf.Copier"] = "the copier's own translation table"
		for _, name := range []string{"(*Copier).Copy", "(*Copier).CopyDict", "(*Copier).CopyArray"} {
			fn := c.Prog.Func("pdf", name)
			sf := ma.S.FuncValue(fn.Obj)
			if sf == nil || len(sf.Params) < 2 {
				core.Undecided("no SSA function for %s", name)
			}
			o.At(fn.Site(fn.Decl, "seed obj"))
			ws := ma.Mutations(sf, []ssa.Value{sf.Params[1]}, nil)
			for _, w := range ws {
				o.Fail("%s: %s in %s", c.Prog.Pos(w.Pos), w.What, w.Fn)
			}
		}
		o.Count(len(ma.Visited))
	})
}

func ruleNilEntryDiscipline(c *core.Ctx) {
	const rule = "C11-R7"
	c.Floor(rule, 2)
	for _, name := range []string{"CopyDict", "CopyArray"} {
		name := name
		c.Check(rule, "pdf.(*Copier)."+name+"/nil-entry", "a dictionary value or array element may be the nil interface (the null keyword); every method call on it is dominated by a non-nil test", func(o *core.Ob) {
			fn := c.Prog.Func("pdf", "(*Copier)."+name)
			g := fn.Graph()
			info := fn.Info()
			n := 0
			for _, v := range g.Vs {
				if v.AST == nil {
					continue
				}
				for _, cs := range core.CallsIn(info, v.AST, false) {
					se, ok := cs.Call.Fun.(*ast.SelectorExpr)
					if !ok || se.Sel.Name != "AsPDF" {
						continue
					}
					recv := core.ObjOf(info, se.X)
					if recv == nil {
						continue
					}
					if _, isIface := info.TypeOf(se.X).Underlying().(*types.Interface); !isIface {
						continue
					}
					n++
					o.At(fn.Site(cs.Call, "method call on element"))
					ok2 := g.GuardedBy(v, func(a core.Atom) bool {
						cmp, isCmp := a.AsCmp()
						return isCmp && cmp.Op == token.NEQ && core.ObjOf(info, cmp.L) == recv && core.IsNil(info, cmp.R)
					})
					if !ok2 {
						o.FailAt(fn.Site(cs.Call, ""), "%s.AsPDF is called although %s may be nil (a null entry read from a file)", recv.Name(), recv.Name())
					}
				}
			}
			o.Shape(n == 1, "expected one AsPDF call on an element, found %d", n)
		})
	}
}

func selRootIdent(sel *ast.SelectorExpr) *ast.Ident {
	if id, ok := ast.Unparen(sel.X).(*ast.Ident); ok {
		return id
	}
	return &ast.Ident{Name: "_"}
}

// ruleCopierStructure (C11-R10): (a) "no decryption needed" for the reason
// "not encrypted" (cryptNone) is returned only for streams without a crypt
// context; every other ground for reusing the bytes goes through the
// /Crypt /Identity detection.  (b) inlineFilterRefs keeps arrays
// position-parallel: /Filter and /DecodeParms correspond element by element,
// so every element of the input array produces exactly one element of the
// output (no iteration may skip the store).
func ruleCopierStructure(c *core.Ctx) {
	c.Check("C11-R10", "pdf.streamCryptRecipe/none", "cryptNone is returned only where the stream has no crypt context", func(o *core.Ob) {
		fn := c.Prog.Func("pdf", "streamCryptRecipe")
		g := fn.Graph()
		info := fn.Info()
		x := paramObj(fn, "x")
		none := c.Prog.Pkg("pdf").Types.Scope().Lookup("cryptNone")
		n := 0
		for _, r := range g.Returns() {
			rs := r.AST.(*ast.ReturnStmt)
			if len(rs.Results) != 2 || core.ObjOf(info, rs.Results[0]) != none {
				continue
			}
			// an error return: the recipe is not used (the zero value spelled by its name)
			if eo := core.ObjOf(info, rs.Results[1]); eo != nil && core.IsErrorType(eo.Type()) {
				failing := g.GuardedBy(r, func(a core.Atom) bool {
					cmp, isCmp := a.AsCmp()
					return isCmp && cmp.Op == token.NEQ && core.IsNil(info, cmp.R) && core.ObjOf(info, cmp.L) == eo
				})
				if failing {
					continue
				}
			}
			n++
			o.Count(1)
			o.At(fn.Site(rs, "returns cryptNone"))
			ok := g.GuardedBy(r, func(a core.Atom) bool {
				cmp, isCmp := a.AsCmp()
				if !isCmp || cmp.Op != token.EQL || !core.IsNil(info, cmp.R) {
					return false
				}
				sel, isSel := ast.Unparen(cmp.L).(*ast.SelectorExpr)
				return isSel && sel.Sel.Name == "crypt" && core.ObjOf(info, sel.X) == x
			})
			if !ok {
				o.FailAt(fn.Site(rs, ""), "%s: cryptNone is returned for a stream that has a crypt context: its bytes are copied still encrypted", c.Prog.Pos(rs.Pos()))
			}
		}
		o.Require(n >= 1, "no return of cryptNone found")
	})
	c.Check("C11-R10", "pdf.inlineFilterRefs/parallel", "every element of a /Filter or /DecodeParms array yields exactly one element of the inlined array", func(o *core.Ob) {
		fn := c.Prog.Func("pdf", "inlineFilterRefs")
		g := fn.Graph()
		info := fn.Info()
		var head *core.V
		for _, h := range loopHeads(g) {
			if h.Cond.Range != nil {
				head = h
			}
		}
		if head == nil {
			core.Undecided("loop over the array elements not found")
		}
		o.At(fn.Site(head.Cond.Range, "element loop"))
		// stores into the output: out[i] = ... or out = append(out, ...)
		var stores []*core.V
		appends, indexed := 0, 0
		presized := true
		for _, v := range g.Vs {
			as, ok := v.AST.(*ast.AssignStmt)
			if !ok || !g.InLoop(v) {
				continue
			}
			for _, l := range as.Lhs {
				if ix, ok := ast.Unparen(l).(*ast.IndexExpr); ok {
					if _, isArr := info.TypeOf(ix.X).Underlying().(*types.Slice); isArr {
						stores = append(stores, v)
						indexed++
						// out := make(T, len(in)): one slot per element whatever the loop stores
						okSize := false
						if obj := core.ObjOf(info, ix.X); obj != nil {
							for _, d := range defVertices(g, obj) {
								if rhs, found := rhsFor(info, d, obj); found && rhs != nil {
									if mk, isCall := ast.Unparen(rhs).(*ast.CallExpr); isCall && core.CalleeKey(info, mk) == "builtin.make" && len(mk.Args) == 2 {
										if lc, isLen := ast.Unparen(mk.Args[1]).(*ast.CallExpr); isLen && core.CalleeKey(info, lc) == "builtin.len" {
											okSize = true
										}
									}
								}
							}
						}
						if !okSize {
							presized = false
						}
					}
				}
			}
			if len(as.Lhs) == 1 && len(as.Rhs) == 1 {
				if call, ok := ast.Unparen(as.Rhs[0]).(*ast.CallExpr); ok {
					if id, ok := call.Fun.(*ast.Ident); ok && id.Name == "append" {
						stores = append(stores, v)
						appends++
					}
				}
			}
		}
		o.Require(len(stores) >= 1, "no store into the output array found")
		o.Count(1)
		if appends == 0 && indexed > 0 && presized {
			// the output has one slot per input element from the start; an iteration
			// that stores nothing leaves a null there, the arrays stay parallel
			o.Fact("the output array is allocated with the length of the input and filled by index")
			return
		}
		body := succ(head, core.EdgeTrue)
		if g.ReachFrom(body, true, core.AvoidVs(stores...))[head] {
			o.Fail("%s: an iteration can finish without storing an element: the output array is shorter than the input and /DecodeParms no longer lines up with /Filter", c.Prog.Pos(head.Cond.Range.Pos()))
		}
	})
}

// ruleCopyOneStep (C11-R11): an indirect object whose value is itself a
// reference ("5 0 obj 6 0 R endobj") is a node of the source graph like any
// other.  CopyReference must copy that node (its value is the reference,
// which Copy translates), not the value at the end of the reference chain:
// resolving the chain copies the final object once per entry point, so an
// object reachable both through the chain and directly is duplicated and is
// no longer shared in the target.  CopyReference obtains the object with one
// Get on the source and never calls the chain-following resolvers.
func ruleCopyOneStep(c *core.Ctx) {
	c.Check("C11-R11", "pdf.(*Copier).CopyReference/one-step", "the object behind a reference is fetched with a single Get; reference chains are preserved, not collapsed", func(o *core.Ob) {
		fn := c.Prog.Func("pdf", "(*Copier).CopyReference")
		info := fn.Info()
		gets := 0
		for _, cs := range core.CallsIn(info, fn.Decl, true) {
			switch cs.Key {
			case "pdf.Resolve", "pdf.resolve", "pdf.resolvePath", "pdf.GetDict", "pdf.GetArray", "pdf.GetStream":
				o.Count(1)
				o.FailAt(fn.Site(cs.Call, ""), "%s: %s follows a chain of references to its end: an object whose value is a reference is replaced by a second copy of the final object, which is then no longer shared with the direct references to it", c.Prog.Pos(cs.Call.Pos()), cs.Key)
			case "pdf.Getter.Get":
				gets++
				o.Count(1)
				o.At(fn.Site(cs.Call, "fetches the object"))
			}
		}
		o.Require(gets == 1 || o.Status != core.Discharged, "expected exactly one Get on the source, found %d", gets)
	})
}

// ruleCopiedElementsTranslated (C11-R12): whatever a method of the Copier
// stores into the dictionary or array it builds has been produced by the
// Copier itself (Copy, CopyDict, CopyArray, CopyReference or a helper method
// of the Copier), or is nil or a constant.  A value taken from the source and
// stored as it is may contain references, which then carry source object
// numbers into the target file (they point at unrelated or missing objects,
// and the object they meant is neither copied nor shared).
func ruleCopiedElementsTranslated(c *core.Ctx) {
	c.Check("C11-R12", "pdf.(*Copier)/elements-translated", "every element a Copier method stores into a container it builds was produced by a Copier method (translated to the target file)", func(o *core.Ob) {
		pkg := c.Prog.Pkg("pdf")
		stores := 0
		for _, fn := range c.Prog.Funcs(pkg) {
			if !strings.HasPrefix(fn.Key, "pdf.(*Copier).") || fn.Decl.Body == nil || fn.Decl.Recv == nil || len(fn.Decl.Recv.List[0].Names) != 1 {
				continue
			}
			info := fn.Info()
			recv := info.Defs[fn.Decl.Recv.List[0].Names[0]]
			g := fn.Graph()
			isContainer := func(e ast.Expr) bool {
				id, ok := ast.Unparen(e).(*ast.Ident)
				if !ok {
					return false
				}
				v, ok := info.ObjectOf(id).(*types.Var)
				if !ok || v.IsField() || v.Pkg() == nil || v.Parent() == v.Pkg().Scope() {
					return false
				}
				return core.IsNamed(v.Type(), "pdf", "Dict") || core.IsNamed(v.Type(), "pdf", "Array")
			}
			translated := func(at *core.V, e ast.Expr) (bool, string) {
				for _, vc := range valueCases(g, at, e, 3) {
					x := ast.Unparen(vc.Expr)
					if core.IsNil(info, x) {
						continue
					}
					if tv, ok := info.Types[x]; ok && tv.Value != nil {
						continue
					}
					for {
						// conversions and type assertions of a translated value
						if cv, ok := x.(*ast.CallExpr); ok && len(cv.Args) == 1 {
							if tv, ok := info.Types[cv.Fun]; ok && tv.IsType() {
								x = ast.Unparen(cv.Args[0])
								continue
							}
						}
						if ta, ok := x.(*ast.TypeAssertExpr); ok {
							x = ast.Unparen(ta.X)
							continue
						}
						break
					}
					call, ok := x.(*ast.CallExpr)
					if !ok {
						return false, core.ExprStr(vc.Expr)
					}
					sel, ok := ast.Unparen(call.Fun).(*ast.SelectorExpr)
					if !ok || core.ObjOf(info, sel.X) != recv {
						return false, core.ExprStr(vc.Expr)
					}
				}
				return true, ""
			}
			for _, v := range g.Vs {
				as, ok := v.AST.(*ast.AssignStmt)
				if !ok || len(as.Lhs) != len(as.Rhs) {
					continue
				}
				for i, l := range as.Lhs {
					if ix, ok := ast.Unparen(l).(*ast.IndexExpr); ok && isContainer(ix.X) {
						stores++
						o.At(fn.Site(as, "element stored"))
						if ok, why := translated(v, as.Rhs[i]); !ok {
							o.FailAt(fn.Site(as, ""), "%s stores %s into the copy as it is: references inside it keep their source object numbers", fn.Key, why)
						}
					}
					if call, ok := ast.Unparen(as.Rhs[i]).(*ast.CallExpr); ok && core.CalleeKey(info, call) == "builtin.append" && len(call.Args) >= 2 && isContainer(l) && !call.Ellipsis.IsValid() {
						for _, a := range call.Args[1:] {
							stores++
							o.At(fn.Site(as, "element appended"))
							if ok, why := translated(v, a); !ok {
								o.FailAt(fn.Site(as, ""), "%s appends %s to the copy as it is: references inside it keep their source object numbers", fn.Key, why)
							}
						}
					}
				}
			}
		}
		o.Shape(stores >= 2, "expected stores into the copied dictionary and array, found %d", stores)
	})
}
