package props

import (
	"fmt"
	"go/ast"
	"go/constant"
	"go/token"
	"go/types"
	"sort"
	"strconv"
	"strings"

	"pdfverif/internal/core"
)

// ruleClassTable: a package's byte class table equals ISO 32000 7.2.3.
func ruleClassTable(c *core.Ctx, rule, shortPkg string) {
	c.Check(rule, shortPkg+".class", "the 256-entry byte class table equals ISO 32000-2 7.2.3 (6 white-space bytes, 10 delimiters, all others regular)", func(o *core.Ob) {
		got := classTable(c.Prog, shortPkg)
		want := specClass()
		names := []string{"regular", "space", "delimiter"}
		for i := 0; i < 256; i++ {
			o.Count(1)
			if got[i] != want[i] {
				g := fmt.Sprint(got[i])
				if got[i] >= 0 && got[i] < 3 {
					g = names[got[i]]
				}
				o.Fail("byte %#02x is classified %s, the standard says %s", i, g, names[want[i]])
			}
		}
		_, init, pkg := c.Prog.Var(shortPkg, "class")
		if init != nil {
			o.Sites = append(o.Sites, core.Site{Pos: c.Prog.Pos(init.Pos()), Note: "table literal in " + pkg.PkgPath})
		}
		// the table must not be written anywhere after initialisation
		obj, _, _ := c.Prog.Var(shortPkg, "class")
		for _, fn := range c.Prog.Funcs(pkg) {
			ast.Inspect(fn.Decl, func(n ast.Node) bool {
				if as, ok := n.(*ast.AssignStmt); ok {
					for _, l := range as.Lhs {
						if ix, ok := ast.Unparen(l).(*ast.IndexExpr); ok && core.ObjOf(fn.Info(), ix.X) == obj {
							o.FailAt(fn.Site(as, "store into class table"), "the class table is modified at run time")
						}
						if core.ObjOf(fn.Info(), l) == obj {
							o.FailAt(fn.Site(as, "assignment to class table"), "the class table is replaced at run time")
						}
					}
				}
				return true
			})
		}
	})
}

// nameEscapeSets computes for formatName the set E of bytes that are
// escaped (the complement is written raw) by abstract reachability of the
// "record as funny" site for each byte value.
func nameEscapeSet(c *core.Ctx, o *core.Ob) core.ByteSet {
	fn := c.Prog.Func("pdf", "formatName")
	g := fn.Graph()
	// the loop over the name's bytes: a range loop whose value variable is used in a condition
	var E core.ByteSet
	found := false
	for _, head := range g.BranchVertices() {
		if head.Cond.Range == nil || head.Cond.Range.Value == nil {
			continue
		}
		vid, ok := head.Cond.Range.Value.(*ast.Ident)
		if !ok {
			continue
		}
		obj := fn.Info().ObjectOf(vid)
		if b, ok := obj.Type().Underlying().(*types.Basic); !ok || b.Kind() != types.Uint8 {
			continue
		}
		// the escaped bytes: those for which an iteration reaches the escape
		// emission itself (Fprintf) or records the position for a later loop
		// (an append); decisions routed through a local flag or a helper
		// predicate are followed by the exploration
		bodyStart := succ(head, core.EdgeTrue)
		env := byteEnvFor(c.Prog, fn, obj)
		var marks []*core.V
		isMark := func(v *core.V) bool {
			if as, ok := v.AST.(*ast.AssignStmt); ok && len(as.Rhs) == 1 {
				if call, ok := as.Rhs[0].(*ast.CallExpr); ok && core.CalleeKey(fn.Info(), call) == "builtin.append" {
					return true
				}
			}
			if v.AST != nil {
				for _, cs := range core.CallsIn(fn.Info(), v.AST, false) {
					if strings.HasSuffix(cs.Key, "Fprintf") {
						return true
					}
				}
			}
			return false
		}
		for v := range g.ReachFrom(bodyStart, true, core.AvoidVs(head)) {
			if isMark(v) {
				marks = append(marks, v)
			}
		}
		if len(marks) == 0 {
			continue
		}
		set := env.ReachSet(g, []*core.V{bodyStart}, isMark, func(v *core.V) bool { return v == head })
		if n := set.Len(); n == 0 || n == 256 {
			continue // not a per-byte decision
		}
		found = true
		E = set
		for _, m := range marks {
			o.At(fn.Site(m.AST, "escape mark"))
		}
		o.Count(256)
		break
	}
	if !found {
		core.Undecided("formatName: no per-byte escape decision found")
	}
	// the escape emission itself: a Fprintf with a format of '#' + two hex digits
	okFmt := false
	for _, cs := range core.CallsIn(fn.Info(), fn.Decl, true) {
		if cs.Key == "fmt.Fprintf" && len(cs.Call.Args) >= 2 {
			if f, ok := core.StringConst(fn.Info(), cs.Call.Args[1]); ok {
				o.At(fn.Site(cs.Call, "escape format "+fmt.Sprintf("%q", f)))
				if f == "#%02x" || f == "#%02X" {
					okFmt = true
				} else {
					o.FailAt(fn.Site(cs.Call, ""), "name escape format is %q, need '#' followed by exactly two hex digits (%%02x)", f)
				}
			}
		}
	}
	if !okFmt {
		// the same by hand: three bytes '#', digits[c>>4], digits[c&15] (a literal or three
		// appended values), digits being the sixteen hexadecimal digits in order
		info := fn.Info()
		hexTable := func(e ast.Expr) bool {
			if sv, ok := core.StringConst(info, e); ok {
				return sv == "0123456789abcdef" || sv == "0123456789ABCDEF"
			}
			if tv, ok := core.ObjOf(info, e).(*types.Var); ok && tv.Pkg() != nil && tv.Parent() == tv.Pkg().Scope() {
				if _, init, ipkg := c.Prog.Var("pdf", tv.Name()); init != nil {
					if sv, ok := core.StringConst(ipkg.TypesInfo, init); ok {
						return sv == "0123456789abcdef" || sv == "0123456789ABCDEF"
					}
					if conv, isConv := ast.Unparen(init).(*ast.CallExpr); isConv && len(conv.Args) == 1 {
						if sv, ok := core.StringConst(ipkg.TypesInfo, conv.Args[0]); ok {
							return sv == "0123456789abcdef" || sv == "0123456789ABCDEF"
						}
					}
				}
			}
			return false
		}
		nibble := func(e ast.Expr, high bool) bool {
			ix, ok := ast.Unparen(e).(*ast.IndexExpr)
			if !ok || !hexTable(ix.X) {
				return false
			}
			be, ok := ast.Unparen(peelConv(info, ix.Index)).(*ast.BinaryExpr)
			if !ok {
				return false
			}
			k, isK := core.IntConst(info, be.Y)
			if high {
				return isK && be.Op == token.SHR && k == 4
			}
			return isK && (be.Op == token.AND && k == 15 || be.Op == token.REM && k == 16)
		}
		triple := func(es []ast.Expr) bool {
			if len(es) != 3 {
				return false
			}
			k, isK := core.IntConst(info, es[0])
			return isK && k == '#' && nibble(es[1], true) && nibble(es[2], false)
		}
		manual, partial := false, false
		ast.Inspect(fn.Decl, func(n ast.Node) bool {
			switch x := n.(type) {
			case *ast.CompositeLit:
				var es []ast.Expr
				for _, el := range x.Elts {
					if kv, isKV := el.(*ast.KeyValueExpr); isKV {
						el = kv.Value
					}
					es = append(es, el)
				}
				if triple(es) {
					manual = true
				} else if len(es) == 3 {
					if k, isK := core.IntConst(info, es[0]); isK && k == '#' {
						partial = true
					}
				}
			case *ast.CallExpr:
				if core.CalleeKey(info, x) == "builtin.append" && len(x.Args) == 4 && triple(x.Args[1:]) {
					manual = true
				}
			}
			return true
		})
		if manual {
			okFmt = true
		} else if partial {
			o.Fail("formatName: the escape is written by hand and is not '#' followed by the high and the low hexadecimal digit of the byte")
		}
	}
	if !okFmt {
		o.Unrec("formatName: how an escaped byte is written was not found (neither a '#%%02x' format nor three bytes written by hand)")
	}
	return E
}

// nameWholeWriteSet looks for writes of the whole name (not a slice of it, not
// a byte of it) in formatName and computes the set of bytes b such that a
// non-empty name made only of b reaches such a write: every read of a byte of
// the name is evaluated as b.  ok is false when the result is all 256 values
// (the guard of the write is not a per-byte decision this evaluation follows).
func nameWholeWriteSet(c *core.Ctx, o *core.Ob) (set core.ByteSet, site ast.Node, ok bool) {
	fn := c.Prog.Func("pdf", "formatName")
	g := fn.Graph()
	info := fn.Info()
	if fn.Decl.Type.Params == nil {
		return set, nil, false
	}
	// the name parameter and its copies (l := []byte(name))
	whole := map[types.Object]bool{}
	for _, f := range fn.Decl.Type.Params.List {
		for _, n := range f.Names {
			if core.IsNamed(info.TypeOf(n), "pdf", "Name") {
				whole[info.ObjectOf(n)] = true
			}
		}
	}
	isWhole := func(e ast.Expr) bool {
		e = stripConv(info, e)
		id, isID := e.(*ast.Ident)
		return isID && whole[info.ObjectOf(id)]
	}
	for changed := true; changed; {
		changed = false
		for _, v := range g.Vs {
			as, isAs := v.AST.(*ast.AssignStmt)
			if !isAs || len(as.Lhs) != len(as.Rhs) {
				continue
			}
			for i, l := range as.Lhs {
				obj := core.ObjOf(info, l)
				if obj != nil && !whole[obj] && isWhole(as.Rhs[i]) && len(defVertices(g, obj)) == 1 {
					whole[obj] = true
					changed = true
				}
			}
		}
	}
	// "/" + string(name), string(name), l
	var containsWhole func(e ast.Expr) bool
	containsWhole = func(e ast.Expr) bool {
		e = ast.Unparen(e)
		if isWhole(e) {
			return true
		}
		if be, isBin := e.(*ast.BinaryExpr); isBin && be.Op == token.ADD {
			return containsWhole(be.X) || containsWhole(be.Y)
		}
		return false
	}
	var writes []*core.V
	for _, v := range g.Vs {
		if v.AST == nil {
			continue
		}
		for _, cs := range core.CallsIn(info, v.AST, false) {
			isWrite := strings.HasSuffix(cs.Key, ".Write") || strings.HasSuffix(cs.Key, ".WriteString") || cs.Key == "io.WriteString"
			if !isWrite || len(cs.Call.Args) == 0 {
				continue
			}
			if containsWhole(cs.Call.Args[len(cs.Call.Args)-1]) {
				writes = append(writes, v)
				site = cs.Call
				o.At(fn.Site(cs.Call, "writes the whole name"))
			}
		}
	}
	if len(writes) == 0 {
		return set, nil, false
	}
	// loops that read a byte of the name: their element variable, or name[i]
	elem := map[types.Object]bool{}
	var starts []*core.V
	readsByte := func(n ast.Node) bool {
		found := false
		ast.Inspect(n, func(m ast.Node) bool {
			switch x := m.(type) {
			case *ast.IndexExpr:
				if isWhole(x.X) {
					found = true
				}
			case *ast.Ident:
				if elem[info.ObjectOf(x)] {
					found = true
				}
			}
			return !found
		})
		return found
	}
	for _, h := range loopHeads(g) {
		if r := h.Cond.Range; r != nil && isWhole(r.X) && r.Value != nil {
			if obj := core.ObjOf(info, r.Value); obj != nil {
				elem[obj] = true
			}
		}
	}
	for _, h := range loopHeads(g) {
		body := succ(h, core.EdgeTrue)
		if body == nil {
			continue
		}
		reads := false
		for v := range g.ReachFrom(body, true, core.AvoidVs(h)) {
			if v.AST != nil && readsByte(v.AST) {
				reads = true
			}
		}
		if reads {
			starts = append(starts, body)
		}
	}
	if len(starts) == 0 {
		return set, site, false
	}
	env := byteEnvFor(c.Prog, fn, nil)
	env.Alias = func(e ast.Expr) bool {
		e = ast.Unparen(e)
		switch x := e.(type) {
		case *ast.IndexExpr:
			return isWhole(x.X)
		case *ast.Ident:
			return elem[info.ObjectOf(x)]
		}
		return false
	}
	isW := map[*core.V]bool{}
	for _, w := range writes {
		isW[w] = true
	}
	set = env.ReachSet(g, starts, func(v *core.V) bool { return isW[v] }, func(v *core.V) bool { return false })
	if set.Len() == 256 {
		return set, site, false
	}
	return set, site, true
}

// nameVerbatimSet computes for a scanner's ReadName the set V of bytes that
// are appended to the result unchanged.
func nameVerbatimSet(c *core.Ctx, o *core.Ob, shortPkg string) (V core.ByteSet, hashLiteral bool) {
	fn := c.Prog.Func(shortPkg, "(*scanner).ReadName")
	g := fn.Graph()
	// the byte under inspection, by role: a local byte variable that is handed
	// to the result unchanged somewhere.  With a fast path in front of the
	// general code there are several; the main one is the one whose '#' leads
	// to the escape decoder, the others must keep a subset verbatim.
	info := fn.Info()
	type cand struct {
		obj types.Object
		def *core.V
		V   core.ByteSet
	}
	var cands []cand
	seenObj := map[types.Object]bool{}
	for _, v := range g.Vs {
		as, ok := v.AST.(*ast.AssignStmt)
		if !ok || len(as.Rhs) != 1 || len(as.Lhs) == 0 {
			continue
		}
		id, ok := ast.Unparen(as.Lhs[0]).(*ast.Ident)
		if !ok {
			continue
		}
		lv, ok := info.ObjectOf(id).(*types.Var)
		if !ok || lv.IsField() || seenObj[lv] {
			continue
		}
		if b, isB := lv.Type().Underlying().(*types.Basic); !isB || b.Kind() != types.Uint8 {
			continue
		}
		// read from the input: an element of a buffer, or Peek/ReadByte
		fromInput := false
		switch r := ast.Unparen(as.Rhs[0]).(type) {
		case *ast.IndexExpr:
			fromInput = len(as.Lhs) == 1
		case *ast.CallExpr:
			k := core.CalleeKey(info, r)
			fromInput = strings.HasSuffix(k, ".Peek") || strings.HasSuffix(k, ".ReadByte") || strings.HasSuffix(k, ".PeekByte")
		}
		if !fromInput || len(defVertices(g, lv)) != 1 {
			continue
		}
		seenObj[lv] = true
		cands = append(cands, cand{obj: lv, def: v})
	}
	if len(cands) == 0 {
		core.Undecided("%s: no byte variable read from the input found", fn.Key)
	}
	reachesTryHex := func(cd cand) core.ByteSet {
		env := byteEnvFor(c.Prog, fn, cd.obj)
		var st []*core.V
		for _, e := range cd.def.Succs {
			st = append(st, e.To)
		}
		return env.ReachSet(g, st, func(v *core.V) bool {
			if v.AST == nil {
				return false
			}
			return len(core.CallsTo(info, v.AST, false, shortPkg+".(*scanner).tryHex")) > 0
		}, func(v *core.V) bool { return v == cd.def })
	}
	main := 0
	for i := range cands {
		env := byteEnvFor(c.Prog, fn, cands[i].obj)
		var st []*core.V
		for _, e := range cands[i].def.Succs {
			st = append(st, e.To)
		}
		cd := cands[i]
		cands[i].V = env.ReachSetState(g, st, func(v *core.V, bs *core.ByteState) bool { return verbatimAt(info, v, cd.obj, bs) }, func(v *core.V) bool { return v == cd.def })
		if reachesTryHex(cands[i])['#'] {
			main = i
		}
	}
	for i := range cands {
		if i == main {
			continue
		}
		o.At(fn.Site(cands[i].def.AST, "byte under inspection (fast path)"))
		for b := 0; b < 256; b++ {
			if cands[i].V[b] && !cands[main].V[b] {
				o.Fail("%s: the path through %s keeps byte %#02x verbatim, the general path does not", fn.Key, cands[i].obj.Name(), b)
				break
			}
		}
	}
	obj := cands[main].obj
	env := byteEnvFor(c.Prog, fn, obj)
	def := cands[main].def
	o.At(fn.Site(def.AST, "byte under inspection"))
	var starts []*core.V
	for _, e := range def.Succs {
		starts = append(starts, e.To)
	}
	isDef := func(v *core.V) bool { return v == def }
	V = cands[main].V
	// '#' not followed by hex digits must be kept as a literal '#'
	hs := env.ReachSetState(g, starts, func(v *core.V, st *core.ByteState) bool {
		k, ok := constAt(fn.Info(), v, st)
		return ok && k == '#'
	}, isDef)
	hashLiteral = hs['#']
	// the '#' byte must reach a tryHex call
	th := env.ReachSet(g, starts, func(v *core.V) bool {
		if v.AST == nil {
			return false
		}
		return len(core.CallsTo(fn.Info(), v.AST, false, shortPkg+".(*scanner).tryHex")) > 0
	}, isDef)
	if !th['#'] {
		if c.Prog.FuncOpt(shortPkg, "(*scanner).tryHex") == nil {
			o.Unrec("%s: the escape decoder tryHex no longer exists as a function (folded in?): what '#' leads to is not decided", fn.Key)
			return V, hashLiteral
		}
		o.Fail("%s: '#' does not lead to tryHex", fn.Key)
	}
	for b := 0; b < 256; b++ {
		if b != '#' && th[b] {
			o.Fail("%s: byte %#02x leads to tryHex although it is not '#'", fn.Key, b)
			break
		}
	}
	return V, hashLiteral
}

// hexDigitSet: the set of bytes a package's hexDigit accepts, and a check
// that tryHex consumes exactly '#' + 2 digits.
func ruleTryHex(c *core.Ctx, o *core.Ob, shortPkg string) {
	if c.Prog.FuncOpt(shortPkg, "hexDigit") == nil {
		ruleTryHexDirect(c, o, shortPkg)
		return
	}
	hd := c.Prog.Func(shortPkg, "hexDigit")
	g := hd.Graph()
	if hd.Decl.Type.Params == nil || len(hd.Decl.Type.Params.List) != 1 {
		core.Undecided("hexDigit signature")
	}
	obj := hd.Info().ObjectOf(hd.Decl.Type.Params.List[0].Names[0])
	env := byteEnvFor(c.Prog, hd, obj)
	// accepted = reaches a return whose value is not the constant 255
	// (the value may be a constant, a local, or an entry of a constant table)
	acc := env.ReachSetState(g, []*core.V{g.Entry}, func(v *core.V, st *core.ByteState) bool {
		r, ok := v.AST.(*ast.ReturnStmt)
		if !ok || len(r.Results) != 1 {
			return false
		}
		if k, isConst := core.IntConst(hd.Info(), r.Results[0]); isConst {
			return k != 255
		}
		if k, known := st.Int(r.Results[0]); known && !st.IsByte(r.Results[0]) {
			return k != 255
		}
		return true
	}, nil)
	want := core.BytesOf("0123456789abcdefABCDEF")
	o.At(hd.Site(hd.Decl, "hexDigit"))
	if !acc.Equal(want) {
		o.Fail("%s accepts %s, want exactly [0-9A-Fa-f]", hd.Key, acc.String())
	}
	// digit values: check by reading the three arithmetic forms is value-level; we check the accepted set only.
	th := c.Prog.Func(shortPkg, "(*scanner).tryHex")
	// PeekN(3) and consumption of 3
	peek3, adv3 := false, false
	ast.Inspect(th.Decl, func(n ast.Node) bool {
		switch x := n.(type) {
		case *ast.CallExpr:
			k := core.CalleeKey(th.Info(), x)
			if strings.HasSuffix(k, ".PeekN") && len(x.Args) == 1 {
				if v, ok := core.IntConst(th.Info(), x.Args[0]); ok && v == 3 {
					peek3 = true
				}
			}
			if strings.HasSuffix(k, ".SkipN") && len(x.Args) == 1 {
				if v, ok := core.IntConst(th.Info(), x.Args[0]); ok && v == 3 {
					adv3 = true
				}
			}
		case *ast.AssignStmt:
			if x.Tok.String() == "+=" && len(x.Rhs) == 1 {
				if v, ok := core.IntConst(th.Info(), x.Rhs[0]); ok && v == 3 {
					adv3 = true
				}
			}
		}
		return true
	})
	o.At(th.Site(th.Decl, "tryHex"))
	o.Require(peek3, "%s does not peek at exactly 3 bytes ('#' + two digits)", th.Key)
	o.Require(adv3, "%s does not consume exactly 3 bytes on success", th.Key)
	// both digit positions 1 and 2 are passed to hexDigit
	idx := map[int64]bool{}
	for _, call := range core.CallsTo(th.Info(), th.Decl, false, shortPkg+".hexDigit") {
		if ix, ok := ast.Unparen(call.Args[0]).(*ast.IndexExpr); ok {
			if v, ok := core.IntConst(th.Info(), ix.Index); ok {
				idx[v] = true
			}
		}
	}
	o.Require(idx[1] && idx[2] && len(idx) == 2, "%s must decode buffer positions 1 and 2 (after the '#'), got %v", th.Key, idx)
}

// ruleNameEscape: ¬E ⊆ V, '#' ∈ E.
func ruleNameEscape(c *core.Ctx, rule, readerPkg string) {
	c.Check(rule, readerPkg+".ReadName~pdf.formatName", "every byte formatName writes raw is read back verbatim by the scanner's ReadName, '#' is always escaped, and the escape form is '#' + 2 hex digits which tryHex consumes", func(o *core.Ob) {
		E := nameEscapeSet(c, o)
		V, hashLit := nameVerbatimSet(c, o, readerPkg)
		raw := E.Not()
		// a fast path that writes the whole name as it is: the bytes that let a name pass
		fast, fastSite, fastOK := nameWholeWriteSet(c, o)
		if fastSite != nil && !fastOK {
			o.Unrec("%s: formatName writes the whole name in one piece; for which bytes this path is taken is not decided", c.Prog.Pos(fastSite.Pos()))
		}
		if fastSite != nil && fastOK {
			o.Fact("formatName writes names made only of %s in one piece", fast.String())
			if bad := fast.Minus(raw); bad.Len() > 0 {
				o.FailAt(c.Prog.Func("pdf", "formatName").Site(fastSite, ""), "a name made only of the bytes %s is written in one piece, without the escapes the byte-by-byte path gives them; the reader does not get the same name back", bad.String())
			}
			for b := 0; b < 256; b++ {
				if fast[b] {
					raw[b] = true
					E[b] = false
				}
			}
		}
		o.Fact("formatName escapes %s", E.String())
		o.Fact("%s ReadName keeps verbatim %s", readerPkg, V.String())
		o.Count(256)
		if !raw.SubsetOf(V) {
			o.Fail("bytes written raw but not read verbatim: %s", raw.Minus(V).String())
		}
		if !E['#'] {
			o.Fail("'#' is written raw by formatName but starts an escape in the reader")
		}
		// bytes that cannot be represented raw must be escaped: non-regular bytes
		nonreg := specRegular().Not()
		if !nonreg.SubsetOf(E) {
			o.Fail("non-regular bytes written raw: %s", nonreg.Minus(E).String())
		}
		_ = hashLit
		ruleTryHex(c, o, readerPkg)
	})
}

// stringEscapes extracts the writer-side escape table of formatString.
type escTable struct {
	Raw     core.ByteSet         // bytes that may be emitted raw
	Esc     core.ByteSet         // bytes that may be emitted as backslash + letter
	Letters map[int]map[int]bool // byte -> set of letters following the backslash
}

func stringWriterTable(c *core.Ctx, o *core.Ob) escTable {
	fn := c.Prog.Func("pdf", "formatString")
	g := fn.Graph()
	// the escaping loop: the range loop over bytes whose body contains a
	// branch on the byte and constant stores of '\\'
	var res escTable
	res.Letters = map[int]map[int]bool{}
	found := false
	for _, head := range g.BranchVertices() {
		if head.Cond.Range == nil || head.Cond.Range.Value == nil {
			continue
		}
		vid, ok := head.Cond.Range.Value.(*ast.Ident)
		if !ok {
			continue
		}
		obj := fn.Info().ObjectOf(vid)
		if b, ok := obj.Type().Underlying().(*types.Basic); !ok || b.Kind() != types.Uint8 {
			continue
		}
		bodyStart := succ(head, core.EdgeTrue)
		body := g.ReachFrom(bodyStart, true, core.AvoidVs(head))
		if !byteConstsIn(fn.Info(), body)['\\'] {
			continue
		}
		found = true
		o.At(fn.Site(head.Cond.Range, "escaping loop"))
		env := byteEnvFor(c.Prog, fn, obj)
		stop := func(v *core.V) bool { return v == head }
		// what one iteration emits for each byte value: "B" for the byte
		// itself, the number for a byte with a known value, "?" otherwise
		traces := env.Traces(g, []*core.V{bodyStart}, func(v *core.V, st *core.ByteState) string {
			var toks []string
			offs := storeOffsets(fn.Info(), v)
			for i, x := range sinkExprs(fn.Info(), v) {
				tok := "?"
				switch {
				case st.IsByte(x):
					tok = "B"
				default:
					if k, ok := st.Int(x); ok {
						tok = strconv.FormatInt(k, 10)
					}
				}
				// a store at position+k carries its offset: stores between two
				// updates of the position are ordered by where they land, not by
				// where they stand in the source
				if i < len(offs) && offs[i] >= 0 {
					tok = "@" + strconv.Itoa(offs[i]) + ":" + tok
				}
				toks = append(toks, tok)
			}
			if len(toks) == 0 && updatesIntVar(fn.Info(), v) {
				return "|"
			}
			return strings.Join(toks, ",")
		}, stop, 8)
		for b := 0; b < 256; b++ {
			seen := map[string]bool{}
			for t0 := range traces[b] {
				t := orderStores(t0)
				if seen[t] {
					continue
				}
				seen[t] = true
				items := strings.Split(t, ",")
				switch {
				case t == "":
					// nothing emitted on this path (state updates only)
				case len(items) == 1 && items[0] == "B":
					res.Raw[b] = true
				case len(items) == 2 && items[0] == "92":
					res.Esc[b] = true
					if res.Letters[b] == nil {
						res.Letters[b] = map[int]bool{}
					}
					if items[1] == "B" {
						res.Letters[b][b] = true
					} else if k, err := strconv.Atoi(items[1]); err == nil {
						res.Letters[b][k] = true
					} else {
						o.Fail("formatString: byte %#02x is followed after the backslash by a value the analysis cannot determine", b)
					}
				case len(items) == 1:
					if k, err := strconv.Atoi(items[0]); err == nil && k == b {
						res.Raw[b] = true // a constant equal to the byte
					} else {
						o.Fail("formatString: byte %#02x is written as the single byte %s", b, items[0])
					}
				default:
					o.Fail("formatString: byte %#02x is written as the sequence [%s], which is neither the byte itself nor backslash + one byte", b, t)
				}
			}
			if len(traces[b]) == 0 {
				o.Fail("formatString: no path through the escaping loop for byte %#02x", b)
			}
		}
		break
	}
	if !found {
		core.Undecided("formatString: escaping loop not recognised")
	}
	return res
}

// storeOffsets gives, for each sink expression of an indexed store
// buf[pos+k] = x at the vertex, the constant k (0 for buf[pos]); -1 for
// everything else.
func storeOffsets(info *types.Info, v *core.V) []int {
	s, ok := v.AST.(*ast.AssignStmt)
	if !ok {
		return nil
	}
	var out []int
	for i, r := range s.Rhs {
		if call, ok := ast.Unparen(r).(*ast.CallExpr); ok && core.CalleeKey(info, call) == "builtin.append" && !call.Ellipsis.IsValid() {
			for range call.Args[1:] {
				out = append(out, -1)
			}
			continue
		}
		if i < len(s.Lhs) && len(s.Lhs) == len(s.Rhs) {
			if ix, isIdx := ast.Unparen(s.Lhs[i]).(*ast.IndexExpr); isIdx {
				out = append(out, indexOffset(info, ix.Index))
			}
		}
	}
	return out
}

func indexOffset(info *types.Info, x ast.Expr) int {
	x = ast.Unparen(x)
	if _, ok := x.(*ast.Ident); ok {
		if tv, ok := info.Types[x]; ok && tv.Value != nil {
			return -1
		}
		return 0
	}
	if be, ok := x.(*ast.BinaryExpr); ok && be.Op == token.ADD {
		l, r := ast.Unparen(be.X), ast.Unparen(be.Y)
		if _, ok := l.(*ast.Ident); !ok {
			l, r = r, l
		}
		if _, ok := l.(*ast.Ident); ok {
			if tv, ok := info.Types[l]; ok && tv.Value != nil {
				return -1
			}
			if k, ok := core.IntConst(info, r); ok && k >= 0 && k < 64 {
				return int(k)
			}
		}
	}
	return -1
}

// updatesIntVar: the vertex assigns to a plain integer variable (a position
// counter may have moved).
func updatesIntVar(info *types.Info, v *core.V) bool {
	isInt := func(x ast.Expr) bool {
		id, ok := ast.Unparen(x).(*ast.Ident)
		if !ok {
			return false
		}
		t := info.TypeOf(id)
		if t == nil {
			return false
		}
		b, ok := t.Underlying().(*types.Basic)
		return ok && b.Info()&types.IsInteger != 0
	}
	switch s := v.AST.(type) {
	case *ast.IncDecStmt:
		return isInt(s.X)
	case *ast.AssignStmt:
		for _, l := range s.Lhs {
			if isInt(l) {
				return true
			}
		}
	}
	return false
}

// orderStores puts the stores between two position updates into the order
// of their offsets and removes the markers.
func orderStores(t string) string {
	if !strings.Contains(t, "@") && !strings.Contains(t, "|") {
		return t
	}
	var out []string
	var run []string
	flush := func() {
		sort.SliceStable(run, func(i, j int) bool {
			a, _ := strconv.Atoi(run[i][1:strings.Index(run[i], ":")])
			b, _ := strconv.Atoi(run[j][1:strings.Index(run[j], ":")])
			return a < b
		})
		for _, r := range run {
			out = append(out, r[strings.Index(r, ":")+1:])
		}
		run = nil
	}
	for _, it := range strings.Split(t, ",") {
		switch {
		case strings.HasPrefix(it, "@"):
			run = append(run, it)
		case it == "|":
			flush()
		case it == "":
		default:
			flush()
			out = append(out, it)
		}
	}
	flush()
	return strings.Join(out, ",")
}

// stringReaderTable extracts the reader side: the set of bytes read
// verbatim, and the escape-letter map.
type readTable struct {
	Ident    core.ByteSet // raw bytes appended unchanged
	EscConst map[int]int  // letter -> byte appended
	EscIdent core.ByteSet // letters appended unchanged
	EscNone  core.ByteSet // letters producing nothing (line continuation)
	Octal    core.ByteSet // letters starting an octal escape
	CRtoLF   bool
}

func stringReaderTable(c *core.Ctx, o *core.Ob, shortPkg string) readTable {
	fn := c.Prog.Func(shortPkg, "(*scanner).ReadString")
	g := fn.Graph()
	var rt readTable
	rt.EscConst = map[int]int{}
	// outer byte: first variable assigned from a ReadByte call
	type bdef struct {
		v   *core.V
		obj types.Object
	}
	var defs []bdef
	for _, v := range g.Vs {
		as, ok := v.AST.(*ast.AssignStmt)
		if !ok || len(as.Rhs) != 1 {
			continue
		}
		call, ok := as.Rhs[0].(*ast.CallExpr)
		if !ok || !strings.HasSuffix(core.CalleeKey(fn.Info(), call), ".ReadByte") {
			continue
		}
		if id, ok := as.Lhs[0].(*ast.Ident); ok {
			defs = append(defs, bdef{v, fn.Info().ObjectOf(id)})
		}
	}
	if len(defs) < 2 {
		core.Undecided("%s: expected an outer and an escape ReadByte, found %d", fn.Key, len(defs))
	}
	// order by position
	if defs[0].v.AST.Pos() > defs[1].v.AST.Pos() {
		defs[0], defs[1] = defs[1], defs[0]
	}
	outer, esc := defs[0], defs[1]
	o.At(fn.Site(outer.v.AST, "raw byte"))
	o.At(fn.Site(esc.v.AST, "escape letter"))
	isDef := func(v *core.V) bool { return v == outer.v || v == esc.v }
	starts := func(d *core.V) []*core.V {
		var s []*core.V
		for _, e := range d.Succs {
			s = append(s, e.To)
		}
		return s
	}
	envO := byteEnvFor(c.Prog, fn, outer.obj)
	rt.Ident = envO.ReachSetState(g, starts(outer.v), func(v *core.V, st *core.ByteState) bool { return verbatimAt(fn.Info(), v, outer.obj, st) }, isDef)
	// CR normalisation: raw CR appends constant LF
	crlf := envO.ReachSetState(g, starts(outer.v), func(v *core.V, st *core.ByteState) bool {
		k, ok := constAt(fn.Info(), v, st)
		return ok && k == '\n'
	}, isDef)
	rt.CRtoLF = crlf['\r']
	// which raw bytes lead to the escape read
	toEsc := envO.ReachSet(g, starts(outer.v), func(v *core.V) bool { return v == esc.v }, func(v *core.V) bool { return v == outer.v })
	for b := 0; b < 256; b++ {
		if toEsc[b] != (b == '\\') {
			o.Fail("%s: raw byte %#02x %s the escape reader", fn.Key, b, map[bool]string{true: "enters", false: "does not enter"}[toEsc[b]])
			break
		}
	}
	envE := byteEnvFor(c.Prog, fn, esc.obj)
	rt.EscIdent = envE.ReachSetState(g, starts(esc.v), func(v *core.V, st *core.ByteState) bool { return verbatimAt(fn.Info(), v, esc.obj, st) }, isDef)
	consts := byteConstsIn(fn.Info(), g.ReachFrom(esc.v, false, core.AvoidVs(outer.v)))
	// constants that come out of a lookup table indexed by the escape letter
	for v := range g.ReachFrom(esc.v, false, core.AvoidVs(outer.v)) {
		var root ast.Node = v.AST
		if root == nil && v.Cond != nil && v.Cond.Expr != nil {
			root = v.Cond.Expr
		}
		if root == nil {
			continue
		}
		if _, isLoop := root.(*ast.ForStmt); isLoop {
			continue
		}
		if _, isLoop := root.(*ast.RangeStmt); isLoop {
			continue
		}
		ast.Inspect(root, func(n ast.Node) bool {
			x, ok := n.(ast.Expr)
			if !ok {
				return true
			}
			for _, k := range tableValues(c.Prog, fn.Info(), x) {
				if k >= 0 && k < 256 {
					consts[k] = true
				}
			}
			return true
		})
	}
	for k := range consts {
		k := k
		s := envE.ReachSetState(g, starts(esc.v), func(v *core.V, st *core.ByteState) bool {
			kk, ok := constAt(fn.Info(), v, st)
			return ok && kk == k
		}, isDef)
		for b := 0; b < 256; b++ {
			if s[b] {
				if old, dup := rt.EscConst[b]; dup && old != int(k) {
					o.Fail("%s: escape letter %q maps to two different bytes", fn.Key, rune(b))
				}
				rt.EscConst[b] = int(k)
			}
		}
	}
	// octal: letters that reach a store of a non-constant, non-verbatim value
	rt.Octal = envE.ReachSet(g, starts(esc.v), func(v *core.V) bool {
		as, ok := v.AST.(*ast.AssignStmt)
		if !ok {
			return false
		}
		// (the append may be one of several values assigned at once: res, flag, err = append(res, x), false, nil)
		var call *ast.CallExpr
		for _, r := range as.Rhs {
			if cl, isCall := ast.Unparen(r).(*ast.CallExpr); isCall && core.CalleeKey(fn.Info(), cl) == "builtin.append" && len(cl.Args) == 2 {
				call = cl
			}
		}
		if call == nil {
			return false
		}
		if _, isConst := core.IntConst(fn.Info(), call.Args[1]); isConst {
			return false
		}
		if tableValues(c.Prog, fn.Info(), call.Args[1]) != nil {
			return false // a replacement byte looked up in a table, not a computed code
		}
		id, isID := call.Args[1].(*ast.Ident)
		if isID && (fn.Info().ObjectOf(id) == esc.obj || fn.Info().ObjectOf(id) == outer.obj) {
			return false
		}
		if isID {
			// a local that only ever holds the result of a table lookup (c := stringEscape[esc])
			if obj := fn.Info().ObjectOf(id); obj != nil {
				defs := defVertices(g, obj)
				fromTable := len(defs) > 0
				for _, d := range defs {
					okDef := false
					switch x := d.AST.(type) {
					case *ast.AssignStmt:
						for i, l := range x.Lhs {
							if core.ObjOf(fn.Info(), l) == obj && len(x.Lhs) == len(x.Rhs) && tableValues(c.Prog, fn.Info(), x.Rhs[i]) != nil {
								okDef = true
							}
						}
					}
					if !okDef {
						fromTable = false
					}
				}
				if fromTable {
					return false
				}
			}
		}
		return true
	}, isDef)
	return rt
}

// ruleStringEscapes compares formatString with a scanner's ReadString.
func ruleStringEscapes(c *core.Ctx, rule, readerPkg string) {
	c.Check(rule, readerPkg+".ReadString~pdf.formatString", "literal-string escape tables of writer and reader are inverse: raw bytes are read verbatim, every escape letter maps back to the escaped byte, reader-special bytes are never written raw", func(o *core.Ob) {
		w := stringWriterTable(c, o)
		r := stringReaderTable(c, o, readerPkg)
		o.Fact("writer raw=%s esc=%s", w.Raw.String(), w.Esc.String())
		o.Fact("reader verbatim=%s escIdent=%d letters const=%v octal=%s", r.Ident.String(), r.EscIdent.Len(), r.EscConst, r.Octal.String())
		o.Count(256)
		all := core.ByteRange(0, 255)
		if !w.Raw.Union(w.Esc).Equal(all) {
			o.Fail("bytes that formatString neither writes raw nor escapes: %s", all.Minus(w.Raw.Union(w.Esc)).String())
		}
		if !w.Raw.SubsetOf(r.Ident) {
			o.Fail("bytes formatString may write raw but %s.ReadString does not read verbatim: %s", readerPkg, w.Raw.Minus(r.Ident).String())
		}
		for b := 0; b < 256; b++ {
			if !w.Esc[b] {
				continue
			}
			ls := w.Letters[b]
			if len(ls) != 1 {
				o.Fail("byte %#02x has %d escape letters on the writer side", b, len(ls))
				continue
			}
			for l := range ls {
				if l < 0 || l > 255 {
					o.Fail("escape letter out of range")
					continue
				}
				if v, ok := r.EscConst[l]; ok {
					if v != b {
						o.Fail("writer escapes byte %#02x as \\%c, reader decodes \\%c to %#02x", b, l, l, v)
					}
				} else if r.EscIdent[l] {
					if l != b {
						o.Fail("writer escapes byte %#02x as \\%c, reader decodes \\%c to itself", b, l, l)
					}
				} else {
					o.Fail("writer escapes byte %#02x as \\%c, which the reader does not decode to a byte", b, l)
				}
			}
		}
		// unbalanced parentheses, backslash and CR can only be represented escaped
		for _, b := range []byte{'(', ')', '\\', '\r'} {
			if !w.Esc[b] {
				o.Fail("byte %q is never escaped by formatString", b)
			}
		}
		if w.Raw['\\'] || w.Raw['\r'] {
			o.Fail("backslash or CR may be written raw")
		}
		// reader side against ISO 32000-2 Table 3
		want := map[int]int{'n': '\n', 'r': '\r', 't': '\t', 'b': '\b', 'f': '\f'}
		for l, b := range want {
			if r.EscConst[l] != b {
				o.Fail("%s.ReadString: \\%c decodes to %#02x, ISO 32000-2 Table 3 says %#02x", readerPkg, l, r.EscConst[l], b)
			}
		}
		if !r.Octal.Equal(core.BytesOf("01234567")) {
			o.Fail("%s.ReadString: octal escapes start with %s, want 0-7", readerPkg, r.Octal.String())
		}
		for _, b := range []byte{'(', ')', '\\'} {
			if !r.EscIdent[b] {
				o.Fail("%s.ReadString: \\%c is not decoded to %c", readerPkg, b, b)
			}
		}
		if !r.CRtoLF {
			o.Fail("%s.ReadString: an unescaped CR is not normalised to LF (7.3.4.2)", readerPkg)
		}
	})
}

// tableValues: e is table[i] or table[i].field for a package-level table of
// constants; the values the table holds (nil otherwise).
func tableValues(p *core.Program, info *types.Info, e ast.Expr) []int64 {
	e = ast.Unparen(e)
	if sel, ok := e.(*ast.SelectorExpr); ok {
		if ix, ok := ast.Unparen(sel.X).(*ast.IndexExpr); ok {
			if obj := core.ObjOf(info, ix.X); obj != nil {
				return p.ConstFieldTableOf(obj, sel.Sel.Name)
			}
		}
		return nil
	}
	if ix, ok := e.(*ast.IndexExpr); ok {
		if obj := core.ObjOf(info, ix.X); obj != nil {
			return p.ConstTableOf(obj)
		}
	}
	return nil
}

// ruleTryHexDirect: tryHex without a hexDigit helper (the digits are looked
// up in a table, or tested in place).  For each of the two digit positions the
// bytes for which a successful return stays reachable are explored with the
// other position unknown; both sets must be [0-9A-Fa-f].
func ruleTryHexDirect(c *core.Ctx, o *core.Ob, shortPkg string) {
	th := c.Prog.Func(shortPkg, "(*scanner).tryHex")
	g := th.Graph()
	info := th.Info()
	want := core.BytesOf("0123456789abcdefABCDEF")
	o.At(th.Site(th.Decl, "tryHex"))
	// a local to hang the exploration on (the byte is reached through the alias)
	var anyLocal types.Object
	ast.Inspect(th.Decl.Body, func(n ast.Node) bool {
		if id, ok := n.(*ast.Ident); ok && anyLocal == nil {
			if v, ok := info.Defs[id].(*types.Var); ok {
				anyLocal = v
			}
		}
		return anyLocal == nil
	})
	for _, pos := range []int64{1, 2} {
		pos := pos
		env := &core.ByteEnv{Info: info, Tables: map[types.Object][]int64{}, Prog: c.Prog}
		env.Alias = func(e ast.Expr) bool {
			ix, ok := ast.Unparen(e).(*ast.IndexExpr)
			if !ok {
				return false
			}
			k, isK := core.IntConst(info, ix.Index)
			_, isID := ast.Unparen(ix.X).(*ast.Ident)
			return isK && isID && k == pos
		}
		env.Var = types.NewVar(token.NoPos, th.Pkg.Types, "digit", types.Typ[types.Uint8])
		acc := env.ReachSet(g, []*core.V{g.Entry}, func(v *core.V) bool {
			r, ok := v.AST.(*ast.ReturnStmt)
			if !ok || len(r.Results) != 2 {
				return false
			}
			cv := core.ConstOf(info, r.Results[1])
			return cv != nil && cv.Kind() == constant.Bool && constant.BoolVal(cv)
		}, nil)
		o.Count(256)
		if !acc.Equal(want) {
			o.Fail("%s accepts %s as hex digit %d after '#', want exactly [0-9A-Fa-f]", th.Key, acc.String(), pos)
		}
	}
	peek3, adv3 := false, false
	ast.Inspect(th.Decl, func(n ast.Node) bool {
		switch x := n.(type) {
		case *ast.CallExpr:
			k := core.CalleeKey(info, x)
			if strings.HasSuffix(k, ".PeekN") && len(x.Args) == 1 {
				if v, ok := core.IntConst(info, x.Args[0]); ok && v == 3 {
					peek3 = true
				}
			}
			if strings.HasSuffix(k, ".SkipN") && len(x.Args) == 1 {
				if v, ok := core.IntConst(info, x.Args[0]); ok && v == 3 {
					adv3 = true
				}
			}
		case *ast.AssignStmt:
			if x.Tok == token.ADD_ASSIGN && len(x.Rhs) == 1 {
				if v, ok := core.IntConst(info, x.Rhs[0]); ok && v == 3 {
					adv3 = true
				}
			}
		}
		return true
	})
	o.Require(peek3, "%s does not peek at exactly 3 bytes ('#' + two digits)", th.Key)
	o.Require(adv3, "%s does not consume exactly 3 bytes on success", th.Key)
	_ = anyLocal
}
