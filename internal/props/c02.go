package props

import (
	"go/ast"
	"go/token"
	"go/types"
	"sort"
	"strings"

	"pdfverif/internal/core"
)

func init() {
	register(&Property{
		ID:       "C02",
		Patterns: []string{"."},
		Run:      runC02,
		Explanation: "Static rules on the file round trip: (R1) an interprocedural may-write-through-argument analysis (SSA, summaries over the resolved call graph) shows that no function reachable from Writer.Put/WriteCompressed/OpenStream/pdf.Format stores through memory reachable from the caller's objects (the RC4 in-place encryption defect was found and fixed by this rule); " +
			"(R2) write-state (inStream) guards on every object-writing entry point; (R3) both xref writers emit an entry for every object number below nextRef, including a free entry for unwritten numbers, and writer and reader agree on the three xref-stream entry kinds; " +
			"(R4) Catalog.Encode/DecodeCatalog and Info.Embed/ExtractInfo use the same dictionary key for the same struct field (relations extracted from both sides and compared); (R5) the version thresholds that switch on object streams, xref streams and UTF-8 text strings are the versions that introduce them, and WriteCompressed falls back to Put without object streams. " +
			"Decides these structural clauses for all write programs; does NOT decide byte-identical stream data, /W sizing arithmetic or filter chains (C06).",
		Assumptions: []string{"append into spare capacity of a caller-owned slice is not modelled (documented limitation of the alias tracking)",
			"library functions outside the module mutate an argument only when listed in the mutator table (XORKeyStream, CryptBlocks, Encrypt/Decrypt, binary.Put*, sort.*, slices.Sort*, copy, Read/ReadFull/ReadAt destinations, rand.Read)"},
	})
}

func runC02(c *core.Ctx) {
	ruleNoArgMutation(c, "C02-R1")
	ruleInStreamGuards(c, "C02-R2")
	ruleXRefCompleteness(c)
	ruleKeyFieldAgreement(c)
	ruleOptionTables(c)
	ruleStringEncryptionUnconditional(c, "C02-R6")
}

func ruleXRefCompleteness(c *core.Ctx) {
	const rule = "C02-R3"
	c.Check(rule, "pdf.(*Writer).writeXRefStream/free", "references allocated but never written read as null: the xref stream writes a type-0 row for a missing entry", func(o *core.Ob) {
		fn := c.Prog.Func("pdf", "(*Writer).writeXRefStream")
		g := fn.Graph()
		info := fn.Info()
		heads := loopHeads(g)
		if len(heads) < 2 {
			core.Undecided("writing loop not found")
		}
		head := heads[1]
		entry := localVar(fn, "entry", 1)
		// the edge entry == nil leads to WriteByte(0)
		var nilEdge []core.EdgeRef
		for _, bv := range g.BranchVertices() {
			for _, l := range []core.EdgeLabel{core.EdgeTrue, core.EdgeFalse} {
				for _, a := range bv.Implied(l) {
					cmp, ok := a.AsCmp()
					if ok && cmp.Op == token.EQL && core.ObjOf(info, cmp.L) == entry && core.IsNil(info, cmp.R) {
						if g.ReachFrom(succ(head, core.EdgeTrue), true, core.AvoidVs(head))[bv] {
							nilEdge = append(nilEdge, core.EdgeRef{From: bv, Label: l})
						}
					}
				}
			}
		}
		o.Count(1)
		if len(nilEdge) == 0 {
			o.Fail("the row loop has no branch for a missing entry")
			return
		}
		o.At(fn.Site(nilEdge[0].From.AST, "entry == nil"))
		ok := false
		for _, v := range g.Vs {
			if v.AST == nil {
				continue
			}
			for _, cs := range core.CallsIn(info, v.AST, false) {
				if strings.HasSuffix(cs.Key, ".WriteByte") {
					if k, isK := core.IntConst(info, cs.Call.Args[0]); isK && k == 0 && g.EdgeDominates(v, nilEdge...) {
						ok = true
					}
				}
			}
		}
		o.Require(ok, "a missing entry is not written as a type-0 (free) row")
		// the nil branch must not skip the row
		for _, e := range nilEdge {
			st := succ(e.From, e.Label)
			r := g.ReachFrom(st, true, core.AvoidVs(head))
			wrote := false
			for v := range r {
				if v.AST != nil && len(core.CallsTo(info, v.AST, false, "pdf.encodeInt64")) > 0 {
					wrote = true
				}
			}
			o.Require(wrote, "the missing-entry branch writes no row")
		}
	})
	c.Check(rule, "pdf.xref-entry-kinds", "writer and reader agree on the three xref-stream entry kinds (0 free, 1 in use, 2 compressed) and on which field carries offset/generation/stream number/index", func(o *core.Ob) {
		fn := c.Prog.Func("pdf", "(*Writer).writeXRefStream")
		g := fn.Graph()
		info := fn.Info()
		heads := loopHeads(g)
		if len(heads) < 2 {
			core.Undecided("writing loop not found")
		}
		head := heads[1]
		body := g.ReachFrom(succ(head, core.EdgeTrue), true, core.AvoidVs(head))
		// per type byte value: the expressions passed with w2 and w3
		type row struct{ f2, f3 string }
		rows := map[int64][]row{}
		w2 := localVar(fn, "w2", 0)
		w3 := localVar(fn, "w3", 0)
		errE := errNotNilEdges(g)
		for v := range body {
			if v.AST == nil {
				continue
			}
			for _, cs := range core.CallsIn(info, v.AST, false) {
				if !strings.HasSuffix(cs.Key, ".WriteByte") {
					continue
				}
				k, ok := core.IntConst(info, cs.Call.Args[0])
				if !ok {
					continue
				}
				// the next two encodeInt64 calls on the error-free path
				var r row
				cur := v
				for step := 0; step < 2; step++ {
					var next *core.V
					reach := g.ReachFrom(cur, false, core.AvoidEdges(errE...).With(head))
					for x := range reach {
						if x.AST == nil {
							continue
						}
						for _, c2 := range core.CallsIn(info, x.AST, false) {
							if c2.Key == "pdf.encodeInt64" {
								if next == nil || x.AST.Pos() < next.AST.Pos() {
									next = x
								}
							}
						}
					}
					if next == nil {
						break
					}
					for _, c2 := range core.CallsIn(info, next.AST, false) {
						if c2.Key == "pdf.encodeInt64" {
							switch core.ObjOf(info, c2.Call.Args[2]) {
							case w2:
								r.f2 = core.ExprStr(c2.Call.Args[1])
							case w3:
								r.f3 = core.ExprStr(c2.Call.Args[1])
							}
						}
					}
					cur = next
				}
				rows[k] = append(rows[k], r)
				o.At(fn.Site(cs.Call, "row type "+itoa(int(k))+" f2="+r.f2+" f3="+r.f3))
			}
		}
		for _, r := range rows[1] {
			o.Require(strings.Contains(r.f2, "entry.Pos") && strings.Contains(r.f3, "entry.Generation"), "type-1 row must carry (offset, generation), got (%s, %s)", r.f2, r.f3)
		}
		for _, r := range rows[2] {
			o.Require(strings.Contains(r.f2, "InStream.Number()") && strings.Contains(r.f3, "entry.Pos"), "type-2 row must carry (stream number, index), got (%s, %s)", r.f2, r.f3)
		}
		for _, r := range rows[0] {
			o.Require(r.f2 == "0", "type-0 row must carry next-free 0 in field 2, got %s", r.f2)
		}
		o.Require(len(rows[0]) >= 1 && len(rows[1]) == 1 && len(rows[2]) == 1, "expected rows of types 0, 1 and 2, got %d/%d/%d", len(rows[0]), len(rows[1]), len(rows[2]))
		// selection conditions
		for v := range body {
			if v.AST == nil {
				continue
			}
			for _, cs := range core.CallsIn(info, v.AST, false) {
				if !strings.HasSuffix(cs.Key, ".WriteByte") {
					continue
				}
				k, _ := core.IntConst(info, cs.Call.Args[0])
				switch k {
				case 1:
					ok := g.GuardedBy(v, func(a core.Atom) bool {
						cmp, ok := a.AsCmp()
						return ok && cmp.Op == token.EQL && strings.Contains(core.ExprStr(cmp.L), "InStream") && isZero(info, cmp.R)
					})
					o.Require(ok, "a type-1 row is written for an entry whose InStream is not known to be zero")
				case 2:
					ok := g.GuardedBy(v, func(a core.Atom) bool {
						cmp, ok := a.AsCmp()
						return ok && cmp.Op == token.NEQ && strings.Contains(core.ExprStr(cmp.L), "InStream") && isZero(info, cmp.R)
					})
					o.Require(ok, "a type-2 row is written for an entry that is not in an object stream")
				}
			}
		}
	})
	c.Check(rule, "pdf.(*Writer).setXRef", "an object number is registered at most once and nextRef stays above every registered number", func(o *core.Ob) {
		fn := c.Prog.Func("pdf", "(*Writer).setXRef")
		g := fn.Graph()
		info := fn.Info()
		var store *core.V
		for _, v := range g.Vs {
			if as, ok := v.AST.(*ast.AssignStmt); ok {
				if ix, ok := as.Lhs[0].(*ast.IndexExpr); ok && strings.HasSuffix(core.ExprStr(ix.X), ".xref") {
					store = v
					o.At(fn.Site(as, "xref store"))
				}
			}
		}
		if store == nil {
			o.Count(1)
			o.Fail("setXRef does not store the entry")
			return
		}
		dup := g.GuardedBy(store, func(a core.Atom) bool {
			id, ok := ast.Unparen(a.Expr).(*ast.Ident)
			return ok && a.Neg && id.Name == "seen"
		})
		o.Require(dup, "an existing entry can be overwritten (duplicate object numbers)")
		bump := false
		for _, v := range g.Vs {
			if as, ok := v.AST.(*ast.AssignStmt); ok && strings.HasSuffix(core.ExprStr(as.Lhs[0]), ".nextRef") {
				if strings.Contains(core.ExprStr(as.Rhs[0]), "Number() + 1") {
					bump = true
				}
			}
		}
		_ = info
		o.Require(bump, "nextRef is not raised above an explicitly registered number")
	})
}

func isZero(info *types.Info, e ast.Expr) bool {
	k, ok := core.IntConst(info, e)
	return ok && k == 0
}

// keysDerived returns the dictionary keys from which expr is derived
// (directly dict["K"], or through local variables assigned from such).
func keysDerived(fn *core.Func, e ast.Expr, depth int, seen map[types.Object]bool) map[string]bool {
	out := map[string]bool{}
	if depth == 0 || e == nil {
		return out
	}
	info := fn.Info()
	ast.Inspect(e, func(n ast.Node) bool {
		switch x := n.(type) {
		case *ast.IndexExpr:
			if k, ok := core.StringConst(info, x.Index); ok {
				if _, isMap := info.TypeOf(x.X).Underlying().(*types.Map); isMap {
					out[k] = true
				}
			}
		case *ast.Ident:
			obj := info.ObjectOf(x)
			v, isVar := obj.(*types.Var)
			if !isVar || v.IsField() || seen[obj] || v.Pkg() == nil || v.Parent() == v.Pkg().Scope() {
				return true
			}
			seen[obj] = true
			for _, d := range core.AssignsTo(info, fn.Decl, obj) {
				var rhs []ast.Expr
				switch s := d.(type) {
				case *ast.AssignStmt:
					rhs = s.Rhs
				case *ast.ValueSpec:
					rhs = s.Values
				}
				for _, r := range rhs {
					for k := range keysDerived(fn, r, depth-1, seen) {
						out[k] = true
					}
				}
			}
			// type-switch binding: switch v := dict["K"].(type)
			ast.Inspect(fn.Decl.Body, func(m ast.Node) bool {
				ts, ok := m.(*ast.TypeSwitchStmt)
				if !ok {
					return true
				}
				for _, cl := range ts.Body.List {
					if info.Implicits[cl] == obj {
						if as, ok := ts.Assign.(*ast.AssignStmt); ok {
							for k := range keysDerived(fn, as.Rhs[0], depth-1, seen) {
								out[k] = true
							}
						}
					}
				}
				return true
			})
		}
		return true
	})
	return out
}

// fieldsMentioned returns the fields of the receiver/struct variable obj
// that occur in e (as obj.F).
func fieldsMentioned(info *types.Info, e ast.Node, obj types.Object) map[string]bool {
	out := map[string]bool{}
	ast.Inspect(e, func(n ast.Node) bool {
		if se, ok := n.(*ast.SelectorExpr); ok {
			if core.ObjOf(info, se.X) == obj {
				if sel := info.Selections[se]; sel != nil && sel.Kind() == types.FieldVal {
					out[se.Sel.Name] = true
				}
			}
		}
		return true
	})
	return out
}

// encodeRelation extracts {(field, key)} from an encoder: statements
// dict[K] = rhs where rhs (or, failing that, the enclosing conditions)
// mention recv.Field; plus composite literal entries.
func encodeRelation(fn *core.Func, recv types.Object) map[string]map[string]bool {
	info := fn.Info()
	rel := map[string]map[string]bool{}
	add := func(f, k string) {
		if rel[f] == nil {
			rel[f] = map[string]bool{}
		}
		rel[f][k] = true
	}
	var stack []ast.Node
	ast.Inspect(fn.Decl.Body, func(n ast.Node) bool {
		if n == nil {
			stack = stack[:len(stack)-1]
			return true
		}
		stack = append(stack, n)
		handle := func(k string, rhs ast.Expr) {
			fs := fieldsMentioned(info, rhs, recv)
			if len(fs) == 0 {
				// innermost enclosing if condition mentioning a receiver field
				for i := len(stack) - 1; i >= 0 && len(fs) == 0; i-- {
					if is, ok := stack[i].(*ast.IfStmt); ok {
						fs = fieldsMentioned(info, is.Cond, recv)
						if len(fs) == 0 && is.Init != nil {
							fs = fieldsMentioned(info, is.Init, recv)
						}
					}
				}
			}
			for f := range fs {
				add(f, k)
			}
		}
		switch s := n.(type) {
		case *ast.AssignStmt:
			for i, l := range s.Lhs {
				if _, k, ok := core.MapIndexKey(info, l); ok && i < len(s.Rhs) {
					handle(k, s.Rhs[i])
				}
			}
		case *ast.KeyValueExpr:
			if k, ok := core.StringConst(info, s.Key); ok {
				if len(stack) >= 2 {
					if cl, ok := stack[len(stack)-2].(*ast.CompositeLit); ok && core.IsNamed(info.TypeOf(cl), "pdf", "Dict") {
						handle(k, s.Value)
					}
				}
			}
		}
		return true
	})
	return rel
}

// decodeRelation extracts {(field, key)} from a decoder that builds the
// struct: composite literal fields and assignments x.F = ... / x.F.Set(...).
func decodeRelation(fn *core.Func, structName string) map[string]map[string]bool {
	info := fn.Info()
	rel := map[string]map[string]bool{}
	add := func(f string, ks map[string]bool) {
		if rel[f] == nil {
			rel[f] = map[string]bool{}
		}
		for k := range ks {
			rel[f][k] = true
		}
	}
	var stack []ast.Node
	ast.Inspect(fn.Decl.Body, func(n ast.Node) bool {
		if n == nil {
			stack = stack[:len(stack)-1]
			return true
		}
		stack = append(stack, n)
		enclosingKeys := func() map[string]bool {
			ks := map[string]bool{}
			for i := len(stack) - 1; i >= 0 && len(ks) == 0; i-- {
				if is, ok := stack[i].(*ast.IfStmt); ok {
					if is.Init != nil {
						if as, ok := is.Init.(*ast.AssignStmt); ok {
							for _, r := range as.Rhs {
								for k := range keysDerived(fn, r, 3, map[types.Object]bool{}) {
									ks[k] = true
								}
							}
						}
					}
					for k := range keysDerived(fn, is.Cond, 3, map[types.Object]bool{}) {
						ks[k] = true
					}
				}
			}
			return ks
		}
		switch s := n.(type) {
		case *ast.CompositeLit:
			if t := info.TypeOf(s); t != nil && core.IsNamed(t, "pdf", structName) {
				for _, el := range s.Elts {
					if kv, ok := el.(*ast.KeyValueExpr); ok {
						if id, ok := kv.Key.(*ast.Ident); ok {
							add(id.Name, keysDerived(fn, kv.Value, 8, map[types.Object]bool{}))
						}
					}
				}
			}
		case *ast.AssignStmt:
			for i, l := range s.Lhs {
				se, ok := ast.Unparen(l).(*ast.SelectorExpr)
				if !ok {
					continue
				}
				if t := info.TypeOf(se.X); t != nil && core.IsNamed(t, "pdf", structName) && i < len(s.Rhs) {
					ks := keysDerived(fn, s.Rhs[i], 8, map[types.Object]bool{})
					if len(ks) == 0 {
						ks = enclosingKeys()
					}
					add(se.Sel.Name, ks)
				}
			}
		case *ast.CallExpr:
			// info.Trapped.Set(...)
			if se, ok := s.Fun.(*ast.SelectorExpr); ok {
				if inner, ok := se.X.(*ast.SelectorExpr); ok {
					if t := info.TypeOf(inner.X); t != nil && core.IsNamed(t, "pdf", structName) {
						if sel := info.Selections[inner]; sel != nil && sel.Kind() == types.FieldVal {
							add(inner.Sel.Name, enclosingKeys())
						}
					}
				}
			}
		}
		return true
	})
	return rel
}

func relString(rel map[string]map[string]bool) []string {
	var out []string
	for f, ks := range rel {
		out = append(out, f+"<->"+joinSet(ks))
	}
	sort.Strings(out)
	return out
}

func ruleKeyFieldAgreement(c *core.Ctx) {
	const rule = "C02-R4"
	type pair struct {
		enc, dec, typ string
		skipFields    map[string]bool
		minFields     int
	}
	for _, p := range []pair{
		{"(*Catalog).Encode", "DecodeCatalog", "Catalog", map[string]bool{}, 28},
		{"(*Info).Embed", "ExtractInfo", "Info", map[string]bool{"Custom": true}, 9},
	} {
		p := p
		c.Check(rule, "pdf."+p.typ, "the encoder and the decoder of "+p.typ+" use the same dictionary key for the same struct field", func(o *core.Ob) {
			enc := c.Prog.Func("pdf", p.enc)
			dec := c.Prog.Func("pdf", p.dec)
			recv := enc.Info().ObjectOf(enc.Decl.Recv.List[0].Names[0])
			er := encodeRelation(enc, recv)
			dr := decodeRelation(dec, p.typ)
			o.At(enc.Site(enc.Decl, "encoder"))
			o.At(dec.Site(dec.Decl, "decoder"))
			for _, s := range relString(er) {
				o.Fact("enc %s", s)
			}
			n := 0
			for f, eks := range er {
				if p.skipFields[f] {
					continue
				}
				delete(eks, "Type")
				dks := dr[f]
				if len(eks) == 0 {
					continue
				}
				n++
				o.Count(1)
				if len(dks) == 0 {
					o.Fail("field %s is written under /%s but the decoder never fills it", f, joinSet(eks))
					continue
				}
				if joinSet(eks) != joinSet(dks) {
					o.Fail("field %s is written under /%s but read from /%s", f, joinSet(eks), joinSet(dks))
				}
			}
			for f, dks := range dr {
				if p.skipFields[f] || len(dks) == 0 {
					continue
				}
				if len(er[f]) == 0 {
					o.Fail("field %s is read from /%s but never written by the encoder", f, joinSet(dks))
				}
			}
			o.Require(n >= p.minFields, "only %d field/key pairs recognised, expected at least %d", n, p.minFields)
		})
	}
}

func ruleOptionTables(c *core.Ctx) {
	const rule = "C02-R5"
	c.Check(rule, "pdf.defaultOutputOptions", "object streams and cross-reference streams are enabled from PDF 1.5, UTF-8 text strings from PDF 2.0 (the versions that introduce them)", func(o *core.Ob) {
		fn := c.Prog.Func("pdf", "defaultOutputOptions")
		g := fn.Graph()
		info := fn.Info()
		want := map[string]string{"optObjStm": "V1_5", "optXRefStream": "V1_5", "OptTextStringUtf8": "V2_0"}
		got := map[string]string{}
		for _, v := range g.Vs {
			as, ok := v.AST.(*ast.AssignStmt)
			if !ok || as.Tok != token.OR_ASSIGN {
				continue
			}
			flag := core.ExprStr(as.Rhs[0])
			o.At(fn.Site(as, "enables "+flag))
			for _, bv := range g.BranchVertices() {
				if !g.EdgeDominates(v, core.EdgeRef{From: bv, Label: core.EdgeTrue}) {
					continue
				}
				for _, a := range bv.Implied(core.EdgeTrue) {
					cmp, ok := a.AsCmp()
					if ok && cmp.Op == token.GEQ {
						got[flag] = core.ExprStr(cmp.R)
					}
				}
			}
			_ = info
		}
		for f, v := range want {
			if got[f] != v {
				o.Fail("%s is enabled for versions >= %q, want >= %s", f, got[f], v)
			}
		}
		// constants have the right order: V1_5 < V2_0 etc. (iota order)
		o.Require(c.Prog.ConstInt("pdf", "V1_5") < c.Prog.ConstInt("pdf", "V2_0") && c.Prog.ConstInt("pdf", "V1_4") < c.Prog.ConstInt("pdf", "V1_5"), "version constants are not ordered")
	})
	c.Check(rule, "pdf.NewWriter/human-readable", "HumanReadable output switches object streams and xref streams off together", func(o *core.Ob) {
		fn := c.Prog.Func("pdf", "NewWriter")
		found := false
		ast.Inspect(fn.Decl.Body, func(n ast.Node) bool {
			if as, ok := n.(*ast.AssignStmt); ok && as.Tok == token.AND_ASSIGN {
				s := core.ExprStr(as.Rhs[0])
				if strings.Contains(s, "optObjStm") || strings.Contains(s, "optXRefStream") {
					o.At(fn.Site(as, "clears "+s))
					found = strings.Contains(s, "optObjStm") && strings.Contains(s, "optXRefStream")
					if !found {
						o.Fail("HumanReadable clears only one of optObjStm/optXRefStream: xref tables cannot describe object streams")
					}
				}
			}
			return true
		})
		o.Require(found, "HumanReadable does not disable object and xref streams")
	})
	c.Check(rule, "pdf.(*Writer).Close/xref-kind", "the cross-reference section kind follows optXRefStream, and WriteCompressed uses object streams only with optObjStm", func(o *core.Ob) {
		fn := c.Prog.Func("pdf", "(*Writer).Close")
		g := fn.Graph()
		info := fn.Info()
		has := func(a core.Atom, flag string, neg bool) bool {
			call, ok := ast.Unparen(a.Expr).(*ast.CallExpr)
			if !ok || a.Neg != neg || !strings.HasSuffix(core.CalleeKey(info, call), ".HasAny") {
				return false
			}
			return len(call.Args) == 1 && core.ExprStr(call.Args[0]) == flag
		}
		for _, x := range callVertices(g, "pdf.(*Writer).writeXRefStream") {
			o.At(fn.Site(x.Call, ""))
			o.Require(g.GuardedBy(x.V, func(a core.Atom) bool { return has(a, "optXRefStream", false) }), "an xref stream is written without optXRefStream")
		}
		for _, x := range callVertices(g, "pdf.(*Writer).writeXRefTable") {
			o.At(fn.Site(x.Call, ""))
			o.Require(g.GuardedBy(x.V, func(a core.Atom) bool { return has(a, "optXRefStream", true) }), "an xref table is written although optXRefStream is set")
		}
		wc := c.Prog.Func("pdf", "(*Writer).WriteCompressed")
		wg := wc.Graph()
		winfo := wc.Info()
		for _, x := range callVertices(wg, "pdf.(*Writer).OpenStream") {
			o.At(wc.Site(x.Call, ""))
			ok := wg.GuardedBy(x.V, func(a core.Atom) bool {
				// negated compound !HasAny(optObjStm) is false
				s := core.ExprStr(a.Expr)
				_ = winfo
				return strings.Contains(s, "HasAny(optObjStm)") && (a.Neg == strings.HasPrefix(s, "!") || (!a.Neg && !strings.HasPrefix(s, "!")))
			})
			o.Require(ok, "an object stream is written without optObjStm")
		}
	})
}

// ruleNoArgMutation is implemented in mutarg.go (SSA based); this stub keeps
// the rule list in one place.
