package props

import (
	"go/ast"
	"go/token"
	"go/types"
	"sort"
	"strconv"
	"strings"

	"pdfverif/internal/core"
)

func init() {
	register(&Property{
		ID:       "C02",
		Patterns: []string{"."},
		Run:      runC02,
		Explanation: "Static rules on the file round trip: (R1) an interprocedural may-write-through-argument analysis (SSA, summaries over the resolved call graph) shows that no function reachable from Writer.Put/WriteCompressed/OpenStream/pdf.Format stores through memory reachable from the caller's objects (the RC4 in-place encryption defect was found and fixed by this rule); " +
			"(R2) write-state (inStream) guards on every object-writing entry point; (R3) both xref writers emit an entry for every object number below nextRef, including a free entry for unwritten numbers, and writer and reader agree on the three xref-stream entry kinds; " +
			"(R4) Catalog.Encode/DecodeCatalog and Info.Embed/ExtractInfo use the same dictionary key for the same struct field (relations extracted from both sides and compared); (R5) the version thresholds that switch on object streams, xref streams and UTF-8 text strings are the versions that introduce them, and WriteCompressed falls back to Put without object streams. " +
			"Decides these structural clauses for all write programs; does NOT decide byte-identical stream data, /W sizing arithmetic or filter chains (C06).",
		Assumptions: []string{"append into spare capacity of a caller-owned slice is not modelled (documented limitation of the alias tracking)",
			"library functions outside the module mutate an argument only when listed in the mutator table (XORKeyStream, CryptBlocks, Encrypt/Decrypt, binary.Put*, sort.*, slices.Sort*, copy, Read/ReadFull/ReadAt destinations, rand.Read)"},
	})
}

func runC02(c *core.Ctx) {
	c.Guard(func() { ruleNoArgMutation(c, "C02-R1") })
	c.Guard(func() { ruleInStreamGuards(c, "C02-R2") })
	c.Guard(func() { ruleXRefCompleteness(c) })
	c.Guard(func() { ruleKeyFieldAgreement(c) })
	c.Guard(func() { ruleOptionTables(c) })
	c.Guard(func() { ruleStringEncryptionUnconditional(c, "C02-R6") })
	c.Guard(func() { ruleWriteMethodsPure(c, "C02-R7", 9) })
	c.Guard(func() { ruleXRefWidthAgreement(c) })
	// what the writer puts on disk is what the reader parses: the structural rules of C03 are
	// necessary conditions of the round trip as well (a wrong /Length or a malformed xref entry is
	// masked by the reader's recovery paths, which trim or lose data)
	c.Guard(func() { ruleEmissionLiterals(c, "C02-R9") })
	c.Guard(func() { ruleOffsetCapture(c, "C02-R10") })
	c.Guard(func() { ruleXRefStreamRows(c, "C02-R11") })
	c.Guard(func() { ruleObjStmHeader(c, "C02-R12") })
	c.Guard(func() { ruleObjStmSlots(c, "C02-R13") })
	c.Guard(func() { ruleLoopCarriedTemplates(c, "C02-R16", "pdf") })
	c.Guard(func() { ruleDeferredQueueDetached(c) })
	c.Guard(func() { ruleWriterSideDefaults(c, "C02-R14") }) // a file the reader cannot authenticate does not round-trip
}

func ruleXRefCompleteness(c *core.Ctx) {
	const rule = "C02-R3"
	c.Check(rule, "pdf.(*Writer).writeXRefStream/free", "references allocated but never written read as null: the xref stream writes a type-0 row for a missing entry", func(o *core.Ob) {
		fn := c.Prog.Func("pdf", "(*Writer).writeXRefStream")
		g := fn.Graph()
		info := fn.Info()
		_, head := xrefStreamLoops(g)
		// the edge entry == nil (the entry is whatever *xRefEntry value the row loop tests) leads to WriteByte(0)
		var nilEdge []core.EdgeRef
		for _, bv := range g.BranchVertices() {
			for _, l := range []core.EdgeLabel{core.EdgeTrue, core.EdgeFalse} {
				for _, a := range bv.Implied(l) {
					cmp, ok := a.AsCmp()
					if ok && cmp.Op == token.EQL && core.IsNamed(info.TypeOf(cmp.L), "pdf", "xRefEntry") && core.IsNil(info, cmp.R) {
						if g.ReachFrom(succ(head, core.EdgeTrue), true, core.AvoidVs(head))[bv] {
							nilEdge = append(nilEdge, core.EdgeRef{From: bv, Label: l})
						}
					}
				}
			}
		}
		o.Count(1)
		if len(nilEdge) == 0 {
			o.Fail("the row loop has no branch for a missing entry")
			return
		}
		o.At(fn.Site(nilEdge[0].From.AST, "entry == nil"))
		ok := false
		for _, v := range g.Vs {
			if v.AST == nil {
				continue
			}
			for _, cs := range core.CallsIn(info, v.AST, false) {
				if strings.HasSuffix(cs.Key, ".WriteByte") {
					vcs := valueCases(g, v, cs.Call.Args[0], 2)
					for _, vc := range vcs {
						if k, isK := core.IntConst(info, vc.Expr); isK && k == 0 && g.EdgeDominates(vc.V, nilEdge...) {
							ok = true
						}
					}
					// the type is a variable that keeps its zero value on the
					// nil edge: from that edge the write is reached, and no
					// assignment of another value lies on the way
					if !ok && len(vcs) > 1 {
						var nonZero []*core.V
						zero := false
						for _, vc := range vcs {
							if k, isK := core.IntConst(info, vc.Expr); isK && k == 0 {
								zero = true
							} else {
								nonZero = append(nonZero, vc.V)
							}
						}
						if zero {
							good := true
							for _, e := range nilEdge {
								st := succ(e.From, e.Label)
								if !g.ReachFrom(st, true, core.AvoidVs(append(append([]*core.V{}, nonZero...), head)...))[v] {
									good = false
								}
								r := g.ReachFrom(st, true, core.AvoidVs(head, v))
								for _, d := range nonZero {
									if r[d] {
										good = false
									}
								}
							}
							ok = good
						}
					}
				}
			}
		}
		typeWrites := 0
		for _, v := range g.Vs {
			if v.AST != nil {
				for _, cs := range core.CallsIn(info, v.AST, false) {
					if strings.HasSuffix(cs.Key, ".WriteByte") {
						typeWrites++
					}
				}
			}
		}
		if !ok && typeWrites == 0 {
			o.Unrec("the rows of the cross-reference stream are not written field by field (no WriteByte for the type): the row of a missing entry is not located in this form")
			return
		}
		o.Require(ok, "a missing entry is not written as a type-0 (free) row")
		// the nil branch must not skip the row
		for _, e := range nilEdge {
			st := succ(e.From, e.Label)
			r := g.ReachFrom(st, true, core.AvoidVs(head))
			wrote := false
			for v := range r {
				if v.AST != nil && len(core.CallsTo(info, v.AST, false, "pdf.encodeInt64")) > 0 {
					wrote = true
				}
			}
			o.Require(wrote, "the missing-entry branch writes no row")
		}
	})
	c.Check(rule, "pdf.xref-entry-kinds", "writer and reader agree on the three xref-stream entry kinds (0 free, 1 in use, 2 compressed) and on which field carries offset/generation/stream number/index", func(o *core.Ob) {
		fn := c.Prog.Func("pdf", "(*Writer).writeXRefStream")
		g := fn.Graph()
		info := fn.Info()
		_, head := xrefStreamLoops(g)
		body := g.ReachFrom(succ(head, core.EdgeTrue), true, core.AvoidVs(head))
		// per type byte value: the expressions passed as second and third field
		type row struct {
			f2, f3 string
			at     *core.V
		}
		rows := map[int64][]row{}
		errE := errNotNilEdges(g)
		for v := range body {
			if v.AST == nil {
				continue
			}
			for _, cs := range core.CallsIn(info, v.AST, false) {
				if !strings.HasSuffix(cs.Key, ".WriteByte") {
					continue
				}
				for _, tc := range valueCases(g, v, cs.Call.Args[0], 2) {
					k, ok := core.IntConst(info, tc.Expr)
					if !ok {
						continue
					}
					// the next two encodeInt64 calls on the error-free path
					r := row{at: tc.V}
					field := 0
					cur := v
					for step := 0; step < 2; step++ {
						var next *core.V
						reach := g.ReachFrom(cur, false, core.AvoidEdges(errE...).With(head))
						var cands []*core.V
						for x := range reach {
							if x.AST != nil && len(core.CallsTo(info, x.AST, false, "pdf.encodeInt64")) > 0 {
								cands = append(cands, x)
							}
						}
						// the earliest in execution order: not reachable from another candidate
						for _, x := range cands {
							earliest := true
							for _, y := range cands {
								if y != x && g.ReachFrom(y, false, core.AvoidEdges(errE...).With(head))[x] {
									earliest = false
								}
							}
							if earliest {
								next = x
							}
						}
						if next == nil {
							break
						}
						for _, c2 := range core.CallsIn(info, next.AST, false) {
							if c2.Key == "pdf.encodeInt64" {
								// the value chosen together with the type byte (same definition), else as written
								valArg, _ := encArgs(info, c2.Call)
								val := core.ExprStr(valArg)
								for _, fc := range valueCases(g, next, valArg, 2) {
									// chosen in the same statement, or in the same arm as the type byte
									if fc.V == tc.V || (tc.V != v && fc.V != next && sameBranch(g, tc.V, fc.V)) {
										val = core.ExprStr(fc.Expr)
									}
								}
								field++
								if field == 1 {
									r.f2 = val
								} else {
									r.f3 = val
								}
							}
						}
						cur = next
					}
					rows[k] = append(rows[k], r)
					o.At(fn.Site(cs.Call, "row type "+itoa(int(k))+" f2="+r.f2+" f3="+r.f3))
				}
			}
		}
		for _, r := range rows[1] {
			o.Require(strings.Contains(r.f2, "entry.Pos") && strings.Contains(r.f3, "entry.Generation"), "type-1 row must carry (offset, generation), got (%s, %s)", r.f2, r.f3)
		}
		for _, r := range rows[2] {
			o.Require(strings.Contains(r.f2, "InStream.Number()") && strings.Contains(r.f3, "entry.Pos"), "type-2 row must carry (stream number, index), got (%s, %s)", r.f2, r.f3)
		}
		for _, r := range rows[0] {
			o.Require(r.f2 == "0", "type-0 row must carry next-free 0 in field 2, got %s", r.f2)
		}
		o.Shape(len(rows[0]) >= 1 && len(rows[1]) == 1 && len(rows[2]) == 1, "expected rows of types 0, 1 and 2, got %d/%d/%d", len(rows[0]), len(rows[1]), len(rows[2]))
		// selection conditions
		for k, rs := range rows {
			for _, r := range rs {
				v := r.at
				switch k {
				case 1:
					ok := g.GuardedBy(v, func(a core.Atom) bool {
						cmp, ok := a.AsCmp()
						return ok && cmp.Op == token.EQL && strings.Contains(core.ExprStr(cmp.L), "InStream") && isZero(info, cmp.R)
					})
					o.Require(ok, "a type-1 row is written for an entry whose InStream is not known to be zero")
				case 2:
					ok := g.GuardedBy(v, func(a core.Atom) bool {
						cmp, ok := a.AsCmp()
						return ok && cmp.Op == token.NEQ && strings.Contains(core.ExprStr(cmp.L), "InStream") && isZero(info, cmp.R)
					})
					o.Require(ok, "a type-2 row is written for an entry that is not in an object stream")
				}
			}
		}
	})
	c.Check(rule, "pdf.(*Writer).setXRef", "an object number is registered at most once and nextRef stays above every registered number", func(o *core.Ob) {
		fn := c.Prog.Func("pdf", "(*Writer).setXRef")
		g := fn.Graph()
		info := fn.Info()
		var store *core.V
		isXRefMap := func(e ast.Expr) bool {
			if strings.HasSuffix(core.ExprStr(e), ".xref") {
				return true
			}
			// a local that holds the map (xref := w.xref)
			if mt, ok := info.TypeOf(e).Underlying().(*types.Map); ok {
				if p, isPtr := mt.Elem().(*types.Pointer); isPtr && core.IsNamed(p.Elem(), "pdf", "xRefEntry") {
					return true
				}
			}
			return false
		}
		okVars := map[types.Object]bool{}
		for _, v := range g.Vs {
			if as, ok := v.AST.(*ast.AssignStmt); ok {
				if ix, ok := as.Lhs[0].(*ast.IndexExpr); ok && isXRefMap(ix.X) {
					store = v
					o.At(fn.Site(as, "xref store"))
				}
				if len(as.Lhs) == 2 && len(as.Rhs) == 1 {
					if ix, ok := ast.Unparen(as.Rhs[0]).(*ast.IndexExpr); ok && isXRefMap(ix.X) {
						if obj := core.ObjOf(info, as.Lhs[1]); obj != nil {
							okVars[obj] = true
						}
					}
				}
			}
		}
		if store == nil {
			o.Count(1)
			o.Fail("setXRef does not store the entry")
			return
		}
		dup := g.GuardedBy(store, func(a core.Atom) bool {
			id, ok := ast.Unparen(a.Expr).(*ast.Ident)
			return ok && a.Neg && (id.Name == "seen" || okVars[info.ObjectOf(id)])
		})
		o.Require(dup, "an existing entry can be overwritten (duplicate object numbers)")
		bump := false
		for _, v := range g.Vs {
			if as, ok := v.AST.(*ast.AssignStmt); ok && strings.HasSuffix(core.ExprStr(as.Lhs[0]), ".nextRef") {
				if strings.Contains(core.ExprStr(as.Rhs[0]), "Number() + 1") || strings.Contains(resolveText(g, v, as.Rhs[0], 3), "Number()+1") {
					bump = true
				}
				// one more than the key the entry is stored under
				if be, isBin := ast.Unparen(as.Rhs[0]).(*ast.BinaryExpr); isBin && be.Op == token.ADD {
					for _, pr := range [][2]ast.Expr{{be.X, be.Y}, {be.Y, be.X}} {
						if k, isK := core.IntConst(info, pr[1]); isK && k == 1 {
							key := store.AST.(*ast.AssignStmt).Lhs[0].(*ast.IndexExpr).Index
							if resolveText(g, v, pr[0], 3) == resolveText(g, store, key, 3) {
								bump = true
							}
						}
					}
				}
			}
		}
		_ = info
		o.Require(bump, "nextRef is not raised above an explicitly registered number")
	})
}

func isZero(info *types.Info, e ast.Expr) bool {
	k, ok := core.IntConst(info, e)
	return ok && k == 0
}

// keysDerived returns the dictionary keys from which expr is derived
// (directly dict["K"], or through local variables assigned from such).
func keysDerived(fn *core.Func, e ast.Expr, depth int, seen map[types.Object]bool) map[string]bool {
	out := map[string]bool{}
	if depth == 0 || e == nil {
		return out
	}
	info := fn.Info()
	ast.Inspect(e, func(n ast.Node) bool {
		switch x := n.(type) {
		case *ast.IndexExpr:
			if k, ok := core.StringConst(info, x.Index); ok {
				if _, isMap := info.TypeOf(x.X).Underlying().(*types.Map); isMap {
					out[k] = true
				}
			}
		case *ast.Ident:
			obj := info.ObjectOf(x)
			v, isVar := obj.(*types.Var)
			if !isVar || v.IsField() || seen[obj] || v.Pkg() == nil || v.Parent() == v.Pkg().Scope() {
				return true
			}
			seen[obj] = true
			for _, d := range core.AssignsTo(info, fn.Decl, obj) {
				var rhs []ast.Expr
				switch s := d.(type) {
				case *ast.AssignStmt:
					rhs = s.Rhs
				case *ast.ValueSpec:
					rhs = s.Values
				}
				for _, r := range rhs {
					for k := range keysDerived(fn, r, depth-1, seen) {
						out[k] = true
					}
				}
			}
			// type-switch binding: switch v := dict["K"].(type)
			ast.Inspect(fn.Decl.Body, func(m ast.Node) bool {
				ts, ok := m.(*ast.TypeSwitchStmt)
				if !ok {
					return true
				}
				for _, cl := range ts.Body.List {
					if info.Implicits[cl] == obj {
						if as, ok := ts.Assign.(*ast.AssignStmt); ok {
							for k := range keysDerived(fn, as.Rhs[0], depth-1, seen) {
								out[k] = true
							}
						}
					}
				}
				return true
			})
		}
		return true
	})
	return out
}

// fieldsMentioned returns the fields of the receiver/struct variable obj
// that occur in e (as obj.F).
func fieldsMentioned(info *types.Info, e ast.Node, obj types.Object) map[string]bool {
	out := map[string]bool{}
	ast.Inspect(e, func(n ast.Node) bool {
		if se, ok := n.(*ast.SelectorExpr); ok {
			if core.ObjOf(info, se.X) == obj {
				if sel := info.Selections[se]; sel != nil && sel.Kind() == types.FieldVal {
					out[se.Sel.Name] = true
				}
			}
		}
		return true
	})
	return out
}

// encodeRelation extracts {(field, key)} from an encoder: statements
// dict[K] = rhs where rhs (or, failing that, the enclosing conditions)
// mention recv.Field; plus composite literal entries.
func encodeRelation(fn *core.Func, recv types.Object) map[string]map[string]bool {
	info := fn.Info()
	rel := map[string]map[string]bool{}
	add := func(f, k string) {
		if rel[f] == nil {
			rel[f] = map[string]bool{}
		}
		rel[f][k] = true
	}
	var stack []ast.Node
	ast.Inspect(fn.Decl.Body, func(n ast.Node) bool {
		if n == nil {
			stack = stack[:len(stack)-1]
			return true
		}
		stack = append(stack, n)
		handle := func(k string, rhs ast.Expr) {
			fs := fieldsMentioned(info, rhs, recv)
			if len(fs) == 0 {
				// innermost enclosing if condition mentioning a receiver field
				for i := len(stack) - 1; i >= 0 && len(fs) == 0; i-- {
					if is, ok := stack[i].(*ast.IfStmt); ok {
						fs = fieldsMentioned(info, is.Cond, recv)
						if len(fs) == 0 && is.Init != nil {
							fs = fieldsMentioned(info, is.Init, recv)
						}
					}
				}
			}
			for f := range fs {
				add(f, k)
			}
		}
		switch s := n.(type) {
		case *ast.AssignStmt:
			for i, l := range s.Lhs {
				if _, k, ok := core.MapIndexKey(info, l); ok && i < len(s.Rhs) {
					handle(k, s.Rhs[i])
				}
			}
		case *ast.KeyValueExpr:
			if k, ok := core.StringConst(info, s.Key); ok {
				if len(stack) >= 2 {
					if cl, ok := stack[len(stack)-2].(*ast.CompositeLit); ok && core.IsNamed(info.TypeOf(cl), "pdf", "Dict") {
						handle(k, s.Value)
					}
				}
			}
		}
		return true
	})
	return rel
}

// decodeRelation extracts {(field, key)} from a decoder that builds the
// struct: composite literal fields and assignments x.F = ... / x.F.Set(...).
func decodeRelation(fn *core.Func, structName string) map[string]map[string]bool {
	info := fn.Info()
	rel := map[string]map[string]bool{}
	add := func(f string, ks map[string]bool) {
		if rel[f] == nil {
			rel[f] = map[string]bool{}
		}
		for k := range ks {
			rel[f][k] = true
		}
	}
	var stack []ast.Node
	ast.Inspect(fn.Decl.Body, func(n ast.Node) bool {
		if n == nil {
			stack = stack[:len(stack)-1]
			return true
		}
		stack = append(stack, n)
		enclosingKeys := func() map[string]bool {
			ks := map[string]bool{}
			for i := len(stack) - 1; i >= 0 && len(ks) == 0; i-- {
				if is, ok := stack[i].(*ast.IfStmt); ok {
					if is.Init != nil {
						if as, ok := is.Init.(*ast.AssignStmt); ok {
							for _, r := range as.Rhs {
								for k := range keysDerived(fn, r, 3, map[types.Object]bool{}) {
									ks[k] = true
								}
							}
						}
					}
					for k := range keysDerived(fn, is.Cond, 3, map[types.Object]bool{}) {
						ks[k] = true
					}
				}
			}
			return ks
		}
		switch s := n.(type) {
		case *ast.CompositeLit:
			if t := info.TypeOf(s); t != nil && core.IsNamed(t, "pdf", structName) {
				for _, el := range s.Elts {
					if kv, ok := el.(*ast.KeyValueExpr); ok {
						if id, ok := kv.Key.(*ast.Ident); ok {
							add(id.Name, keysDerived(fn, kv.Value, 8, map[types.Object]bool{}))
						}
					}
				}
			}
		case *ast.AssignStmt:
			for i, l := range s.Lhs {
				se, ok := ast.Unparen(l).(*ast.SelectorExpr)
				if !ok {
					continue
				}
				if t := info.TypeOf(se.X); t != nil && core.IsNamed(t, "pdf", structName) && i < len(s.Rhs) {
					ks := keysDerived(fn, s.Rhs[i], 8, map[types.Object]bool{})
					if len(ks) == 0 {
						ks = enclosingKeys()
					}
					add(se.Sel.Name, ks)
				}
			}
		case *ast.CallExpr:
			// info.Trapped.Set(...)
			if se, ok := s.Fun.(*ast.SelectorExpr); ok {
				if inner, ok := se.X.(*ast.SelectorExpr); ok {
					if t := info.TypeOf(inner.X); t != nil && core.IsNamed(t, "pdf", structName) {
						if sel := info.Selections[inner]; sel != nil && sel.Kind() == types.FieldVal {
							add(inner.Sel.Name, enclosingKeys())
						}
					}
				}
			}
		}
		return true
	})
	return rel
}

func relString(rel map[string]map[string]bool) []string {
	var out []string
	for f, ks := range rel {
		out = append(out, f+"<->"+joinSet(ks))
	}
	sort.Strings(out)
	return out
}

func ruleKeyFieldAgreement(c *core.Ctx) {
	const rule = "C02-R4"
	type pair struct {
		enc, dec, typ string
		skipFields    map[string]bool
		minFields     int
	}
	for _, p := range []pair{
		{"(*Catalog).Encode", "DecodeCatalog", "Catalog", map[string]bool{}, 28},
		{"(*Info).Embed", "ExtractInfo", "Info", map[string]bool{"Custom": true}, 9},
	} {
		p := p
		c.Check(rule, "pdf."+p.typ, "the encoder and the decoder of "+p.typ+" use the same dictionary key for the same struct field", func(o *core.Ob) {
			enc := c.Prog.Func("pdf", p.enc)
			dec := c.Prog.Func("pdf", p.dec)
			recv := enc.Info().ObjectOf(enc.Decl.Recv.List[0].Names[0])
			er := encodeRelation(enc, recv)
			dr := decodeRelation(dec, p.typ)
			o.At(enc.Site(enc.Decl, "encoder"))
			o.At(dec.Site(dec.Decl, "decoder"))
			for _, s := range relString(er) {
				o.Fact("enc %s", s)
			}
			n := 0
			for f, eks := range er {
				if p.skipFields[f] {
					continue
				}
				delete(eks, "Type")
				dks := dr[f]
				if len(eks) == 0 {
					continue
				}
				n++
				o.Count(1)
				if len(dks) == 0 {
					o.Fail("field %s is written under /%s but the decoder never fills it", f, joinSet(eks))
					continue
				}
				if joinSet(eks) != joinSet(dks) {
					o.Fail("field %s is written under /%s but read from /%s", f, joinSet(eks), joinSet(dks))
				}
			}
			for f, dks := range dr {
				if p.skipFields[f] || len(dks) == 0 {
					continue
				}
				if len(er[f]) == 0 {
					o.Fail("field %s is read from /%s but never written by the encoder", f, joinSet(dks))
				}
			}
			o.Shape(n >= p.minFields, "only %d field/key pairs recognised, expected at least %d", n, p.minFields)
		})
	}
}

func ruleOptionTables(c *core.Ctx) {
	const rule = "C02-R5"
	c.Check(rule, "pdf.defaultOutputOptions", "object streams and cross-reference streams are enabled from PDF 1.5, UTF-8 text strings from PDF 2.0 (the versions that introduce them)", func(o *core.Ob) {
		fn := c.Prog.Func("pdf", "defaultOutputOptions")
		g := fn.Graph()
		info := fn.Info()
		want := map[string]string{"optObjStm": "V1_5", "optXRefStream": "V1_5", "OptTextStringUtf8": "V2_0"}
		got := map[string]string{}
		for _, v := range g.Vs {
			as, ok := v.AST.(*ast.AssignStmt)
			if !ok || as.Tok != token.OR_ASSIGN {
				continue
			}
			flag := core.ExprStr(as.Rhs[0])
			o.At(fn.Site(as, "enables "+flag))
			for _, bv := range g.BranchVertices() {
				if !g.EdgeDominates(v, core.EdgeRef{From: bv, Label: core.EdgeTrue}) {
					continue
				}
				for _, a := range bv.Implied(core.EdgeTrue) {
					cmp, ok := a.AsCmp()
					if ok && cmp.Op == token.GEQ {
						got[flag] = core.ExprStr(cmp.R)
					}
				}
			}
			_ = info
		}
		// the same as a table: for _, e := range table { if v >= e.from { opt |= e.opt } } with a
		// package-level table of {version, options} pairs
		ast.Inspect(fn.Decl.Body, func(n ast.Node) bool {
			rs, ok := n.(*ast.RangeStmt)
			if !ok || rs.Value == nil {
				return true
			}
			tv, ok := core.ObjOf(info, rs.X).(*types.Var)
			if !ok || tv.Pkg() == nil || tv.Parent() != tv.Pkg().Scope() {
				return true
			}
			elem := core.ObjOf(info, rs.Value)
			// the fields used in the comparison and in the update
			var fromField, optField string
			ast.Inspect(rs.Body, func(m ast.Node) bool {
				switch x := m.(type) {
				case *ast.BinaryExpr:
					if x.Op == token.GEQ {
						if sel, isSel := ast.Unparen(x.Y).(*ast.SelectorExpr); isSel && core.ObjOf(info, sel.X) == elem {
							fromField = sel.Sel.Name
						}
					}
					if x.Op == token.LEQ {
						if sel, isSel := ast.Unparen(x.X).(*ast.SelectorExpr); isSel && core.ObjOf(info, sel.X) == elem {
							fromField = sel.Sel.Name
						}
					}
				case *ast.AssignStmt:
					if x.Tok == token.OR_ASSIGN && len(x.Rhs) == 1 {
						if sel, isSel := ast.Unparen(x.Rhs[0]).(*ast.SelectorExpr); isSel && core.ObjOf(info, sel.X) == elem {
							optField = sel.Sel.Name
							o.At(fn.Site(x, "enables the options of a table entry"))
						}
					}
				}
				return true
			})
			if fromField == "" || optField == "" {
				return true
			}
			_, init, ipkg := c.Prog.Var("pdf", tv.Name())
			cl, isCL := ast.Unparen(init).(*ast.CompositeLit)
			if init == nil || !isCL {
				return true
			}
			for _, el := range cl.Elts {
				if kv, isKV := el.(*ast.KeyValueExpr); isKV {
					el = kv.Value
				}
				ecl, isE := ast.Unparen(el).(*ast.CompositeLit)
				if !isE {
					continue
				}
				fields := compositeFields(ipkg.TypesInfo, ecl)
				from, opts := fields[fromField], fields[optField]
				if from == nil || opts == nil {
					continue
				}
				ast.Inspect(opts, func(k ast.Node) bool {
					if id, isID := k.(*ast.Ident); isID {
						if _, isConst := ipkg.TypesInfo.Uses[id].(*types.Const); isConst {
							got[id.Name] = core.ExprStr(from)
						}
					}
					return true
				})
			}
			return true
		})
		for f, v := range want {
			if got[f] == "" {
				o.Unrec("from which version %s is enabled was not found (neither a version test around the assignment nor a table of versions and options)", f)
				continue
			}
			if got[f] != v {
				o.Fail("%s is enabled for versions >= %q, want >= %s", f, got[f], v)
			}
		}
		// constants have the right order: V1_5 < V2_0 etc. (iota order)
		o.Require(c.Prog.ConstInt("pdf", "V1_5") < c.Prog.ConstInt("pdf", "V2_0") && c.Prog.ConstInt("pdf", "V1_4") < c.Prog.ConstInt("pdf", "V1_5"), "version constants are not ordered")
	})
	c.Check(rule, "pdf.NewWriter/human-readable", "HumanReadable output switches object streams and xref streams off together", func(o *core.Ob) {
		fn := c.Prog.Func("pdf", "NewWriter")
		found := false
		ast.Inspect(fn.Decl.Body, func(n ast.Node) bool {
			if as, ok := n.(*ast.AssignStmt); ok && as.Tok == token.AND_ASSIGN {
				s := core.ExprStr(as.Rhs[0])
				if strings.Contains(s, "optObjStm") || strings.Contains(s, "optXRefStream") {
					o.At(fn.Site(as, "clears "+s))
					found = strings.Contains(s, "optObjStm") && strings.Contains(s, "optXRefStream")
					if !found {
						o.Fail("HumanReadable clears only one of optObjStm/optXRefStream: xref tables cannot describe object streams")
					}
				}
			}
			return true
		})
		o.Require(found, "HumanReadable does not disable object and xref streams")
	})
	c.Check(rule, "pdf.(*Writer).Close/xref-kind", "the cross-reference section kind follows optXRefStream, and WriteCompressed uses object streams only with optObjStm", func(o *core.Ob) {
		fn := c.Prog.Func("pdf", "(*Writer).Close")
		g := fn.Graph()
		info := fn.Info()
		has := func(a core.Atom, flag string, neg bool) bool {
			call, ok := ast.Unparen(a.Expr).(*ast.CallExpr)
			if !ok || a.Neg != neg || !strings.HasSuffix(core.CalleeKey(info, call), ".HasAny") {
				return false
			}
			return len(call.Args) == 1 && core.ExprStr(call.Args[0]) == flag
		}
		for _, x := range callVertices(g, "pdf.(*Writer).writeXRefStream") {
			o.At(fn.Site(x.Call, ""))
			o.Require(g.GuardedBySampled(x.V, func(a core.Atom) bool { return has(a, "optXRefStream", false) }), "an xref stream is written without optXRefStream")
		}
		for _, x := range callVertices(g, "pdf.(*Writer).writeXRefTable") {
			o.At(fn.Site(x.Call, ""))
			o.Require(g.GuardedBySampled(x.V, func(a core.Atom) bool { return has(a, "optXRefStream", true) }), "an xref table is written although optXRefStream is set")
		}
		wc := c.Prog.Func("pdf", "(*Writer).WriteCompressed")
		wg := wc.Graph()
		winfo := wc.Info()
		for _, x := range callVertices(wg, "pdf.(*Writer).OpenStream") {
			o.At(wc.Site(x.Call, ""))
			ok := wg.GuardedBySampled(x.V, func(a core.Atom) bool {
				// negated compound !HasAny(optObjStm) is false
				s := core.ExprStr(a.Expr)
				_ = winfo
				return strings.Contains(s, "HasAny(optObjStm)") && (a.Neg == strings.HasPrefix(s, "!") || (!a.Neg && !strings.HasPrefix(s, "!")))
			})
			o.Require(ok, "an object stream is written without optObjStm")
		}
	})
}

// ruleNoArgMutation is implemented in mutarg.go (SSA based); this stub keeps
// the rule list in one place.

// rhsFor returns the expression assigned to obj by the vertex (nil, true for
// a declaration without initial value).
func rhsFor(info *types.Info, v *core.V, obj types.Object) (ast.Expr, bool) {
	switch s := v.AST.(type) {
	case *ast.AssignStmt:
		if len(s.Lhs) != len(s.Rhs) || (s.Tok != token.ASSIGN && s.Tok != token.DEFINE) {
			return nil, false
		}
		for i, l := range s.Lhs {
			if id, ok := ast.Unparen(l).(*ast.Ident); ok && info.ObjectOf(id) == obj {
				return s.Rhs[i], true
			}
		}
	case *ast.ValueSpec:
		for i, nm := range s.Names {
			if info.ObjectOf(nm) == obj {
				if len(s.Values) == 0 {
					return nil, true
				}
				if len(s.Values) == len(s.Names) {
					return s.Values[i], true
				}
			}
		}
	}
	return nil, false
}

// stripConv removes parentheses and type conversions.
func stripConv(info *types.Info, e ast.Expr) ast.Expr {
	for {
		e = ast.Unparen(e)
		call, ok := e.(*ast.CallExpr)
		if !ok || len(call.Args) != 1 {
			return e
		}
		if tv, ok := info.Types[call.Fun]; !ok || !tv.IsType() {
			return e
		}
		e = call.Args[0]
	}
}

// ruleXRefWidthAgreement (C02-R8): the cross-reference stream is written in
// two passes: the first sizes the columns (/W), the second emits the rows
// with encodeInt64(wx, value, width), which silently truncates a value that
// does not fit.  For the rows of objects in use (types 1 and 2) every value
// emitted in a column must have been taken into account, under the same
// condition, when that column was sized.
func ruleXRefWidthAgreement(c *core.Ctx) {
	const rule = "C02-R8"
	fn := c.Prog.Func("pdf", "(*Writer).writeXRefStream")
	g := fn.Graph()
	info := fn.Info()
	type emission struct {
		v     *core.V // where the value is chosen: its dominating facts are the emission's condition
		call  *ast.CallExpr
		val   ast.Expr
		typ   int64
		width types.Object
	}
	var ems []emission
	for _, cv := range callVertices(g, "pdf.encodeInt64") {
		if len(cv.Call.Args) != 3 {
			continue
		}
		valArg, widthArg := encArgs(info, cv.Call)
		w := core.ObjOf(info, widthArg)
		for _, vc := range valueCases(g, cv.V, valArg, 2) {
			if _, isConst := core.IntConst(info, vc.Expr); isConst {
				continue
			}
			site := vc.V
			if !g.Dominates(cv.V, site) && !g.Dominates(site, cv.V) {
				site = cv.V
			}
			// the type byte of the row: written before the field, as a literal
			// or chosen together with the value
			typ := int64(-1)
			for _, wb := range callVerticesSuffix(g, ".WriteByte") {
				if len(wb.Call.Args) != 1 || !g.Dominates(wb.V, cv.V) || wb.V == cv.V {
					continue
				}
				for _, tc := range valueCases(g, wb.V, wb.Call.Args[0], 2) {
					k, ok := core.IntConst(info, tc.Expr)
					if !ok {
						continue
					}
					if tc.V == vc.V || (tc.V == wb.V && vc.V == cv.V) {
						typ = k
					}
				}
			}
			if vc.V != cv.V {
				site = vc.V
			}
			ems = append(ems, emission{site, cv.Call, vc.Expr, typ, w})
		}
	}
	c.Floor(rule, 4)
	inUse := 0
	for _, em := range ems {
		em := em
		if em.typ != 1 && em.typ != 2 {
			continue
		}
		inUse++
		key := fn.Key + "/type" + strconv.FormatInt(em.typ, 10) + "/" + c.Prog.Src(stripConv(info, em.val))
		c.Check(rule, key, "the value emitted into a column of an in-use row was counted, under the same condition, when the column width was computed", func(o *core.Ob) {
			o.At(fn.Site(em.call, "emission"))
			if em.width == nil {
				core.Undecided("width argument is not a variable")
			}
			// width variable -> maximum variable
			wdefs := defVertices(g, em.width)
			if len(wdefs) != 1 {
				core.Undecided("width variable %s has %d definitions", em.width.Name(), len(wdefs))
			}
			wr, ok := rhsFor(info, wdefs[0], em.width)
			if !ok || wr == nil {
				core.Undecided("width definition not understood")
			}
			var maxVar types.Object
			lens := core.CallsTo(info, wr, false, "math/bits.Len64")
			if len(lens) != 1 {
				core.Undecided("width %s is not derived from bits.Len64(max)", em.width.Name())
			}
			maxVar = core.ObjOf(info, stripConv(info, lens[0].Args[0]))
			if maxVar == nil {
				core.Undecided("argument of bits.Len64 is not a variable")
			}
			o.Require(g.Dominates(wdefs[0], g.MustVertexOf(em.call)), "the width is computed before the rows are written")
			// updates of the maximum: maxVar = F guarded by F > maxVar
			var cands []struct {
				upd *core.V
				f   types.Object
			}
			for _, dv := range defVertices(g, maxVar) {
				r, ok := rhsFor(info, dv, maxVar)
				if !ok || r == nil {
					continue
				}
				if _, isConst := core.IntConst(info, r); isConst {
					continue
				}
				var f types.Object
				var direct bool
				if call, ok := ast.Unparen(r).(*ast.CallExpr); ok {
					// maxVar = max(maxVar, F)
					if id, ok := call.Fun.(*ast.Ident); ok && id.Name == "max" && len(call.Args) == 2 {
						for _, a := range call.Args {
							if core.ObjOf(info, a) != maxVar {
								f = core.ObjOf(info, a)
								direct = true
							}
						}
					}
				} else {
					f = core.ObjOf(info, r)
				}
				if f == nil {
					core.Undecided("update of %s not understood: %s", maxVar.Name(), c.Prog.Src(dv.AST))
				}
				if !direct {
					ok := g.GuardedBy(dv, func(a core.Atom) bool {
						cmp, ok := a.AsCmp()
						if !ok {
							return false
						}
						l, r := core.ObjOf(info, cmp.L), core.ObjOf(info, cmp.R)
						return (l == f && r == maxVar && (cmp.Op == token.GTR || cmp.Op == token.GEQ)) ||
							(l == maxVar && r == f && (cmp.Op == token.LSS || cmp.Op == token.LEQ))
					})
					if !ok {
						core.Undecided("update of %s is not guarded by %s > %s", maxVar.Name(), f.Name(), maxVar.Name())
					}
				}
				cands = append(cands, struct {
					upd *core.V
					f   types.Object
				}{dv, f})
			}
			if len(cands) == 0 {
				core.Undecided("no update of %s found", maxVar.Name())
			}
			want := stripConv(info, em.val)
			// The two passes are separate loops over the same table: identify
			// the loop variables (same for-clause) and the entry variables
			// (same definition) of the two loops.
			subst := map[types.Object]ast.Expr{}
			var loopHead *core.V
			loopSig := ""
			canon := func(v *core.V, tag string) *core.V {
				// enclosing for statement of v
				loop := enclosingFor(fn.Decl, v.AST)
				if loop == nil || loop.Init == nil || loop.Cond == nil || loop.Post == nil {
					core.Undecided("%s is not inside a three-clause for loop", tag)
				}
				as, ok := loop.Init.(*ast.AssignStmt)
				if !ok || len(as.Lhs) != 1 {
					core.Undecided("%s: loop initialisation not understood", tag)
				}
				iv := core.ObjOf(info, as.Lhs[0])
				sig := c.Prog.Src(loop.Init) + ";" + c.Prog.Src(loop.Cond) + ";" + c.Prog.Src(loop.Post)
				if loopSig != "" && sig != loopSig {
					core.Undecided("the two passes use different loops: %q vs %q", loopSig, sig)
				}
				loopSig = sig
				subst[iv] = &ast.Ident{Name: as.Lhs[0].(*ast.Ident).Name}
				// variables defined in the loop body from the loop variable only
				// (anywhere in the body: the binding of an inlined helper's
				// parameter sits in a nested block)
				ast.Inspect(loop.Body, func(n ast.Node) bool {
					if _, isLit := n.(*ast.FuncLit); isLit {
						return false
					}
					if a, ok := n.(*ast.AssignStmt); ok && a.Tok == token.DEFINE && len(a.Lhs) == 1 && len(a.Rhs) == 1 {
						if ix, ok := a.Rhs[0].(*ast.IndexExpr); ok && core.ObjOf(info, ix.Index) == iv {
							if lo := core.ObjOf(info, a.Lhs[0]); lo != nil && len(defVertices(g, lo)) == 1 {
								subst[lo] = &ast.Ident{Name: c.Prog.Src(a.Rhs[0])}
							}
						}
					}
					return true
				})
				if len(loop.Body.List) == 0 {
					core.Undecided("%s: empty loop body", tag)
				}
				loopHead = nil
				for _, bv := range g.BranchVertices() {
					if bv.Cond.Expr == loop.Cond || bv.AST == ast.Node(loop.Cond) {
						loopHead = bv
					}
				}
				if loopHead == nil {
					core.Undecided("%s: loop head not found", tag)
				}
				return g.MustVertexOf(loop.Body.List[0])
			}
			canon(em.v, "emission")
			emLoopObjs := map[types.Object]bool{}
			for k := range subst {
				emLoopObjs[k] = true
			}
			var emAtoms []core.Atom
			for _, a := range g.DominatingAtoms(em.v) {
				for obj := range emLoopObjs {
					if core.Mentions(info, a.Expr, obj) {
						emAtoms = append(emAtoms, a)
						break
					}
				}
			}
			emConds := core.Formula{Fn: fn, Atoms: emAtoms, Subst: subst}
			found := false
			var tried []string
			for _, cd := range cands {
				// the test that precedes the update (or the update itself for max())
				use := cd.upd
				for _, bv := range g.BranchVertices() {
					if bv.Cond.Expr != nil && g.EdgeDominates(cd.upd, core.EdgeRef{From: bv, Label: core.EdgeTrue}) && condMentions(g, bv, cd.f) && condMentions(g, bv, maxVar) {
						use = bv
					}
				}
				bodyStart := canon(use, "width computation")
				fdefs := defVertices(g, cd.f)
				for _, fd := range fdefs {
					r, ok := rhsFor(info, fd, cd.f)
					o.Count(1)
					if !ok || r == nil {
						continue
					}
					// the assignment reaches the use without being overwritten
					var others []*core.V
					for _, x := range fdefs {
						if x != fd {
							others = append(others, x)
						}
					}
					if !g.ReachFrom(fd, false, core.AvoidVs(others...).With(loopHead))[use] {
						continue
					}
					// under the emission's condition: this assignment is executed
					// and not overwritten, and the value counted is the value emitted
					if !g.GuardsSufficient(bodyStart, fd, use, loopHead) {
						tried = append(tried, c.Prog.Pos(fd.AST.Pos())+": reach condition not exact")
						continue
					}
					atoms := append([]core.Atom{}, g.DominatingAtoms(fd)...)
					for _, x := range others {
						if g.ReachFrom(fd, false, core.AvoidVs(loopHead))[x] && g.ReachFrom(x, false, core.AvoidVs(fd, loopHead))[use] {
							// a later assignment may overwrite this one: it must be
							// unreachable under the emission's condition
							both := core.Formula{Fn: fn, Atoms: append(append([]core.Atom{}, emAtoms...), g.DominatingAtoms(x)...), Subst: subst}
							unsat, _, dec := c.Prog.Implies(both, core.Formula{Fn: fn, Atoms: []core.Atom{{Expr: core.FalseExpr}}})
							if !dec {
								core.Undecided("overwrite condition not decided")
							}
							if !unsat {
								atoms = append(atoms, core.Atom{Expr: core.FalseExpr})
							}
						}
					}
					atoms = append(atoms, core.Atom{Expr: &ast.BinaryExpr{X: stripConv(info, r), Op: token.EQL, Y: want}})
					asg := core.Formula{Fn: fn, Atoms: atoms, Subst: subst}
					holds, counter, decided := c.Prog.Implies(emConds, asg)
					if !decided {
						core.Undecided("implication between path conditions not decided: %s", counter)
					}
					if holds {
						found = true
						o.At(fn.Site(fd.AST, "counted here under "+c.Prog.FormulaString(core.Formula{Atoms: g.DominatingAtoms(fd)})))
					} else {
						tried = append(tried, c.Prog.Pos(fd.AST.Pos())+": counted only under "+c.Prog.FormulaString(core.Formula{Atoms: g.DominatingAtoms(fd)})+"; not for "+counter)
					}
				}
			}
			if !found {
				o.FailAt(fn.Site(em.call, ""), "%s is written with width %s under (%s), but the width computation does not count it under that condition [%s]; encodeInt64 truncates silently",
					c.Prog.Src(want), em.width.Name(), c.Prog.FormulaString(emConds), strings.Join(tried, "; "))
			}
		})
	}
	if inUse == 0 {
		c.Check(rule, fn.Key+"/emissions", "in-use rows found", func(o *core.Ob) { core.Undecided("no encodeInt64 emission for type 1/2 rows found") })
	}
}

// ruleDeferredQueueDetached (C02-R15): objects put while a stream is open are
// queued and written when the stream is closed.  Writing a queued stream
// object opens and closes another stream, which re-enters this drain; the
// queue must therefore be detached (the field reset) before the first queued
// object is written, and the loop must run over the detached copy.  Otherwise
// the nested Close replays the queue from the start and the outer Close fails
// with "object already written".
func ruleDeferredQueueDetached(c *core.Ctx) {
	c.Check("C02-R15", "pdf.(*streamWriter).Close/drain", "the queue of deferred objects is detached before it is drained (writing a deferred stream object re-enters Close)", func(o *core.Ob) {
		fn := c.Prog.Func("pdf", "(*streamWriter).Close")
		g := fn.Graph()
		info := fn.Info()
		isQueue := func(e ast.Expr) bool {
			sel, ok := ast.Unparen(e).(*ast.SelectorExpr)
			return ok && sel.Sel.Name == "afterStream"
		}
		// the loop whose body puts objects, in either loop form
		var loop *core.V
		var drained []ast.Expr // what the loop takes its elements from
		for _, h := range loopHeads(g) {
			body := g.ReachFrom(succ(h, core.EdgeTrue), true, core.AvoidVs(h))
			var puts []*ast.CallExpr
			for v := range body {
				if v.AST != nil {
					puts = append(puts, core.CallsTo(info, v.AST, false, "pdf.(*Writer).Put")...)
				}
			}
			if len(puts) == 0 {
				continue
			}
			loop = h
			drained = nil
			if h.Cond.Range != nil {
				drained = append(drained, h.Cond.Range.X)
			} else {
				for _, call := range puts {
					for _, a := range call.Args {
						ast.Inspect(a, func(n ast.Node) bool {
							if ix, ok := n.(*ast.IndexExpr); ok {
								drained = append(drained, ix.X)
							}
							return true
						})
					}
				}
			}
		}
		if loop == nil || len(drained) == 0 {
			core.Undecided("drain loop not found")
		}
		var loopNode ast.Node = loop.AST
		if loop.Cond.Range != nil {
			loopNode = loop.Cond.Range
		}
		o.At(fn.Site(loopNode, "drain loop"))
		o.Count(1)
		fromQueue := false
		for _, x := range drained {
			if isQueue(x) {
				o.FailAt(fn.Site(x, ""), "%s: the drain loop runs over the queue field itself: a queued stream object re-enters Close, which sees the same queue and writes its first element again", c.Prog.Pos(x.Pos()))
				return
			}
			// the local it runs over was taken from the queue
			if src := core.ObjOf(info, x); src != nil {
				for _, d := range core.AssignsTo(info, fn.Decl, src) {
					if as, ok := d.(*ast.AssignStmt); ok && len(as.Rhs) == 1 && isQueue(as.Rhs[0]) {
						fromQueue = true
					}
				}
			}
		}
		o.Require(fromQueue, "the drain loop does not run over the deferred queue")
		reset := false
		for _, v := range g.Vs {
			if as, ok := v.AST.(*ast.AssignStmt); ok && len(as.Lhs) == 1 && isQueue(as.Lhs[0]) && g.Dominates(v, loop) {
				reset = true
				o.At(fn.Site(as, "queue detached"))
			}
		}
		o.Require(reset, "the queue field is not reset before the drain loop starts")
	})
}
